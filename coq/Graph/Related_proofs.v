(* Lemmas about Graph/Related.v (relation-graph part of C10). *)
From RV Require Import Lib.Res Graph.Related.
From Coq Require Import ZifyBool ZifyN.
Open Scope N_scope.
Ltac Zify.zify_post_hook ::= Z.div_mod_to_equations.
Arguments N.add : simpl never. Arguments N.mul : simpl never. Arguments N.pow : simpl never.
Arguments N.ltb : simpl never. Arguments N.leb : simpl never. Arguments N.div : simpl never.
Arguments N.modulo : simpl never. Arguments N.sub : simpl never. Arguments N.eqb : simpl never.

(* ------------------------------------------------------------------ *)
(* lists                                                               *)

Lemma filter_all {A} (f : A -> bool) l : (forall x, In x l -> f x = true) -> filter f l = l.
Proof.
  induction l as [|x l IH]; intros H; cbn [filter]; [reflexivity|].
  rewrite (H x (or_introl eq_refl)). f_equal. apply IH. intros y Hy. apply H. right. exact Hy.
Qed.

Lemma existsb_false {A} (f : A -> bool) l : existsb f l = false <-> forall x, In x l -> f x = false.
Proof.
  split.
  - intros H x Hx. destruct (f x) eqn:Hf; [|reflexivity].
    assert (Ht : existsb f l = true) by (apply existsb_exists; exists x; split; assumption).
    congruence.
  - intros H. destruct (existsb f l) eqn:He; [|reflexivity].
    apply existsb_exists in He. destruct He as [x [Hx Hf]]. rewrite (H x Hx) in Hf. discriminate.
Qed.

Lemma NoDup_map_filter {A B} (f : A -> B) (p : A -> bool) l :
  NoDup (map f l) -> NoDup (map f (filter p l)).
Proof.
  induction l as [|x l IH]; cbn [map filter]; intros H; [constructor|].
  inversion H as [|? ? Hn Hd]; subst.
  destruct (p x); cbn [map]; [|apply IH; exact Hd].
  constructor; [|apply IH; exact Hd].
  intros Hi. apply Hn. apply in_map_iff in Hi. destruct Hi as [y [Hy Hyl]].
  apply filter_In in Hyl. apply in_map_iff. exists y. split; [exact Hy|apply Hyl].
Qed.

Lemma NoDup_map_inj_in {A B} (f : A -> B) l :
  NoDup l -> (forall a b, In a l -> In b l -> f a = f b -> a = b) -> NoDup (map f l).
Proof.
  induction l as [|x l IH]; cbn [map]; intros Hd Hinj; [constructor|].
  inversion Hd as [|? ? Hn Hd']; subst. constructor.
  - intros Hi. apply in_map_iff in Hi. destruct Hi as [y [Hy Hyl]].
    assert (y = x) by (apply Hinj; [right; exact Hyl|left; reflexivity|exact Hy]).
    subst. contradiction.
  - apply IH; [exact Hd'|]. intros a b Ha Hb. apply Hinj; right; assumption.
Qed.

(* ------------------------------------------------------------------ *)
(* registered / lookup                                                 *)

Lemma registered_In g e : registered g e = true <-> In e (g_nodes g).
Proof.
  unfold registered. rewrite existsb_exists. split.
  - intros [x [Hx He]]. apply N.eqb_eq in He. subst. exact Hx.
  - intros H. exists e. split; [exact H|apply N.eqb_refl].
Qed.

Lemma registered_false g e : registered g e = false <-> ~ In e (g_nodes g).
Proof.
  rewrite <- registered_In. destruct (registered g e); split; intros H; congruence.
Qed.

Lemma lookup_Some_In x v l : lookup x l = Some v -> In (x, v) l.
Proof.
  induction l as [|[k w] l IH]; cbn [lookup]; [discriminate|].
  destruct (N.eqb_spec k x) as [-> |Hne]; intros H.
  - left. congruence.
  - right. apply IH. exact H.
Qed.

Lemma lookup_dom x l : In x (map fst l) -> exists v, lookup x l = Some v.
Proof.
  induction l as [|[k w] l IH]; cbn [lookup map fst]; [intros []|].
  destruct (N.eqb_spec k x) as [-> |Hne]; intros H.
  - exists w. reflexivity.
  - destruct H as [H|H]; [contradiction|]. apply IH. exact H.
Qed.

Lemma lookup_Some_dom x v l : lookup x l = Some v -> In x (map fst l).
Proof.
  intros H. apply lookup_Some_In in H. apply in_map_iff. exists (x, v). split; [reflexivity|exact H].
Qed.

Lemma lookup_NoDup x v l : NoDup (map fst l) -> In (x, v) l -> lookup x l = Some v.
Proof.
  induction l as [|[k w] l IH]; cbn [lookup map fst]; intros Hd Hi; [destruct Hi|].
  inversion Hd as [|? ? Hn Hd']; subst.
  destruct Hi as [Hi|Hi].
  - inversion Hi; subst. rewrite N.eqb_refl. reflexivity.
  - destruct (N.eqb_spec k x) as [-> |Hne]; [|apply IH; assumption].
    exfalso. apply Hn. apply in_map_iff. exists (x, v). split; [reflexivity|exact Hi].
Qed.

Lemma relabel_dom f t l : map fst (relabel f t l) = map fst l.
Proof.
  unfold relabel. rewrite map_map. apply map_ext. intros [k v]. cbn [fst snd].
  destruct (v =? f); reflexivity.
Qed.

Lemma lookup_relabel x f t l :
  lookup x (relabel f t l) = option_map (fun v => if v =? f then t else v) (lookup x l).
Proof.
  induction l as [|[k v] l IH]; cbn [relabel map lookup fst snd option_map]; [reflexivity|].
  fold (relabel f t l).
  destruct (v =? f) eqn:Hv; cbn [lookup]; destruct (k =? x); cbn [option_map];
    try rewrite Hv; try reflexivity; exact IH.
Qed.

(* ------------------------------------------------------------------ *)
(* conn                                                                *)

Lemma conn_in_nodes nodes es a b : conn nodes es a b -> In a nodes /\ In b nodes.
Proof.
  induction 1 as [a Ha|e He Hs Ht|a b _ [IHa IHb]|a b c _ [IHa _] _ [_ IHc]]; split; assumption.
Qed.

Lemma conn_mono nodes nodes' es es' a b :
  incl nodes nodes' -> incl es es' -> conn nodes es a b -> conn nodes' es' a b.
Proof.
  intros Hn He. induction 1 as [a Ha|e Hin Hs Ht|a b _ IH|a b c _ IH1 _ IH2].
  - apply conn_refl. apply Hn. exact Ha.
  - apply conn_edge; [apply He|apply Hn|apply Hn]; assumption.
  - apply conn_sym. exact IH.
  - apply conn_trans with b; assumption.
Qed.

Lemma conn_nil nodes a b : conn nodes [] a b -> a = b.
Proof.
  induction 1 as [a Ha|e Hin Hs Ht|a b _ IH|a b c _ IH1 _ IH2];
    [reflexivity|destruct Hin|congruence|congruence].
Qed.

(* what one more edge adds to the relation *)
Definition via (nodes : list N) (es : list edge) (e : edge) (x y : N) : Prop :=
  (conn nodes es x (edge_source e) /\ conn nodes es (edge_target e) y) \/
  (conn nodes es x (edge_target e) /\ conn nodes es (edge_source e) y).

Lemma conn_cons nodes es e x y :
  conn nodes (e :: es) x y <->
  conn nodes es x y \/
  (In (edge_source e) nodes /\ In (edge_target e) nodes /\ via nodes es e x y).
Proof.
  split.
  - induction 1 as [a Ha|e' Hin Hs Ht|a b _ IH|a b c _ IH1 _ IH2].
    + left. apply conn_refl. exact Ha.
    + destruct Hin as [<- |Hin].
      * right. split; [exact Hs|]. split; [exact Ht|]. left.
        split; apply conn_refl; assumption.
      * left. apply conn_edge; assumption.
    + destruct IH as [IH|[Hs [Ht [[H1 H2]|[H1 H2]]]]].
      * left. apply conn_sym. exact IH.
      * right. split; [exact Hs|]. split; [exact Ht|]. right. split; apply conn_sym; assumption.
      * right. split; [exact Hs|]. split; [exact Ht|]. left. split; apply conn_sym; assumption.
    + destruct IH1 as [IH1|[Hs [Ht [[H1 H2]|[H1 H2]]]]];
        destruct IH2 as [IH2|[_ [_ [[H3 H4]|[H3 H4]]]]].
      * left. apply conn_trans with b; assumption.
      * right. pose proof (conn_in_nodes _ _ _ _ H3) as [_ Hs].
        pose proof (conn_in_nodes _ _ _ _ H4) as [Ht _].
        split; [exact Hs|]. split; [exact Ht|]. left. split; [|exact H4].
        apply conn_trans with b; assumption.
      * right. pose proof (conn_in_nodes _ _ _ _ H3) as [_ Ht].
        pose proof (conn_in_nodes _ _ _ _ H4) as [Hs _].
        split; [exact Hs|]. split; [exact Ht|]. right. split; [|exact H4].
        apply conn_trans with b; assumption.
      * right. split; [exact Hs|]. split; [exact Ht|]. left. split; [exact H1|].
        apply conn_trans with b; assumption.
      * right. split; [exact Hs|]. split; [exact Ht|]. left. split; assumption.
      * left. apply conn_trans with (edge_source e); assumption.
      * right. split; [exact Hs|]. split; [exact Ht|]. right. split; [exact H1|].
        apply conn_trans with b; assumption.
      * left. apply conn_trans with (edge_target e); assumption.
      * right. split; [exact Hs|]. split; [exact Ht|]. right. split; assumption.
  - assert (Hm : forall a b, conn nodes es a b -> conn nodes (e :: es) a b).
    { intros a b. apply conn_mono; [apply incl_refl|apply incl_tl, incl_refl]. }
    intros [H|[Hs [Ht [[H1 H2]|[H1 H2]]]]].
    + apply Hm. exact H.
    + apply conn_trans with (edge_source e); [apply Hm; exact H1|].
      apply conn_trans with (edge_target e); [|apply Hm; exact H2].
      apply conn_edge; [left; reflexivity|exact Hs|exact Ht].
    + apply conn_trans with (edge_target e); [apply Hm; exact H1|].
      apply conn_trans with (edge_source e); [|apply Hm; exact H2].
      apply conn_sym. apply conn_edge; [left; reflexivity|exact Hs|exact Ht].
Qed.

(* ------------------------------------------------------------------ *)
(* the labelling computes the closure                                   *)

Definition lab_ok (nodes : list N) (es : list edge) (l : labelling) : Prop :=
  map fst l = nodes /\
  (forall x y lx ly, lookup x l = Some lx -> lookup y l = Some ly ->
                     (lx = ly <-> conn nodes es x y)) /\
  (forall v, In v (map snd l) -> lookup v l = Some v).

Lemma lookup_init x v nodes : lookup x (map (fun n => (n, n)) nodes) = Some v -> v = x.
Proof.
  induction nodes as [|n nodes IH]; cbn [map lookup]; [discriminate|].
  destruct (N.eqb_spec n x) as [-> |Hne]; [congruence|exact IH].
Qed.

Lemma lookup_init_In v nodes : In v nodes -> lookup v (map (fun n => (n, n)) nodes) = Some v.
Proof.
  induction nodes as [|n nodes IH]; cbn [map lookup]; [intros []|].
  destruct (N.eqb_spec n v) as [-> |Hne]; [reflexivity|].
  intros [H|H]; [contradiction|apply IH; exact H].
Qed.

Lemma lab_ok_init nodes : lab_ok nodes [] (map (fun n => (n, n)) nodes).
Proof.
  split; [|split].
  - rewrite map_map. cbn [fst]. apply map_id.
  - intros x y lx ly Hx Hy.
    pose proof (lookup_init _ _ _ Hx). pose proof (lookup_init _ _ _ Hy). subst.
    split; [|apply conn_nil].
    intros ->. apply conn_refl. apply lookup_Some_dom in Hx.
    rewrite map_map in Hx. cbn [fst] in Hx. rewrite map_id in Hx. exact Hx.
  - intros v Hv. rewrite map_map in Hv. cbn [snd] in Hv. rewrite map_id in Hv.
    apply lookup_init_In. exact Hv.
Qed.

Lemma lab_ok_merge nodes es e l : lab_ok nodes es l -> lab_ok nodes (e :: es) (merge_edge e l).
Proof.
  intros [Hdom [Hrel Hrep]]. unfold merge_edge.
  destruct (lookup (edge_source e) l) as [la|] eqn:Ha.
  2:{ split; [exact Hdom|]. split; [|exact Hrep].
      intros x y lx ly Hx Hy. rewrite (Hrel x y lx ly Hx Hy). rewrite conn_cons.
      split; [intros H; left; exact H|]. intros [H|[Hs _]]; [exact H|].
      exfalso. rewrite <- Hdom in Hs. apply lookup_dom in Hs. destruct Hs as [v Hv]. congruence. }
  destruct (lookup (edge_target e) l) as [lb|] eqn:Hb.
  2:{ split; [exact Hdom|]. split; [|exact Hrep].
      intros x y lx ly Hx Hy. rewrite (Hrel x y lx ly Hx Hy). rewrite conn_cons.
      split; [intros H; left; exact H|]. intros [H|[_ [Ht _]]]; [exact H|].
      exfalso. rewrite <- Hdom in Ht. apply lookup_dom in Ht. destruct Ht as [v Hv]. congruence. }
  assert (Hs : In (edge_source e) nodes) by (rewrite <- Hdom; eapply lookup_Some_dom; exact Ha).
  assert (Ht : In (edge_target e) nodes) by (rewrite <- Hdom; eapply lookup_Some_dom; exact Hb).
  destruct (N.eqb_spec la lb) as [Heq|Hne].
  - subst lb. split; [exact Hdom|]. split; [|exact Hrep].
    assert (Hab : conn nodes es (edge_source e) (edge_target e))
      by (apply (Hrel _ _ _ _ Ha Hb); reflexivity).
    intros x y lx ly Hx Hy. rewrite (Hrel x y lx ly Hx Hy). rewrite conn_cons.
    split; [intros H; left; exact H|].
    intros [H|[_ [_ [[H1 H2]|[H1 H2]]]]]; [exact H| |].
    + apply conn_trans with (edge_source e); [exact H1|].
      apply conn_trans with (edge_target e); assumption.
    + apply conn_trans with (edge_target e); [exact H1|].
      apply conn_trans with (edge_source e); [apply conn_sym; exact Hab|exact H2].
  - split; [rewrite relabel_dom; exact Hdom|]. split.
    + intros x y lx' ly' Hx Hy. rewrite lookup_relabel in Hx, Hy.
      destruct (lookup x l) as [lx|] eqn:Hlx; [|discriminate].
      destruct (lookup y l) as [ly|] eqn:Hly; [|discriminate].
      cbn [option_map] in Hx, Hy. inversion Hx; inversion Hy; subst lx' ly'. clear Hx Hy.
      rewrite conn_cons. unfold via.
      rewrite <- (Hrel x y lx ly Hlx Hly).
      rewrite <- (Hrel x _ lx la Hlx Ha), <- (Hrel x _ lx lb Hlx Hb).
      rewrite <- (Hrel _ y la ly Ha Hly), <- (Hrel _ y lb ly Hb Hly).
      destruct (N.eqb_spec lx lb) as [E1|E1]; destruct (N.eqb_spec ly lb) as [E2|E2];
        intuition congruence.
    + intros v Hv. rewrite lookup_relabel.
      unfold relabel in Hv. rewrite map_map in Hv. apply in_map_iff in Hv.
      destruct Hv as [[k w] [Hw Hin]]. cbn [fst snd] in Hw.
      assert (Hw' : lookup w l = Some w).
      { apply Hrep. apply in_map_iff. exists (k, w). split; [reflexivity|exact Hin]. }
      assert (Hla : lookup la l = Some la).
      { apply Hrep. apply lookup_Some_In in Ha. apply in_map_iff.
        exists (edge_source e, la). split; [reflexivity|exact Ha]. }
      destruct (N.eqb_spec w lb) as [E|E]; cbn [snd] in Hw; subst v.
      * rewrite Hla. cbn [option_map]. destruct (N.eqb_spec la lb); [contradiction|reflexivity].
      * rewrite Hw'. cbn [option_map]. destruct (N.eqb_spec w lb); [contradiction|reflexivity].
Qed.

Lemma lab_ok_merge_edges nodes es l : lab_ok nodes [] l -> lab_ok nodes es (merge_edges es l).
Proof.
  intros H. induction es as [|e es IH]; cbn [merge_edges]; [exact H|].
  apply lab_ok_merge. exact IH.
Qed.

Lemma labels_ok g : lab_ok (g_nodes g) (g_edges g) (labels g).
Proof. unfold labels. apply lab_ok_merge_edges. apply lab_ok_init. Qed.

Lemma labels_dom g : map fst (labels g) = g_nodes g.
Proof. apply labels_ok. Qed.

(* (a) the executable closure is sound and complete *)
Theorem same_graph_iff_connected g a b : same_graph g a b = true <-> connected g a b.
Proof.
  pose proof (labels_ok g) as [Hdom [Hrel _]]. unfold same_graph, connected. split.
  - destruct (lookup a (labels g)) as [la|] eqn:Ha; [|discriminate].
    destruct (lookup b (labels g)) as [lb|] eqn:Hb; [|discriminate].
    intros H. apply N.eqb_eq in H. apply (Hrel _ _ _ _ Ha Hb). exact H.
  - intros H. pose proof (conn_in_nodes _ _ _ _ H) as [Hia Hib].
    rewrite <- Hdom in Hia, Hib.
    apply lookup_dom in Hia. apply lookup_dom in Hib.
    destruct Hia as [la Ha]. destruct Hib as [lb Hb]. rewrite Ha, Hb.
    apply N.eqb_eq. apply (Hrel _ _ _ _ Ha Hb). exact H.
Qed.

Lemma same_graph_refl g a : same_graph g a a = has_index g a.
Proof.
  unfold has_index. destruct (registered g a) eqn:Hr.
  - apply same_graph_iff_connected. apply conn_refl. apply registered_In. exact Hr.
  - destruct (same_graph g a a) eqn:Hs; [|reflexivity].
    apply same_graph_iff_connected in Hs. apply conn_in_nodes in Hs. destruct Hs as [Hs _].
    apply registered_In in Hs. congruence.
Qed.

(* ------------------------------------------------------------------ *)
(* add_relation / remove_relation: nodes and edges                      *)

Lemma register_entity_edges g e : g_edges (register_entity g e) = g_edges g.
Proof. unfold register_entity. destruct (registered g e); reflexivity. Qed.

Lemma register_entity_nodes g e n :
  In n (g_nodes (register_entity g e)) <-> In n (g_nodes g) \/ n = e.
Proof.
  unfold register_entity. destruct (registered g e) eqn:Hr; cbn [g_nodes].
  - apply registered_In in Hr. split; [intros H; left; exact H|].
    intros [H| ->]; assumption.
  - rewrite in_app_iff. cbn [In]. intuition congruence.
Qed.

Lemma register_entity_NoDup g e : NoDup (g_nodes g) -> NoDup (g_nodes (register_entity g e)).
Proof.
  unfold register_entity. destruct (registered g e) eqn:Hr; cbn [g_nodes]; intros H; [exact H|].
  apply registered_false in Hr.
  apply NoDup_rev in H. rewrite <- (rev_involutive (g_nodes g ++ [e])). apply NoDup_rev.
  rewrite rev_app_distr. cbn [rev app]. constructor; [|exact H].
  rewrite <- in_rev. exact Hr.
Qed.

Lemma add_relation_edges g k s t : g_edges (add_relation g k s t) = g_edges g ++ [(s, t, k)].
Proof. unfold add_relation. cbn [g_edges]. rewrite !register_entity_edges. reflexivity. Qed.

Lemma add_relation_nodes g k s t n :
  In n (g_nodes (add_relation g k s t)) <-> In n (g_nodes g) \/ n = s \/ n = t.
Proof.
  unfold add_relation. cbn [g_nodes]. rewrite !register_entity_nodes. tauto.
Qed.

Lemma add_relation_NoDup g k s t : NoDup (g_nodes g) -> NoDup (g_nodes (add_relation g k s t)).
Proof.
  intros H. unfold add_relation. cbn [g_nodes]. apply register_entity_NoDup, register_entity_NoDup, H.
Qed.

Lemma incident_spec n e : incident n e = true <-> edge_source e = n \/ edge_target e = n.
Proof. unfold incident. rewrite orb_true_iff, !N.eqb_eq. tauto. Qed.

Lemma connects_spec a b e :
  connects a b e = true <->
  (edge_source e = a /\ edge_target e = b) \/ (edge_source e = b /\ edge_target e = a).
Proof. unfold connects. rewrite orb_true_iff, !andb_true_iff, !N.eqb_eq. tauto. Qed.

Lemma connects_sym a b e : connects a b e = connects b a e.
Proof. unfold connects. apply orb_comm. Qed.

(* the call matches exactly the edges (source, target, kind), in this direction *)
Lemma to_remove_spec k s t e : to_remove k s t e = true <-> e = (s, t, k).
Proof.
  unfold to_remove, stored_as, connects. destruct e as [[es et] ek].
  cbn [edge_source edge_target edge_kind fst snd].
  rewrite !andb_true_iff, orb_true_iff, !andb_true_iff, !N.eqb_eq. split.
  - intros [[_ Hk] [Hs Ht]]. congruence.
  - intros H. inversion H. tauto.
Qed.

Lemma to_remove_eqb k s t e :
  to_remove k s t e = (edge_source e =? s) && (edge_target e =? t) && (edge_kind e =? k).
Proof.
  unfold to_remove, stored_as, connects.
  destruct (edge_source e =? s), (edge_target e =? t), (edge_kind e =? k);
    cbn [andb orb]; try reflexivity; rewrite ?andb_false_r; reflexivity.
Qed.

Lemma is_orphan_spec g n :
  is_orphan g n = true <-> forall e, In e (g_edges g) -> incident n e = false.
Proof. unfold is_orphan. rewrite negb_true_iff. apply existsb_false. Qed.

Lemma remove_entity_orphan_edges g n : is_orphan g n = true -> g_edges (remove_entity g n) = g_edges g.
Proof.
  intros H. cbn [remove_entity g_edges]. apply filter_all. intros e He.
  rewrite (proj1 (is_orphan_spec g n) H e He). reflexivity.
Qed.

Lemma remove_entity_nodes g n x : In x (g_nodes (remove_entity g n)) <-> In x (g_nodes g) /\ x <> n.
Proof.
  cbn [remove_entity g_nodes]. rewrite filter_In, negb_true_iff, N.eqb_neq. tauto.
Qed.

(* `if self.is_orphan(node) { self.remove_entity(entity, node) }` *)
Definition drop_if_orphan (g : rgraph) (n : N) : rgraph :=
  if is_orphan g n then remove_entity g n else g.

Lemma drop_if_orphan_edges g n : g_edges (drop_if_orphan g n) = g_edges g.
Proof.
  unfold drop_if_orphan. destruct (is_orphan g n) eqn:H; [|reflexivity].
  apply remove_entity_orphan_edges. exact H.
Qed.

Lemma drop_if_orphan_nodes g n x :
  In x (g_nodes (drop_if_orphan g n)) <->
  In x (g_nodes g) /\ (x = n -> exists e, In e (g_edges g) /\ incident n e = true).
Proof.
  unfold drop_if_orphan. destruct (is_orphan g n) eqn:H.
  - rewrite remove_entity_nodes. split.
    + intros [Hi Hne]. split; [exact Hi|]. intros ->. contradiction.
    + intros [Hi Hex]. split; [exact Hi|]. intros ->. destruct (Hex eq_refl) as [e [He Hinc]].
      rewrite (proj1 (is_orphan_spec g n) H e He) in Hinc. discriminate.
  - split; [|intros [Hi _]; exact Hi]. intros Hi. split; [exact Hi|]. intros _.
    unfold is_orphan in H. apply negb_false_iff in H. apply existsb_exists in H. exact H.
Qed.

Lemma drop_if_orphan_NoDup g n : NoDup (g_nodes g) -> NoDup (g_nodes (drop_if_orphan g n)).
Proof.
  unfold drop_if_orphan. destruct (is_orphan g n); [|intros H; exact H].
  cbn [remove_entity g_nodes]. apply NoDup_filter.
Qed.

(* the three steps of `remove_relation` when both entities are registered *)
Definition cut (g : rgraph) (kind source target : N) : rgraph :=
  {| g_edges := filter (fun e => negb (to_remove kind source target e)) (g_edges g);
     g_nodes := g_nodes g |}.

Lemma remove_relation_unfold g k s t :
  remove_relation g k s t =
  if registered g s && registered g t
  then drop_if_orphan (drop_if_orphan (cut g k s t) t) s
  else g.
Proof.
  unfold remove_relation. destruct (registered g s); cbn [negb andb]; [|reflexivity].
  destruct (registered g t); reflexivity.
Qed.

(* exactly the edges stored from source to target with this kind disappear, in one call *)
Lemma remove_relation_edges g k s t :
  registered g s = true -> registered g t = true ->
  g_edges (remove_relation g k s t) =
  filter (fun e => negb (to_remove k s t e)) (g_edges g).
Proof.
  intros Hs Ht. rewrite remove_relation_unfold, Hs, Ht. cbn [andb].
  rewrite !drop_if_orphan_edges. reflexivity.
Qed.

Lemma remove_relation_unregistered g k s t :
  registered g s = false \/ registered g t = false -> remove_relation g k s t = g.
Proof.
  rewrite remove_relation_unfold. intros [-> | ->]; [reflexivity|].
  rewrite andb_false_r. reflexivity.
Qed.

Lemma remove_relation_edges_incl g k s t : incl (g_edges (remove_relation g k s t)) (g_edges g).
Proof.
  rewrite remove_relation_unfold. destruct (registered g s && registered g t); [|apply incl_refl].
  rewrite !drop_if_orphan_edges. cbn [cut g_edges]. intros e He. apply filter_In in He. apply He.
Qed.

Lemma remove_relation_nodes_incl g k s t : incl (g_nodes (remove_relation g k s t)) (g_nodes g).
Proof.
  rewrite remove_relation_unfold. destruct (registered g s && registered g t); [|apply incl_refl].
  intros x Hx. apply drop_if_orphan_nodes in Hx. destruct Hx as [Hx _].
  apply drop_if_orphan_nodes in Hx. destruct Hx as [Hx _]. exact Hx.
Qed.

(* ------------------------------------------------------------------ *)
(* (b) the invariant                                                    *)

Lemma wf_empty : wf rgraph_empty.
Proof.
  split; [constructor|]. split; [intros e []|intros n []].
Qed.

Lemma wf_add_relation g k s t : wf g -> wf (add_relation g k s t).
Proof.
  intros [Hnd [Hends Hinc]]. split; [apply add_relation_NoDup; exact Hnd|]. split.
  - intros e He. rewrite add_relation_edges in He. rewrite !add_relation_nodes.
    apply in_app_iff in He. destruct He as [He|[<- |[]]].
    + destruct (Hends e He) as [H1 H2]. split; left; assumption.
    + cbn. split; right; [left|right]; reflexivity.
  - intros n Hn. rewrite add_relation_edges. apply add_relation_nodes in Hn.
    destruct Hn as [Hn|Hn].
    + destruct (Hinc n Hn) as [e [He Hi]]. exists e. split; [|exact Hi].
      apply in_app_iff. left. exact He.
    + exists (s, t, k). split; [apply in_app_iff; right; left; reflexivity|].
      apply incident_spec. cbn. destruct Hn as [-> | ->]; [left|right]; reflexivity.
Qed.

Lemma wf_remove_relation g k s t : wf g -> wf (remove_relation g k s t).
Proof.
  intros [Hnd [Hends Hinc]]. rewrite remove_relation_unfold.
  destruct (registered g s && registered g t); [|split; [exact Hnd|split; assumption]].
  set (g1 := cut g k s t). set (g2 := drop_if_orphan g1 t). set (g3 := drop_if_orphan g2 s).
  assert (E3 : g_edges g3 = g_edges g1) by (unfold g3, g2; rewrite !drop_if_orphan_edges; reflexivity).
  assert (E2 : g_edges g2 = g_edges g1) by (unfold g2; rewrite drop_if_orphan_edges; reflexivity).
  assert (N3 : forall x, In x (g_nodes g3) <->
             In x (g_nodes g) /\
             (x = t -> exists e, In e (g_edges g1) /\ incident t e = true) /\
             (x = s -> exists e, In e (g_edges g1) /\ incident s e = true)).
  { intros x. unfold g3. rewrite drop_if_orphan_nodes. fold g2. rewrite E2.
    unfold g2. rewrite drop_if_orphan_nodes. cbn [g1 cut g_nodes]. tauto. }
  split; [|split].
  - unfold g3, g2. apply drop_if_orphan_NoDup, drop_if_orphan_NoDup. exact Hnd.
  - intros e He. rewrite E3 in He. rewrite !N3.
    assert (He' := He). cbn [g1 cut g_edges] in He'. apply filter_In in He'. destruct He' as [He' _].
    destruct (Hends e He') as [H1 H2].
    split; (split; [assumption|]); split; intros Hx; exists e;
      (split; [exact He|]); apply incident_spec; rewrite <- Hx; tauto.
  - intros n Hn. rewrite E3. apply N3 in Hn. destruct Hn as [Hn [Ht Hs]].
    destruct (N.eq_dec n t) as [-> |Hnt]; [apply Ht; reflexivity|].
    destruct (N.eq_dec n s) as [-> |Hns]; [apply Hs; reflexivity|].
    destruct (Hinc n Hn) as [e [He Hi]]. exists e. split; [|exact Hi].
    cbn [g1 cut g_edges]. apply filter_In. split; [exact He|].
    destruct (to_remove k s t e) eqn:Hc; [|reflexivity]. exfalso.
    apply to_remove_spec in Hc. subst e. apply incident_spec in Hi.
    cbn [edge_source edge_target fst snd] in Hi. intuition congruence.
Qed.

Lemma wf_apply_op g o : wf g -> wf (apply_op g o).
Proof.
  destruct o as [k s t|k s t|]; cbn [apply_op].
  - apply wf_add_relation.
  - apply wf_remove_relation.
  - intros _. apply wf_empty.
Qed.

Lemma wf_fold ops g : wf g -> wf (fold_left apply_op ops g).
Proof.
  revert g. induction ops as [|o ops IH]; intros g H; cbn [fold_left]; [exact H|].
  apply IH. apply wf_apply_op. exact H.
Qed.

Theorem wf_run_ops ops : wf (run_ops ops).
Proof. apply wf_fold. apply wf_empty. Qed.

(* an entity has an index iff it occurs in a current edge *)
Theorem has_index_iff_in_edge g e :
  wf g -> (has_index g e = true <-> exists ed, In ed (g_edges g) /\ incident e ed = true).
Proof.
  intros [_ [Hends Hinc]]. unfold has_index. rewrite registered_In. split; [apply Hinc|].
  intros [ed [Hed Hi]]. destruct (Hends ed Hed) as [H1 H2].
  apply incident_spec in Hi. destruct Hi as [<- | <-]; assumption.
Qed.

(* ------------------------------------------------------------------ *)
(* (c) components                                                       *)

Lemma class_of_In l r n : In n (class_of l r) <-> In (n, r) l.
Proof.
  unfold class_of. rewrite in_map_iff. split.
  - intros [[k v] [Hk Hp]]. apply filter_In in Hp. destruct Hp as [Hp Hv].
    cbn [fst snd] in *. apply N.eqb_eq in Hv. subst. exact Hp.
  - intros H. exists (n, r). split; [reflexivity|]. apply filter_In. split; [exact H|].
    cbn [snd]. apply N.eqb_refl.
Qed.

Lemma dedup_In l x : In x (dedup l) <-> In x l.
Proof. apply nodup_In. Qed.

Lemma dedup_NoDup l : NoDup (dedup l).
Proof. apply NoDup_nodup. Qed.

Lemma components_In g c :
  In c (components g) <-> exists r, In r (map snd (labels g)) /\ c = class_of (labels g) r.
Proof.
  unfold components. rewrite in_map_iff. split.
  - intros [r [Hc Hr]]. exists r. apply (proj1 (dedup_In _ _)) in Hr. split; [exact Hr|symmetry; exact Hc].
  - intros [r [Hr Hc]]. exists r. split; [symmetry; exact Hc|apply dedup_In; exact Hr].
Qed.

Lemma labels_NoDup g : NoDup (g_nodes g) -> NoDup (map fst (labels g)).
Proof. rewrite labels_dom. intros H; exact H. Qed.

(* every registered entity is in a component and components contain only registered entities *)
Lemma components_cover g n :
  In n (g_nodes g) <-> exists c, In c (components g) /\ In n c.
Proof.
  rewrite <- labels_dom. split.
  - intros H. apply in_map_iff in H. destruct H as [[k v] [Hk Hp]]. cbn [fst] in Hk. subst k.
    exists (class_of (labels g) v). split; [|apply class_of_In; exact Hp].
    apply components_In. exists v. split; [|reflexivity].
    apply in_map_iff. exists (n, v). split; [reflexivity|exact Hp].
  - intros [c [Hc Hn]]. apply components_In in Hc. destruct Hc as [r [_ ->]].
    apply class_of_In in Hn. apply in_map_iff. exists (n, r). split; [reflexivity|exact Hn].
Qed.

Lemma components_disjoint g i j ci cj n :
  NoDup (g_nodes g) ->
  nth_error (components g) i = Some ci -> nth_error (components g) j = Some cj ->
  In n ci -> In n cj -> i = j.
Proof.
  intros Hnd Hi Hj Hni Hnj. unfold components in Hi, Hj. rewrite nth_error_map in Hi, Hj.
  destruct (nth_error (dedup (map snd (labels g))) i) as [ri|] eqn:Ei; [|discriminate].
  destruct (nth_error (dedup (map snd (labels g))) j) as [rj|] eqn:Ej; [|discriminate].
  cbn [option_map] in Hi, Hj. inversion Hi; inversion Hj; subst ci cj. clear Hi Hj.
  apply class_of_In in Hni. apply class_of_In in Hnj.
  apply (lookup_NoDup _ _ _ (labels_NoDup g Hnd)) in Hni.
  apply (lookup_NoDup _ _ _ (labels_NoDup g Hnd)) in Hnj.
  assert (ri = rj) by congruence. subst rj.
  apply (proj1 (NoDup_nth_error _) (dedup_NoDup (map snd (labels g)))).
  - apply nth_error_Some. congruence.
  - congruence.
Qed.

Lemma components_nonempty g c : In c (components g) -> c <> [].
Proof.
  intros Hc. apply components_In in Hc. destruct Hc as [r [Hr ->]].
  apply in_map_iff in Hr. destruct Hr as [[k v] [Hv Hp]]. cbn [snd] in Hv. subst v.
  intros E. assert (H : In k (class_of (labels g) r)) by (apply class_of_In; exact Hp).
  rewrite E in H. destruct H.
Qed.

Lemma components_NoDup g c : NoDup (g_nodes g) -> In c (components g) -> NoDup c.
Proof.
  intros Hnd Hc. apply components_In in Hc. destruct Hc as [r [_ ->]].
  unfold class_of. apply NoDup_map_filter. apply labels_NoDup. exact Hnd.
Qed.

(* a component is an equivalence class of `connected` *)
Lemma components_class g c a b :
  NoDup (g_nodes g) -> In c (components g) -> In a c -> (In b c <-> connected g a b).
Proof.
  intros Hnd Hc Ha. apply components_In in Hc. destruct Hc as [r [_ ->]].
  pose proof (labels_ok g) as [Hdom [Hrel _]].
  apply class_of_In in Ha. apply (lookup_NoDup _ _ _ (labels_NoDup g Hnd)) in Ha.
  rewrite class_of_In. split.
  - intros Hb. apply (lookup_NoDup _ _ _ (labels_NoDup g Hnd)) in Hb.
    apply (Hrel _ _ _ _ Ha Hb). reflexivity.
  - intros H. pose proof (conn_in_nodes _ _ _ _ H) as [_ Hib].
    rewrite <- Hdom in Hib. apply lookup_dom in Hib. destruct Hib as [lb Hb].
    apply (Hrel _ _ _ _ Ha Hb) in H. subst lb. apply lookup_Some_In. exact Hb.
Qed.

Lemma graphs_count_indices g es : snd (indices g es) = graphs_count g.
Proof. unfold indices, graphs_count, components. cbn [snd]. rewrite map_length. reflexivity. Qed.

(* the representatives chosen by the labelling: one per class *)
Definition representatives (g : rgraph) : list N := dedup (map snd (labels g)).

Lemma graphs_count_representatives g : graphs_count g = N.of_nat (length (representatives g)).
Proof. unfold graphs_count, components, representatives. rewrite map_length. reflexivity. Qed.

Lemma representatives_transversal g : NoDup (g_nodes g) -> transversal g (representatives g).
Proof.
  intros Hnd. pose proof (labels_ok g) as [Hdom [Hrel Hrep]]. unfold representatives.
  split; [apply dedup_NoDup|]. split; [|split].
  - intros r Hr. apply (proj1 (dedup_In _ _)) in Hr. apply Hrep in Hr. apply lookup_Some_dom in Hr.
    rewrite Hdom in Hr. exact Hr.
  - intros a b Ha Hb H. apply (proj1 (dedup_In _ _)) in Ha. apply (proj1 (dedup_In _ _)) in Hb.
    apply Hrep in Ha. apply Hrep in Hb. apply (Hrel _ _ _ _ Ha Hb). exact H.
  - intros n Hn. rewrite <- Hdom in Hn. apply lookup_dom in Hn. destruct Hn as [r Hr].
    assert (Hin : In r (map snd (labels g))).
    { apply lookup_Some_In in Hr. apply in_map_iff. exists (n, r). split; [reflexivity|exact Hr]. }
    exists r. split; [apply dedup_In; exact Hin|].
    apply (Hrel _ _ _ _ Hr (Hrep r Hin)). reflexivity.
Qed.

(* graphs_count is the number of equivalence classes: the length of ANY transversal *)
Theorem graphs_count_classes g reps :
  NoDup (g_nodes g) -> transversal g reps -> graphs_count g = N.of_nat (length reps).
Proof.
  intros Hnd [Hrd [Hrn [Hinj Hsur]]]. rewrite graphs_count_representatives. f_equal.
  pose proof (labels_ok g) as [Hdom [Hrel Hrep]].
  set (lab := fun r => match lookup r (labels g) with Some v => v | None => 0 end).
  assert (Hlab : forall r, In r (g_nodes g) -> lookup r (labels g) = Some (lab r)).
  { intros r Hr. rewrite <- Hdom in Hr. apply lookup_dom in Hr. destruct Hr as [v Hv].
    unfold lab. rewrite Hv. reflexivity. }
  assert (Hnd' : NoDup (map lab reps)).
  { apply NoDup_map_inj_in; [exact Hrd|]. intros a b Ha Hb E. apply Hinj; [exact Ha|exact Hb|].
    apply (Hrel _ _ _ _ (Hlab a (Hrn a Ha)) (Hlab b (Hrn b Hb))). exact E. }
  assert (Hsame : forall v, In v (map lab reps) <-> In v (representatives g)).
  { intros v. unfold representatives. rewrite dedup_In. split.
    - intros H. apply in_map_iff in H. destruct H as [r [<- Hr]].
      pose proof (Hlab r (Hrn r Hr)) as H. apply lookup_Some_In in H.
      apply in_map_iff. exists (r, lab r). split; [reflexivity|exact H].
    - intros H. apply in_map_iff in H. destruct H as [[n w] [Hw Hp]]. cbn [snd] in Hw. subst w.
      assert (Hn : In n (g_nodes g)).
      { rewrite <- Hdom. apply in_map_iff. exists (n, v). split; [reflexivity|exact Hp]. }
      destruct (Hsur n Hn) as [r [Hr Hc]].
      apply (lookup_NoDup _ _ _ (labels_NoDup g Hnd)) in Hp.
      apply (Hrel _ _ _ _ Hp (Hlab r (Hrn r Hr))) in Hc.
      apply in_map_iff. exists r. split; [symmetry; exact Hc|exact Hr]. }
  rewrite <- (map_length lab reps). apply Nat.le_antisymm.
  - apply NoDup_incl_length; [apply dedup_NoDup|]. intros v Hv. apply Hsame. exact Hv.
  - apply NoDup_incl_length; [exact Hnd'|]. intros v Hv. apply Hsame. exact Hv.
Qed.

(* ------------------------------------------------------------------ *)
(* (d) monotonicity                                                     *)

Theorem add_keeps_connected g k s t a b :
  connected g a b -> connected (add_relation g k s t) a b.
Proof.
  unfold connected. apply conn_mono.
  - intros n Hn. apply add_relation_nodes. left. exact Hn.
  - rewrite add_relation_edges. apply incl_appl, incl_refl.
Qed.

Theorem add_connects g k s t : connected (add_relation g k s t) s t.
Proof.
  unfold connected.
  apply (conn_edge _ _ (s, t, k)); cbn [edge_source edge_target fst snd].
  - rewrite add_relation_edges. apply in_app_iff. right. left. reflexivity.
  - apply add_relation_nodes. right. left. reflexivity.
  - apply add_relation_nodes. right. right. reflexivity.
Qed.

Theorem remove_only_splits g k s t a b :
  connected (remove_relation g k s t) a b -> connected g a b.
Proof.
  unfold connected. apply conn_mono.
  - apply remove_relation_nodes_incl.
  - apply remove_relation_edges_incl.
Qed.

(* an edge of another kind, between other entities, or in the opposite direction survives the call *)
Theorem remove_keeps_other_edges g k s t e :
  In e (g_edges g) -> to_remove k s t e = false ->
  In e (g_edges (remove_relation g k s t)).
Proof.
  intros He Hc. rewrite remove_relation_unfold.
  destruct (registered g s && registered g t); [|exact He].
  rewrite !drop_if_orphan_edges. cbn [cut g_edges]. apply filter_In. split; [exact He|].
  rewrite Hc. reflexivity.
Qed.

(* so two entities joined by an edge that the call does not match stay in one graph *)
Theorem remove_keeps_connected_by_other_edge g k s t e :
  wf g -> In e (g_edges g) -> to_remove k s t e = false ->
  connected (remove_relation g k s t) (edge_source e) (edge_target e).
Proof.
  intros Hwf He Hc. pose proof (remove_keeps_other_edges g k s t e He Hc) as He'.
  pose proof (wf_remove_relation g k s t Hwf) as [_ [Hends _]].
  destruct (Hends e He') as [H1 H2]. apply conn_edge; assumption.
Qed.

Theorem clear_empty g a b : ~ connected (clear g) a b.
Proof. intros H. apply conn_in_nodes in H. destruct H as [[] _]. Qed.

(* ------------------------------------------------------------------ *)
(* graph against world                                                  *)

(* The edges of the graph are exactly the relationships of the world since the last `clear`
   (as a list, duplicates included): OnInsert -> add, OnReplace -> remove. *)
Lemma apply_op_edges g o : wf g -> g_edges (apply_op g o) = world_apply (g_edges g) o.
Proof.
  intros Hwf. destruct o as [k s t|k s t|]; cbn [apply_op world_apply].
  - apply add_relation_edges.
  - assert (Hext : forall l : list edge,
              filter (fun e => negb (to_remove k s t e)) l =
              filter (fun e => negb ((edge_source e =? s) && (edge_target e =? t) && (edge_kind e =? k))) l).
    { intros l. apply filter_ext. intros e. rewrite to_remove_eqb. reflexivity. }
    rewrite <- Hext.
    destruct (registered g s) eqn:Hs; [destruct (registered g t) eqn:Ht|].
    + apply remove_relation_edges; assumption.
    + rewrite remove_relation_unregistered by (right; exact Ht).
      symmetry. apply filter_all. intros e He.
      destruct (to_remove k s t e) eqn:Hc; [|reflexivity]. exfalso.
      apply to_remove_spec in Hc. subst e. destruct Hwf as [_ [Hends _]].
      destruct (Hends _ He) as [_ H2]. cbn [edge_target fst snd] in H2.
      apply registered_In in H2. congruence.
    + rewrite remove_relation_unregistered by (left; exact Hs).
      symmetry. apply filter_all. intros e He.
      destruct (to_remove k s t e) eqn:Hc; [|reflexivity]. exfalso.
      apply to_remove_spec in Hc. subst e. destruct Hwf as [_ [Hends _]].
      destruct (Hends _ He) as [H1 _]. cbn [edge_source fst snd] in H1.
      apply registered_In in H1. congruence.
  - reflexivity.
Qed.

Lemma fold_edges ops g :
  wf g -> g_edges (fold_left apply_op ops g) = fold_left world_apply ops (g_edges g).
Proof.
  revert g. induction ops as [|o ops IH]; intros g Hwf; cbn [fold_left]; [reflexivity|].
  rewrite IH by (apply wf_apply_op; exact Hwf). rewrite apply_op_edges by exact Hwf. reflexivity.
Qed.

Theorem run_ops_edges ops : g_edges (run_ops ops) = fold_left world_apply ops [].
Proof. unfold run_ops. apply (fold_edges ops rgraph_empty). apply wf_empty. Qed.

(* every relationship of the world joins two entities of one graph: no side condition *)
Theorem world_related_same_graph ops s t k :
  In (s, t, k) (fold_left world_apply ops []) -> same_graph (run_ops ops) s t = true.
Proof.
  intros Hin. apply same_graph_iff_connected. rewrite <- run_ops_edges in Hin.
  pose proof (wf_run_ops ops) as [_ [Hends _]]. destruct (Hends _ Hin) as [H1 H2].
  apply (conn_edge _ _ (s, t, k)); assumption.
Qed.

(* ------------------------------------------------------------------ *)
(* summaries used by Properties/C10G.v                                  *)

Theorem components_partition g :
  NoDup (g_nodes g) ->
  (forall n, In n (g_nodes g) <-> exists c, In c (components g) /\ In n c) /\
  (forall i j ci cj n, nth_error (components g) i = Some ci -> nth_error (components g) j = Some cj ->
                       In n ci -> In n cj -> i = j) /\
  (forall c, In c (components g) -> c <> [] /\ NoDup c) /\
  (forall c a b, In c (components g) -> In a c -> (In b c <-> connected g a b)) /\
  graphs_count g = N.of_nat (length (components g)).
Proof.
  intros Hnd. split; [apply components_cover|]. split.
  { intros i j ci cj n. apply components_disjoint. exact Hnd. }
  split.
  { intros c Hc. split; [apply components_nonempty with g; exact Hc|apply components_NoDup with g; assumption]. }
  split; [|reflexivity].
  intros c a b. apply components_class. exact Hnd.
Qed.

(* what `indices` returns, in terms of the observables *)
Lemma lookup_labels_has_index g e :
  has_index g e = match lookup e (labels g) with Some _ => true | None => false end.
Proof.
  unfold has_index. destruct (lookup e (labels g)) as [v|] eqn:Hl.
  - apply registered_In. rewrite <- labels_dom. apply lookup_Some_dom with v. exact Hl.
  - apply registered_false. intros H. rewrite <- labels_dom in H. apply lookup_dom in H.
    destruct H as [v Hv]. congruence.
Qed.

Theorem indices_spec g es :
  length (fst (indices g es)) = length es /\
  snd (indices g es) = graphs_count g /\
  (forall i a, nth_error es i = Some a ->
     exists ra, nth_error (fst (indices g es)) i = Some ra /\
       (has_index g a = match ra with Some _ => true | None => false end) /\
       forall j b rb, nth_error es j = Some b -> nth_error (fst (indices g es)) j = Some rb ->
         same_graph g a b = match ra, rb with Some x, Some y => x =? y | _, _ => false end).
Proof.
  split; [unfold indices; cbn [fst]; apply map_length|]. split; [apply graphs_count_indices|].
  intros i a Ha. unfold indices. cbn [fst]. exists (lookup a (labels g)).
  split; [exact (map_nth_error (fun e => lookup e (labels g)) _ _ Ha)|]. split; [apply lookup_labels_has_index|].
  intros j b rb Hb Hrb. rewrite (map_nth_error (fun e => lookup e (labels g)) _ _ Hb) in Hrb. inversion Hrb. reflexivity.
Qed.
