(* C13: one app in every supported configuration (singleplayer, listen server, dedicated server, client)
   and the transitions between them.  Mirrors the system order and run conditions of
   src/client/event.rs, src/server/event.rs, src/shared/common_conditions.rs, the cursor based
   `send_typed`, `resend_locally_typed`, `reset_typed` of src/shared/event/client_event.rs, the draining
   `resend_locally_typed` of server_event.rs, and Bevy's `Events<E>` double buffer with its update
   gating (`ShouldUpdateEvents`: every frame until the first fixed-timestep run, afterwards only in
   the frame following a fixed update).  Whether a fixed update ran in a frame is an input. *)
From RV Require Import Lib.Res.
Open Scope N_scope.

(* ---------- bevy_ecs::event::Events<E> ---------- *)
Record evbuf (A : Type) := mkEv {
  ev_a : list A; ev_b : list A;            (* older / newer generation *)
  ev_a_start : N; ev_b_start : N;          (* id of the first element of each generation *)
  ev_count : N
}.
Arguments mkEv {A}. Arguments ev_a {A}. Arguments ev_b {A}. Arguments ev_a_start {A}. Arguments ev_b_start {A}. Arguments ev_count {A}.

Definition ev_empty {A} : evbuf A := mkEv [] [] 0 0 0.
Definition ev_send {A} (e : evbuf A) (x : A) : evbuf A :=
  mkEv (ev_a e) (ev_b e ++ [x]) (ev_a_start e) (ev_b_start e) (ev_count e + 1).
(* Events::update *)
Definition ev_update {A} (e : evbuf A) : evbuf A :=
  mkEv (ev_b e) [] (ev_b_start e) (ev_count e) (ev_count e).
Definition ev_len {A} (e : evbuf A) : N := N.of_nat (length (ev_a e) + length (ev_b e)).
(* Events::drain *)
Definition ev_drain {A} (e : evbuf A) : evbuf A * list A :=
  (mkEv [] [] (ev_count e) (ev_count e) (ev_count e), ev_a e ++ ev_b e).
(* EventCursor::read: everything with id >= last; the cursor moves to the end *)
Definition ev_read {A} (e : evbuf A) (last : N) : list A * N :=
  (skipn (N.to_nat (last - ev_a_start e)) (ev_a e) ++ skipn (N.to_nat (last - ev_b_start e)) (ev_b e), ev_count e).
(* EventCursor::len *)
Definition ev_unread {A} (e : evbuf A) (last : N) : N := N.min (ev_count e - last) (ev_len e).

(* ---------- the app ---------- *)
Inductive lstatus := LDisconnected | LConnecting | LConnected.
Inductive lmode := LBroadcast | LExceptServer | LDirectServer | LExceptRemote | LDirectRemote.
Inductive upd_mode := UAlways | UWaiting | UReady.

Inductive lobs :=
| ObsFromCE (seq : N)        (* server-side logic saw FromClient<CE0> { client: SERVER } *)
| ObsFromCT (seq : N)
| ObsGotSE (seq : N)         (* client-side logic saw SE0 *)
| ObsGotST (seq : N)
| NetC2S_CE (seq : N) | NetC2S_CT (seq : N)
| NetS2C_SE (seq : N) | NetS2C_ST (seq : N).

Record lapp := mkLApp {
  la_full : bool;                       (* built with the client-side plugins *)
  la_running : bool;
  la_status : lstatus;
  la_last_connected : bool;             (* Local of `client_just_connected` *)
  la_remote : bool;                     (* the local server has a remote client *)
  la_upd : upd_mode;
  la_ce : evbuf N; la_ce_cursor : N;    (* Events<CE0> and the send cursor *)
  la_ct : evbuf N; la_ct_cursor : N;    (* Events<ClientTriggerEvent<CT>> *)
  la_se : evbuf (lmode * N);            (* Events<ToClients<SE0>> *)
  la_st : evbuf (lmode * N);
  la_next : list lobs                   (* written to local event queues at the end of the frame: observed next frame *)
}.

Definition lapp_init (full : bool) : lapp :=
  mkLApp full false LDisconnected false false UAlways ev_empty 0 ev_empty 0 ev_empty ev_empty [].

Inductive lemit := EmitCE (seq : N) | EmitCT (seq : N) | EmitSE (m : lmode) (seq : N) | EmitST (m : lmode) (seq : N).

Inductive lstep :=
| LServer (run : bool)
| LClient (st : lstatus)
| LRemote (connect : bool)
| LFrame (fixed_ran : bool) (emits : list lemit).

Definition disconnected (a : lapp) : bool := match la_status a with LDisconnected => true | _ => false end.
Definition connected (a : lapp) : bool := match la_status a with LConnected => true | _ => false end.
(* server_or_singleplayer: no client resource, or the client is disconnected *)
Definition server_or_singleplayer (a : lapp) : bool := negb (la_full a) || disconnected a.

Definition local_recipient (m : lmode) : bool :=
  match m with LBroadcast | LDirectServer | LExceptRemote => true | LExceptServer | LDirectRemote => false end.
Definition remote_recipient (m : lmode) : bool :=
  match m with LBroadcast | LExceptServer | LDirectRemote => true | LDirectServer | LExceptRemote => false end.

Definition set_bufs (a : lapp) ce cec ct ctc se st next : lapp :=
  mkLApp (la_full a) (la_running a) (la_status a) (la_last_connected a) (la_remote a) (la_upd a) ce cec ct ctc se st next.

Definition lframe (a : lapp) (fixed_ran : bool) (emits : list lemit) : lapp * list lobs :=
  (* First: event_update_system *)
  let do_update := match la_upd a with UWaiting => false | _ => true end in
  let up {A} (e : evbuf A) := if do_update then ev_update e else e in
  let ce := up (la_ce a) in let ct := up (la_ct a) in let se := up (la_se a) in let st := up (la_st a) in
  let upd1 := match la_upd a with UReady => UWaiting | m => m end in
  (* PreUpdate: ResetEvents on client_just_connected (client plugins only) *)
  let just_connected := la_full a && connected a && negb (la_last_connected a) in
  let ce := if just_connected then fst (ev_drain ce) else ce in
  let ct := if just_connected then fst (ev_drain ct) else ct in
  (* what was re-emitted locally at the end of the previous frame is observed now
     (readers in Update, trigger systems in PreUpdate; the client-side trigger system needs the client plugins) *)
  let observed := filter (fun o => match o with ObsGotST _ => la_full a | _ => true end) (la_next a) in
  (* RunFixedMainLoop: a fixed update makes the next frame update the event buffers *)
  let upd2 := if fixed_ran then UReady else upd1 in
  (* Update: local game logic writes events *)
  let '(ce, ct, se, st) :=
    fold_left (fun acc em =>
                 let '(ce, ct, se, st) := acc in
                 match em with
                 | EmitCE s => (ev_send ce s, ct, se, st)
                 | EmitCT s => (ce, ev_send ct s, se, st)
                 | EmitSE m s => (ce, ct, ev_send se (m, s), st)
                 | EmitST m s => (ce, ct, se, ev_send st (m, s))
                 end) emits (ce, ct, se, st) in
  (* PostUpdate, client part (needs the client plugins): `send` while connected, else `resend_locally` while disconnected *)
  let '(ce, cec, ct, ctc, net_c2s, local1) :=
    if la_full a then
      if connected a then
        let '(xs, cec') := ev_read ce (la_ce_cursor a) in
        let '(ys, ctc') := ev_read ct (la_ct_cursor a) in
        (ce, cec', ct, ctc', map NetC2S_CE xs ++ map NetC2S_CT ys, [])
      else if disconnected a then
        (* only events the send cursor has not consumed are re-emitted; everything is drained *)
        let sent_ce := ev_len ce - ev_unread ce (la_ce_cursor a) in
        let sent_ct := ev_len ct - ev_unread ct (la_ct_cursor a) in
        let '(ce', xs) := ev_drain ce in
        let '(ct', ys) := ev_drain ct in
        (ce', la_ce_cursor a, ct', la_ct_cursor a, [],
         map ObsFromCE (skipn (N.to_nat sent_ce) xs) ++ map ObsFromCT (skipn (N.to_nat sent_ct) ys))
      else (ce, la_ce_cursor a, ct, la_ct_cursor a, [], [])
    else (ce, la_ce_cursor a, ct, la_ct_cursor a, [], []) in
  (* PostUpdate, server part: send_or_buffer + send_buffered while running (the tick changes every frame),
     then `resend_locally` drains the ToClients events when server_or_singleplayer *)
  let all_se := ev_a se ++ ev_b se in
  let all_st := ev_a st ++ ev_b st in
  let net_s2c :=
    if la_running a && la_remote a then
      map (fun ms => NetS2C_SE (snd ms)) (filter (fun ms => remote_recipient (fst ms)) all_se)
      ++ map (fun ms => NetS2C_ST (snd ms)) (filter (fun ms => remote_recipient (fst ms)) all_st)
    else [] in
  let '(se, st, local2) :=
    if server_or_singleplayer a then
      (fst (ev_drain se), fst (ev_drain st),
       map (fun ms => ObsGotSE (snd ms)) (filter (fun ms => local_recipient (fst ms)) all_se)
       ++ map (fun ms => ObsGotST (snd ms)) (filter (fun ms => local_recipient (fst ms)) all_st))
    else (se, st, []) in
  (mkLApp (la_full a) (la_running a) (la_status a) (connected a) (la_remote a) upd2 ce cec ct ctc se st (local1 ++ local2),
   observed ++ net_c2s ++ net_s2c).

Definition lstep_run (a : lapp) (s : lstep) : lapp * list lobs :=
  match s with
  | LServer run =>
    (mkLApp (la_full a) run (la_status a) (la_last_connected a) (if run then la_remote a else false) (la_upd a)
            (la_ce a) (la_ce_cursor a) (la_ct a) (la_ct_cursor a) (la_se a) (la_st a) (la_next a), [])
  | LClient st =>
    if la_full a then
      (mkLApp true (la_running a) st (la_last_connected a) (la_remote a) (la_upd a)
              (la_ce a) (la_ce_cursor a) (la_ct a) (la_ct_cursor a) (la_se a) (la_st a) (la_next a), [])
    else (a, [])
  | LRemote c =>
    (mkLApp (la_full a) (la_running a) (la_status a) (la_last_connected a) (if c then la_running a || la_remote a else false) (la_upd a)
            (la_ce a) (la_ce_cursor a) (la_ct a) (la_ct_cursor a) (la_se a) (la_st a) (la_next a), [])
  | LFrame fixed emits => lframe a fixed emits
  end.

(* the configurations the crate supports: a running local server implies a disconnected local client *)
Definition supported (a : lapp) : bool := negb (la_running a) || negb (la_full a) || disconnected a.
