(* C09 over whole-system runs with remote events (`erun` over `syse_step`): clean sessions.
     1. B1: the session ghosts restart from nothing at every connect; what a connection applies (update messages) and
        hands to game logic (events) in a session was sent to it in THAT session
     2. B3: `erun` never returns `Err`; a `Panic` can only come from the frame of a connected client
   Pinned in Properties/C09E.v. *)
From Coq Require Import ZifyBool ZifyN Permutation Sorted.
From RV Require Import Lib.Res Repl.ClientTicks Repl.ClientTicks_proofs Repl.World Repl.Server Repl.Client Repl.Sys Tick.RepliconTick
  Repl.ClientSys_proofs Repl.StructE2E_proofs Repl.StructE2EMut_proofs Repl.StructE2ESess_proofs Repl.ValSpec
  Repl.Session_proofs Repl.AuthRun_proofs Repl.SessRun_proofs.
From RV Require Import Events.Remote Events.RemoteSpec Events.Remote_proofs Events.RemoteRun Events.RemoteRunProj_proofs
  Events.RemoteRunTick_proofs Events.RemoteRunE1_proofs Events.RemoteRunLedger_proofs Events.RemoteRunOrder_proofs.
Ltac Zify.zify_post_hook ::= Z.div_mod_to_equations.
Arguments N.add : simpl never. Arguments N.mul : simpl never. Arguments N.pow : simpl never.
Arguments N.ltb : simpl never. Arguments N.leb : simpl never. Arguments N.div : simpl never.
Arguments N.modulo : simpl never. Arguments N.sub : simpl never. Arguments N.eqb : simpl never.
Open Scope N_scope.

(* ================================================================== *)
(* 1. B1: sessions                                                    *)
(* ================================================================== *)

(* a `StConnect slot` that finds no record starts the ghosts of the slot from nothing: update messages sent / applied,
   event messages handed to the backend / to the conversion step *)
Theorem session_start_ghosts e gu gl slot max e' o :
  find_client (y_server (e_sys e)) slot = None ->
  usent (ustep e gu (EBase (StConnect slot max)) e' o) slot = [] /\
  uapplied (ustep e gu (EBase (StConnect slot max)) e' o) slot = [] /\
  ssent (lstep e gl (EBase (StConnect slot max)) e' o) slot = [] /\
  snow (lstep e gl (EBase (StConnect slot max)) e' o) slot = [].
Proof.
  intros Hn. unfold ustep. cbn [proj_estep fold_left ustep_base lstep]. rewrite Hn.
  unfold usent, uapplied, ssent, snow. cbn [ug_sent ug_applied lg_sent lg_now]. rewrite !al_get_insert_same, !for_slot_drop_same.
  repeat split; reflexivity.
Qed.

(* update messages: at every moment of a session what the client has applied, followed by its inbox and the link, is
   what the server sent to the slot since the connect of THIS session, in order; the update tick is the tick of the
   last applied one (0: none) *)
Theorem run_updates_of_session c n script e g os slot cl :
  escript_ok script = true -> tick_frames (proj_script script) < 2 ^ 31 ->
  urun (syse_init c n) ug_init script = Ok (e, g, os) ->
  al_get slot (y_clients (e_sys e)) = Some cl -> emode script slot = MLive -> cl_status cl = Connected ->
  usent g slot = uapplied g slot ++ cl_inbox_upd cl ++ l_upd (get_link (e_sys e) slot) /\
  is_prefix (uapplied g slot) (usent g slot) /\
  (forall u, In u (uapplied g slot ++ cl_inbox_upd cl ++ l_upd (get_link (e_sys e) slot)) -> In u (usent g slot)) /\
  cl_upd_tick cl = last_tick (uapplied g slot).
Proof.
  intros Hok Hb H Hc Hm Hs. destruct (tinv_run c n script e g os Hok Hb H) as [_ _ T3].
  destruct (T3 slot cl Hc) as [_ I2]. destruct (I2 Hm Hs) as [L1 _ _ _ L5 _].
  split; [exact L1|]. split; [exists (cl_inbox_upd cl ++ l_upd (get_link (e_sys e) slot)); exact L1|].
  split; [intros u Hu; rewrite L1; exact Hu|exact L5].
Qed.

(* a slot without a session (clean, left, or connect without effect): no event message in flight or received *)
Theorem run_idle_nothing_in_flight c n script e g os slot cl :
  escript_ok script = true -> tick_frames (proj_script script) < 2 ^ 31 ->
  urun (syse_init c n) ug_init script = Ok (e, g, os) ->
  al_get slot (y_clients (e_sys e)) = Some cl ->
  emode script slot = MClean \/ emode script slot = MLeft \/ (emode script slot = MLive /\ cl_status cl = Disconnected) ->
  chan_s2c e slot = [] /\ inbox_of e slot = [] /\ (emode script slot <> MLeft -> cl_last_connected cl = false).
Proof.
  intros Hok Hb H Hc Hi. destruct (tinv_run c n script e g os Hok Hb H) as [_ _ T3].
  destruct (T3 slot cl Hc) as [I1 _]. exact (I1 Hi).
Qed.

(* events: every event a client frame hands to game logic in a session came in a message that was handed to the backend
   for this slot in THIS session (the session ledger restarts at the connect: session_start_ghosts) *)
Theorem run_events_of_session c n script slot ops emit e1 gu1 gl1 os1 e o :
  let st := ECFrame slot ops emit in
  escript_ok (script ++ [st]) = true -> tick_frames (proj_script (script ++ [st])) < 2 ^ 31 ->
  crun (syse_init c n) (ug_init, lg_init) script = Ok (e1, (gu1, gl1), os1) -> syse_step e1 st = Ok (e, o) ->
  emode (script ++ [st]) slot = MLive ->
  forall d, In d (eo_got o) ->
  exists cl m, al_get slot (y_clients (e_sys e)) = Some cl /\ deliverable cl m = Some d /\
               In m (ssent (lstep e1 gl1 st e o) slot) /\ In m (snow (lstep e1 gl1 st e o) slot).
Proof.
  intros st Hok Hb H1 Hs Hm d Hd.
  assert (Hrun : crun (syse_init c n) (ug_init, lg_init) (script ++ [st]) = Ok (e, (ustep e1 gu1 st e o, lstep e1 gl1 st e o), os1 ++ [o])).
  { unfold crun in *. rewrite grun_app, H1. cbn [bind grun]. rewrite Hs. cbn [bind cstep fst snd]. reflexivity. }
  destruct (crun_split _ _ _ _ _ _ _ _ H1) as [Hu1 _].
  pose proof (grun_erun _ _ _ _ _ _ _ _ Hu1) as He1. pose proof (erun_init_dom _ _ _ _ _ He1) as Hdom.
  destruct (cframe_unfold _ _ _ _ _ _ Hdom Hs) as (_ & _ & _ & _ & _ & _ & _ & _ & _ & _ & Hcase).
  destruct (al_get slot (y_clients (e_sys e1))) as [cb|] eqn:Ecb; [|destruct Hcase as (_ & Hg & _); rewrite Hg in Hd; destruct Hd].
  destruct Hcase as (ce & cl & Hce & Hcl & [out Hcf] & Hcase).
  destruct (cl_status cb) eqn:Est; [destruct Hcase as (_ & Hg & _); rewrite Hg in Hd; destruct Hd|].
  destruct (ledger_cframe e1 gl1 slot ops emit e o cb Hdom Hs Ecb Est) as (cl2 & now & Hcl2 & Esn & Ess & Eg).
  rewrite Hcl in Hcl2. inversion Hcl2; subst cl2. rewrite Eg in Hd. apply in_omap in Hd. destruct Hd as [m [Hin Hdl]].
  exists cl, m. split; [exact Hcl|]. split; [exact Hdl|].
  assert (Hst : cl_status cl = Connected) by (rewrite (client_frame_status cb ops cl out Hcf); exact Est).
  assert (Hsn : In m (snow (lstep e1 gl1 st e o) slot)) by (fold st in Esn; rewrite Esn; apply in_or_app; right; exact Hin).
  split; [|exact Hsn].
  destruct (e3_attribution c n (script ++ [st]) e _ _ _ slot cl Hok Hb Hrun Hcl Hm Hst) as (A & _). apply A. right. exact Hsn.
Qed.

(* ================================================================== *)
(* 2. B3: totality                                                    *)
(* ================================================================== *)

Ltac split_matches := repeat match goal with |- context [match ?X with _ => _ end] => destruct X end.

Theorem syse_step_noerr e st : syse_step e st <> Err.
Proof.
  destruct st as [b|tick dt cleanup ops parts emit|sl ops emit|sl ty w drop|sl ty w]; unfold syse_step.
  - destruct (sys_step (e_sys e) b) as [[y' o]| |] eqn:E; cbn [bind]; try discriminate. exfalso. exact (sys_step_noerr _ _ E).
  - destruct (sv_running (y_server (e_sys e))).
    + destruct (server_receive e) as [e0 from].
      destruct (sys_step (e_sys e0) (StSFrame tick dt cleanup ops parts)) as [[y' o]| |] eqn:E; cbn [bind]; try discriminate;
        try (exfalso; exact (sys_step_noerr _ _ E)); split_matches; discriminate.
    + destruct (sys_step (e_sys e) (StSFrame tick dt cleanup ops parts)) as [[y' o]| |] eqn:E; cbn [bind]; try discriminate;
        try (exfalso; exact (sys_step_noerr _ _ E)); split_matches; discriminate.
  - destruct (al_get sl (y_clients (e_sys e))) as [cb|]; [|discriminate]. destruct (al_get sl (e_clients e)) as [ce|]; [|discriminate].
    destruct (sys_step (e_sys e) (StCFrame sl ops)) as [[y' o]| |] eqn:E; cbn [bind]; try discriminate;
      try (exfalso; exact (sys_step_noerr _ _ E)); split_matches; discriminate.
  - split_matches; discriminate.
  - split_matches; discriminate.
Qed.

Theorem erun_noerr script : forall e, RemoteSpec.erun e script <> Err.
Proof.
  induction script as [|st t IH]; intros e; cbn [RemoteSpec.erun]; [discriminate|].
  destruct (syse_step e st) as [[e1 o]| |] eqn:E; cbn [bind]; [| |discriminate].
  - destruct (RemoteSpec.erun e1 t) as [[e2 os]| |] eqn:E2; cbn [bind]; try discriminate. exfalso. exact (IH e1 E2).
  - exfalso. exact (syse_step_noerr e st E).
Qed.

(* the frame (of the replication layer) a step of the event layer contains *)
Definition cframe_of (st : estep) : option (N * list cop) :=
  match st with
  | EBase (StCFrame slot ops) => Some (slot, ops)
  | ECFrame slot ops _ => Some (slot, ops)
  | _ => None
  end.

Theorem syse_step_panic e st : syse_step e st = Panic ->
  exists slot ops cl, cframe_of st = Some (slot, ops) /\ al_get slot (y_clients (e_sys e)) = Some cl /\
                      cl_status cl = Connected /\ client_frame cl ops = Panic.
Proof.
  assert (Hsys : forall b, sys_step (e_sys e) b = Panic ->
            exists slot ops cl, b = StCFrame slot ops /\ al_get slot (y_clients (e_sys e)) = Some cl /\
                                cl_status cl = Connected /\ client_frame cl ops = Panic).
  { intros b Hb. destruct (run_panic_source [b] (e_sys e)) as (pre & slot & ops & post & y1 & cl & E & R & A & B & C).
    - cbn [run]. rewrite Hb. reflexivity.
    - destruct pre as [|x pre]; cbn [app] in E; [|destruct pre; discriminate]. inversion E; subst. cbn [run] in R. inversion R; subst.
      exists slot, ops, cl. auto. }
  intros H. destruct st as [b|tick dt cleanup ops parts emit|sl ops emit|sl ty w drop|sl ty w]; unfold syse_step in H.
  - destruct (sys_step (e_sys e) b) as [[y' o]| |] eqn:E; cbn [bind] in H; try discriminate.
    destruct (Hsys b E) as (slot & ops & cl & -> & A). exists slot, ops, cl. split; [reflexivity|exact A].
  - exfalso. destruct (sv_running (y_server (e_sys e))).
    + destruct (server_receive e) as [e0 from].
      destruct (server_steps_total (e_sys e0) (StSFrame tick dt cleanup ops parts)) as [y' [o E]]; [discriminate|]. rewrite E in H. cbn [bind] in H.
      revert H. split_matches; discriminate.
    + destruct (server_steps_total (e_sys e) (StSFrame tick dt cleanup ops parts)) as [y' [o E]]; [discriminate|]. rewrite E in H. cbn [bind] in H.
      revert H. split_matches; discriminate.
  - destruct (al_get sl (y_clients (e_sys e))) as [cb|] eqn:Ecb; [|discriminate]. destruct (al_get sl (e_clients e)) as [ce|]; [|discriminate].
    destruct (sys_step (e_sys e) (StCFrame sl ops)) as [[y' o]| |] eqn:E; cbn [bind] in H; try discriminate.
    + exfalso. revert H. split_matches; discriminate.
    + destruct (Hsys _ E) as (slot & ops' & cl & E' & A). inversion E'; subst. exists slot, ops', cl. split; [reflexivity|exact A].
  - exfalso. revert H. split_matches; discriminate.
  - exfalso. revert H. split_matches; discriminate.
Qed.

Theorem erun_panic_source script : forall e, RemoteSpec.erun e script = Panic ->
  exists pre st post e1 os1 slot ops cl, script = pre ++ st :: post /\ RemoteSpec.erun e pre = Ok (e1, os1) /\
    cframe_of st = Some (slot, ops) /\ al_get slot (y_clients (e_sys e1)) = Some cl /\
    cl_status cl = Connected /\ client_frame cl ops = Panic.
Proof.
  induction script as [|st t IH]; intros e H; cbn [RemoteSpec.erun] in H; [discriminate|].
  destruct (syse_step e st) as [[e1 o]| |] eqn:E; cbn [bind] in H.
  - destruct (RemoteSpec.erun e1 t) as [[e2 os]| |] eqn:E2; cbn [bind] in H; try discriminate.
    destruct (IH e1 E2) as (pre & st' & post & e3 & os3 & slot & ops & cl & -> & R & A).
    exists (st :: pre), st', post, e3, (o :: os3), slot, ops, cl. split; [reflexivity|]. split; [|exact A].
    cbn [RemoteSpec.erun]. rewrite E. cbn [bind]. rewrite R. reflexivity.
  - exfalso. exact (syse_step_noerr e st E).
  - destruct (syse_step_panic e st E) as (slot & ops & cl & A).
    exists [], st, t, e, [], slot, ops, cl. split; [reflexivity|]. split; [reflexivity|exact A].
Qed.
