(* E0: the `Repl.Sys` component of a run with remote events is the `Sys.run` of the projected script; runs with a ghost
   are runs.  Vocabulary: Events/RemoteRun.v. *)
From Coq Require Import ZifyBool ZifyN Permutation.
From RV Require Import Lib.Res Repl.ClientTicks Repl.World Repl.Server Repl.Client Repl.Sys Tick.RepliconTick
  Repl.ClientSys_proofs Repl.StructE2E_proofs Repl.StructE2EMut_proofs Repl.StructE2ESess_proofs Repl.ValSpec.
From RV Require Import Events.Remote Events.RemoteSpec Events.Remote_proofs Events.RemoteRun.
Ltac Zify.zify_post_hook ::= Z.div_mod_to_equations.
Arguments N.add : simpl never. Arguments N.mul : simpl never. Arguments N.pow : simpl never.
Arguments N.ltb : simpl never. Arguments N.leb : simpl never. Arguments N.div : simpl never.
Arguments N.modulo : simpl never. Arguments N.sub : simpl never. Arguments N.eqb : simpl never.
Open Scope N_scope.

(* ---------- scripts ---------- *)

Lemma proj_script_app a b : proj_script (a ++ b) = proj_script a ++ proj_script b.
Proof. unfold proj_script. apply flat_map_app. Qed.

Lemma proj_script_snoc a st : proj_script (a ++ [st]) = proj_script a ++ proj_estep st.
Proof. rewrite proj_script_app. unfold proj_script at 2. cbn [flat_map]. rewrite app_nil_r. reflexivity. Qed.

(* ---------- runs ---------- *)

Lemma erun_app s1 : forall e s2,
  RemoteSpec.erun e (s1 ++ s2) =
  let* (e1, os1) := RemoteSpec.erun e s1 in let* (e2, os2) := RemoteSpec.erun e1 s2 in Ok (e2, os1 ++ os2).
Proof.
  induction s1 as [|st t IH]; intros e s2; cbn [app RemoteSpec.erun bind].
  - destruct (RemoteSpec.erun e s2) as [[e2 os2]| |]; reflexivity.
  - destruct (syse_step e st) as [[e1 o]| |]; cbn [bind]; [|reflexivity..]. rewrite IH.
    destruct (RemoteSpec.erun e1 t) as [[e2 os1]| |]; cbn [bind]; [|reflexivity..].
    destruct (RemoteSpec.erun e2 s2) as [[e3 os2]| |]; reflexivity.
Qed.

Section GRunFacts.
  Variable G : Type.
  Variable gstep : syse -> G -> estep -> syse -> eout -> G.

  Lemma grun_app s1 : forall e g s2,
    grun gstep e g (s1 ++ s2) =
    let* (e1, g1, os1) := grun gstep e g s1 in let* (e2, g2, os2) := grun gstep e1 g1 s2 in Ok (e2, g2, os1 ++ os2).
  Proof.
    induction s1 as [|st t IH]; intros e g s2; cbn [app grun bind].
    - destruct (grun gstep e g s2) as [[[e2 g2] os2]| |]; reflexivity.
    - destruct (syse_step e st) as [[e1 o]| |]; cbn [bind]; [|reflexivity..]. rewrite IH.
      destruct (grun gstep e1 (gstep e g st e1 o) t) as [[[e2 g2] os1]| |]; cbn [bind]; [|reflexivity..].
      destruct (grun gstep e2 g2 s2) as [[[e3 g3] os2]| |]; reflexivity.
  Qed.

  Lemma grun_erun script : forall e g e' g' os,
    grun gstep e g script = Ok (e', g', os) -> RemoteSpec.erun e script = Ok (e', os).
  Proof.
    induction script as [|st t IH]; intros e g e' g' os H; cbn [grun RemoteSpec.erun] in *.
    - inversion H; reflexivity.
    - destruct (syse_step e st) as [[e1 o]| |]; cbn [bind] in *; try discriminate.
      destruct (grun gstep e1 (gstep e g st e1 o) t) as [[[e2 g2] os2]| |] eqn:E; cbn [bind] in *; try discriminate.
      inversion H; subst. rewrite (IH _ _ _ _ _ E). reflexivity.
  Qed.

  Lemma erun_grun script : forall e g e' os,
    RemoteSpec.erun e script = Ok (e', os) -> exists g', grun gstep e g script = Ok (e', g', os).
  Proof.
    induction script as [|st t IH]; intros e g e' os H; cbn [grun RemoteSpec.erun] in *.
    - inversion H; subst. eexists; reflexivity.
    - destruct (syse_step e st) as [[e1 o]| |]; cbn [bind] in *; try discriminate.
      destruct (RemoteSpec.erun e1 t) as [[e2 os2]| |] eqn:E; cbn [bind] in *; try discriminate.
      inversion H; subst. destruct (IH e1 (gstep e g st e1 o) _ _ E) as [g' Hg]. exists g'. rewrite Hg. reflexivity.
  Qed.

  (* the last step of a run *)
  Lemma grun_snoc script st e g e' g' os :
    grun gstep e g (script ++ [st]) = Ok (e', g', os) ->
    exists e1 g1 os1 o, grun gstep e g script = Ok (e1, g1, os1) /\ syse_step e1 st = Ok (e', o) /\
                        g' = gstep e1 g1 st e' o /\ os = os1 ++ [o].
  Proof.
    rewrite grun_app. destruct (grun gstep e g script) as [[[e1 g1] os1]| |] eqn:E1; cbn [bind]; try discriminate.
    cbn [grun]. destruct (syse_step e1 st) as [[e2 o]| |] eqn:E2; cbn [bind]; try discriminate.
    intros H. inversion H; subst. exists e1, g1, os1, o. repeat split; auto.
  Qed.
End GRunFacts.

(* ---------- one step ---------- *)

Lemma al_get_insert_none {V} k (v v0 : V) l k' :
  al_get k l = Some v0 -> al_get k' l = None -> al_get k' (al_insert k v l) = None.
Proof.
  intros H1 H2. rewrite al_get_insert_other; [exact H2|]. intros ->. congruence.
Qed.

Lemma al_get_insert_keeps {V} k (v : V) l k' : al_get k' (al_insert k v l) = None -> al_get k' l = None.
Proof.
  intros H. destruct (N.eq_dec k' k) as [->|Hne]; [rewrite al_get_insert_same in H; discriminate|].
  rewrite al_get_insert_other in H by exact Hne. exact H.
Qed.

(* `sys_step` never adds a client app *)
Lemma sys_step_clients_none y st y' o slot :
  sys_step y st = Ok (y', o) -> al_get slot (y_clients y) = None -> al_get slot (y_clients y') = None.
Proof.
  intros H Hn. destruct st as [| |sl max|sl|sl|tick dt cleanup ops parts|sl ops|sl s2c ch w|sl s2c ch w]; cbn [sys_step] in H.
  - inversion H; exact Hn.
  - inversion H; exact Hn.
  - destruct (find_client (y_server y) sl); [inversion H; subst; exact Hn|].
    destruct (al_get sl (y_clients y)) eqn:Ec; [|inversion H; subst; exact Hn].
    destruct (sv_running (y_server y)); inversion H; subst; [|exact Hn]. cbn [set_client set_server y_clients].
    exact (al_get_insert_none _ _ _ _ _ Ec Hn).
  - inversion H; exact Hn.
  - destruct (al_get sl (y_clients y)) eqn:Ec; inversion H; subst; [|exact Hn].
    cbn [clear_link set_link set_client set_server y_clients]. exact (al_get_insert_none _ _ _ _ _ Ec Hn).
  - destruct (server_frame (y_cfg y) (y_server y) tick dt cleanup ops parts) as [[s' fo]| |]; cbn [bind] in H; try discriminate.
    inversion H; subst. rewrite (proj2 (proj2 (enqueue_fields _ _))). exact Hn.
  - destruct (al_get sl (y_clients y)) as [cl|] eqn:Ec; [|inversion H; subst; exact Hn].
    destruct (client_frame cl ops) as [[cl' cfo]| |] eqn:Ef; cbn [bind] in H; try discriminate.
    assert (H' : sys_step y (StCFrame sl ops) = Ok (y', o)) by (cbn [sys_step]; rewrite Ec, Ef; exact H).
    destruct (cframe_sys y sl ops cl cl' cfo y' o Ec Ef H') as (_ & E & _). rewrite E.
    exact (al_get_insert_none _ _ _ _ _ Ec Hn).
  - destruct (al_get sl (y_clients y)) eqn:Ec; [|inversion H; subst; exact Hn]. destruct s2c.
    + destruct (ch =? 0); [destruct (take w (l_upd (get_link y sl))); inversion H; subst; exact (al_get_insert_none _ _ _ _ _ Ec Hn)|].
      destruct (ch =? 1); [destruct (take w (l_mut (get_link y sl))); inversion H; subst; exact (al_get_insert_none _ _ _ _ _ Ec Hn)|inversion H; subst; exact Hn].
    + destruct (ch =? 0); [destruct (take w (l_ack (get_link y sl))); inversion H; subst; exact Hn|inversion H; subst; exact Hn].
  - destruct (al_get sl (y_clients y)) eqn:Ec; [|inversion H; subst; exact Hn]. destruct s2c.
    + destruct (ch =? 0); [destruct (take w (l_upd (get_link y sl))); inversion H; subst; exact (al_get_insert_none _ _ _ _ _ Ec Hn)|].
      destruct (ch =? 1); [destruct (take w (l_mut (get_link y sl))); inversion H; subst; exact (al_get_insert_none _ _ _ _ _ Ec Hn)|inversion H; subst; exact Hn].
    + destruct (ch =? 0); [destruct (take w (l_ack (get_link y sl))); inversion H; subst; exact Hn|inversion H; subst; exact Hn].
Qed.

(* what a step does to the `Repl.Sys` component, and that `e_clients` never loses a slot *)
Definition sys_of_step (e : syse) (st : estep) (e' : syse) (o : eout) : Prop :=
  match proj_estep st with
  | [] => e_sys e' = e_sys e
  | b :: _ => sys_step (e_sys e) b = Ok (e_sys e', eo_base o)
  end.

Lemma ebase_sys e b e' o : syse_step e (EBase b) = Ok (e', o) ->
  sys_step (e_sys e) b = Ok (e_sys e', eo_base o) /\
  (forall slot, al_get slot (e_clients e') = None -> al_get slot (e_clients e) = None).
Proof.
  unfold syse_step. destruct (sys_step (e_sys e) b) as [[y' ob]| |] eqn:E; cbn [bind]; try discriminate.
  intros H. injection H as <- <-. cbn [eo_base]. split.
  - f_equal. f_equal. destruct b; try reflexivity.
    + destruct (find_client (y_server (e_sys e)) slot); [reflexivity|]. destruct (find_client (y_server y') slot); reflexivity.
  - intros slot. destruct b; try (cbn [set_sys e_clients]; tauto).
    + destruct (find_client (y_server (e_sys e)) slot0); [cbn [set_sys e_clients]; tauto|].
      destruct (find_client (y_server y') slot0); cbn [set_sys e_clients]; tauto.
    + cbn [set_sys e_clients]. apply al_get_insert_keeps.
Qed.

Lemma sframe_sys e tick dt cleanup ops parts emit e' o :
  syse_step e (ESFrame tick dt cleanup ops parts emit) = Ok (e', o) ->
  sys_step (e_sys e) (StSFrame tick dt cleanup ops parts) = Ok (e_sys e', eo_base o).
Proof.
  unfold syse_step.
  destruct (sv_running (y_server (e_sys e))) eqn:Hrb.
  - destruct (server_receive e) as [e0 from] eqn:Hsr.
    assert (Hsys : e_sys e0 = e_sys e) by (unfold server_receive in Hsr; injection Hsr as <- _; reflexivity).
    rewrite Hsys.
    destruct (sys_step (e_sys e) (StSFrame tick dt cleanup ops parts)) as [[y' o']| |]; cbn [bind]; try discriminate.
    match goal with |- context [send_or_buffer ?x] => set (e1 := x) end.
    destruct (send_or_buffer e1) as [e2 sent1] eqn:Hsob.
    assert (H2 : e_sys e2 = y') by (unfold send_or_buffer in Hsob; destruct (fold_left _ _ _) in Hsob; injection Hsob as <- _; reflexivity).
    cbn [negb andb].
    match goal with |- context [if ?r then send_buffered e2 else _] => destruct r end.
    + destruct (send_buffered e2) as [e3 sent2] eqn:Hsb.
      assert (H3 : e_sys e3 = y') by (unfold send_buffered in Hsb; injection Hsb as <- _; exact H2).
      intros H. injection H as <- <-. unfold prune_uids. cbn [e_sys eo_base]. rewrite H3. reflexivity.
    + intros H. injection H as <- <-. unfold prune_uids. cbn [e_sys eo_base]. rewrite H2. reflexivity.
  - destruct (sys_step (e_sys e) (StSFrame tick dt cleanup ops parts)) as [[y' o']| |]; cbn [bind]; try discriminate.
    cbn [negb andb].
    destruct (sv_last_running (y_server (e_sys e))); intros H; injection H as <- <-; reflexivity.
Qed.

Lemma cframe_sys_e e slot ops emit e' o : clients_dom e ->
  syse_step e (ECFrame slot ops emit) = Ok (e', o) ->
  sys_step (e_sys e) (StCFrame slot ops) = Ok (e_sys e', eo_base o).
Proof.
  intros Hdom. unfold syse_step.
  destruct (al_get slot (y_clients (e_sys e))) as [cb|] eqn:Hcb.
  2:{ intros H. injection H as <- <-. cbn [sys_step eo_base]. rewrite Hcb. reflexivity. }
  destruct (al_get slot (e_clients e)) as [ce|] eqn:Hce.
  2:{ rewrite (Hdom slot Hce) in Hcb. discriminate. }
  destruct (sys_step (e_sys e) (StCFrame slot ops)) as [[y' o']| |]; cbn [bind]; try discriminate.
  destruct (al_get slot (y_clients y')) as [cl|]; [|intros H; injection H as <- <-; reflexivity].
  destruct (cl_status cb); cbn [andb].
  - intros H. injection H as <- <-. reflexivity.
  - destruct (client_receive cl _) as [ce1 got]. intros H. injection H as <- <-. reflexivity.
Qed.

Lemma step_sys e st e' o : clients_dom e -> syse_step e st = Ok (e', o) -> sys_of_step e st e' o.
Proof.
  intros Hdom H. unfold sys_of_step. destruct st as [b|tick dt cleanup ops parts emit|slot ops emit|slot ty w drop|slot ty w]; cbn [proj_estep].
  - exact (proj1 (ebase_sys _ _ _ _ H)).
  - exact (sframe_sys _ _ _ _ _ _ _ _ _ H).
  - exact (cframe_sys_e _ _ _ _ _ _ Hdom H).
  - destruct (deliver_s2c_step _ _ _ _ _ _ _ H) as (picked & rest & _ & _ & _ & _ & _ & _ & E & _). exact E.
  - unfold syse_step in H. destruct (take_typed _ w _) as [picked rest]. injection H as <- _. reflexivity.
Qed.

Lemma step_clients_keep e st e' o : syse_step e st = Ok (e', o) ->
  forall slot, al_get slot (e_clients e') = None -> al_get slot (e_clients e) = None.
Proof.
  intros H slot. destruct st as [b|tick dt cleanup ops parts emit|sl ops emit|sl ty w drop|sl ty w].
  - exact (proj2 (ebase_sys _ _ _ _ H) slot).
  - destruct (sframe_shape _ _ _ _ _ _ _ _ _ H) as (_ & _ & E & _). rewrite E. tauto.
  - destruct (cframe_shape _ _ _ _ _ _ H) as (_ & _ & _ & _ & _ & _ & [[E _]|(cl & ce & ce1 & got & sent & _ & _ & E & _)]); rewrite E; [tauto|].
    apply al_get_insert_keeps.
  - destruct (deliver_s2c_step _ _ _ _ _ _ _ H) as (picked & rest & _ & _ & _ & Hoth & Hsl & Hnone & _).
    destruct (N.eq_dec slot sl) as [->|Hne]; [|rewrite (Hoth slot Hne); tauto].
    destruct (al_get sl (e_clients e)) as [ce|] eqn:Ec; [rewrite (Hsl ce eq_refl); discriminate|tauto].
  - unfold syse_step in H. destruct (take_typed _ w _) as [picked rest]. injection H as <- _. cbn [e_clients]. tauto.
Qed.

Lemma clients_dom_step e st e' o : clients_dom e -> syse_step e st = Ok (e', o) -> clients_dom e'.
Proof.
  intros Hdom H slot Hn. pose proof (step_clients_keep _ _ _ _ H slot Hn) as Hn0. pose proof (Hdom slot Hn0) as Hy.
  pose proof (step_sys _ _ _ _ Hdom H) as Hs. unfold sys_of_step in Hs.
  destruct (proj_estep st) as [|b r]; [rewrite Hs; exact Hy|]. exact (sys_step_clients_none _ _ _ _ _ Hs Hy).
Qed.

Lemma clients_dom_init c n : clients_dom (syse_init c n).
Proof.
  intros slot. unfold syse_init. cbn [e_clients e_sys]. generalize (y_clients (sys_init c n)). intros l.
  induction l as [|[k v] l IH]; cbn [map al_get fst]; [reflexivity|]. destruct (k =? slot); [discriminate|exact IH].
Qed.

(* ---------- E0 ---------- *)

Lemma run_one y b y' o : sys_step y b = Ok (y', o) -> run y [b] = Ok y'.
Proof. intros H. cbn [run]. rewrite H. reflexivity. Qed.

Theorem erun_sys script : forall e e' os, clients_dom e ->
  RemoteSpec.erun e script = Ok (e', os) -> run (e_sys e) (proj_script script) = Ok (e_sys e') /\ clients_dom e'.
Proof.
  induction script as [|st t IH]; intros e e' os Hdom H; cbn [RemoteSpec.erun] in H.
  - inversion H; subst. split; [reflexivity|exact Hdom].
  - destruct (syse_step e st) as [[e1 o]| |] eqn:E; cbn [bind] in H; try discriminate.
    destruct (RemoteSpec.erun e1 t) as [[e2 os2]| |] eqn:E2; cbn [bind] in H; try discriminate. inversion H; subst.
    pose proof (clients_dom_step _ _ _ _ Hdom E) as Hdom1. destruct (IH _ _ _ Hdom1 E2) as [R D]. split; [|exact D].
    change (proj_script (st :: t)) with (proj_estep st ++ proj_script t). rewrite run_app.
    pose proof (step_sys _ _ _ _ Hdom E) as Hs. unfold sys_of_step in Hs.
    destruct st; cbn [proj_estep] in *; try (rewrite (run_one _ _ _ _ Hs); cbn [bind]; exact R);
      cbn [run bind]; rewrite <- Hs; exact R.
Qed.

Theorem erun_init_sys c n script e os :
  RemoteSpec.erun (syse_init c n) script = Ok (e, os) -> run (sys_init c n) (proj_script script) = Ok (e_sys e).
Proof. intros H. exact (proj1 (erun_sys script _ _ _ (clients_dom_init c n) H)). Qed.

Theorem erun_init_dom c n script e os : RemoteSpec.erun (syse_init c n) script = Ok (e, os) -> clients_dom e.
Proof. intros H. exact (proj2 (erun_sys script _ _ _ (clients_dom_init c n) H)). Qed.

(* the observations of the replication layer are those of `Sys`: the k-th observation of the projected script *)
Theorem erun_outs script : forall e e' os, clients_dom e ->
  RemoteSpec.erun e script = Ok (e', os) -> length os = length script.
Proof.
  induction script as [|st t IH]; intros e e' os Hdom H; cbn [RemoteSpec.erun] in H.
  - inversion H; reflexivity.
  - destruct (syse_step e st) as [[e1 o]| |] eqn:E; cbn [bind] in H; try discriminate.
    destruct (RemoteSpec.erun e1 t) as [[e2 os2]| |] eqn:E2; cbn [bind] in H; try discriminate. inversion H; subst.
    cbn [length]. f_equal. exact (IH _ _ _ (clients_dom_step _ _ _ _ Hdom E) E2).
Qed.
