(* E2 (C05 end to end), part 3: with distinct sequence numbers an event is handed to the backend at most once per slot
   over the whole run, and never again once it is neither buffered nor still to be emitted.  For every sequence number q
   and slot the quantity
       [q among the buffered events] + [q among the emissions still to come] + [q among the messages sent to the slot]
   never increases. *)
From Coq Require Import ZifyBool ZifyN Permutation Sorted.
From RV Require Import Lib.Res Repl.ClientTicks Repl.World Vis.Visibility Repl.Server Repl.ServerSpec Repl.Client Repl.Sys Tick.RepliconTick
  Repl.StructSpec Repl.StructVisSpec Repl.ClientSys_proofs Repl.StructE2E_proofs Repl.StructE2EMut_proofs Repl.StructE2ESess_proofs Repl.ValSpec.
From RV Require Import Events.Remote Events.RemoteSpec Events.Remote_proofs Events.RemoteRun Events.RemoteRunProj_proofs
  Events.RemoteRunTick_proofs Events.RemoteRunE1_proofs Events.RemoteRunLedger_proofs.
Ltac Zify.zify_post_hook ::= Z.div_mod_to_equations.
Arguments N.add : simpl never. Arguments N.mul : simpl never. Arguments N.pow : simpl never.
Arguments N.ltb : simpl never. Arguments N.leb : simpl never. Arguments N.div : simpl never.
Arguments N.modulo : simpl never. Arguments N.sub : simpl never. Arguments N.eqb : simpl never.
Open Scope N_scope.

(* ---------- counting sequence numbers ---------- *)

Definition cq (q : N) (l : list N) : nat := length (filter (N.eqb q) l).
Definition buffer_seqs (e : syse) : list N := flat_map (fun set => map sev_seq (bs_events set)) (e_buffer e).
Definition future_seqs (rest : list estep) : list N := flat_map emit_seqs rest.

Lemma cq_app q a b : cq q (a ++ b) = (cq q a + cq q b)%nat.
Proof. unfold cq. rewrite filter_app, app_length. reflexivity. Qed.

Lemma cq_perm q a b : Permutation a b -> cq q a = cq q b.
Proof.
  intros H. unfold cq. induction H as [|x l l' H IH|x y l|l l' l'' H1 IH1 H2 IH2]; cbn [filter].
  - reflexivity.
  - destruct (q =? x); cbn [length]; rewrite IH; reflexivity.
  - destruct (q =? x), (q =? y); reflexivity.
  - congruence.
Qed.

Lemma cq_nodup q l : NoDup l -> (cq q l <= 1)%nat.
Proof.
  induction 1 as [|x l Hnin Hnd IH]; [cbn; lia|]. unfold cq in *. cbn [filter]. destruct (N.eqb_spec q x) as [->|Hne]; [|exact IH].
  cbn [length]. assert (E : filter (N.eqb x) l = []).
  { apply filter_all_false. intros y Hy. destruct (N.eqb_spec x y) as [->|_]; [contradiction|reflexivity]. }
  rewrite E. cbn. lia.
Qed.

Lemma count_seq_app q a b : count_seq q (a ++ b) = (count_seq q a + count_seq q b)%nat.
Proof. unfold count_seq. rewrite filter_app, app_length. reflexivity. Qed.

Lemma count_seq_le_length q l : (count_seq q l <= length l)%nat.
Proof. unfold count_seq. induction l as [|x l IH]; cbn [filter length]; [lia|]. destruct (sm_seq x =? q); cbn [length]; lia. Qed.

Lemma count_seq_other q l : (forall m, In m l -> sm_seq m <> q) -> count_seq q l = 0%nat.
Proof.
  intros H. unfold count_seq. rewrite filter_all_false; [reflexivity|]. intros m Hm. destruct (N.eqb_spec (sm_seq m) q) as [E|_]; [exfalso; exact (H m Hm E)|reflexivity].
Qed.

(* a sum of per-element bounds *)
Lemma count_flat_map {A} q slot (f : A -> list (N * smsg)) (k : A -> list N) l :
  (forall x, In x l -> (count_seq q (msgs_for slot (f x)) <= cq q (k x))%nat) ->
  (count_seq q (msgs_for slot (flat_map f l)) <= cq q (flat_map k l))%nat.
Proof.
  induction l as [|x l IH]; intros H; cbn [flat_map]; [cbn; lia|].
  rewrite msgs_for_app, count_seq_app, cq_app. pose proof (H x (or_introl eq_refl)). assert ((count_seq q (msgs_for slot (flat_map f l)) <= cq q (flat_map k l))%nat).
  { apply IH. intros y Hy. apply H. right. exact Hy. }
  lia.
Qed.

Lemma filter_len_le {A} (p : A -> bool) l : (length (filter p l) <= length l)%nat.
Proof. induction l as [|x l IH]; cbn [filter length]; [lia|]. destruct (p x); cbn [length]; lia. Qed.

(* at most one message per recipient *)
Lemma msgs_for_nodup slot (g : N -> list (N * smsg)) R : NoDup R ->
  (forall s x, In x (g s) -> fst x = s) -> (forall s, (length (g s) <= 1)%nat) ->
  (length (msgs_for slot (flat_map g R)) <= 1)%nat.
Proof.
  intros Hnd Htag Hlen. induction Hnd as [|s R Hnin Hnd IH]; cbn [flat_map]; [cbn; lia|].
  rewrite msgs_for_app, app_length. destruct (N.eq_dec s slot) as [->|Hne].
  - assert (E : msgs_for slot (flat_map g R) = []).
    { destruct (msgs_for slot (flat_map g R)) as [|m r] eqn:Em; [reflexivity|]. exfalso.
      assert (Hin : In (slot, m) (flat_map g R)) by (apply in_msgs_for; rewrite Em; left; reflexivity).
      apply in_flat_map in Hin. destruct Hin as (s' & Hs' & Hx). pose proof (Htag s' _ Hx) as E'. cbn [fst] in E'. subst s'. contradiction. }
    rewrite E. cbn [length]. unfold msgs_for. rewrite map_length. pose proof (Hlen slot).
    pose proof (filter_len_le (fun sm : N * smsg => N.eqb (fst sm) slot) (g slot)). lia.
  - assert (E : msgs_for slot (g s) = []).
    { destruct (msgs_for slot (g s)) as [|m r] eqn:Em; [reflexivity|]. exfalso.
      assert (Hin : In (slot, m) (g s)) by (apply in_msgs_for; rewrite Em; left; reflexivity). pose proof (Htag s _ Hin) as E'. cbn [fst] in E'. congruence. }
    rewrite E. cbn [length]. exact IH.
Qed.

(* the messages one buffered event / one independent emission becomes, for one slot *)
Lemma ev_msgs_count e set ev q slot : NoDup (map sc_slot (sv_clients (y_server (e_sys e)))) ->
  (count_seq q (msgs_for slot (ev_msgs e set ev)) <= cq q [sev_seq ev])%nat.
Proof.
  intros Hnd. destruct (N.eqb_spec q (sev_seq ev)) as [->|Hne].
  - unfold cq. cbn [filter]. rewrite N.eqb_refl. cbn [length]. eapply Nat.le_trans; [apply count_seq_le_length|].
    unfold ev_msgs. apply msgs_for_nodup.
    + apply recipients_nodup. exact Hnd.
    + intros s x Hx. destruct (find_client (y_server (e_sys e)) s); [destruct Hx as [<-|[]]; reflexivity|destruct Hx].
    + intros s. destruct (find_client (y_server (e_sys e)) s); cbn; lia.
  - rewrite count_seq_other; [lia|]. intros m Hm. apply in_msgs_for in Hm. apply in_ev_msgs in Hm. destruct Hm as (_ & cl & _ & ->).
    cbn [stamped sm_seq]. congruence.
Qed.

Lemma indep_msgs_count e ev q slot : NoDup (map sc_slot (sv_clients (y_server (e_sys e)))) ->
  (count_seq q (msgs_for slot (indep_msgs e ev)) <= cq q (if independent (sev_ty ev) then [sev_seq ev] else []))%nat.
Proof.
  intros Hnd. unfold indep_msgs. destruct (independent (sev_ty ev)); [|cbn; lia].
  destruct (N.eqb_spec q (sev_seq ev)) as [->|Hne].
  - unfold cq. cbn [filter]. rewrite N.eqb_refl. cbn [length]. eapply Nat.le_trans; [apply count_seq_le_length|].
    replace (map (fun slot0 : N => (slot0, mkSMsg (sev_ty ev) None (sev_seq ev) (sev_ent ev))) (recipients e (sev_mode ev) [] false))
      with (flat_map (fun slot0 : N => [(slot0, mkSMsg (sev_ty ev) None (sev_seq ev) (sev_ent ev))]) (recipients e (sev_mode ev) [] false)).
    2:{ induction (recipients e (sev_mode ev) [] false) as [|s R IH]; [reflexivity|]. cbn [flat_map map app]. rewrite IH. reflexivity. }
    apply msgs_for_nodup.
    + apply recipients_nodup. exact Hnd.
    + intros s x [<-|[]]. reflexivity.
    + intros s. cbn. lia.
  - rewrite count_seq_other; [lia|]. intros m Hm. apply in_msgs_for in Hm. apply in_map_iff in Hm. destruct Hm as (s & E & _). injection E as _ <-.
    cbn [sm_seq]. congruence.
Qed.

(* ---------- one step ---------- *)

Definition phi (q slot : N) (e : syse) (g : lghost) (rest : list estep) : nat :=
  (cq q (buffer_seqs e) + cq q (future_seqs rest) + count_seq q (for_slot slot (lt_sent g)))%nat.

Lemma map_as_flat_map {A B} (f : A -> B) l : map f l = flat_map (fun x => [f x]) l.
Proof. induction l as [|x l IH]; [reflexivity|]. cbn [map flat_map app]. rewrite IH. reflexivity. Qed.

Lemma cq_split_filter {A} q (p : A -> bool) (f : A -> N) l :
  (cq q (flat_map (fun x => if p x then [f x] else []) l) + cq q (map f (filter (fun x => negb (p x)) l)))%nat = cq q (map f l).
Proof.
  induction l as [|x l IH]; [reflexivity|]. cbn [flat_map filter map]. destruct (p x); cbn [negb map app]; rewrite ?cq_app; unfold cq in *; cbn [filter];
    destruct (q =? f x); cbn [length app] in *; lia.
Qed.

Lemma resolved_seqs q e emit : (cq q (map sev_seq (resolved_emits e emit)) <= cq q (map (fun em => snd (fst em)) emit))%nat.
Proof.
  induction emit as [|[[[ty m] sq] ent] emit IH]; [cbn; lia|]. cbn [resolved_emits fold_right map fst snd]. fold (resolved_emits e emit).
  unfold cq in *. cbn [filter]. destruct (resolve_mode e m); cbn [map sev_seq filter]; destruct (q =? sq); cbn [length]; lia.
Qed.

Lemma buffer_seqs_excl (buf : list bset) u :
  flat_map (fun set => map sev_seq (bs_events set)) (map (fun set => mkBSet (bs_events set) (bs_excluded set ++ [u])) buf)
  = flat_map (fun set => map sev_seq (bs_events set)) buf.
Proof. induction buf as [|s buf IH]; [reflexivity|]. cbn [map flat_map bs_events]. rewrite IH. reflexivity. Qed.

Lemma send_buffered_count e q slot : NoDup (map sc_slot (sv_clients (y_server (e_sys e)))) ->
  (count_seq q (msgs_for slot (snd (send_buffered e))) <= cq q (buffer_seqs e))%nat.
Proof.
  intros Hnd. rewrite send_buffered_sent. unfold buffer_seqs. apply count_flat_map. intros set _. unfold set_msgs.
  rewrite (map_as_flat_map sev_seq). apply count_flat_map. intros ev _. apply ev_msgs_count. exact Hnd.
Qed.

Lemma send_or_buffer_count e q slot : NoDup (map sc_slot (sv_clients (y_server (e_sys e)))) ->
  (count_seq q (msgs_for slot (snd (send_or_buffer e))) + cq q (buffer_seqs (fst (send_or_buffer e)))
   <= cq q (buffer_seqs e) + cq q (map sev_seq (e_emitted e)))%nat.
Proof.
  intros Hnd. rewrite send_or_buffer_sent. destruct (send_or_buffer_state e) as (_ & Hb & _). unfold buffer_seqs. rewrite Hb.
  rewrite flat_map_app, cq_app. cbn [flat_map bs_events]. rewrite app_nil_r.
  pose proof (count_flat_map q slot (indep_msgs e) (fun ev => if independent (sev_ty ev) then [sev_seq ev] else []) (emitted_in_order e)
                (fun ev _ => indep_msgs_count e ev q slot Hnd)) as H1.
  pose proof (cq_split_filter q (fun ev => independent (sev_ty ev)) sev_seq (emitted_in_order e)) as H2.
  rewrite (cq_perm q _ _ (Permutation_map sev_seq (emitted_in_order_perm e))) in H2. lia.
Qed.

Lemma phi_step q slot e g st e' o rest :
  NoDup (map sc_slot (sv_clients (y_server (e_sys e')))) -> clients_dom e ->
  syse_step e st = Ok (e', o) -> (phi q slot e' (lstep e g st e' o) rest <= phi q slot e g (st :: rest))%nat.
Proof.
  intros Hnd Hdom H. unfold phi, future_seqs. cbn [flat_map]. rewrite cq_app.
  destruct st as [b|tick dt cleanup ops parts emit|sl ops emit|sl ty w drop|sl ty w]; cbn [emit_seqs].
  - destruct (ebase_unfold _ _ _ _ H) as (_ & _ & _ & _ & _ & _ & Hl).
    assert (Hb : buffer_seqs e' = buffer_seqs e).
    { unfold buffer_seqs. destruct b; try (destruct Hl as (_ & _ & _ & _ & _ & -> & _); reflexivity).
      destruct Hl as (_ & _ & _ & _ & Hl). destruct (find_client (y_server (e_sys e)) slot0); [destruct Hl as (_ & _ & ->); reflexivity|].
      destruct (find_client (y_server (e_sys e')) slot0); destruct Hl as (_ & _ & ->); [apply buffer_seqs_excl|reflexivity]. }
    assert (Hs : lt_sent (lstep e g (EBase b) e' o) = lt_sent g).
    { cbn [lstep]. destruct b; try reflexivity. destruct (find_client (y_server (e_sys e)) slot0); reflexivity. }
    rewrite Hb, Hs. cbn. lia.
  - destruct (sframe_unfold _ _ _ _ _ _ _ _ _ H) as (y' & ob & _ & Hy & _ & _ & _ & _ & Hrest).
    cbn [lstep lt_sent]. rewrite for_slot_app, count_seq_app, (for_slot_msgs slot (eo_sent o)).
    destruct (sv_running (y_server (e_sys e))).
    + cbv zeta in Hrest. destruct Hrest as [_ Hrest]. set (e1 := sframe_mid e y' emit) in *.
      assert (Hnd1 : NoDup (map sc_slot (sv_clients (y_server (e_sys e1))))) by (unfold e1; cbn [sframe_mid e_sys]; rewrite <- Hy; exact Hnd).
      assert (Hnd2 : NoDup (map sc_slot (sv_clients (y_server (e_sys (fst (send_or_buffer e1))))))).
      { destruct (send_or_buffer_state e1) as (_ & _ & -> & _). exact Hnd1. }
      pose proof (send_or_buffer_count e1 q slot Hnd1) as H1. pose proof (resolved_seqs q e emit) as H0.
      change (e_emitted e1) with (resolved_emits e emit) in H1. change (buffer_seqs e1) with (buffer_seqs e) in H1.
      destruct (out_ran ob).
      * destruct Hrest as (Hsent & _ & Hb). rewrite Hsent, msgs_for_app, count_seq_app. unfold buffer_seqs at 1. rewrite Hb. cbn [flat_map cq filter length].
        pose proof (send_buffered_count (fst (send_or_buffer e1)) q slot Hnd2) as H2. lia.
      * destruct Hrest as (Hsent & _ & Hb). rewrite Hsent. unfold buffer_seqs at 1. rewrite Hb. fold (buffer_seqs (fst (send_or_buffer e1))). lia.
    + destruct Hrest as (Hsent & _ & _ & Hb). rewrite Hsent. cbn [msgs_for filter map count_seq length]. unfold buffer_seqs at 1. rewrite Hb.
      destruct (sv_last_running (y_server (e_sys e))); [cbn [flat_map cq filter length]; lia|fold (buffer_seqs e); lia].
  - destruct (cframe_unfold _ _ _ _ _ _ Hdom H) as (_ & _ & _ & Hb & _).
    assert (Hs : lt_sent (lstep e g (ECFrame sl ops emit) e' o) = lt_sent g).
    { cbn [lstep]. destruct (al_get sl (y_clients (e_sys e))) as [cb|]; [|reflexivity]. destruct (al_get sl (e_clients e)); [|reflexivity].
      destruct (al_get sl (y_clients (e_sys e'))); [|reflexivity]. destruct (cl_status cb); reflexivity. }
    unfold buffer_seqs. rewrite Hb, Hs. cbn. lia.
  - destruct (deliver_s2c_step _ _ _ _ _ _ _ H) as (picked & rest0 & _ & _ & _ & _ & _ & _ & _ & _ & _ & _ & Hb & _).
    assert (Hs : lt_sent (lstep e g (EDeliverS2C sl ty w drop) e' o) = lt_sent g).
    { cbn [lstep]. destruct drop; [reflexivity|]. destruct (client_connected e sl); reflexivity. }
    unfold buffer_seqs. rewrite Hb, Hs. cbn. lia.
  - unfold syse_step in H. destruct (take_typed _ w _) as [picked rest0]. injection H as <- _.
    unfold buffer_seqs. cbn [e_buffer lstep]. cbn [cq filter length]. lia.
Qed.

(* ---------- the run ---------- *)

Lemma lt_sent_grows e g st e' o : exists ext, lt_sent (lstep e g st e' o) = lt_sent g ++ ext.
Proof.
  destruct st as [b|tick dt cleanup ops parts emit|sl ops emit|sl ty w drop|sl ty w]; cbn [lstep].
  - exists []. rewrite app_nil_r. destruct b; try reflexivity. destruct (find_client (y_server (e_sys e)) slot); reflexivity.
  - exists (eo_sent o). reflexivity.
  - exists []. rewrite app_nil_r. destruct (al_get sl (y_clients (e_sys e))) as [cb|]; [|reflexivity]. destruct (al_get sl (e_clients e)); [|reflexivity].
    destruct (al_get sl (y_clients (e_sys e'))); [|reflexivity]. destruct (cl_status cb); reflexivity.
  - exists []. rewrite app_nil_r. destruct drop; [reflexivity|]. destruct (client_connected e sl); reflexivity.
  - exists []. rewrite app_nil_r. reflexivity.
Qed.

Lemma lrun_sent_grows rest : forall e g e' g' os, lrun e g rest = Ok (e', g', os) -> exists ext, lt_sent g' = lt_sent g ++ ext.
Proof.
  induction rest as [|st rest IH]; intros e g e' g' os H; unfold lrun in *; cbn [grun] in H.
  - inversion H; subst. exists []. rewrite app_nil_r. reflexivity.
  - destruct (syse_step e st) as [[e1 o]| |]; cbn [bind] in H; try discriminate.
    destruct (grun lstep e1 (lstep e g st e1 o) rest) as [[[e2 g2] os2]| |] eqn:E; cbn [bind] in H; try discriminate. inversion H; subst.
    destruct (IH _ _ _ _ _ E) as [ext2 E2]. destruct (lt_sent_grows e g st e1 o) as [ext1 E1]. exists (ext1 ++ ext2). rewrite E2, E1, <- app_assoc. reflexivity.
Qed.

Section ONCE.
  Variables (cfg0 : cfg) (nclients : N).

  Lemma lrun_snoc script st e1 g1 os1 e o :
    lrun (syse_init cfg0 nclients) lg_init script = Ok (e1, g1, os1) -> syse_step e1 st = Ok (e, o) ->
    lrun (syse_init cfg0 nclients) lg_init (script ++ [st]) = Ok (e, lstep e1 g1 st e o, os1 ++ [o]).
  Proof. intros H1 Hs. unfold lrun in *. rewrite grun_app, H1. cbn [bind grun]. rewrite Hs. reflexivity. Qed.

  Theorem phi_mono rest q slot : forall pre e g os e' g' os',
    escript_ok (pre ++ rest) = true -> tick_frames (proj_script (pre ++ rest)) < 2 ^ 31 ->
    lrun (syse_init cfg0 nclients) lg_init pre = Ok (e, g, os) -> lrun e g rest = Ok (e', g', os') ->
    (phi q slot e' g' [] <= phi q slot e g rest)%nat.
  Proof.
    induction rest as [|st rest IH]; intros pre e g os e' g' os' Hok Hb H1 H2.
    - cbn in H2. inversion H2; subst. lia.
    - unfold lrun in H2. cbn [grun] in H2. destruct (syse_step e st) as [[e1 o]| |] eqn:Est; cbn [bind] in H2; try discriminate.
      destruct (grun lstep e1 (lstep e g st e1 o) rest) as [[[e2 g2] os2]| |] eqn:Er; cbn [bind] in H2; try discriminate.
      inversion H2; subst e2 g2 os'. clear H2.
      assert (Eapp : pre ++ st :: rest = (pre ++ [st]) ++ rest) by (rewrite <- app_assoc; reflexivity). rewrite Eapp in Hok, Hb.
      pose proof (lrun_snoc _ _ _ _ _ _ _ H1 Est) as H1'.
      pose proof (escript_ok_app _ _ Hok) as Hok1.
      assert (Hb1 : tick_frames (proj_script (pre ++ [st])) < 2 ^ 31).
      { pose proof (tick_frames_app_le (proj_script (pre ++ [st])) (proj_script rest)). rewrite proj_script_app in Hb. lia. }
      destruct (finv_of_erun cfg0 nclients _ _ _ Hok1 Hb1 (grun_erun _ _ _ _ _ _ _ _ H1')) as (gs & _ & Hf).
      pose proof (gv_slots _ (fi_ginv _ _ _ _ _ Hf)) as Hnd. cbn [g_srv] in Hnd.
      pose proof (erun_init_dom _ _ _ _ _ (grun_erun _ _ _ _ _ _ _ _ H1)) as Hdom.
      pose proof (phi_step q slot e g st e1 o rest Hnd Hdom Est) as P1.
      pose proof (IH (pre ++ [st]) e1 _ _ e' g' os2 Hok Hb H1' Er) as P2. lia.
  Qed.

  (* with distinct sequence numbers: an event is handed to the backend at most once for each slot, in the whole run *)
  Theorem e2_sent_once script e g os q slot :
    escript_ok script = true -> tick_frames (proj_script script) < 2 ^ 31 -> seqs_distinct script ->
    lrun (syse_init cfg0 nclients) lg_init script = Ok (e, g, os) ->
    (count_seq q (for_slot slot (lt_sent g)) <= 1)%nat.
  Proof.
    intros Hok Hb Hd H. pose proof (phi_mono script q slot [] _ _ _ e g os Hok Hb eq_refl H) as P. unfold phi in P.
    cbn [lg_init lt_sent for_slot filter map count_seq length] in P. unfold buffer_seqs in P. cbn [syse_init e_buffer flat_map cq filter length] in P.
    pose proof (cq_nodup q _ Hd). unfold future_seqs in *. cbn [flat_map cq filter length] in P. lia.
  Qed.

  (* nothing is sent again: once an event is neither buffered nor among the emissions still to come, the number of its
     messages handed to the backend for a slot is final *)
  Theorem e2_not_resent pre rest e g os e' g' os' q slot :
    escript_ok (pre ++ rest) = true -> tick_frames (proj_script (pre ++ rest)) < 2 ^ 31 ->
    lrun (syse_init cfg0 nclients) lg_init pre = Ok (e, g, os) -> lrun e g rest = Ok (e', g', os') ->
    cq q (buffer_seqs e) = 0%nat -> cq q (future_seqs rest) = 0%nat ->
    count_seq q (for_slot slot (lt_sent g')) = count_seq q (for_slot slot (lt_sent g)).
  Proof.
    intros Hok Hb H1 H2 Hq1 Hq2. pose proof (phi_mono rest q slot pre e g os e' g' os' Hok Hb H1 H2) as P. unfold phi in P.
    destruct (lrun_sent_grows _ _ _ _ _ _ H2) as [ext E]. rewrite E, for_slot_app, count_seq_app in *.
    unfold future_seqs in *. cbn [flat_map cq filter length] in P. lia.
  Qed.
End ONCE.
