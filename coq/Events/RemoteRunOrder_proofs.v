(* E3 (order) and the attribution half of E2, over whole runs: the invariant `oinv` relates, for every live connection,
   the session ledger of the event layer (`ssent`: handed to the backend for the slot since its connect, `snow`: handed
   to the conversion step of the client) to what the connection holds.  Both ghosts are threaded (`crun`). *)
From Coq Require Import ZifyBool ZifyN Permutation Sorted.
From RV Require Import Lib.Res Repl.ClientTicks Repl.ClientTicks_proofs Repl.World Vis.Visibility Repl.Server Repl.ServerSpec
  Repl.Client Repl.Sys Tick.RepliconTick Tick.RepliconTick_proofs
  Repl.StructSpec Repl.StructVisSpec Repl.Client_proofs Repl.ClientSys_proofs Repl.Session_proofs
  Repl.ClientStructSpec Repl.ClientStruct_proofs
  Repl.StructE2E_proofs Repl.StructE2EMut_proofs Repl.StructE2EVis_proofs Repl.StructE2ESess_proofs Repl.ValSpec.
From RV Require Import Events.Remote Events.RemoteSpec Events.Remote_proofs Events.RemoteRun Events.RemoteRunProj_proofs
  Events.RemoteRunTick_proofs Events.RemoteRunE1_proofs Events.RemoteRunLedger_proofs Events.RemoteRunQueue_proofs.
Ltac Zify.zify_post_hook ::= Z.div_mod_to_equations.
Arguments N.add : simpl never. Arguments N.mul : simpl never. Arguments N.pow : simpl never.
Arguments N.ltb : simpl never. Arguments N.leb : simpl never. Arguments N.div : simpl never.
Arguments N.modulo : simpl never. Arguments N.sub : simpl never. Arguments N.eqb : simpl never.
Open Scope N_scope.

(* ---------- the run with both ghosts ---------- *)

Lemma crun_split script : forall e gu gl e' gu' gl' os,
  crun e (gu, gl) script = Ok (e', (gu', gl'), os) ->
  urun e gu script = Ok (e', gu', os) /\ lrun e gl script = Ok (e', gl', os).
Proof.
  induction script as [|st t IH]; intros e gu gl e' gu' gl' os H; unfold crun, urun, lrun in *; cbn [grun] in *.
  - inversion H; subst. auto.
  - destruct (syse_step e st) as [[e1 o]| |]; cbn [bind] in *; try discriminate.
    destruct (grun cstep e1 (cstep e (gu, gl) st e1 o) t) as [[[e2 [gu2 gl2]] os2]| |] eqn:E; cbn [bind] in *; try discriminate.
    inversion H; subst. unfold cstep in E. cbn [fst snd] in E. destruct (IH _ _ _ _ _ _ _ E) as [A B]. rewrite A, B. auto.
Qed.

Lemma crun_exists script : forall e gu gl e' os,
  RemoteSpec.erun e script = Ok (e', os) -> exists gu' gl', crun e (gu, gl) script = Ok (e', (gu', gl'), os).
Proof.
  intros e gu gl e' os H. destruct (erun_grun _ cstep script e (gu, gl) e' os H) as [[gu' gl'] Hg]. exists gu', gl'. exact Hg.
Qed.

(* ---------- channel deliveries and the other types ---------- *)

Lemma remove_first_other {A} (is_ty p : A -> bool) : (forall x, is_ty x = true -> p x = false) ->
  forall l b, filter p (remove_first is_ty l b) = filter p l.
Proof.
  intros Hd. induction l as [|x l IH]; intros b; [reflexivity|]. cbn [remove_first].
  destruct (is_ty x && negb b) eqn:E.
  - apply andb_prop in E. destruct E as [E _]. cbn [filter]. rewrite (Hd x E). apply IH.
  - cbn [filter]. rewrite IH. reflexivity.
Qed.

Lemma take_typed_other {A} (is_ty p : A -> bool) w q picked rest :
  take_typed is_ty w q = (picked, rest) -> (forall x, is_ty x = true -> p x = false) ->
  filter p rest = filter p q /\ filter p picked = [].
Proof.
  intros H Hd. split.
  - rewrite take_typed_unfold in H. injection H as _ <-. destruct w.
    + apply remove_first_other. exact Hd.
    + rewrite filter_rev, remove_first_other by exact Hd. rewrite filter_rev, rev_involutive. reflexivity.
    + rewrite filter_filter_comm. apply filter_all_true. intros x Hx. apply filter_In in Hx. destruct Hx as [_ Hx].
      destruct (is_ty x) eqn:E; [rewrite (Hd x E) in Hx; discriminate|reflexivity].
  - apply filter_all_false. intros x Hx. apply Hd. exact (proj2 (take_typed_picked _ _ _ _ _ H x Hx)).
Qed.

(* ---------- the invariant ---------- *)

Definition live_q (e : syse) (slot : N) (c : client) : list smsg :=
  if cl_last_connected c then map snd (queue_of e slot) else [].

Record ord_conn (e : syse) (gu : ughost) (gl : lghost) (slot : N) (c : client) : Prop := mkOrdConn {
  oc_mem : forall m, In m (held_msgs e slot c) -> In m (ssent gl slot);
  oc_stamp : forall m tk, In m (ssent gl slot) -> sm_tick m = Some tk -> tk = 0 \/ In tk (map u_tick (usent gu slot));
  oc_ok : forall m, In m (ssent gl slot) -> msg_ok m;
  oc_mono : forall t, nondecr (map skey (filter (tyf t) (ssent gl slot)));
  oc_fifo : forall t, reliable_ty t = true ->
            filter (tyf t) (snow gl slot) ++ filter (tyf t) (live_q e slot c) ++ filter (tyf t) (inbox_of e slot)
            ++ filter (tyf t) (chan_s2c e slot) = filter (tyf t) (ssent gl slot);
  oc_sorted : cl_last_connected c = true -> qsorted (queue_of e slot);
  oc_now : forall m, In m (snow gl slot) -> In m (ssent gl slot)
}.

Definition oinv (script : list estep) (e : syse) (gu : ughost) (gl : lghost) : Prop :=
  forall slot c, al_get slot (y_clients (e_sys e)) = Some c -> emode script slot = MLive -> cl_status c = Connected ->
    ord_conn e gu gl slot c.

(* the slot is not touched by the step (its list of update messages may grow) *)
Lemma ord_conn_same e gu gl e' gu' gl' slot c c' :
  ord_conn e gu gl slot c ->
  cl_last_connected c' = cl_last_connected c ->
  chan_s2c e' slot = chan_s2c e slot -> al_get slot (e_clients e') = al_get slot (e_clients e) ->
  ssent gl' slot = ssent gl slot -> snow gl' slot = snow gl slot ->
  (forall tk, In tk (map u_tick (usent gu slot)) -> In tk (map u_tick (usent gu' slot))) ->
  ord_conn e' gu' gl' slot c'.
Proof.
  intros [O1 O2 O3 O4 O5 O6 O7] Elc Ech Ece Ess Esn Hus.
  assert (Hin : inbox_of e' slot = inbox_of e slot) by (unfold inbox_of; rewrite Ece; reflexivity).
  assert (Hq : queue_of e' slot = queue_of e slot) by (unfold queue_of; rewrite Ece; reflexivity).
  constructor; unfold held_msgs, live_q in *; rewrite ?Ess, ?Esn, ?Ech, ?Hin, ?Hq, ?Elc; auto.
  intros m tk Hm Htk. destruct (O2 m tk Hm Htk) as [Z|Z]; auto.
Qed.

(* ---------- helpers ---------- *)

Lemma nondecr_const (l : list N) x : (forall y, In y l -> y = x) -> nondecr l.
Proof.
  induction l as [|a l IH]; intros H; [constructor|]. constructor; [apply IH; intros y Hy; apply H; right; exact Hy|].
  apply Forall_forall. intros y Hy. rewrite (H a (or_introl eq_refl)), (H y (or_intror Hy)). lia.
Qed.

Lemma nondecr_middle (a b c d : list N) : nondecr (a ++ b ++ c ++ d) -> nondecr (b ++ c).
Proof.
  intros H. destruct (nondecr_app_inv _ _ H) as (_ & H1 & _). rewrite app_assoc in H1. exact (proj1 (nondecr_app_inv _ _ H1)).
Qed.

Lemma last_tick_le_app a b : StronglySorted N.lt (map u_tick (a ++ b)) -> last_tick a <= last_tick (a ++ b).
Proof.
  intros Hs. destruct a as [|x a'] eqn:Ea; [cbn; lia|]. rewrite <- Ea in *. assert (Hne : a <> []) by (rewrite Ea; discriminate).
  unfold last_tick at 2. apply sorted_le_last; [exact Hs|]. rewrite map_app. apply in_or_app. left. exact (last_tick_in a Hne).
Qed.

(* a channel delivery only moves messages: nothing new is held *)
Lemma held_deliver_sub e slot ty w drop e' o : syse_step e (EDeliverS2C slot ty w drop) = Ok (e', o) ->
  forall c m, In m (held_msgs e' slot c) -> In m (held_msgs e slot c).
Proof.
  intros H c m. destruct (deliver_s2c_step _ _ _ _ _ _ _ H) as (picked & rest & Htk & Hch & _ & _ & Hce & Hnone & _).
  destruct (take_typed_perm _ _ _ _ _ Htk) as [Hperm _].
  unfold held_msgs. rewrite Hch. unfold inbox_of, queue_of. destruct (al_get slot (e_clients e)) as [ce|] eqn:Ec.
  - rewrite (Hce ce eq_refl).
    assert (Hq : ce_queue (if drop || negb (client_connected e slot) then ce else mkCE (ce_queue ce) (ce_inbox ce ++ picked) (ce_emitted ce)) = ce_queue ce)
      by (destruct (drop || negb (client_connected e slot)); reflexivity).
    rewrite Hq. intros Hm. rewrite app_assoc in Hm. rewrite app_assoc. apply in_app_or in Hm. apply in_or_app.
    destruct Hm as [Hm|Hm]; [left|right; exact Hm]. apply in_app_or in Hm. apply in_or_app. destruct Hm as [Hm|Hm].
    + left. apply (Permutation_in _ (Permutation_sym Hperm)). apply in_or_app. right. exact Hm.
    + destruct (drop || negb (client_connected e slot)); [right; exact Hm|]. cbn [ce_inbox] in Hm.
      apply in_app_or in Hm. destruct Hm as [Hm|Hm]; [right; exact Hm|].
      left. apply (Permutation_in _ (Permutation_sym Hperm)). apply in_or_app. left. exact Hm.
  - rewrite (Hnone eq_refl), Ec. cbn [app]. intros Hm. apply in_app_or in Hm. apply in_or_app.
    destruct Hm as [Hm|Hm]; [left|right; exact Hm]. apply (Permutation_in _ (Permutation_sym Hperm)). apply in_or_app. right. exact Hm.
Qed.

(* stamps of a live connection's session ledger are small *)
Lemma ord_stamps_small s slot lupd held sent applied c e gu gl :
  sv_tick s < 2 ^ 31 -> live_conn s slot lupd held sent applied c -> sent = usent gu slot -> ord_conn e gu gl slot c ->
  forall m tk, In m (ssent gl slot) -> sm_tick m = Some tk -> tk < 2 ^ 31.
Proof.
  intros Hs L -> O m tk Hm Htk. destruct (live_ticks_small _ _ _ _ _ _ _ Hs L) as [A _]. apply A. exact (oc_stamp _ _ _ _ _ O m tk Hm Htk).
Qed.

(* ---------- channel deliveries ---------- *)

Lemma lstep_s2c_session e gl slot ty w drop e' o sl :
  ssent (lstep e gl (EDeliverS2C slot ty w drop) e' o) sl = ssent gl sl /\
  snow (lstep e gl (EDeliverS2C slot ty w drop) e' o) sl = snow gl sl.
Proof. unfold ssent, snow. cbn [lstep]. destruct drop; [|destruct (client_connected e slot)]; split; reflexivity. Qed.

Lemma oinv_deliver_s2c script e gu gl slot ty w drop e' o :
  let st := EDeliverS2C slot ty w drop in
  oinv script e gu gl -> clients_dom e -> legal_estep st = true ->
  syse_step e st = Ok (e', o) -> oinv (script ++ [st]) e' (ustep e gu st e' o) (lstep e gl st e' o).
Proof.
  intros st HO Hdom Hleg H sl c Hc Hm Hs. subst st.
  destruct (deliver_s2c_step _ _ _ _ _ _ _ H) as (picked & rest & Htk & Hch & Hcho & Hceo & Hce & Hnone & Hsys & _).
  change (ustep e gu (EDeliverS2C slot ty w drop) e' o) with gu.
  destruct (lstep_s2c_session e gl slot ty w drop e' o sl) as [Ess Esn].
  rewrite Hsys in Hc. rewrite emode_snoc_none in Hm by reflexivity. pose proof (HO sl c Hc Hm Hs) as O.
  destruct (N.eq_dec sl slot) as [->|Hne].
  2:{ apply (ord_conn_same e gu gl e' gu _ sl c c O); auto. }
  destruct O as [O1 O2 O3 O4 O5 O6 O7].
  assert (Hconn : client_connected e slot = true) by (unfold client_connected; rewrite Hc, Hs; reflexivity).
  destruct (al_get slot (e_clients e)) as [ce|] eqn:Ece.
  2:{ exfalso. rewrite (Hdom slot Ece) in Hc. discriminate. }
  pose proof (Hce ce eq_refl) as Hce'. rewrite Hconn in Hce'. cbn [negb] in Hce'. rewrite orb_false_r in Hce'.
  assert (Hq : queue_of e' slot = queue_of e slot).
  { unfold queue_of. rewrite Hce', Ece. destruct drop; reflexivity. }
  constructor; rewrite ?Ess, ?Esn; auto.
  - intros m Hm'. apply O1. exact (held_deliver_sub _ _ _ _ _ _ _ H c m Hm').
  - intros t Ht. rewrite <- (O5 t Ht). f_equal. unfold live_q. rewrite Hq. f_equal.
    unfold inbox_of. rewrite Hce', Ece, Hch. rewrite <- !filter_app.
    destruct (sety_eqb ty SEU) eqn:Eseu.
    + (* the unreliable type: the other streams are not touched *)
      apply sety_eqb_eq in Eseu. subst ty.
      destruct (take_typed_other _ (tyf t) _ _ _ _ Htk) as [A B].
      { intros x Hx. apply sety_eqb_eq in Hx. unfold tyf. rewrite Hx. destruct t; try reflexivity. discriminate. }
      rewrite !filter_app, A. destruct drop; cbn [ce_inbox]; [reflexivity|]. rewrite filter_app, B, app_nil_r. reflexivity.
    + assert (Hty : ty <> SEU) by (apply sety_eqb_neq; exact Eseu).
      assert (Hd : drop = false) by (cbn [legal_estep] in Hleg; destruct ty; try congruence; (destruct drop; [discriminate|reflexivity])).
      subst drop. destruct (deliver_s2c_fifo _ _ _ _ _ _ _ ce H Hleg Hty Ece Hconn) as (ce2 & Hce2 & _ & _ & Hf).
      rewrite Hce' in Hce2. injection Hce2 as <-. cbn [ce_inbox] in *. rewrite Hch in Hf. exact (Hf t).
  - rewrite Hq. exact O6.
Qed.

Lemma oinv_deliver_c2s script e gu gl slot ty w e' o :
  let st := EDeliverC2S slot ty w in
  oinv script e gu gl -> syse_step e st = Ok (e', o) -> oinv (script ++ [st]) e' (ustep e gu st e' o) (lstep e gl st e' o).
Proof.
  intros st HO H sl c Hc Hm Hs. subst st. unfold syse_step in H. destruct (take_typed _ w _) as [picked rest]. injection H as <- _.
  cbn [e_sys] in Hc. rewrite emode_snoc_none in Hm by reflexivity.
  apply (ord_conn_same e gu gl _ gu _ sl c c (HO sl c Hc Hm Hs)); auto.
Qed.

(* ---------- a client frame ---------- *)

Lemma lstep_cframe_other e gl slot ops emit e' o sl : sl <> slot ->
  ssent (lstep e gl (ECFrame slot ops emit) e' o) sl = ssent gl sl /\
  snow (lstep e gl (ECFrame slot ops emit) e' o) sl = snow gl sl.
Proof.
  intros Hne. unfold ssent, snow. cbn [lstep].
  destruct (al_get slot (y_clients (e_sys e))) as [cb|]; [|auto]. destruct (al_get slot (e_clients e)) as [ce|]; [|auto].
  destruct (al_get slot (y_clients (e_sys e'))) as [cl|]; [|auto]. destruct (cl_status cb); [auto|]. cbn [lg_sent lg_now].
  split; [reflexivity|]. rewrite for_slot_app, for_slot_tag. destruct (N.eqb_spec slot sl) as [->|_]; [congruence|]. apply app_nil_r.
Qed.

Lemma ustep_cframe_usent e gu slot ops emit e' o sl : usent (ustep e gu (ECFrame slot ops emit) e' o) sl = usent gu sl.
Proof.
  change (ustep e gu (ECFrame slot ops emit) e' o) with (ustep_base (e_sys e) gu (StCFrame slot ops) (eo_base o)). cbn [ustep_base].
  destruct (al_get slot (y_clients (e_sys e))) as [c|]; [|reflexivity]. destruct (cl_status c); reflexivity.
Qed.

Lemma oinv_cframe script e gu gl slot ops emit e' o :
  let st := ECFrame slot ops emit in
  oinv script e gu gl -> clients_dom e -> RemoteSpec.inv e ->
  tinv script e gu -> tinv (script ++ [st]) e' (ustep e gu st e' o) ->
  sv_tick (y_server (e_sys e)) < 2 ^ 31 -> sv_tick (y_server (e_sys e')) < 2 ^ 31 ->
  syse_step e st = Ok (e', o) -> oinv (script ++ [st]) e' (ustep e gu st e' o) (lstep e gl st e' o).
Proof.
  intros st HO Hdom Hinv [_ _ Tb] [_ _ Ta] Hsb Hsa H sl c Hc Hm Hs. subst st.
  destruct (cframe_unfold _ _ _ _ _ _ Hdom H) as (Hsys & Hq & _ & _ & _ & _ & _ & _ & Hceo & _ & Hcase).
  assert (Hchan : forall s, chan_s2c e' s = chan_s2c e s) by (intros s; unfold chan_s2c; rewrite Hq; reflexivity).
  pose proof Hm as Hm0. rewrite (emode_snoc_one _ _ (StCFrame slot ops)) in Hm by reflexivity.
  destruct (N.eq_dec sl slot) as [->|Hne].
  2:{ destruct (step_other _ _ _ _ sl Hsys eq_refl) as (A & _); [discriminate|cbn; congruence|].
      rewrite mode_step_other in Hm by (cbn; congruence || discriminate). rewrite A in Hc.
      destruct (lstep_cframe_other e gl slot ops emit e' o sl Hne) as [Ess Esn].
      apply (ord_conn_same e gu gl e' _ _ sl c c (HO sl c Hc Hm Hs)); auto.
      intros tk. rewrite ustep_cframe_usent. auto. }
  cbn [mode_step] in Hm. rewrite N.eqb_refl in Hm.
  assert (Hmb : emode script slot = MLive) by (destruct (emode script slot); try discriminate; reflexivity).
  destruct (al_get slot (y_clients (e_sys e))) as [cb|] eqn:Hcb.
  2:{ destruct Hcase as (-> & _). congruence. }
  destruct Hcase as (ce & cl & Hce & Hcl & (out & Hfr) & Hcase). rewrite Hcl in Hc. injection Hc as <-.
  destruct (client_frame_fields _ _ _ _ Hfr) as (Fst & Flc & _).
  assert (Hsb' : cl_status cb = Connected) by congruence. rewrite Hsb' in Hcase, Flc. cbv zeta in Hcase. destruct Hcase as (Hce' & _).
  pose proof (HO slot cb Hcb Hmb Hsb') as [O1 O2 O3 O4 O5 O6 O7].
  destruct (Tb slot cb Hcb) as [_ Lb]. specialize (Lb Hmb Hsb').
  destruct (Ta slot cl Hcl) as [_ La]. specialize (La Hm0 Hs).
  destruct (live_ticks_small _ _ _ _ _ _ _ Hsb Lb) as [Smb _]. destruct (live_ticks_small _ _ _ _ _ _ _ Hsa La) as [_ Supd].
  destruct Hinv as (_ & _ & _ & Hwf). pose proof (proj1 (Hwf _ _ Hce)) as Hwfq.
  set (ce0 := if negb (cl_last_connected cb) then mkCE [] (ce_inbox ce) [] else ce) in *.
  (* what the frame starts from *)
  assert (Hheld_small : forall m tk, In m (held_msgs e slot cb) -> sm_tick m = Some tk -> tk < 2 ^ 31).
  { intros m tk Hm' Htk. apply Smb. exact (O2 m tk (O1 m Hm') Htk). }
  assert (Hinb : forall m, In m (ce_inbox ce0) -> In m (held_msgs e slot cb)).
  { intros m Hm'. assert (In m (ce_inbox ce)) by (unfold ce0 in Hm'; destruct (negb (cl_last_connected cb)); exact Hm').
    unfold held_msgs, inbox_of. rewrite Hce. apply in_or_app. right. apply in_or_app. left. assumption. }
  assert (Hq0 : map snd (ce_queue ce0) = live_q e slot cb).
  { unfold ce0, live_q, queue_of. rewrite Hce. destruct (cl_last_connected cb); reflexivity. }
  assert (Hqin : forall q, In q (ce_queue ce0) -> In q (ce_queue ce) /\ cl_last_connected cb = true).
  { intros q Hq'. unfold ce0 in Hq'. destruct (cl_last_connected cb); cbn [negb] in Hq'; [auto|destruct Hq']. }
  assert (Hwf0 : queue_wf (ce_queue ce0)) by (intros ty tk m Hq'; apply Hwfq; exact (proj1 (Hqin _ Hq'))).
  assert (Hs0 : qsorted (ce_queue ce0)).
  { unfold ce0. destruct (cl_last_connected cb) eqn:Elc; cbn [negb]; [|constructor]. specialize (O6 eq_refl). unfold queue_of in O6. rewrite Hce in O6. exact O6. }
  assert (Hsm0 : qsmall (ce_queue ce0)).
  { intros [[ty tk] m] Hq'. destruct (Hqin _ Hq') as [Hq2 Elc]. destruct (Hwfq _ _ _ Hq2) as [_ Etk]. cbn [qkey fst snd].
    apply (Hheld_small m tk); [|exact Etk]. unfold held_msgs, queue_of. rewrite Hce, Elc. apply in_or_app. right. apply in_or_app. right.
    apply in_map_iff. exists (ty, tk, m). auto. }
  assert (Hin0 : forall m tk, In m (ce_inbox ce0) -> sm_tick m = Some tk -> tk < 2 ^ 31).
  { intros m tk Hm' Htk. exact (Hheld_small m tk (Hinb m Hm') Htk). }
  destruct (frame_order cl ce0 Hwf0 Hs0 Hsm0 Supd Hin0) as (Hord & _ & Hs' & _).
  (* the ghosts after the frame *)
  assert (Ess : ssent (lstep e gl (ECFrame slot ops emit) e' o) slot = ssent gl slot).
  { unfold ssent. cbn [lstep]. rewrite Hcb, Hce, Hcl, Hsb'. reflexivity. }
  assert (Esn : snow (lstep e gl (ECFrame slot ops emit) e' o) slot = snow gl slot ++ frame_now cl ce0).
  { unfold snow. cbn [lstep]. rewrite Hcb, Hce, Hcl, Hsb'. cbn [lg_now]. rewrite for_slot_app, for_slot_tag, N.eqb_refl. reflexivity. }
  assert (Hq' : queue_of e' slot = ce_queue (fst (client_receive cl ce0))) by (unfold queue_of; rewrite Hce'; reflexivity).
  assert (Hi' : inbox_of e' slot = []) by (unfold inbox_of; rewrite Hce'; cbn [ce_inbox]; apply client_receive_inbox_nil).
  constructor; rewrite ?Ess.
  - intros m Hm'. apply O1. revert Hm'. unfold held_msgs at 1. rewrite Hchan, Hi', Hq', Flc. cbn [app]. intros Hm'.
    apply in_app_or in Hm'. destruct Hm' as [Hm'|Hm']; [unfold held_msgs; apply in_or_app; left; exact Hm'|].
    apply in_map_iff in Hm'. destruct Hm' as (q & <- & Hqq). apply client_receive_queue_from in Hqq. destruct Hqq as [Hqq|Hqq].
    + destruct (Hqin _ Hqq) as [Hq2 Elc]. unfold held_msgs, queue_of. rewrite Hce, Elc. apply in_or_app. right. apply in_or_app. right. apply in_map. exact Hq2.
    + exact (Hinb _ Hqq).
  - intros m tk Hm' Htk. rewrite ustep_cframe_usent. exact (O2 m tk Hm' Htk).
  - exact O3.
  - exact O4.
  - intros t Ht. rewrite Esn, filter_app. unfold live_q. rewrite Flc, Hq', Hi', Hchan. cbn [filter app].
    assert (Hok : stream_ok t ce0).
    { unfold stream_ok. rewrite Hq0. specialize (O4 t). rewrite <- (O5 t Ht), !map_app in O4. rewrite map_app.
      assert (Hsub : forall m, In m (ce_inbox ce0) <-> In m (ce_inbox ce)) by (intros m; unfold ce0; destruct (negb (cl_last_connected cb)); reflexivity).
      assert (Ei : filter (tyf t) (ce_inbox ce0) = filter (tyf t) (inbox_of e slot)).
      { unfold inbox_of, ce0. rewrite Hce. destruct (negb (cl_last_connected cb)); reflexivity. }
      rewrite Ei. exact (nondecr_middle _ _ _ _ O4). }
    rewrite <- app_assoc, (app_assoc (filter (tyf t) (frame_now cl ce0))), (Hord t Hok), Hq0, <- (O5 t Ht).
    assert (Ei : filter (tyf t) (ce_inbox ce0) = filter (tyf t) (inbox_of e slot)).
    { unfold inbox_of, ce0. rewrite Hce. destruct (negb (cl_last_connected cb)); reflexivity. }
    rewrite Ei, <- !app_assoc. reflexivity.
  - intros _. rewrite Hq'. exact Hs'.
  - rewrite Esn. intros m Hm'. apply in_app_or in Hm'. destruct Hm' as [Hm'|Hm']; [exact (O7 m Hm')|]. apply O1.
    destruct (frame_now_spec cl ce0) as [_ Hperm].
    assert (Hin' : In m (map snd (ce_queue ce0) ++ ce_inbox ce0)).
    { apply (Permutation_in _ (Permutation_sym Hperm)). apply in_or_app. left. exact Hm'. }
    apply in_app_or in Hin'. destruct Hin' as [X|X]; [|exact (Hinb m X)].
    rewrite Hq0 in X. unfold held_msgs. apply in_or_app. right. apply in_or_app. right. exact X.
Qed.

(* ---------- a server frame ---------- *)

Lemma oinv_sframe script e gu gl tick dt cleanup ops parts emit e' o :
  let st := ESFrame tick dt cleanup ops parts emit in
  oinv script e gu gl -> RemoteSpec.inv e ->
  tinv script e gu -> tinv (script ++ [st]) e' (ustep e gu st e' o) ->
  syse_step e st = Ok (e', o) -> oinv (script ++ [st]) e' (ustep e gu st e' o) (lstep e gl st e' o).
Proof.
  intros st HO Hinv [_ _ Tb] [_ _ Ta] H sl c Hc Hm Hs. subst st.
  destruct (sframe_unfold _ _ _ _ _ _ _ _ _ H) as (y' & ob & Hsys & Hy & _).
  destruct (sframe_full _ _ _ _ _ _ _ _ _ H) as (Hce & Hchan & Hstamp).
  pose proof Hm as Hm0. rewrite (emode_snoc_one _ _ (StSFrame tick dt cleanup ops parts)) in Hm by reflexivity. cbn [mode_step] in Hm.
  rewrite <- Hy in Hsys. destruct (step_client_kind _ _ _ _ _ _ Hsys Hc) as (c0 & Hc0 & Hev). cbn [client_evolves_by] in Hev. subst c0.
  pose proof (HO sl c Hc0 Hm Hs) as [O1 O2 O3 O4 O5 O6 O7].
  destruct (Tb sl c Hc0) as [_ Lb]. specialize (Lb Hm Hs). destruct (Ta sl c Hc) as [_ La]. specialize (La Hm0 Hs).
  set (gu' := ustep e gu (ESFrame tick dt cleanup ops parts emit) e' o) in *.
  destruct (usent_ustep_ext e gu (ESFrame tick dt cleanup ops parts emit) e' o sl) as [ext Hext]; [intros max E; discriminate|]. fold gu' in Hext.
  set (new := msgs_for sl (eo_sent o)).
  assert (Ess : ssent (lstep e gl (ESFrame tick dt cleanup ops parts emit) e' o) sl = ssent gl sl ++ new).
  { unfold ssent. cbn [lstep lg_sent]. rewrite for_slot_app. reflexivity. }
  assert (Esn : snow (lstep e gl (ESFrame tick dt cleanup ops parts emit) e' o) sl = snow gl sl) by reflexivity.
  assert (Hi' : inbox_of e' sl = inbox_of e sl) by (unfold inbox_of; rewrite Hce; reflexivity).
  assert (Hq' : queue_of e' sl = queue_of e sl) by (unfold queue_of; rewrite Hce; reflexivity).
  assert (Hheld : forall m, In m (held_msgs e' sl c) <-> In m (held_msgs e sl c) \/ In m new).
  { intros m. unfold held_msgs. rewrite Hchan, Hi', Hq'. fold new. rewrite <- app_assoc, !in_app_iff. tauto. }
  destruct La as [_ La2 _ La4 _ La6]. destruct Lb as [_ Lb2 _ _ _ _].
  set (T' := last_tick (usent gu' sl)).
  assert (Hnew_stamp : forall m tk, In m new -> sm_tick m = Some tk -> tk = T').
  { intros m tk Hm' Htk. apply in_msgs_for in Hm'. destruct (Hstamp sl m Hm') as (cl & Hf & [Z|[Za Zt]]); [congruence|].
    specialize (La4 cl Hf). rewrite Za in La4. unfold T'. congruence. }
  assert (Hnew_ok : forall m, In m new -> msg_ok m).
  { intros m Hm'. apply in_msgs_for in Hm'. destruct (sframe_sent _ _ _ _ _ _ _ _ _ Hinv H sl m Hm') as [[A B]|(cl & _ & A & B)];
      unfold msg_ok; rewrite A, B; split; congruence. }
  assert (Hold_le : forall m tk, In m (ssent gl sl) -> sm_tick m = Some tk -> tk <= T').
  { intros m tk Hm' Htk. unfold T'. rewrite Hext. pose proof (last_tick_le_app (usent gu sl) ext) as Hl. rewrite <- Hext in Hl. specialize (Hl La2).
    destruct (O2 m tk Hm' Htk) as [->|Z]; [lia|]. pose proof (sorted_le_last _ 0 tk Lb2 Z) as X. rewrite <- Hext. unfold last_tick in *. lia. }
  constructor; rewrite ?Ess, ?Esn.
  - intros m Hm'. apply in_or_app. apply Hheld in Hm'. destruct Hm' as [X|X]; [left; exact (O1 m X)|right; exact X].
  - intros m tk Hm' Htk. apply in_app_or in Hm'. destruct Hm' as [X|X].
    + destruct (O2 m tk X Htk) as [Z|Z]; [left; exact Z|right]. rewrite Hext, map_app. apply in_or_app. left. exact Z.
    + apply (La6 m tk); [|exact Htk]. apply Hheld. right. exact X.
  - intros m Hm'. apply in_app_or in Hm'. destruct Hm' as [X|X]; [exact (O3 m X)|exact (Hnew_ok m X)].
  - intros t. rewrite filter_app, map_app. destruct (independent t) eqn:Eind.
    + apply (nondecr_const _ 0). intros y Hyy. apply in_app_or in Hyy.
      assert (Hz : forall m, (In m (ssent gl sl) \/ In m new) -> tyf t m = true -> skey m = 0).
      { intros m Hm' Ht. assert (Hok : msg_ok m) by (destruct Hm' as [X|X]; [exact (O3 m X)|exact (Hnew_ok m X)]).
        unfold tyf in Ht. apply sety_eqb_eq in Ht. unfold skey. rewrite (proj2 Hok); [reflexivity|]. rewrite Ht. exact Eind. }
      destruct Hyy as [Hyy|Hyy]; apply in_map_iff in Hyy; destruct Hyy as (m & <- & Hmf); apply filter_In in Hmf; destruct Hmf as [Hmf Ht];
        apply Hz; auto.
    + assert (Hst : forall m, (In m (ssent gl sl) \/ In m new) -> tyf t m = true -> exists tk, sm_tick m = Some tk).
      { intros m Hm' Ht. assert (Hok : msg_ok m) by (destruct Hm' as [X|X]; [exact (O3 m X)|exact (Hnew_ok m X)]).
        unfold tyf in Ht. apply sety_eqb_eq in Ht. destruct (sm_tick m) as [tk|] eqn:E; [exists tk; reflexivity|].
        apply (proj1 Hok) in E. rewrite Ht in E. congruence. }
      apply nondecr_app; [exact (O4 t)| |].
      * apply (nondecr_const _ T'). intros y Hyy. apply in_map_iff in Hyy. destruct Hyy as (m & <- & Hmf). apply filter_In in Hmf.
        destruct Hmf as [Hmf Ht]. destruct (Hst m (or_intror Hmf) Ht) as [tk Etk]. unfold skey. rewrite Etk. exact (Hnew_stamp m tk Hmf Etk).
      * intros x y Hx Hyy. apply in_map_iff in Hx. destruct Hx as (m1 & <- & Hm1). apply filter_In in Hm1. destruct Hm1 as [Hm1 Ht1].
        apply in_map_iff in Hyy. destruct Hyy as (m2 & <- & Hm2). apply filter_In in Hm2. destruct Hm2 as [Hm2 Ht2].
        destruct (Hst m1 (or_introl Hm1) Ht1) as [tk1 E1]. destruct (Hst m2 (or_intror Hm2) Ht2) as [tk2 E2]. unfold skey. rewrite E1, E2.
        rewrite (Hnew_stamp m2 tk2 Hm2 E2). exact (Hold_le m1 tk1 Hm1 E1).
  - intros t Ht. unfold live_q. rewrite Hq', Hi', Hchan. fold new. rewrite !filter_app, <- (O5 t Ht). unfold live_q. rewrite <- !app_assoc. reflexivity.
  - rewrite Hq'. exact O6.
  - intros m Hm'. apply in_or_app. left. exact (O7 m Hm').
Qed.

(* ---------- the steps of `Sys` that are not frames ---------- *)

Section ORDBASE.
  Variables (cfg0 : cfg) (nclients : N).

  Lemma oinv_base script e gu gl b e' o gs :
    oinv script e gu gl -> tinv script e gu ->
    f_inv cfg0 nclients (proj_script script) (e_sys e) gs ->
    ebase_ok (EBase b) = true -> sess_step_ok (proj_script script) b = true ->
    syse_step e (EBase b) = Ok (e', o) ->
    oinv (script ++ [EBase b]) e' (ustep e gu (EBase b) e' o) (lstep e gl (EBase b) e' o).
  Proof.
    intros HO [_ _ Tb] Hf Hbase Hsess H sl c' Hc' Hm Hs.
    destruct (ebase_unfold _ _ _ _ H) as (Hsys & _ & _ & _ & _ & _ & Hlayer).
    change (ustep e gu (EBase b) e' o) with (ustep_base (e_sys e) gu b (eo_base o)).
    rewrite (emode_snoc_one _ _ b) in Hm by reflexivity.
    destruct (step_client_kind _ _ _ _ _ _ Hsys Hc') as (c & Hc & Hev).
    (* a step that touches neither the event layer nor the ghosts *)
    assert (Hplain : forall (Hmode : mode_step sl (emode script sl) b = emode script sl)
                            (Hst : cl_status c' = cl_status c) (Hlc : cl_last_connected c' = cl_last_connected c)
                            (Eq : e_s2c e' = e_s2c e) (Ec : e_clients e' = e_clients e)
                            (Egl : lstep e gl (EBase b) e' o = gl) (Egu : ustep_base (e_sys e) gu b (eo_base o) = gu),
              ord_conn e' (ustep_base (e_sys e) gu b (eo_base o)) (lstep e gl (EBase b) e' o) sl c').
    { intros Hmode Hst Hlc Eq Ec Egl Egu. rewrite Hmode in Hm. rewrite Hst in Hs. rewrite Egl, Egu.
      apply (ord_conn_same e gu gl e' gu gl sl c c' (HO sl c Hc Hm Hs)); auto.
      - unfold chan_s2c. rewrite Eq. reflexivity.
      - rewrite Ec. reflexivity. }
    destruct b as [| |s0 max|s0|s0|tick dt cleanup ops parts|s0 ops|s0 s2c ch w|s0 s2c ch w]; try discriminate;
      cbn [client_evolves_by] in Hev.
    - (* StStart *) subst c'. destruct Hlayer as (Eq & Ec & _). apply Hplain; auto.
    - (* StStop *) exfalso. cbn [mode_step] in Hm. destruct (emode script sl); discriminate.
    - (* StConnect *)
      destruct Hlayer as (Eq & Ec & _).
      destruct (N.eq_dec sl s0) as [->|Hne].
      2:{ destruct (step_other _ _ _ _ sl Hsys eq_refl) as (A & _); [discriminate|cbn; congruence|]. rewrite A, Hc in Hc'. injection Hc' as <-.
          rewrite mode_step_other in Hm by (cbn; congruence || discriminate).
          apply (ord_conn_same e gu gl e' _ _ sl c c (HO sl c Hc Hm Hs)); auto.
          - unfold chan_s2c. rewrite Eq. reflexivity.
          - rewrite Ec. reflexivity.
          - unfold ssent. cbn [lstep]. destruct (find_client (y_server (e_sys e)) s0); [reflexivity|]. cbn [lg_sent]. apply for_slot_drop_other. exact Hne.
          - unfold snow. cbn [lstep]. destruct (find_client (y_server (e_sys e)) s0); [reflexivity|]. cbn [lg_now]. apply for_slot_drop_other. exact Hne.
          - intros tk. cbn [ustep_base]. destruct (find_client (y_server (e_sys e)) s0); [auto|].
            unfold usent. cbn [ug_sent]. rewrite al_get_insert_other by exact Hne. auto. }
      destruct (mode_connect (proj_script script) s0 max s0 Hsess) as [_ Hbefore]. specialize (Hbefore eq_refl).
      destruct (connect_step_cases _ _ _ _ _ Hsys) as [Hy|(cl & Hfn & Hrun & Hcl & Hy)].
      + (* no effect *)
        rewrite Hy, Hc in Hc'. injection Hc' as <-.
        assert (Hmb : emode script s0 = MLive).
        { unfold emode. destruct Hbefore as [Hb|Hb]; [|exact Hb]. pose proof (f_clean_status cfg0 nclients _ _ _ s0 c Hf Hc Hb). congruence. }
        destruct (f_live_facts cfg0 nclients _ _ _ s0 c Hf Hc Hmb Hs) as [Hrec _]. apply has_rec_find in Hrec.
        cbn [ustep_base lstep]. destruct (find_client (y_server (e_sys e)) s0) eqn:Efc; [|congruence].
        apply (ord_conn_same e gu gl e' _ _ s0 c c (HO s0 c Hc Hmb Hs)); auto.
        * unfold chan_s2c. rewrite Eq. reflexivity.
        * rewrite Ec. reflexivity.
      + (* a new connection: the session ledgers start empty, nothing is held *)
        rewrite Hcl in Hc. injection Hc as <-. rewrite Hy in Hc'. cbn [set_client set_server y_clients] in Hc'. rewrite al_get_insert_same in Hc'. injection Hc' as <-.
        assert (Hi0 : idle (emode script s0) cl).
        { unfold emode. destruct Hbefore as [Hb|Hb]; rewrite Hb; [left; reflexivity|]. right. right. split; [reflexivity|].
          destruct (cl_status cl) eqn:Es; [reflexivity|]. exfalso.
          destruct (f_live_facts cfg0 nclients _ _ _ s0 cl Hf Hcl Hb Es) as [Hrec _]. apply has_rec_find in Hrec. congruence. }
        destruct (Tb s0 cl Hcl) as [I1 _]. destruct (I1 Hi0) as (A & B & C).
        assert (Hlc : cl_last_connected cl = false) by (apply C; unfold emode; destruct Hbefore as [-> | ->]; discriminate).
        assert (Ess : ssent (lstep e gl (EBase (StConnect s0 max)) e' o) s0 = []).
        { unfold ssent. cbn [lstep]. rewrite Hfn. cbn [lg_sent]. apply for_slot_drop_same. }
        assert (Esn : snow (lstep e gl (EBase (StConnect s0 max)) e' o) s0 = []).
        { unfold snow. cbn [lstep]. rewrite Hfn. cbn [lg_now]. apply for_slot_drop_same. }
        assert (Hch' : chan_s2c e' s0 = []) by (unfold chan_s2c in *; rewrite Eq; exact A).
        assert (Hi' : inbox_of e' s0 = []) by (unfold inbox_of in *; rewrite Ec; exact B).
        constructor; rewrite ?Ess, ?Esn.
        * intros m Hm'. exfalso. unfold held_msgs in Hm'. rewrite Hch', Hi' in Hm'. unfold set_status in Hm'. cbn [cl_last_connected] in Hm'.
          rewrite Hlc in Hm'. destruct Hm'.
        * intros m tk [].
        * intros m [].
        * intros t. constructor.
        * intros t _. unfold live_q, set_status. cbn [cl_last_connected]. rewrite Hlc, Hch', Hi'. reflexivity.
        * unfold set_status. cbn [cl_last_connected]. congruence.
        * intros m [].
    - (* StAuthorize *) subst c'. destruct Hlayer as (Eq & Ec & _). apply Hplain; auto.
    - (* StDisconnect *)
      destruct Hlayer as (Eq & Ec & _). destruct (N.eq_dec sl s0) as [->|Hne].
      + exfalso. cbn [mode_step] in Hm. rewrite N.eqb_refl in Hm. destruct (emode script s0); discriminate.
      + destruct (step_other _ _ _ _ sl Hsys eq_refl) as (A & _); [discriminate|cbn; congruence|]. rewrite A, Hc in Hc'. injection Hc' as <-.
        rewrite mode_step_other in Hm by (cbn; congruence || discriminate).
        apply (ord_conn_same e gu gl e' _ _ sl c c (HO sl c Hc Hm Hs)); auto.
        * unfold chan_s2c. rewrite Eq, al_get_insert_other by exact Hne. reflexivity.
        * rewrite Ec, al_get_insert_other by exact Hne. reflexivity.
    - (* StDeliver *)
      destruct Hlayer as (Eq & Ec & _).
      assert (Hfields : cl_status c' = cl_status c /\ cl_last_connected c' = cl_last_connected c).
      { destruct Hev as [-> |[[p ->]|[p ->]]]; [auto| |].
        - destruct (deliver_updates_lc p c) as (X1 & _ & _ & X4). auto.
        - destruct (deliver_mutates_lc p c) as (X1 & _ & _ & X4 & _). auto. }
      destruct Hfields as [F1 F2]. apply Hplain; auto.
    - (* StDrop *)
      destruct Hlayer as (Eq & Ec & _).
      assert (Hfields : cl_status c' = cl_status c /\ cl_last_connected c' = cl_last_connected c).
      { destruct Hev as [-> |[[p ->]|[p ->]]]; [auto| |].
        - destruct (deliver_updates_lc p c) as (X1 & _ & _ & X4). auto.
        - destruct (deliver_mutates_lc p c) as (X1 & _ & _ & X4 & _). auto. }
      destruct Hfields as [F1 F2]. apply Hplain; auto.
  Qed.
End ORDBASE.

(* ---------- the run ---------- *)

Section ORDRUN.
  Variables (cfg0 : cfg) (nclients : N).

  Theorem oinv_run script : forall e gu gl os,
    escript_ok script = true -> tick_frames (proj_script script) < 2 ^ 31 ->
    crun (syse_init cfg0 nclients) (ug_init, lg_init) script = Ok (e, (gu, gl), os) -> oinv script e gu gl.
  Proof.
    induction script as [|st t IH] using rev_ind; intros e gu gl os Hok Hb H.
    - cbn in H. inversion H; subst. intros slot c _ Hm. discriminate.
    - destruct (escript_ok_snoc _ _ Hok) as (Hokt & Hleg & Hbase & Hokf & Hn0 & Hstep).
      destruct (grun_snoc _ _ _ _ _ _ _ _ _ H) as (e1 & [gu1 gl1] & os1 & o & H1 & Hs & Eg & ->).
      unfold cstep in Eg. cbn [fst snd] in Eg. injection Eg as -> ->.
      assert (Hbt : tick_frames (proj_script t) < 2 ^ 31).
      { pose proof (tick_frames_app_le (proj_script t) (proj_estep st)). rewrite proj_script_snoc in Hb. lia. }
      pose proof (IH _ _ _ _ Hokt Hbt H1) as HO.
      destruct (crun_split _ _ _ _ _ _ _ _ H1) as [Hu1 Hl1].
      pose proof (tinv_run cfg0 nclients _ _ _ _ Hokt Hbt Hu1) as Tb.
      pose proof (urun_snoc cfg0 nclients _ _ _ _ _ _ _ Hu1 Hs) as Hu2.
      pose proof (tinv_run cfg0 nclients _ _ _ _ Hok Hb Hu2) as Ta.
      pose proof (grun_erun _ _ _ _ _ _ _ _ Hu1) as He1. pose proof (grun_erun _ _ _ _ _ _ _ _ Hu2) as He2.
      destruct (finv_of_erun cfg0 nclients _ _ _ Hokt Hbt He1) as (gs & _ & Hf).
      destruct (finv_of_erun cfg0 nclients _ _ _ Hok Hb He2) as (gs' & _ & Hf').
      pose proof (erun_init_dom _ _ _ _ _ He1) as Hdom.
      pose proof (reachable_inv _ _ _ (urun_reachable cfg0 nclients _ _ _ _ Hu1)) as Hinv.
      assert (Hsb : sv_tick (y_server (e_sys e1)) < 2 ^ 31) by (pose proof (fi_tick _ _ _ _ _ Hf); lia).
      assert (Hsa : sv_tick (y_server (e_sys e)) < 2 ^ 31) by (pose proof (fi_tick _ _ _ _ _ Hf'); lia).
      destruct st as [b|tick dt cleanup ops parts emit|slot ops emit|slot ty w drop|slot ty w].
      + destruct (Hstep b eq_refl) as (A & B & C). exact (oinv_base cfg0 nclients t e1 gu1 gl1 b e o gs HO Tb Hf Hbase C Hs).
      + exact (oinv_sframe t e1 gu1 gl1 tick dt cleanup ops parts emit e o HO Hinv Tb Ta Hs).
      + exact (oinv_cframe t e1 gu1 gl1 slot ops emit e o HO Hdom Hinv Tb Ta Hsb Hsa Hs).
      + exact (oinv_deliver_s2c t e1 gu1 gl1 slot ty w drop e o HO Hdom Hleg Hs).
      + exact (oinv_deliver_c2s t e1 gu1 gl1 slot ty w e o HO Hs).
  Qed.
End ORDRUN.

(* ---------- E3, and the attribution half of E2 ---------- *)

(* what the session ledger is: appended by server frames (everything handed to the backend for the slot) and by the
   frames of the connected client (everything handed to its conversion step, whose results are the observations) *)
Lemma ledger_sframe e gl tick dt cleanup ops parts emit e' o slot :
  ssent (lstep e gl (ESFrame tick dt cleanup ops parts emit) e' o) slot = ssent gl slot ++ msgs_for slot (eo_sent o) /\
  snow (lstep e gl (ESFrame tick dt cleanup ops parts emit) e' o) slot = snow gl slot.
Proof. unfold ssent, snow. cbn [lstep lg_sent lg_now]. rewrite for_slot_app. auto. Qed.

Lemma ledger_cframe e gl slot ops emit e' o cb : clients_dom e ->
  syse_step e (ECFrame slot ops emit) = Ok (e', o) ->
  al_get slot (y_clients (e_sys e)) = Some cb -> cl_status cb = Connected ->
  exists cl now, al_get slot (y_clients (e_sys e')) = Some cl /\
    snow (lstep e gl (ECFrame slot ops emit) e' o) slot = snow gl slot ++ now /\
    ssent (lstep e gl (ECFrame slot ops emit) e' o) slot = ssent gl slot /\
    eo_got o = omap (deliverable cl) now.
Proof.
  intros Hdom H Hcb Hs. destruct (cframe_unfold _ _ _ _ _ _ Hdom H) as (_ & _ & _ & _ & _ & _ & _ & _ & _ & _ & Hcase).
  rewrite Hcb in Hcase. destruct Hcase as (ce & cl & Hce & Hcl & _ & Hcase). rewrite Hs in Hcase. cbv zeta in Hcase. destruct Hcase as (_ & Hgot & _).
  set (ce0 := if negb (cl_last_connected cb) then mkCE [] (ce_inbox ce) [] else ce) in *.
  exists cl, (frame_now cl ce0). split; [exact Hcl|]. unfold snow, ssent. cbn [lstep]. rewrite Hcb, Hce, Hcl, Hs. cbn [lg_now lg_sent].
  rewrite for_slot_app, for_slot_tag, N.eqb_refl. split; [reflexivity|]. split; [reflexivity|].
  rewrite Hgot. exact (proj1 (frame_now_spec cl ce0)).
Qed.

Section E3.
  Variables (cfg0 : cfg) (nclients : N).

  (* events of one type on an ordered channel reach the conversion step of a connection in sending order, none skipped:
     at every moment what has been handed on is a prefix of what was sent to the connection in this session *)
  Theorem e3_order script e gu gl os slot c t :
    escript_ok script = true -> tick_frames (proj_script script) < 2 ^ 31 ->
    crun (syse_init cfg0 nclients) (ug_init, lg_init) script = Ok (e, (gu, gl), os) ->
    al_get slot (y_clients (e_sys e)) = Some c -> emode script slot = MLive -> cl_status c = Connected ->
    reliable_ty t = true ->
    filter (tyf t) (snow gl slot) ++ filter (tyf t) (live_q e slot c) ++ filter (tyf t) (inbox_of e slot)
      ++ filter (tyf t) (chan_s2c e slot) = filter (tyf t) (ssent gl slot) /\
    is_prefix (filter (tyf t) (snow gl slot)) (filter (tyf t) (ssent gl slot)).
  Proof.
    intros Hok Hb H Hc Hm Hs Ht. pose proof (oinv_run cfg0 nclients _ _ _ _ _ Hok Hb H slot c Hc Hm Hs) as O.
    split; [exact (oc_fifo _ _ _ _ _ O t Ht)|]. eexists. symmetry. exact (oc_fifo _ _ _ _ _ O t Ht).
  Qed.

  (* everything a live connection holds or has handed to its game logic was sent to it in its current session; the
     stamps of one type never decrease in sending order *)
  Theorem e3_attribution script e gu gl os slot c :
    escript_ok script = true -> tick_frames (proj_script script) < 2 ^ 31 ->
    crun (syse_init cfg0 nclients) (ug_init, lg_init) script = Ok (e, (gu, gl), os) ->
    al_get slot (y_clients (e_sys e)) = Some c -> emode script slot = MLive -> cl_status c = Connected ->
    (forall m, In m (held_msgs e slot c) \/ In m (snow gl slot) -> In m (ssent gl slot)) /\
    (forall m, In m (ssent gl slot) -> msg_ok m) /\
    (forall t, nondecr (map skey (filter (tyf t) (ssent gl slot)))) /\
    (forall m tk, In m (ssent gl slot) -> sm_tick m = Some tk -> tk = 0 \/ In tk (map u_tick (usent gu slot))).
  Proof.
    intros Hok Hb H Hc Hm Hs. pose proof (oinv_run cfg0 nclients _ _ _ _ _ Hok Hb H slot c Hc Hm Hs) as [O1 O2 O3 O4 O5 O6 O7].
    split; [intros m [X|X]; auto|]. auto.
  Qed.
End E3.
