(* Lemmas about Events/Local.v (one app in every supported configuration): property C13. *)
From RV Require Import Lib.Res Events.Local Events.LocalSpec.
From Coq Require Import ZifyBool ZifyN.
Ltac Zify.zify_post_hook ::= Z.div_mod_to_equations.
Arguments N.add : simpl never. Arguments N.mul : simpl never. Arguments N.pow : simpl never.
Arguments N.ltb : simpl never. Arguments N.leb : simpl never. Arguments N.div : simpl never.
Arguments N.modulo : simpl never. Arguments N.sub : simpl never. Arguments N.eqb : simpl never.
Open Scope N_scope.

(* ------------------------------------------------------------------ *)
(* counting                                                            *)
(* ------------------------------------------------------------------ *)
Lemma count_p_nil : forall A (p : A -> bool), count_p p [] = 0%nat.
Proof. reflexivity. Qed.

Lemma count_p_app : forall A (p : A -> bool) l1 l2, count_p p (l1 ++ l2) = (count_p p l1 + count_p p l2)%nat.
Proof. intros. unfold count_p. rewrite filter_app, app_length. reflexivity. Qed.

Lemma count_p_cons : forall A (p : A -> bool) x l, count_p p (x :: l) = ((if p x then 1 else 0) + count_p p l)%nat.
Proof. intros. unfold count_p. cbn [filter]. destruct (p x); reflexivity. Qed.

Lemma count_p_map : forall A B (f : A -> B) (p : B -> bool) l, count_p p (map f l) = count_p (fun x => p (f x)) l.
Proof.
  intros. induction l as [|x l IH]; [reflexivity|].
  cbn [map]. rewrite !count_p_cons, IH. reflexivity.
Qed.

Lemma count_p_filter : forall A (p q : A -> bool) l, count_p p (filter q l) = count_p (fun x => p x && q x) l.
Proof.
  intros. induction l as [|x l IH]; [reflexivity|].
  cbn [filter]. destruct (q x) eqn:Hq; rewrite ?count_p_cons, IH, ?Hq, ?andb_true_r, ?andb_false_r; reflexivity.
Qed.

Lemma count_p_ext : forall A (p q : A -> bool) l, (forall x, p x = q x) -> count_p p l = count_p q l.
Proof.
  intros A p q l H. induction l as [|x l IH]; [reflexivity|].
  rewrite !count_p_cons, IH, H. reflexivity.
Qed.

Lemma count_p_false : forall A (l : list A), count_p (fun _ => false) l = 0%nat.
Proof. intros. induction l as [|x l IH]; [reflexivity|]. rewrite count_p_cons, IH. reflexivity. Qed.

Lemma count_p_le : forall A (p q : A -> bool) l, (forall x, p x = true -> q x = true) -> (count_p p l <= count_p q l)%nat.
Proof.
  intros A p q l H. induction l as [|x l IH]; [apply le_n|].
  rewrite !count_p_cons. specialize (H x). destruct (p x); [rewrite H by reflexivity|destruct (q x)]; lia.
Qed.

Lemma count_p_skipn_le : forall A (p : A -> bool) n l, (count_p p (skipn n l) <= count_p p l)%nat.
Proof.
  intros. rewrite <- (firstn_skipn n l) at 2. rewrite count_p_app. lia.
Qed.

Lemma count_p_In : forall A (p : A -> bool) x l, In x l -> p x = true -> (1 <= count_p p l)%nat.
Proof.
  intros A p x l Hin Hp. induction l as [|y l IH]; [destruct Hin|].
  rewrite count_p_cons. destruct Hin as [-> | Hin]; [rewrite Hp; lia|]. specialize (IH Hin). lia.
Qed.

Lemma count_p_pos_In : forall A (p : A -> bool) l, (1 <= count_p p l)%nat -> exists x, In x l /\ p x = true.
Proof.
  intros A p l. induction l as [|y l IH]; [rewrite count_p_nil; lia|].
  rewrite count_p_cons. destruct (p y) eqn:Hy.
  - intros _. exists y. split; [left; reflexivity|exact Hy].
  - intros H. destruct IH as [x [Hin Hx]]; [lia|]. exists x. split; [right; exact Hin|exact Hx].
Qed.

Lemma lobs_eqb_eq : forall x y, lobs_eqb x y = true <-> x = y.
Proof.
  intros x y. split.
  - destruct x, y; cbn [lobs_eqb]; intros H; try discriminate; apply N.eqb_eq in H; subst; reflexivity.
  - intros <-. destruct x; cbn [lobs_eqb]; apply N.eqb_refl.
Qed.

Lemma count_in_app : forall o l1 l2, count_in o (l1 ++ l2) = (count_in o l1 + count_in o l2)%nat.
Proof. intros. apply count_p_app. Qed.

Lemma count_in_In : forall o l, In o l <-> (1 <= count_in o l)%nat.
Proof.
  intros o l. split.
  - intros H. apply (count_p_In _ _ o); [exact H|apply lobs_eqb_eq; reflexivity].
  - intros H. apply count_p_pos_In in H. destruct H as [x [Hin Hx]]. apply lobs_eqb_eq in Hx. subst. exact Hin.
Qed.

Lemma count_obs_app : forall o o1 o2, count_obs o (o1 ++ o2) = (count_obs o o1 + count_obs o o2)%nat.
Proof. intros. unfold count_obs. rewrite concat_app. apply count_in_app. Qed.

Lemma count_obs_cons : forall o x outs, count_obs o (x :: outs) = (count_in o x + count_obs o outs)%nat.
Proof. intros. unfold count_obs. cbn [concat]. apply count_in_app. Qed.

Lemma count_obs_nil : forall o, count_obs o [] = 0%nat.
Proof. reflexivity. Qed.

(* normalise occurrence counts of concrete observation lists *)
Ltac cnt :=
  unfold count_in, count_seq, net_s2c_of, local_s2c_of;
  repeat (first [rewrite count_p_app | rewrite count_p_map | rewrite count_p_filter]);
  cbn [lobs_eqb fst snd andb]; rewrite ?count_p_false, ?count_p_nil.

(* ------------------------------------------------------------------ *)
(* runs                                                                *)
(* ------------------------------------------------------------------ *)
Lemma run_local_acc : forall steps a acc,
  fold_left (fun acc s => let '(a, outs) := acc in let '(a', o) := lstep_run a s in (a', outs ++ [o])) steps (a, acc)
  = (fst (run_local a steps), acc ++ snd (run_local a steps)).
Proof.
  induction steps as [|st steps IH]; intros a acc.
  - cbn. rewrite app_nil_r. reflexivity.
  - unfold run_local. cbn [fold_left]. destruct (lstep_run a st) as [a' o].
    rewrite (IH a' (acc ++ [o])), (IH a' ([] ++ [o])). cbn [fst snd app].
    rewrite <- app_assoc. reflexivity.
Qed.

Lemma run_local_nil : forall a, run_local a [] = (a, []).
Proof. reflexivity. Qed.

Lemma run_local_cons : forall a st steps,
  run_local a (st :: steps) =
  (fst (run_local (fst (lstep_run a st)) steps), snd (lstep_run a st) :: snd (run_local (fst (lstep_run a st)) steps)).
Proof.
  intros. unfold run_local at 1. cbn [fold_left]. destruct (lstep_run a st) as [a' o].
  rewrite run_local_acc. reflexivity.
Qed.

Lemma run_local_app : forall s1 s2 a,
  run_local a (s1 ++ s2) =
  (fst (run_local (fst (run_local a s1)) s2), snd (run_local a s1) ++ snd (run_local (fst (run_local a s1)) s2)).
Proof.
  induction s1 as [|st s1 IH]; intros s2 a.
  - cbn [app]. rewrite run_local_nil. cbn [fst snd app]. destruct (run_local a s2); reflexivity.
  - cbn [app]. rewrite !run_local_cons, IH. cbn [fst snd]. reflexivity.
Qed.

Lemma run_emits_app : forall s1 s2, run_emits (s1 ++ s2) = run_emits s1 ++ run_emits s2.
Proof. intros. unfold run_emits. apply flat_map_app. Qed.

Lemma emits_ce_app : forall e1 e2, emits_ce (e1 ++ e2) = emits_ce e1 ++ emits_ce e2.
Proof. intros. apply flat_map_app. Qed.
Lemma emits_ct_app : forall e1 e2, emits_ct (e1 ++ e2) = emits_ct e1 ++ emits_ct e2.
Proof. intros. apply flat_map_app. Qed.
Lemma emits_se_app : forall e1 e2, emits_se (e1 ++ e2) = emits_se e1 ++ emits_se e2.
Proof. intros. apply flat_map_app. Qed.
Lemma emits_st_app : forall e1 e2, emits_st (e1 ++ e2) = emits_st e1 ++ emits_st e2.
Proof. intros. apply flat_map_app. Qed.

(* ------------------------------------------------------------------ *)
(* Events<E>                                                           *)
(* ------------------------------------------------------------------ *)
Lemma ev_sends_fold : forall A (xs : list A) e, fold_left ev_send xs e = ev_sends e xs.
Proof.
  induction xs as [|x xs IH]; intros e.
  - destruct e. unfold ev_sends. cbn. rewrite app_nil_r, N.add_0_r. reflexivity.
  - cbn [fold_left]. rewrite IH. unfold ev_sends, ev_send. cbn [ev_a ev_b ev_a_start ev_b_start ev_count length].
    rewrite <- app_assoc. cbn [app]. f_equal. lia.
Qed.

Lemma emits_fold : forall emits (ce ct : evbuf N) (se st : evbuf (lmode * N)),
  fold_left (fun acc em =>
               let '(ce, ct, se, st) := acc in
               match em with
               | EmitCE s => (ev_send ce s, ct, se, st)
               | EmitCT s => (ce, ev_send ct s, se, st)
               | EmitSE m s => (ce, ct, ev_send se (m, s), st)
               | EmitST m s => (ce, ct, se, ev_send st (m, s))
               end) emits (ce, ct, se, st)
  = (ev_sends ce (emits_ce emits), ev_sends ct (emits_ct emits), ev_sends se (emits_se emits), ev_sends st (emits_st emits)).
Proof.
  intros emits. induction emits as [|em emits IH]; intros ce ct se st.
  - cbn. rewrite <- !ev_sends_fold. reflexivity.
  - cbn [fold_left]. destruct em; rewrite IH; rewrite <- !ev_sends_fold; reflexivity.
Qed.

Lemma ev_wf_empty : forall A, ev_wf (@ev_empty A).
Proof. intros. split; reflexivity. Qed.

Lemma ev_wf_sends : forall A (e : evbuf A) xs, ev_wf e -> ev_wf (ev_sends e xs).
Proof.
  intros A e xs [H1 H2]. unfold ev_wf, ev_sends. cbn [ev_a ev_b ev_a_start ev_b_start ev_count].
  rewrite app_length. split; lia.
Qed.

Lemma ev_wf_update : forall A (e : evbuf A), ev_wf e -> ev_wf (ev_update e).
Proof.
  intros A e [H1 H2]. unfold ev_wf, ev_update. cbn [ev_a ev_b ev_a_start ev_b_start ev_count length]. split; lia.
Qed.

Lemma ev_wf_drain : forall A (e : evbuf A), ev_wf (fst (ev_drain e)).
Proof.
  intros A e. unfold ev_wf, ev_drain. cbn [fst ev_a ev_b ev_a_start ev_b_start ev_count length]. split; lia.
Qed.

Lemma ev_count_sends : forall A (e : evbuf A) xs, ev_count (ev_sends e xs) = ev_count e + N.of_nat (length xs).
Proof. reflexivity. Qed.

Lemma ev_all_sends : forall A (e : evbuf A) xs, ev_all (ev_sends e xs) = ev_all e ++ xs.
Proof. intros. unfold ev_all, ev_sends. cbn [ev_a ev_b]. apply app_assoc. Qed.

Lemma ev_all_drain : forall A (e : evbuf A), ev_all (fst (ev_drain e)) = [].
Proof. reflexivity. Qed.

Lemma skipn_app_le : forall A n (l1 l2 : list A), (n <= length l1)%nat -> skipn n (l1 ++ l2) = skipn n l1 ++ l2.
Proof.
  intros A n l1 l2 H. rewrite skipn_app. replace (n - length l1)%nat with 0%nat by lia. reflexivity.
Qed.

Lemma unread_sends : forall A (e : evbuf A) xs c, ev_wf e -> c <= ev_count e ->
  unread (ev_sends e xs) c = unread e c ++ xs.
Proof.
  intros A e xs c [H1 H2] Hc. unfold unread, ev_read, ev_sends. cbn [fst ev_a ev_b ev_a_start ev_b_start ev_count].
  rewrite skipn_app_le by lia. apply app_assoc.
Qed.

Lemma unread_at_count : forall A (e : evbuf A), ev_wf e -> unread e (ev_count e) = [].
Proof.
  intros A e [H1 H2]. unfold unread, ev_read. cbn [fst].
  rewrite !skipn_all2 by lia. reflexivity.
Qed.

Lemma unread_drain : forall A (e : evbuf A) c, unread (fst (ev_drain e)) c = [].
Proof.
  intros. unfold unread, ev_read, ev_drain. cbn [fst ev_a ev_b]. rewrite !skipn_nil. reflexivity.
Qed.

Lemma unread_update : forall A (e : evbuf A) c,
  unread e c = skipn (N.to_nat (c - ev_a_start e)) (ev_a e) ++ unread (ev_update e) c.
Proof.
  intros. unfold unread, ev_read, ev_update. cbn [fst ev_a ev_b ev_a_start ev_b_start ev_count].
  rewrite skipn_nil, app_nil_r. reflexivity.
Qed.

(* `resend_locally_typed`: dropping the `len - cursor.len()` events the send cursor already consumed
   leaves exactly what the cursor would still read *)
Lemma resend_eq_unread : forall A (e : evbuf A) c, ev_wf e -> c <= ev_count e ->
  skipn (N.to_nat (ev_len e - ev_unread e c)) (snd (ev_drain e)) = unread e c.
Proof.
  intros A e c [H1 H2] Hc. unfold unread, ev_read, ev_drain, ev_unread, ev_len. cbn [fst snd].
  rewrite skipn_app.
  destruct (N.le_gt_cases c (ev_b_start e)) as [Hb | Hb].
  - replace (N.to_nat (c - ev_b_start e)) with 0%nat by lia.
    destruct (N.le_gt_cases c (ev_a_start e)) as [Ha | Ha].
    + replace (N.to_nat (c - ev_a_start e)) with 0%nat by lia.
      replace (N.to_nat _) with 0%nat by lia. reflexivity.
    + replace (N.to_nat (N.of_nat (length (ev_a e) + length (ev_b e)) - _)) with (N.to_nat (c - ev_a_start e)) by lia.
      replace (N.to_nat (c - ev_a_start e) - length (ev_a e))%nat with 0%nat by lia. reflexivity.
  - replace (N.to_nat (N.of_nat (length (ev_a e) + length (ev_b e)) - _))
      with (length (ev_a e) + N.to_nat (c - ev_b_start e))%nat by lia.
    rewrite (skipn_all2 (ev_a e)) by lia. rewrite (skipn_all2 (ev_a e)) by lia.
    replace (length (ev_a e) + N.to_nat (c - ev_b_start e) - length (ev_a e))%nat with (N.to_nat (c - ev_b_start e)) by lia.
    reflexivity.
Qed.

(* ------------------------------------------------------------------ *)
(* one frame                                                           *)
(* ------------------------------------------------------------------ *)
Lemma pre_buf_wf : forall A a r (e : evbuf A), ev_wf e -> ev_wf (pre_buf a r e).
Proof.
  intros A a r e H. unfold pre_buf.
  destruct (r && just_connected a); [apply ev_wf_drain|].
  destruct (do_update a); [apply ev_wf_update|]; exact H.
Qed.

Lemma pre_buf_count : forall A a r (e : evbuf A), ev_count (pre_buf a r e) = ev_count e.
Proof.
  intros. unfold pre_buf. destruct (r && just_connected a); destruct (do_update a); reflexivity.
Qed.

Lemma unread_frame_ce : forall a emits, linv a ->
  unread (frame_ce a emits) (la_ce_cursor a) = carried_ce a ++ emits_ce emits.
Proof.
  intros a emits (Hce & Hct & Hcc & Hctc & Hnx). unfold frame_ce, carried_ce.
  apply unread_sends; [apply pre_buf_wf; exact Hce|rewrite pre_buf_count; exact Hcc].
Qed.

Lemma unread_frame_ct : forall a emits, linv a ->
  unread (frame_ct a emits) (la_ct_cursor a) = carried_ct a ++ emits_ct emits.
Proof.
  intros a emits (Hce & Hct & Hcc & Hctc & Hnx). unfold frame_ct, carried_ct.
  apply unread_sends; [apply pre_buf_wf; exact Hct|rewrite pre_buf_count; exact Hctc].
Qed.

Lemma frame_ce_wf : forall a emits, linv a -> ev_wf (frame_ce a emits) /\ la_ce_cursor a <= ev_count (frame_ce a emits).
Proof.
  intros a emits (Hce & Hct & Hcc & Hctc & Hnx). unfold frame_ce. split.
  - apply ev_wf_sends, pre_buf_wf, Hce.
  - rewrite ev_count_sends, pre_buf_count. lia.
Qed.

Lemma frame_ct_wf : forall a emits, linv a -> ev_wf (frame_ct a emits) /\ la_ct_cursor a <= ev_count (frame_ct a emits).
Proof.
  intros a emits (Hce & Hct & Hcc & Hctc & Hnx). unfold frame_ct. split.
  - apply ev_wf_sends, pre_buf_wf, Hct.
  - rewrite ev_count_sends, pre_buf_count. lia.
Qed.

Lemma lframe_eq_spec : forall a fixed emits, linv a -> lframe a fixed emits = lframe_spec a fixed emits.
Proof.
  intros a fixed emits Hinv.
  unfold lframe. rewrite emits_fold.
  change (if la_full a && connected a && negb (la_last_connected a) then fst (ev_drain (if match la_upd a with UWaiting => false | _ => true end then ev_update (la_ce a) else la_ce a)) else if match la_upd a with UWaiting => false | _ => true end then ev_update (la_ce a) else la_ce a) with (pre_buf a true (la_ce a)).
  change (if la_full a && connected a && negb (la_last_connected a) then fst (ev_drain (if match la_upd a with UWaiting => false | _ => true end then ev_update (la_ct a) else la_ct a)) else if match la_upd a with UWaiting => false | _ => true end then ev_update (la_ct a) else la_ct a) with (pre_buf a true (la_ct a)).
  change (if match la_upd a with UWaiting => false | _ => true end then ev_update (la_se a) else la_se a) with (pre_buf a false (la_se a)).
  change (if match la_upd a with UWaiting => false | _ => true end then ev_update (la_st a) else la_st a) with (pre_buf a false (la_st a)).
  fold (frame_ce a emits) (frame_ct a emits) (frame_se a emits) (frame_st a emits).
  pose proof (unread_frame_ce a emits Hinv) as Uce.
  pose proof (unread_frame_ct a emits Hinv) as Uct.
  destruct (frame_ce_wf a emits Hinv) as [Wce Cce].
  destruct (frame_ct_wf a emits Hinv) as [Wct Cct].
  pose proof (resend_eq_unread _ _ _ Wce Cce) as Rce.
  pose proof (resend_eq_unread _ _ _ Wct Cct) as Rct.
  rewrite Uce in Rce. rewrite Uct in Rct.
  assert (Ase : ev_all (frame_se a emits) = carried_se a ++ emits_se emits) by apply ev_all_sends.
  assert (Ast : ev_all (frame_st a emits) = carried_st a ++ emits_st emits) by apply ev_all_sends.
  change (ev_read (frame_ce a emits) (la_ce_cursor a)) with (unread (frame_ce a emits) (la_ce_cursor a), ev_count (frame_ce a emits)).
  change (ev_read (frame_ct a emits) (la_ct_cursor a)) with (unread (frame_ct a emits) (la_ct_cursor a), ev_count (frame_ct a emits)).
  change (ev_drain (frame_ce a emits)) with (fst (ev_drain (frame_ce a emits)), snd (ev_drain (frame_ce a emits))).
  change (ev_drain (frame_ct a emits)) with (fst (ev_drain (frame_ct a emits)), snd (ev_drain (frame_ct a emits))).
  change (ev_a (frame_se a emits) ++ ev_b (frame_se a emits)) with (ev_all (frame_se a emits)).
  change (ev_a (frame_st a emits) ++ ev_b (frame_st a emits)) with (ev_all (frame_st a emits)).
  rewrite Uce, Uct, Rce, Rct, Ase, Ast.
  unfold lframe_spec, client_send, client_resend, server_or_singleplayer, connected, disconnected, observed_now.
  destruct (la_full a) eqn:Hfull; destruct (la_status a) eqn:Hst; cbn [andb orb negb];
    unfold next_upd; destruct fixed; destruct (la_upd a); reflexivity.
Qed.

(* projections of a frame *)
Lemma frame_next : forall a fixed emits, linv a ->
  la_next (fst (lframe a fixed emits)) =
  (if client_resend a then map ObsFromCE (carried_ce a ++ emits_ce emits) ++ map ObsFromCT (carried_ct a ++ emits_ct emits) else [])
  ++ (if server_or_singleplayer a then local_s2c_of (carried_se a ++ emits_se emits) (carried_st a ++ emits_st emits) else []).
Proof. intros. rewrite lframe_eq_spec by assumption. reflexivity. Qed.

Lemma frame_out : forall a fixed emits, linv a ->
  snd (lframe a fixed emits) =
  observed_now a
  ++ (if client_send a then map NetC2S_CE (carried_ce a ++ emits_ce emits) ++ map NetC2S_CT (carried_ct a ++ emits_ct emits) else [])
  ++ (if la_running a && la_remote a then net_s2c_of (carried_se a ++ emits_se emits) (carried_st a ++ emits_st emits) else []).
Proof. intros. rewrite lframe_eq_spec by assumption. reflexivity. Qed.

Lemma frame_flags : forall a fixed emits,
  let a' := fst (lframe a fixed emits) in
  la_full a' = la_full a /\ la_running a' = la_running a /\ la_status a' = la_status a /\ la_remote a' = la_remote a.
Proof.
  intros. subst a'. unfold lframe.
  repeat match goal with |- context [let '(_, _) := ?x in _] => destruct x end.
  cbn. auto.
Qed.

Lemma client_send_resend_excl : forall a, client_send a = true -> client_resend a = false.
Proof. intros a. unfold client_send, client_resend, connected, disconnected. destruct (la_full a), (la_status a); cbn; congruence. Qed.

Lemma frame_ce_state : forall a fixed emits, linv a ->
  let a' := fst (lframe a fixed emits) in
  la_ce a' = (if client_resend a then fst (ev_drain (frame_ce a emits)) else frame_ce a emits) /\
  la_ce_cursor a' = (if client_send a then ev_count (frame_ce a emits) else la_ce_cursor a) /\
  la_ct a' = (if client_resend a then fst (ev_drain (frame_ct a emits)) else frame_ct a emits) /\
  la_ct_cursor a' = (if client_send a then ev_count (frame_ct a emits) else la_ct_cursor a).
Proof. intros. subst a'. rewrite lframe_eq_spec by assumption. cbn. auto. Qed.

Lemma frame_se_state : forall a fixed emits, linv a ->
  let a' := fst (lframe a fixed emits) in
  la_se a' = (if server_or_singleplayer a then fst (ev_drain (frame_se a emits)) else frame_se a emits) /\
  la_st a' = (if server_or_singleplayer a then fst (ev_drain (frame_st a emits)) else frame_st a emits).
Proof. intros. subst a'. rewrite lframe_eq_spec by assumption. cbn. auto. Qed.

Lemma linv_init : forall full, linv (lapp_init full).
Proof. intros. unfold linv, lapp_init. cbn. repeat split; lia. Qed.

Lemma forallb_map_true : forall A B (f : A -> B) (p : B -> bool) l, (forall x, p (f x) = true) -> forallb p (map f l) = true.
Proof. intros A B f p l H. induction l as [|x l IH]; [reflexivity|]. cbn [map forallb]. rewrite H, IH. reflexivity. Qed.

Lemma count_nonlocal : forall o l, forallb is_local_obs l = true -> is_local_obs o = false -> count_in o l = 0%nat.
Proof.
  intros o l Hl Ho. unfold count_in. rewrite <- (count_p_false _ l).
  rewrite forallb_forall in Hl. induction l as [|x l IH]; [reflexivity|].
  rewrite !count_p_cons. rewrite IH by (intros y Hy; apply Hl; right; exact Hy).
  assert (Hx : is_local_obs x = true) by (apply Hl; left; reflexivity).
  destruct o, x; try discriminate Ho; try discriminate Hx; reflexivity.
Qed.

Lemma linv_lframe : forall a fixed emits, linv a -> linv (fst (lframe a fixed emits)).
Proof.
  intros a fixed emits Hinv.
  destruct (frame_ce_state a fixed emits Hinv) as (E1 & E2 & E3 & E4).
  destruct (frame_ce_wf a emits Hinv) as [Wce Cce]. destruct (frame_ct_wf a emits Hinv) as [Wct Cct].
  unfold linv. rewrite E1, E2, E3, E4, frame_next by exact Hinv.
  split; [|split; [|split; [|split]]].
  - destruct (client_resend a); [apply ev_wf_drain|exact Wce].
  - destruct (client_resend a); [apply ev_wf_drain|exact Wct].
  - destruct (client_resend a), (client_send a); cbn [fst ev_drain ev_count]; lia.
  - destruct (client_resend a), (client_send a); cbn [fst ev_drain ev_count]; lia.
  - unfold local_s2c_of. destruct (client_resend a), (server_or_singleplayer a);
      rewrite ?forallb_app, ?forallb_map_true by reflexivity; reflexivity.
Qed.

Lemma linv_step : forall a st, linv a -> linv (fst (lstep_run a st)).
Proof.
  intros a st Hinv. destruct st as [run|s|c|f em]; cbn [lstep_run].
  - exact Hinv.
  - destruct (la_full a); exact Hinv.
  - exact Hinv.
  - apply linv_lframe, Hinv.
Qed.

Lemma linv_run : forall steps a, linv a -> linv (fst (run_local a steps)).
Proof.
  induction steps as [|st steps IH]; intros a Hinv.
  - exact Hinv.
  - rewrite run_local_cons. cbn [fst]. apply IH, linv_step, Hinv.
Qed.

(* ---------- occurrence counts of one frame ---------- *)
Lemma count_in_if : forall o (b : bool) l, count_in o (if b then l else []) = if b then count_in o l else 0%nat.
Proof. intros. destruct b; reflexivity. Qed.

Lemma count_observed_now : forall a o,
  count_in o (observed_now a) = if is_got_st o && negb (la_full a) then 0%nat else count_in o (la_next a).
Proof.
  intros. unfold observed_now, count_in. rewrite count_p_filter.
  destruct o; cbn [is_got_st andb].
  1-3,5-8: apply count_p_ext; intros x; destruct x; cbn [lobs_eqb andb]; rewrite ?andb_true_r; reflexivity.
  destruct (la_full a); cbn [negb].
  - apply count_p_ext; intros x; destruct x; cbn [lobs_eqb andb]; rewrite ?andb_true_r; reflexivity.
  - rewrite <- (count_p_false _ (la_next a)). apply count_p_ext; intros x; destruct x; cbn [lobs_eqb andb]; rewrite ?andb_false_r; reflexivity.
Qed.

Section FrameCounts.
  Variables (a : lapp) (fixed : bool) (emits : list lemit) (s : N).
  Hypothesis Hinv : linv a.
  Let a' := fst (lframe a fixed emits).
  Let out := snd (lframe a fixed emits).

  Lemma cnt_next_fromce : count_in (ObsFromCE s) (la_next a') =
    if client_resend a then (count_seq s (carried_ce a) + count_seq s (emits_ce emits))%nat else 0%nat.
  Proof.
    subst a'. rewrite frame_next by exact Hinv. rewrite count_in_app, !count_in_if.
    destruct (client_resend a), (server_or_singleplayer a); cnt; lia.
  Qed.

  Lemma cnt_next_fromct : count_in (ObsFromCT s) (la_next a') =
    if client_resend a then (count_seq s (carried_ct a) + count_seq s (emits_ct emits))%nat else 0%nat.
  Proof.
    subst a'. rewrite frame_next by exact Hinv. rewrite count_in_app, !count_in_if.
    destruct (client_resend a), (server_or_singleplayer a); cnt; lia.
  Qed.

  Lemma cnt_next_gotse : count_in (ObsGotSE s) (la_next a') =
    if server_or_singleplayer a then count_p (se_local s) (carried_se a ++ emits_se emits) else 0%nat.
  Proof.
    subst a'. rewrite frame_next by exact Hinv. rewrite count_in_app, !count_in_if.
    destruct (client_resend a), (server_or_singleplayer a); cnt; unfold se_local; lia.
  Qed.

  Lemma cnt_next_gotst : count_in (ObsGotST s) (la_next a') =
    if server_or_singleplayer a then count_p (se_local s) (carried_st a ++ emits_st emits) else 0%nat.
  Proof.
    subst a'. rewrite frame_next by exact Hinv. rewrite count_in_app, !count_in_if.
    destruct (client_resend a), (server_or_singleplayer a); cnt; unfold se_local; lia.
  Qed.

  Lemma cnt_out_local : forall o, is_local_obs o = true ->
    count_in o out = if is_got_st o && negb (la_full a) then 0%nat else count_in o (la_next a).
  Proof.
    intros o Ho. subst out. rewrite frame_out by exact Hinv. rewrite !count_in_app, !count_in_if, count_observed_now.
    destruct o; try discriminate Ho;
      destruct (client_send a), (la_running a && la_remote a); cnt; lia.
  Qed.

  Lemma cnt_out_net : forall o, is_local_obs o = false -> count_in o (observed_now a) = 0%nat.
  Proof.
    intros o Ho. rewrite count_observed_now. destruct (is_got_st o && negb (la_full a)); [reflexivity|].
    apply count_nonlocal; [apply Hinv|exact Ho].
  Qed.

  Lemma cnt_out_c2s_ce : count_in (NetC2S_CE s) out =
    if client_send a then (count_seq s (carried_ce a) + count_seq s (emits_ce emits))%nat else 0%nat.
  Proof.
    subst out. rewrite frame_out by exact Hinv. rewrite !count_in_app, !count_in_if, cnt_out_net by reflexivity.
    destruct (client_send a), (la_running a && la_remote a); cnt; lia.
  Qed.

  Lemma cnt_out_c2s_ct : count_in (NetC2S_CT s) out =
    if client_send a then (count_seq s (carried_ct a) + count_seq s (emits_ct emits))%nat else 0%nat.
  Proof.
    subst out. rewrite frame_out by exact Hinv. rewrite !count_in_app, !count_in_if, cnt_out_net by reflexivity.
    destruct (client_send a), (la_running a && la_remote a); cnt; lia.
  Qed.

  Lemma cnt_out_s2c_se : count_in (NetS2C_SE s) out =
    if la_running a && la_remote a then count_p (se_remote s) (carried_se a ++ emits_se emits) else 0%nat.
  Proof.
    subst out. rewrite frame_out by exact Hinv. rewrite !count_in_app, !count_in_if, cnt_out_net by reflexivity.
    destruct (client_send a), (la_running a && la_remote a); cnt; unfold se_remote; lia.
  Qed.

  Lemma cnt_out_s2c_st : count_in (NetS2C_ST s) out =
    if la_running a && la_remote a then count_p (se_remote s) (carried_st a ++ emits_st emits) else 0%nat.
  Proof.
    subst out. rewrite frame_out by exact Hinv. rewrite !count_in_app, !count_in_if, cnt_out_net by reflexivity.
    destruct (client_send a), (la_running a && la_remote a); cnt; unfold se_remote; lia.
  Qed.

  (* what remains for the cursor after the frame *)
  Lemma unread_after_ce : unread (la_ce a') (la_ce_cursor a') =
    if client_send a || client_resend a then [] else carried_ce a ++ emits_ce emits.
  Proof.
    destruct (frame_ce_state a fixed emits Hinv) as (E1 & E2 & E3 & E4). subst a'. rewrite E1, E2.
    destruct (frame_ce_wf a emits Hinv) as [Wce Cce].
    destruct (client_send a) eqn:Hs.
    - rewrite (client_send_resend_excl a Hs). cbn [orb]. apply unread_at_count, Wce.
    - cbn [orb]. destruct (client_resend a); [apply unread_drain|apply unread_frame_ce, Hinv].
  Qed.

  Lemma unread_after_ct : unread (la_ct a') (la_ct_cursor a') =
    if client_send a || client_resend a then [] else carried_ct a ++ emits_ct emits.
  Proof.
    destruct (frame_ce_state a fixed emits Hinv) as (E1 & E2 & E3 & E4). subst a'. rewrite E3, E4.
    destruct (frame_ct_wf a emits Hinv) as [Wct Cct].
    destruct (client_send a) eqn:Hs.
    - rewrite (client_send_resend_excl a Hs). cbn [orb]. apply unread_at_count, Wct.
    - cbn [orb]. destruct (client_resend a); [apply unread_drain|apply unread_frame_ct, Hinv].
  Qed.

  Lemma all_after_se : ev_all (la_se a') = if server_or_singleplayer a then [] else carried_se a ++ emits_se emits.
  Proof.
    destruct (frame_se_state a fixed emits Hinv) as (E1 & E2). subst a'. rewrite E1.
    destruct (server_or_singleplayer a); [reflexivity|apply ev_all_sends].
  Qed.

  Lemma all_after_st : ev_all (la_st a') = if server_or_singleplayer a then [] else carried_st a ++ emits_st emits.
  Proof.
    destruct (frame_se_state a fixed emits Hinv) as (E1 & E2). subst a'. rewrite E2.
    destruct (server_or_singleplayer a); [reflexivity|apply ev_all_sends].
  Qed.
End FrameCounts.

(* carried events are (a suffix of) what was stored before the frame *)
Lemma carried_ce_le : forall a s, (count_seq s (carried_ce a) <= count_seq s (unread (la_ce a) (la_ce_cursor a)))%nat.
Proof.
  intros. unfold carried_ce, pre_buf, count_seq. destruct (true && just_connected a).
  - rewrite unread_drain. cbn. lia.
  - destruct (do_update a); [|lia]. rewrite (unread_update _ (la_ce a)), count_p_app. lia.
Qed.

Lemma carried_ct_le : forall a s, (count_seq s (carried_ct a) <= count_seq s (unread (la_ct a) (la_ct_cursor a)))%nat.
Proof.
  intros. unfold carried_ct, pre_buf, count_seq. destruct (true && just_connected a).
  - rewrite unread_drain. cbn. lia.
  - destruct (do_update a); [|lia]. rewrite (unread_update _ (la_ct a)), count_p_app. lia.
Qed.

Lemma carried_all_le : forall A a (p : A -> bool) (e : evbuf A), (count_p p (ev_all (pre_buf a false e)) <= count_p p (ev_all e))%nat.
Proof.
  intros. unfold pre_buf. cbn [andb]. destruct (do_update a); [|lia].
  unfold ev_all, ev_update. cbn [ev_a ev_b]. rewrite !count_p_app, count_p_nil. lia.
Qed.

(* ------------------------------------------------------------------ *)
(* steps and runs: accounting                                          *)
(* ------------------------------------------------------------------ *)
Lemma nonframe_step : forall a st, is_frame st = false ->
  let a' := fst (lstep_run a st) in
  snd (lstep_run a st) = [] /\ la_next a' = la_next a /\ la_full a' = la_full a /\
  la_ce a' = la_ce a /\ la_ce_cursor a' = la_ce_cursor a /\ la_ct a' = la_ct a /\ la_ct_cursor a' = la_ct_cursor a /\
  la_se a' = la_se a /\ la_st a' = la_st a.
Proof.
  intros a st Hf. destruct st as [run|s|c|f em]; try discriminate Hf; cbn [lstep_run].
  - cbn. repeat split.
  - destruct (la_full a) eqn:Hfull; cbn; repeat split; congruence.
  - cbn. repeat split.
Qed.

Lemma step_full : forall a st, la_full (fst (lstep_run a st)) = la_full a.
Proof.
  intros a st. destruct (is_frame st) eqn:Hf.
  - destruct st; try discriminate Hf. cbn [lstep_run]. apply frame_flags.
  - apply nonframe_step, Hf.
Qed.

Lemma run_full : forall steps a, la_full (fst (run_local a steps)) = la_full a.
Proof.
  induction steps as [|st steps IH]; intros a; [reflexivity|].
  rewrite run_local_cons. cbn [fst]. rewrite IH. apply step_full.
Qed.

Lemma all_states_true : forall steps a, all_states (fun _ => true) a steps = true.
Proof. induction steps as [|st steps IH]; intros a; [reflexivity|]. cbn [all_states andb]. apply IH. Qed.

Lemma all_states_app : forall ok s1 s2 a,
  all_states ok a (s1 ++ s2) = all_states ok a s1 && all_states ok (fst (run_local a s1)) s2.
Proof.
  intros ok. induction s1 as [|st s1 IH]; intros s2 a.
  - reflexivity.
  - cbn [app all_states]. rewrite IH, run_local_cons. cbn [fst]. rewrite andb_assoc. reflexivity.
Qed.

(* the generic accounting argument: a measure `m` of the outputs plus what is pending never exceeds
   what was pending plus what was emitted *)
Lemma run_acct : forall (m : list lobs -> nat) (e : list lemit -> nat) (pend : lapp -> nat) (ok : lapp -> bool),
  (forall l1 l2, m (l1 ++ l2) = (m l1 + m l2)%nat) -> m [] = 0%nat ->
  (forall l1 l2, e (l1 ++ l2) = (e l1 + e l2)%nat) -> e [] = 0%nat ->
  (forall a st, linv a -> ok a = true ->
     (m (snd (lstep_run a st)) + pend (fst (lstep_run a st)) <= pend a + e (step_emits st))%nat) ->
  forall steps a, linv a -> all_states ok a steps = true ->
  (m (concat (snd (run_local a steps))) + pend (fst (run_local a steps)) <= pend a + e (run_emits steps))%nat.
Proof.
  intros m e pend ok Hm Hm0 He He0 Hstep. induction steps as [|st steps IH]; intros a Hinv Hok.
  - cbn. rewrite Hm0, He0. lia.
  - cbn [all_states] in Hok. apply andb_true_iff in Hok. destruct Hok as [Hok1 Hok2].
    rewrite run_local_cons. cbn [fst snd concat]. unfold run_emits. cbn [flat_map]. fold (run_emits steps).
    rewrite Hm, He. specialize (Hstep a st Hinv Hok1).
    specialize (IH (fst (lstep_run a st)) (linv_step a st Hinv) Hok2). lia.
Qed.

Ltac nonframe_tac a st Hf :=
  destruct (nonframe_step a st Hf) as (N1 & N2 & N3 & N4 & N5 & N6 & N7 & N8 & N9);
  rewrite ?N1, ?N2, ?N3, ?N4, ?N5, ?N6, ?N7, ?N8, ?N9.

Lemma step_acct_ce : forall s a st, linv a ->
  (count_in (ObsFromCE s) (snd (lstep_run a st)) + count_in (NetC2S_CE s) (snd (lstep_run a st)) + pend_ce s (fst (lstep_run a st))
   <= pend_ce s a + count_seq s (emits_ce (step_emits st)))%nat.
Proof.
  intros s a st Hinv. destruct (is_frame st) eqn:Hf.
  - destruct st as [ | | |f em]; try discriminate Hf. cbn [lstep_run step_emits]. unfold pend_ce.
    rewrite cnt_out_local, cnt_out_c2s_ce, cnt_next_fromce, unread_after_ce by (try exact Hinv; reflexivity).
    cbn [is_got_st andb]. pose proof (carried_ce_le a s) as Hle.
    destruct (client_send a) eqn:Hs; [rewrite (client_send_resend_excl a Hs)|destruct (client_resend a)];
      cbn [orb]; unfold count_seq in *; cnt; lia.
  - unfold pend_ce. nonframe_tac a st Hf. destruct st; try discriminate Hf; cbn [step_emits]; cnt; lia.
Qed.

Lemma step_acct_ct : forall s a st, linv a ->
  (count_in (ObsFromCT s) (snd (lstep_run a st)) + count_in (NetC2S_CT s) (snd (lstep_run a st)) + pend_ct s (fst (lstep_run a st))
   <= pend_ct s a + count_seq s (emits_ct (step_emits st)))%nat.
Proof.
  intros s a st Hinv. destruct (is_frame st) eqn:Hf.
  - destruct st as [ | | |f em]; try discriminate Hf. cbn [lstep_run step_emits]. unfold pend_ct.
    rewrite cnt_out_local, cnt_out_c2s_ct, cnt_next_fromct, unread_after_ct by (try exact Hinv; reflexivity).
    cbn [is_got_st andb]. pose proof (carried_ct_le a s) as Hle.
    destruct (client_send a) eqn:Hs; [rewrite (client_send_resend_excl a Hs)|destruct (client_resend a)];
      cbn [orb]; unfold count_seq in *; cnt; lia.
  - unfold pend_ct. nonframe_tac a st Hf. destruct st; try discriminate Hf; cbn [step_emits]; cnt; lia.
Qed.

Lemma step_acct_se_local : forall s a st, linv a ->
  (count_in (ObsGotSE s) (snd (lstep_run a st)) + pend_se_local s (fst (lstep_run a st))
   <= pend_se_local s a + count_p (se_local s) (emits_se (step_emits st)))%nat.
Proof.
  intros s a st Hinv. destruct (is_frame st) eqn:Hf.
  - destruct st as [ | | |f em]; try discriminate Hf. cbn [lstep_run step_emits]. unfold pend_se_local.
    rewrite cnt_out_local, cnt_next_gotse, all_after_se by (try exact Hinv; reflexivity).
    cbn [is_got_st andb]. pose proof (carried_all_le _ a (se_local s) (la_se a)) as Hle. fold (carried_se a) in Hle.
    destruct (server_or_singleplayer a); rewrite ?count_p_app, ?count_p_nil; lia.
  - unfold pend_se_local. nonframe_tac a st Hf. destruct st; try discriminate Hf; cbn [step_emits]; cnt; lia.
Qed.

Lemma step_acct_st_local : forall s a st, linv a ->
  (count_in (ObsGotST s) (snd (lstep_run a st)) + pend_st_local s (fst (lstep_run a st))
   <= pend_st_local s a + count_p (se_local s) (emits_st (step_emits st)))%nat.
Proof.
  intros s a st Hinv. destruct (is_frame st) eqn:Hf.
  - destruct st as [ | | |f em]; try discriminate Hf. cbn [lstep_run step_emits]. unfold pend_st_local.
    rewrite cnt_out_local, cnt_next_gotst, all_after_st by (try exact Hinv; reflexivity).
    cbn [is_got_st andb]. pose proof (carried_all_le _ a (se_local s) (la_st a)) as Hle. fold (carried_st a) in Hle.
    destruct (server_or_singleplayer a), (negb (la_full a)); rewrite ?count_p_app, ?count_p_nil; lia.
  - unfold pend_st_local. nonframe_tac a st Hf. destruct st; try discriminate Hf; cbn [step_emits]; cnt; lia.
Qed.

Lemma supported_running : forall a, supported a = true -> la_running a && la_remote a = true -> server_or_singleplayer a = true.
Proof.
  intros a. unfold supported, server_or_singleplayer. destruct (la_running a), (la_remote a), (la_full a), (disconnected a); cbn; congruence.
Qed.

Lemma step_acct_se_remote : forall s a st, linv a -> supported a = true ->
  (count_in (NetS2C_SE s) (snd (lstep_run a st)) + pend_se_remote s (fst (lstep_run a st))
   <= pend_se_remote s a + count_p (se_remote s) (emits_se (step_emits st)))%nat.
Proof.
  intros s a st Hinv Hsup. destruct (is_frame st) eqn:Hf.
  - destruct st as [ | | |f em]; try discriminate Hf. cbn [lstep_run step_emits]. unfold pend_se_remote.
    rewrite cnt_out_s2c_se, all_after_se by exact Hinv.
    pose proof (carried_all_le _ a (se_remote s) (la_se a)) as Hle. fold (carried_se a) in Hle.
    pose proof (supported_running a Hsup) as Hrun.
    destruct (la_running a && la_remote a); [rewrite Hrun by reflexivity|destruct (server_or_singleplayer a)];
      rewrite ?count_p_app, ?count_p_nil; lia.
  - unfold pend_se_remote. nonframe_tac a st Hf. destruct st; try discriminate Hf; cbn [step_emits]; cnt; lia.
Qed.

Lemma step_acct_st_remote : forall s a st, linv a -> supported a = true ->
  (count_in (NetS2C_ST s) (snd (lstep_run a st)) + pend_st_remote s (fst (lstep_run a st))
   <= pend_st_remote s a + count_p (se_remote s) (emits_st (step_emits st)))%nat.
Proof.
  intros s a st Hinv Hsup. destruct (is_frame st) eqn:Hf.
  - destruct st as [ | | |f em]; try discriminate Hf. cbn [lstep_run step_emits]. unfold pend_st_remote.
    rewrite cnt_out_s2c_st, all_after_st by exact Hinv.
    pose proof (carried_all_le _ a (se_remote s) (la_st a)) as Hle. fold (carried_st a) in Hle.
    pose proof (supported_running a Hsup) as Hrun.
    destruct (la_running a && la_remote a); [rewrite Hrun by reflexivity|destruct (server_or_singleplayer a)];
      rewrite ?count_p_app, ?count_p_nil; lia.
  - unfold pend_st_remote. nonframe_tac a st Hf. destruct st; try discriminate Hf; cbn [step_emits]; cnt; lia.
Qed.

(* ---------- run-level accounting ---------- *)
Lemma run_acct_ce : forall s steps a, linv a ->
  (count_obs (ObsFromCE s) (snd (run_local a steps)) + count_obs (NetC2S_CE s) (snd (run_local a steps))
   + pend_ce s (fst (run_local a steps)) <= pend_ce s a + count_seq s (emits_ce (run_emits steps)))%nat.
Proof.
  intros s steps a Hinv.
  apply (run_acct (fun l => (count_in (ObsFromCE s) l + count_in (NetC2S_CE s) l)%nat)
                  (fun em => count_seq s (emits_ce em)) (pend_ce s) (fun _ => true)).
  - intros. rewrite !count_in_app. lia.
  - reflexivity.
  - intros. rewrite emits_ce_app. apply count_p_app.
  - reflexivity.
  - intros a0 st H0 _. apply step_acct_ce, H0.
  - exact Hinv.
  - apply all_states_true.
Qed.

Lemma run_acct_ct : forall s steps a, linv a ->
  (count_obs (ObsFromCT s) (snd (run_local a steps)) + count_obs (NetC2S_CT s) (snd (run_local a steps))
   + pend_ct s (fst (run_local a steps)) <= pend_ct s a + count_seq s (emits_ct (run_emits steps)))%nat.
Proof.
  intros s steps a Hinv.
  apply (run_acct (fun l => (count_in (ObsFromCT s) l + count_in (NetC2S_CT s) l)%nat)
                  (fun em => count_seq s (emits_ct em)) (pend_ct s) (fun _ => true)).
  - intros. rewrite !count_in_app. lia.
  - reflexivity.
  - intros. rewrite emits_ct_app. apply count_p_app.
  - reflexivity.
  - intros a0 st H0 _. apply step_acct_ct, H0.
  - exact Hinv.
  - apply all_states_true.
Qed.

Lemma run_acct_se_local : forall s steps a, linv a ->
  (count_obs (ObsGotSE s) (snd (run_local a steps)) + pend_se_local s (fst (run_local a steps))
   <= pend_se_local s a + count_p (se_local s) (emits_se (run_emits steps)))%nat.
Proof.
  intros s steps a Hinv.
  apply (run_acct (fun l => count_in (ObsGotSE s) l) (fun em => count_p (se_local s) (emits_se em)) (pend_se_local s) (fun _ => true)).
  - intros. apply count_in_app.
  - reflexivity.
  - intros. rewrite emits_se_app. apply count_p_app.
  - reflexivity.
  - intros a0 st H0 _. apply step_acct_se_local, H0.
  - exact Hinv.
  - apply all_states_true.
Qed.

Lemma run_acct_st_local : forall s steps a, linv a ->
  (count_obs (ObsGotST s) (snd (run_local a steps)) + pend_st_local s (fst (run_local a steps))
   <= pend_st_local s a + count_p (se_local s) (emits_st (run_emits steps)))%nat.
Proof.
  intros s steps a Hinv.
  apply (run_acct (fun l => count_in (ObsGotST s) l) (fun em => count_p (se_local s) (emits_st em)) (pend_st_local s) (fun _ => true)).
  - intros. apply count_in_app.
  - reflexivity.
  - intros. rewrite emits_st_app. apply count_p_app.
  - reflexivity.
  - intros a0 st H0 _. apply step_acct_st_local, H0.
  - exact Hinv.
  - apply all_states_true.
Qed.

Lemma run_acct_se_remote : forall s steps a, linv a -> all_supported a steps = true ->
  (count_obs (NetS2C_SE s) (snd (run_local a steps)) + pend_se_remote s (fst (run_local a steps))
   <= pend_se_remote s a + count_p (se_remote s) (emits_se (run_emits steps)))%nat.
Proof.
  intros s steps a Hinv Hsup.
  apply (run_acct (fun l => count_in (NetS2C_SE s) l) (fun em => count_p (se_remote s) (emits_se em)) (pend_se_remote s) supported).
  - intros. apply count_in_app.
  - reflexivity.
  - intros. rewrite emits_se_app. apply count_p_app.
  - reflexivity.
  - intros a0 st H0 H1. apply step_acct_se_remote; assumption.
  - exact Hinv.
  - exact Hsup.
Qed.

Lemma run_acct_st_remote : forall s steps a, linv a -> all_supported a steps = true ->
  (count_obs (NetS2C_ST s) (snd (run_local a steps)) + pend_st_remote s (fst (run_local a steps))
   <= pend_st_remote s a + count_p (se_remote s) (emits_st (run_emits steps)))%nat.
Proof.
  intros s steps a Hinv Hsup.
  apply (run_acct (fun l => count_in (NetS2C_ST s) l) (fun em => count_p (se_remote s) (emits_st em)) (pend_st_remote s) supported).
  - intros. apply count_in_app.
  - reflexivity.
  - intros. rewrite emits_st_app. apply count_p_app.
  - reflexivity.
  - intros a0 st H0 H1. apply step_acct_st_remote; assumption.
  - exact Hinv.
  - exact Hsup.
Qed.

Lemma pend_init : forall full s,
  pend_ce s (lapp_init full) = 0%nat /\ pend_ct s (lapp_init full) = 0%nat /\
  pend_se_local s (lapp_init full) = 0%nat /\ pend_st_local s (lapp_init full) = 0%nat /\
  pend_se_remote s (lapp_init full) = 0%nat /\ pend_st_remote s (lapp_init full) = 0%nat.
Proof. intros. repeat split; reflexivity. Qed.

Lemma se_local_le_is : forall s l, (count_p (se_local s) l <= count_p (se_is s) l)%nat.
Proof. intros. apply count_p_le. intros x. unfold se_local, se_is. intros H. apply andb_true_iff in H. apply H. Qed.

Lemma se_remote_le_is : forall s l, (count_p (se_remote s) l <= count_p (se_is s) l)%nat.
Proof. intros. apply count_p_le. intros x. unfold se_remote, se_is. intros H. apply andb_true_iff in H. apply H. Qed.

(* ------------------------------------------------------------------ *)
(* C13, item 1: one path per frame                                     *)
(* ------------------------------------------------------------------ *)
Lemma status_flags : forall a, la_full a = true ->
  (disconnected a = true -> client_resend a = true /\ client_send a = false) /\
  (connected a = true -> client_send a = true /\ client_resend a = false) /\
  (la_status a = LConnecting -> client_send a = false /\ client_resend a = false).
Proof.
  intros a Hfull. unfold client_send, client_resend, connected, disconnected. rewrite Hfull.
  destruct (la_status a); cbn; repeat split; congruence.
Qed.

Theorem client_event_one_path_per_frame : forall a fixed emits s,
  linv a -> la_full a = true ->
  let a' := fst (lframe a fixed emits) in
  let out := snd (lframe a fixed emits) in
  let n_ce := (count_seq s (carried_ce a) + count_seq s (emits_ce emits))%nat in
  let n_ct := (count_seq s (carried_ct a) + count_seq s (emits_ct emits))%nat in
  (disconnected a = true ->
     count_in (ObsFromCE s) (la_next a') = n_ce /\ count_in (ObsFromCT s) (la_next a') = n_ct /\
     count_in (NetC2S_CE s) out = 0%nat /\ count_in (NetC2S_CT s) out = 0%nat /\
     ev_all (la_ce a') = [] /\ ev_all (la_ct a') = []) /\
  (connected a = true ->
     count_in (NetC2S_CE s) out = n_ce /\ count_in (NetC2S_CT s) out = n_ct /\
     count_in (ObsFromCE s) (la_next a') = 0%nat /\ count_in (ObsFromCT s) (la_next a') = 0%nat /\
     unread (la_ce a') (la_ce_cursor a') = [] /\ unread (la_ct a') (la_ct_cursor a') = []) /\
  (la_status a = LConnecting ->
     count_in (NetC2S_CE s) out = 0%nat /\ count_in (NetC2S_CT s) out = 0%nat /\
     count_in (ObsFromCE s) (la_next a') = 0%nat /\ count_in (ObsFromCT s) (la_next a') = 0%nat /\
     unread (la_ce a') (la_ce_cursor a') = carried_ce a ++ emits_ce emits /\
     unread (la_ct a') (la_ct_cursor a') = carried_ct a ++ emits_ct emits).
Proof.
  intros a fixed emits s Hinv Hfull a' out n_ce n_ct. subst a' out n_ce n_ct.
  destruct (status_flags a Hfull) as (Hd & Hc & Hg).
  destruct (frame_ce_state a fixed emits Hinv) as (E1 & E2 & E3 & E4).
  rewrite cnt_next_fromce, cnt_next_fromct, cnt_out_c2s_ce, cnt_out_c2s_ct, unread_after_ce, unread_after_ct by exact Hinv.
  rewrite E1, E3.
  split; [|split]; intros H; [destruct (Hd H) as [-> ->]|destruct (Hc H) as [-> ->]|destruct (Hg H) as [-> ->]];
    cbn [orb]; repeat split; reflexivity.
Qed.

(* a sequence number that was never emitted before is not among the carried events *)
Lemma fresh_not_carried : forall full pre s,
  let a := fst (run_local (lapp_init full) pre) in
  (count_seq s (emits_ce (run_emits pre)) = 0%nat -> count_seq s (carried_ce a) = 0%nat) /\
  (count_seq s (emits_ct (run_emits pre)) = 0%nat -> count_seq s (carried_ct a) = 0%nat).
Proof.
  intros full pre s a. subst a.
  pose proof (run_acct_ce s pre _ (linv_init full)) as Hce.
  pose proof (run_acct_ct s pre _ (linv_init full)) as Hct.
  destruct (pend_init full s) as (P1 & P2 & _). rewrite P1 in Hce. rewrite P2 in Hct.
  pose proof (carried_ce_le (fst (run_local (lapp_init full) pre)) s) as L1.
  pose proof (carried_ct_le (fst (run_local (lapp_init full) pre)) s) as L2.
  unfold pend_ce in Hce. unfold pend_ct in Hct. split; intros H; lia.
Qed.

Theorem reachable_linv : forall full steps, linv (fst (run_local (lapp_init full) steps)).
Proof. intros. apply linv_run, linv_init. Qed.

Theorem client_event_one_path_per_frame_once : forall full pre fixed emits s,
  let a := fst (run_local (lapp_init full) pre) in
  let a' := fst (lframe a fixed emits) in
  let out := snd (lframe a fixed emits) in
  la_full a = true ->
  (count_seq s (emits_ce (run_emits pre)) = 0%nat -> count_seq s (emits_ce emits) = 1%nat ->
     (disconnected a = true -> count_in (ObsFromCE s) (la_next a') = 1%nat /\ count_in (NetC2S_CE s) out = 0%nat) /\
     (connected a = true -> count_in (NetC2S_CE s) out = 1%nat /\ count_in (ObsFromCE s) (la_next a') = 0%nat) /\
     (la_status a = LConnecting -> count_in (NetC2S_CE s) out = 0%nat /\ count_in (ObsFromCE s) (la_next a') = 0%nat /\
                                   count_seq s (unread (la_ce a') (la_ce_cursor a')) = 1%nat)) /\
  (count_seq s (emits_ct (run_emits pre)) = 0%nat -> count_seq s (emits_ct emits) = 1%nat ->
     (disconnected a = true -> count_in (ObsFromCT s) (la_next a') = 1%nat /\ count_in (NetC2S_CT s) out = 0%nat) /\
     (connected a = true -> count_in (NetC2S_CT s) out = 1%nat /\ count_in (ObsFromCT s) (la_next a') = 0%nat) /\
     (la_status a = LConnecting -> count_in (NetC2S_CT s) out = 0%nat /\ count_in (ObsFromCT s) (la_next a') = 0%nat /\
                                   count_seq s (unread (la_ct a') (la_ct_cursor a')) = 1%nat)).
Proof.
  intros full pre fixed emits s a a' out Hfull.
  pose proof (reachable_linv full pre) as Hinv. fold a in Hinv.
  destruct (client_event_one_path_per_frame a fixed emits s Hinv Hfull) as (Hd & Hc & Hg).
  destruct (fresh_not_carried full pre s) as [F1 F2]. fold a in F1, F2. fold a' out in Hd, Hc, Hg.
  split; intros H0 H1.
  - specialize (F1 H0). split; [|split]; intros H.
    + destruct (Hd H) as (X1 & X2 & X3 & X4 & _). rewrite X1, X3. lia.
    + destruct (Hc H) as (X1 & X2 & X3 & X4 & _). rewrite X1, X3. lia.
    + destruct (Hg H) as (X1 & X2 & X3 & X4 & X5 & X6). rewrite X1, X3, X5. unfold count_seq in *. rewrite count_p_app. lia.
  - specialize (F2 H0). split; [|split]; intros H.
    + destruct (Hd H) as (X1 & X2 & X3 & X4 & _). rewrite X2, X4. lia.
    + destruct (Hc H) as (X1 & X2 & X3 & X4 & _). rewrite X2, X4. lia.
    + destruct (Hg H) as (X1 & X2 & X3 & X4 & X5 & X6). rewrite X2, X4, X6. unfold count_seq in *. rewrite count_p_app. lia.
Qed.

(* ------------------------------------------------------------------ *)
(* C13, item 2: what a frame re-emits locally is observed by the next frame, once *)
(* ------------------------------------------------------------------ *)

Lemma nonframe_run : forall mid a, no_frames mid = true ->
  concat (snd (run_local a mid)) = [] /\ la_next (fst (run_local a mid)) = la_next a.
Proof.
  induction mid as [|st mid IH]; intros a H.
  - split; reflexivity.
  - unfold no_frames in H. cbn [forallb] in H. apply andb_true_iff in H. destruct H as [H1 H2].
    apply negb_true_iff in H1. rewrite run_local_cons. cbn [fst snd concat].
    destruct (nonframe_step a st H1) as (N1 & N2 & _). destruct (IH (fst (lstep_run a st)) H2) as [I1 I2].
    rewrite N1, I1, I2, N2. split; reflexivity.
Qed.

Lemma lframe_next_indep : forall a fixed emits nx,
  la_next (fst (lframe (set_next a nx) fixed emits)) = la_next (fst (lframe a fixed emits)).
Proof.
  intros. unfold lframe, set_next, set_bufs.
  cbn [la_full la_running la_status la_last_connected la_remote la_upd la_ce la_ce_cursor la_ct la_ct_cursor la_se la_st la_next].
  unfold connected, disconnected, server_or_singleplayer, disconnected.
  cbn [la_full la_running la_status la_last_connected la_remote la_upd la_ce la_ce_cursor la_ct la_ct_cursor la_se la_st la_next].
  repeat match goal with |- context [let '(_, _) := ?x in _] => destruct x end.
  reflexivity.
Qed.

Theorem local_reemission_observed_next_frame : forall a mid fixed emits o,
  linv a -> no_frames mid = true -> is_local_obs o = true ->
  let a1 := fst (run_local a mid) in
  count_obs o (snd (run_local a mid)) = 0%nat /\
  la_next a1 = la_next a /\
  count_in o (snd (lframe a1 fixed emits)) = (if is_got_st o && negb (la_full a) then 0%nat else count_in o (la_next a)) /\
  (forall nx, la_next (fst (lframe (set_next a1 nx) fixed emits)) = la_next (fst (lframe a1 fixed emits))).
Proof.
  intros a mid fixed emits o Hinv Hmid Ho a1. subst a1.
  destruct (nonframe_run mid a Hmid) as [R1 R2].
  split; [|split; [|split]].
  - unfold count_obs. rewrite R1. reflexivity.
  - exact R2.
  - rewrite cnt_out_local by (try apply linv_run; assumption). rewrite R2, run_full. reflexivity.
  - intros nx. apply lframe_next_indep.
Qed.

(* ------------------------------------------------------------------ *)
(* C13, item 3: never both paths, never twice                          *)
(* ------------------------------------------------------------------ *)
Theorem never_both_never_twice : forall full steps s,
  let outs := snd (run_local (lapp_init full) steps) in
  (count_obs (ObsFromCE s) outs + count_obs (NetC2S_CE s) outs <= count_seq s (emits_ce (run_emits steps)))%nat /\
  (count_obs (ObsFromCT s) outs + count_obs (NetC2S_CT s) outs <= count_seq s (emits_ct (run_emits steps)))%nat /\
  ((count_seq s (emits_ce (run_emits steps)) <= 1)%nat ->
     (count_obs (ObsFromCE s) outs + count_obs (NetC2S_CE s) outs <= 1)%nat) /\
  ((count_seq s (emits_ct (run_emits steps)) <= 1)%nat ->
     (count_obs (ObsFromCT s) outs + count_obs (NetC2S_CT s) outs <= 1)%nat).
Proof.
  intros full steps s outs. subst outs.
  pose proof (run_acct_ce s steps _ (linv_init full)) as Hce.
  pose proof (run_acct_ct s steps _ (linv_init full)) as Hct.
  destruct (pend_init full s) as (P1 & P2 & _). rewrite P1 in Hce. rewrite P2 in Hct.
  repeat split; lia.
Qed.

(* the key facts behind it (D14): what is re-emitted locally is what the send cursor has not consumed,
   i.e. the events with id >= cursor (the element at index i of `ev_all e` carries id `ev_a_start e + i`) *)
Theorem unread_ids : forall A (e : evbuf A) c, ev_wf e -> c <= ev_count e ->
  unread e c = skipn (N.to_nat (c - ev_a_start e)) (ev_all e).
Proof.
  intros A e c [H1 H2] Hc. unfold unread, ev_read, ev_all. cbn [fst]. rewrite skipn_app.
  destruct (N.le_gt_cases c (ev_b_start e)) as [Hb | Hb].
  - replace (N.to_nat (c - ev_b_start e)) with 0%nat by lia.
    replace (N.to_nat (c - ev_a_start e) - length (ev_a e))%nat with 0%nat by lia. reflexivity.
  - rewrite !(skipn_all2 (ev_a e)) by lia.
    replace (N.to_nat (c - ev_a_start e) - length (ev_a e))%nat with (N.to_nat (c - ev_b_start e)) by lia. reflexivity.
Qed.

Theorem resend_skips_sent : forall a fixed emits,
  linv a -> la_full a = true -> disconnected a = true ->
  la_next (fst (lframe a fixed emits)) =
  (map ObsFromCE (unread (frame_ce a emits) (la_ce_cursor a)) ++ map ObsFromCT (unread (frame_ct a emits) (la_ct_cursor a)))
  ++ local_s2c_of (carried_se a ++ emits_se emits) (carried_st a ++ emits_st emits)
  /\ ev_all (la_ce (fst (lframe a fixed emits))) = [] /\ ev_all (la_ct (fst (lframe a fixed emits))) = [].
Proof.
  intros a fixed emits Hinv Hfull Hd.
  destruct (status_flags a Hfull) as (Hd' & _). destruct (Hd' Hd) as [R S].
  destruct (frame_ce_state a fixed emits Hinv) as (E1 & E2 & E3 & E4).
  rewrite frame_next, E1, E3 by exact Hinv. rewrite R. unfold server_or_singleplayer. rewrite Hd, orb_true_r.
  rewrite unread_frame_ce, unread_frame_ct by exact Hinv. repeat split; reflexivity.
Qed.

(* ------------------------------------------------------------------ *)
(* C13, item 5: nothing on the network without a connection            *)
(* ------------------------------------------------------------------ *)
Theorem nothing_on_network_without_connection : forall a st o,
  linv a -> In o (snd (lstep_run a st)) ->
  (is_c2s o = true -> is_frame st = true /\ la_full a = true /\ connected a = true) /\
  (is_s2c o = true -> is_frame st = true /\ la_running a = true /\ la_remote a = true).
Proof.
  intros a st o Hinv Hin. destruct (is_frame st) eqn:Hf.
  - destruct st as [ | | |f em]; try discriminate Hf. cbn [lstep_run] in Hin. apply count_in_In in Hin.
    split; intros Ho; destruct o; try discriminate Ho.
    + rewrite cnt_out_c2s_ce in Hin by exact Hinv. unfold client_send in Hin.
      destruct (la_full a), (connected a); cbn [andb] in Hin; try lia; auto.
    + rewrite cnt_out_c2s_ct in Hin by exact Hinv. unfold client_send in Hin.
      destruct (la_full a), (connected a); cbn [andb] in Hin; try lia; auto.
    + rewrite cnt_out_s2c_se in Hin by exact Hinv.
      destruct (la_running a), (la_remote a); cbn [andb] in Hin; try lia; auto.
    + rewrite cnt_out_s2c_st in Hin by exact Hinv.
      destruct (la_running a), (la_remote a); cbn [andb] in Hin; try lia; auto.
  - destruct (nonframe_step a st Hf) as (N1 & _). rewrite N1 in Hin. destruct Hin.
Qed.

Theorem nothing_on_network_without_connection_run : forall full pre st o,
  let a := fst (run_local (lapp_init full) pre) in
  In o (snd (lstep_run a st)) ->
  (is_c2s o = true -> is_frame st = true /\ la_full a = true /\ connected a = true) /\
  (is_s2c o = true -> is_frame st = true /\ la_running a = true /\ la_remote a = true).
Proof. intros full pre st o a. apply nothing_on_network_without_connection, reachable_linv. Qed.

(* ------------------------------------------------------------------ *)
(* C13, item 6: server events, the local copy                          *)
(* ------------------------------------------------------------------ *)
Theorem server_event_local_copy : forall a fixed emits s,
  linv a -> server_or_singleplayer a = true ->
  let a' := fst (lframe a fixed emits) in
  let out := snd (lframe a fixed emits) in
  let all_se := carried_se a ++ emits_se emits in
  let all_st := carried_st a ++ emits_st emits in
  count_in (ObsGotSE s) (la_next a') = count_p (se_local s) all_se /\
  count_in (ObsGotST s) (la_next a') = count_p (se_local s) all_st /\
  count_in (NetS2C_SE s) out = (if la_running a && la_remote a then count_p (se_remote s) all_se else 0%nat) /\
  count_in (NetS2C_ST s) out = (if la_running a && la_remote a then count_p (se_remote s) all_st else 0%nat) /\
  ev_all (la_se a') = [] /\ ev_all (la_st a') = [].
Proof.
  intros a fixed emits s Hinv Hsos a' out all_se all_st. subst a' out all_se all_st.
  rewrite cnt_next_gotse, cnt_next_gotst, cnt_out_s2c_se, cnt_out_s2c_st, all_after_se, all_after_st by exact Hinv.
  rewrite Hsos. repeat split; reflexivity.
Qed.

Lemma count_unique_mode : forall (r : lmode -> bool) s m l,
  (count_p (se_is s) l <= 1)%nat -> In (m, s) l ->
  count_p (fun ms => N.eqb s (snd ms) && r (fst ms)) l = (if r m then 1 else 0)%nat.
Proof.
  intros r s m l. induction l as [|x l IH]; intros Hle Hin; [destruct Hin|].
  rewrite count_p_cons in Hle. rewrite count_p_cons. destruct Hin as [-> | Hin].
  - unfold se_is in Hle at 1. cbn [fst snd] in *. rewrite N.eqb_refl in *. cbn [andb].
    assert (H0 : (count_p (fun ms => N.eqb s (snd ms) && r (fst ms)) l <= count_p (se_is s) l)%nat).
    { apply count_p_le. intros y Hy. apply andb_true_iff in Hy. apply Hy. }
    destruct (r m); lia.
  - assert (H1 : (1 <= count_p (se_is s) l)%nat).
    { apply (count_p_In _ _ (m, s)); [exact Hin|]. unfold se_is. cbn [snd]. apply N.eqb_refl. }
    unfold se_is in Hle at 1. destruct (N.eqb s (snd x)) eqn:Hx; [lia|]. cbn [andb].
    rewrite IH by (try lia; exact Hin). lia.
Qed.

Theorem server_event_local_copy_once : forall a fixed emits m s,
  linv a -> server_or_singleplayer a = true ->
  let a' := fst (lframe a fixed emits) in
  let out := snd (lframe a fixed emits) in
  let all_se := carried_se a ++ emits_se emits in
  let all_st := carried_st a ++ emits_st emits in
  ((count_p (se_is s) all_se <= 1)%nat -> In (m, s) all_se ->
     count_in (ObsGotSE s) (la_next a') = (if local_recipient m then 1 else 0)%nat /\
     count_in (NetS2C_SE s) out = (if la_running a && la_remote a && remote_recipient m then 1 else 0)%nat) /\
  ((count_p (se_is s) all_st <= 1)%nat -> In (m, s) all_st ->
     count_in (ObsGotST s) (la_next a') = (if local_recipient m then 1 else 0)%nat /\
     count_in (NetS2C_ST s) out = (if la_running a && la_remote a && remote_recipient m then 1 else 0)%nat).
Proof.
  intros a fixed emits m s Hinv Hsos a' out all_se all_st.
  destruct (server_event_local_copy a fixed emits s Hinv Hsos) as (X1 & X2 & X3 & X4 & _).
  fold a' out all_se all_st in X1, X2, X3, X4.
  split; intros Hle Hin.
  - rewrite X1, X3. unfold se_local, se_remote.
    rewrite (count_unique_mode local_recipient s m all_se Hle Hin), (count_unique_mode remote_recipient s m all_se Hle Hin).
    destruct (la_running a && la_remote a), (remote_recipient m); split; reflexivity.
  - rewrite X2, X4. unfold se_local, se_remote.
    rewrite (count_unique_mode local_recipient s m all_st Hle Hin), (count_unique_mode remote_recipient s m all_st Hle Hin).
    destruct (la_running a && la_remote a), (remote_recipient m); split; reflexivity.
Qed.

Theorem server_event_never_twice : forall full steps s,
  let outs := snd (run_local (lapp_init full) steps) in
  (count_obs (ObsGotSE s) outs <= count_p (se_local s) (emits_se (run_emits steps)))%nat /\
  (count_obs (ObsGotST s) outs <= count_p (se_local s) (emits_st (run_emits steps)))%nat /\
  (all_supported (lapp_init full) steps = true ->
     (count_obs (NetS2C_SE s) outs <= count_p (se_remote s) (emits_se (run_emits steps)))%nat /\
     (count_obs (NetS2C_ST s) outs <= count_p (se_remote s) (emits_st (run_emits steps)))%nat) /\
  ((count_p (se_is s) (emits_se (run_emits steps)) <= 1)%nat ->
     (count_obs (ObsGotSE s) outs <= 1)%nat /\
     (all_supported (lapp_init full) steps = true -> (count_obs (NetS2C_SE s) outs <= 1)%nat)) /\
  ((count_p (se_is s) (emits_st (run_emits steps)) <= 1)%nat ->
     (count_obs (ObsGotST s) outs <= 1)%nat /\
     (all_supported (lapp_init full) steps = true -> (count_obs (NetS2C_ST s) outs <= 1)%nat)).
Proof.
  intros full steps s outs. subst outs.
  pose proof (run_acct_se_local s steps _ (linv_init full)) as H1.
  pose proof (run_acct_st_local s steps _ (linv_init full)) as H2.
  pose proof (run_acct_se_remote s steps _ (linv_init full)) as H3.
  pose proof (run_acct_st_remote s steps _ (linv_init full)) as H4.
  destruct (pend_init full s) as (_ & _ & P3 & P4 & P5 & P6). rewrite P3 in H1. rewrite P4 in H2. rewrite P5 in H3. rewrite P6 in H4.
  pose proof (se_local_le_is s (emits_se (run_emits steps))). pose proof (se_local_le_is s (emits_st (run_emits steps))).
  pose proof (se_remote_le_is s (emits_se (run_emits steps))). pose proof (se_remote_le_is s (emits_st (run_emits steps))).
  split; [lia|]. split; [lia|]. split; [intros Hs; specialize (H3 Hs); specialize (H4 Hs); lia|].
  split; intros Hu; (split; [lia|intros Hs; specialize (H3 Hs); specialize (H4 Hs); lia]).
Qed.

(* ------------------------------------------------------------------ *)
(* C13, item 7: an app without the client plugins (dedicated server)   *)
(* ------------------------------------------------------------------ *)
Lemma all_states_nofull : forall steps a, la_full a = false -> all_states (fun a => negb (la_full a)) a steps = true.
Proof.
  induction steps as [|st steps IH]; intros a H; [reflexivity|].
  cbn [all_states]. rewrite H. cbn [negb andb]. apply IH. rewrite step_full. exact H.
Qed.

Lemma all_supported_nofull : forall steps a, la_full a = false -> all_supported a steps = true.
Proof.
  unfold all_supported. induction steps as [|st steps IH]; intros a H; [reflexivity|].
  cbn [all_states]. unfold supported at 1. rewrite H. cbn [negb]. rewrite orb_true_r. cbn [orb andb]. apply IH. rewrite step_full. exact H.
Qed.


Lemma step_acct_nofull : forall s a st, linv a -> negb (la_full a) = true ->
  (client_side_count s (snd (lstep_run a st))
   + (count_in (ObsFromCE s) (la_next (fst (lstep_run a st))) + count_in (ObsFromCT s) (la_next (fst (lstep_run a st))))
   <= (count_in (ObsFromCE s) (la_next a) + count_in (ObsFromCT s) (la_next a)) + 0)%nat.
Proof.
  intros s a st Hinv Hnf. apply negb_true_iff in Hnf. unfold client_side_count. destruct (is_frame st) eqn:Hf.
  - destruct st as [ | | |f em]; try discriminate Hf. cbn [lstep_run].
    rewrite (cnt_out_local a f em Hinv (ObsFromCE s)), (cnt_out_local a f em Hinv (ObsFromCT s)),
      (cnt_out_local a f em Hinv (ObsGotST s)) by reflexivity.
    rewrite cnt_out_c2s_ce, cnt_out_c2s_ct, cnt_next_fromce, cnt_next_fromct by exact Hinv.
    unfold client_send, client_resend. rewrite Hnf. cbn [is_got_st andb negb]. lia.
  - nonframe_tac a st Hf. cnt. lia.
Qed.

Lemma run_acct_nofull : forall s steps a, linv a -> la_full a = false ->
  (client_side_count s (concat (snd (run_local a steps)))
   + (count_in (ObsFromCE s) (la_next (fst (run_local a steps))) + count_in (ObsFromCT s) (la_next (fst (run_local a steps))))
   <= (count_in (ObsFromCE s) (la_next a) + count_in (ObsFromCT s) (la_next a)) + 0)%nat.
Proof.
  intros s steps a Hinv Hnf.
  apply (run_acct (client_side_count s) (fun _ => 0%nat)
                (fun a => (count_in (ObsFromCE s) (la_next a) + count_in (ObsFromCT s) (la_next a))%nat)
                (fun a => negb (la_full a))).
  - intros. unfold client_side_count. rewrite !count_in_app. lia.
  - reflexivity.
  - intros. reflexivity.
  - reflexivity.
  - apply step_acct_nofull.
  - exact Hinv.
  - apply all_states_nofull, Hnf.
Qed.

Theorem dedicated_server_never_twice : forall steps s,
  let outs := snd (run_local (lapp_init false) steps) in
  count_obs (ObsFromCE s) outs = 0%nat /\ count_obs (ObsFromCT s) outs = 0%nat /\
  count_obs (NetC2S_CE s) outs = 0%nat /\ count_obs (NetC2S_CT s) outs = 0%nat /\
  count_obs (ObsGotST s) outs = 0%nat /\
  (count_obs (ObsGotSE s) outs <= count_p (se_local s) (emits_se (run_emits steps)))%nat /\
  (count_obs (NetS2C_SE s) outs <= count_p (se_remote s) (emits_se (run_emits steps)))%nat /\
  (count_obs (NetS2C_ST s) outs <= count_p (se_remote s) (emits_st (run_emits steps)))%nat /\
  ((count_p (se_is s) (emits_se (run_emits steps)) <= 1)%nat ->
     (count_obs (ObsGotSE s) outs <= 1)%nat /\ (count_obs (NetS2C_SE s) outs <= 1)%nat) /\
  ((count_p (se_is s) (emits_st (run_emits steps)) <= 1)%nat -> (count_obs (NetS2C_ST s) outs <= 1)%nat).
Proof.
  intros steps s outs. subst outs.
  pose proof (run_acct_nofull s steps _ (linv_init false) eq_refl) as H.
  cbn [lapp_init la_next] in H. unfold client_side_count in H.
  change (count_in (ObsFromCE s) []) with 0%nat in H. change (count_in (ObsFromCT s) []) with 0%nat in H.
  unfold count_obs.
  destruct (server_event_never_twice false steps s) as (S1 & S2 & S3 & S4 & S5).
  destruct (S3 (all_supported_nofull steps (lapp_init false) eq_refl)) as [S3a S3b]. unfold count_obs in *.
  pose proof (se_remote_le_is s (emits_se (run_emits steps))). pose proof (se_remote_le_is s (emits_st (run_emits steps))).
  pose proof (se_local_le_is s (emits_se (run_emits steps))).
  repeat split; lia.
Qed.

(* ------------------------------------------------------------------ *)
(* C13, item 4: exactly once over the whole run                        *)
(* ------------------------------------------------------------------ *)
Lemma In_emits_ce : forall s em, In (EmitCE s) em -> In s (emits_ce em).
Proof. intros. unfold emits_ce. apply in_flat_map. exists (EmitCE s). split; [assumption|left; reflexivity]. Qed.
Lemma In_emits_ct : forall s em, In (EmitCT s) em -> In s (emits_ct em).
Proof. intros. unfold emits_ct. apply in_flat_map. exists (EmitCT s). split; [assumption|left; reflexivity]. Qed.
Lemma In_emits_se : forall m s em, In (EmitSE m s) em -> In (m, s) (emits_se em).
Proof. intros. unfold emits_se. apply in_flat_map. exists (EmitSE m s). split; [assumption|left; reflexivity]. Qed.
Lemma In_emits_st : forall m s em, In (EmitST m s) em -> In (m, s) (emits_st em).
Proof. intros. unfold emits_st. apply in_flat_map. exists (EmitST m s). split; [assumption|left; reflexivity]. Qed.

Lemma count_seq_In : forall s l, In s l -> (1 <= count_seq s l)%nat.
Proof. intros s l H. apply (count_p_In _ _ s); [exact H|apply N.eqb_refl]. Qed.

Lemma first_frame_split : forall post, existsb is_frame post = true ->
  exists mid f em rest, post = mid ++ LFrame f em :: rest /\ no_frames mid = true.
Proof.
  induction post as [|st post IH]; intros H; [discriminate|].
  cbn [existsb] in H. destruct (is_frame st) eqn:Hf.
  - destruct st as [ | | |f em]; try discriminate Hf. exists [], f, em, post. split; reflexivity.
  - cbn [orb] in H. destruct (IH H) as (mid & f & em & rest & E & Hm). exists (st :: mid), f, em, rest.
    split; [rewrite E; reflexivity|]. unfold no_frames. cbn [forallb]. rewrite Hf. exact Hm.
Qed.

(* what waits in the local queues is output as soon as one more frame runs *)
Lemma pending_next_is_output : forall a post o, linv a -> existsb is_frame post = true -> is_local_obs o = true ->
  is_got_st o && negb (la_full a) = false ->
  (count_in o (la_next a) <= count_obs o (snd (run_local a post)))%nat.
Proof.
  intros a post o Hinv Hpost Ho Hst. destruct (first_frame_split post Hpost) as (mid & f & em & rest & -> & Hm).
  rewrite run_local_app, run_local_cons. cbn [fst snd lstep_run]. rewrite count_obs_app, count_obs_cons.
  destruct (local_reemission_observed_next_frame a mid f em o Hinv Hm Ho) as (_ & _ & X & _).
  rewrite X, Hst. lia.
Qed.

Lemma run_split : forall a0 pre f em post,
  snd (run_local a0 (pre ++ LFrame f em :: post)) =
  snd (run_local a0 pre) ++ snd (lframe (fst (run_local a0 pre)) f em)
    :: snd (run_local (fst (lframe (fst (run_local a0 pre)) f em)) post).
Proof. intros. rewrite run_local_app, run_local_cons. reflexivity. Qed.

Lemma count_obs_split : forall o o1 x o2, count_obs o (o1 ++ x :: o2) = (count_obs o o1 + count_in o x + count_obs o o2)%nat.
Proof. intros. rewrite count_obs_app, count_obs_cons. lia. Qed.

Lemma run_emits_split : forall pre f em post, run_emits (pre ++ LFrame f em :: post) = run_emits pre ++ em ++ run_emits post.
Proof. intros. rewrite run_emits_app. reflexivity. Qed.

Theorem exactly_once_when_server_or_singleplayer : forall full pre fixed emits post s,
  let steps := pre ++ LFrame fixed emits :: post in
  let a := fst (run_local (lapp_init full) pre) in
  let outs := snd (run_local (lapp_init full) steps) in
  la_full a = true ->
  ((count_seq s (emits_ce (run_emits steps)) <= 1)%nat -> In (EmitCE s) emits ->
     (disconnected a = true -> existsb is_frame post = true ->
        count_obs (ObsFromCE s) outs = 1%nat /\ count_obs (NetC2S_CE s) outs = 0%nat) /\
     (connected a = true -> count_obs (NetC2S_CE s) outs = 1%nat /\ count_obs (ObsFromCE s) outs = 0%nat)) /\
  ((count_seq s (emits_ct (run_emits steps)) <= 1)%nat -> In (EmitCT s) emits ->
     (disconnected a = true -> existsb is_frame post = true ->
        count_obs (ObsFromCT s) outs = 1%nat /\ count_obs (NetC2S_CT s) outs = 0%nat) /\
     (connected a = true -> count_obs (NetC2S_CT s) outs = 1%nat /\ count_obs (ObsFromCT s) outs = 0%nat)).
Proof.
  intros full pre fixed emits post s steps a outs Hfull.
  destruct (never_both_never_twice full steps s) as (_ & _ & U1 & U2). fold outs in U1, U2.
  pose proof (reachable_linv full pre) as Hinv. fold a in Hinv.
  destruct (client_event_one_path_per_frame a fixed emits s Hinv Hfull) as (Hd & Hc & _).
  assert (Hdec : outs = snd (run_local (lapp_init full) pre) ++ snd (lframe a fixed emits)
                        :: snd (run_local (fst (lframe a fixed emits)) post)) by apply run_split.
  pose proof (linv_lframe a fixed emits Hinv) as Hinv1.
  split; intros Hu Hin; specialize (U1 Hu) || specialize (U2 Hu).
  - pose proof (count_seq_In s _ (In_emits_ce s emits Hin)) as H1. split.
    + intros Hdis Hpost. destruct (Hd Hdis) as (X1 & _).
      pose proof (pending_next_is_output _ post (ObsFromCE s) Hinv1 Hpost eq_refl eq_refl) as Hp.
      rewrite Hdec, !count_obs_split in *. lia.
    + intros Hcon. destruct (Hc Hcon) as (X1 & _). rewrite Hdec, !count_obs_split in *. lia.
  - pose proof (count_seq_In s _ (In_emits_ct s emits Hin)) as H1. split.
    + intros Hdis Hpost. destruct (Hd Hdis) as (_ & X1 & _).
      pose proof (pending_next_is_output _ post (ObsFromCT s) Hinv1 Hpost eq_refl eq_refl) as Hp.
      rewrite Hdec, !count_obs_split in *. lia.
    + intros Hcon. destruct (Hc Hcon) as (_ & X1 & _). rewrite Hdec, !count_obs_split in *. lia.
Qed.

(* server events over the whole run: observed locally exactly once precisely when the local server is a recipient *)
Theorem server_event_observed_exactly_once : forall full pre fixed emits post m s,
  let steps := pre ++ LFrame fixed emits :: post in
  let a := fst (run_local (lapp_init full) pre) in
  let outs := snd (run_local (lapp_init full) steps) in
  server_or_singleplayer a = true -> existsb is_frame post = true ->
  ((count_p (se_is s) (emits_se (run_emits steps)) <= 1)%nat -> In (EmitSE m s) emits ->
     count_obs (ObsGotSE s) outs = (if local_recipient m then 1 else 0)%nat) /\
  ((count_p (se_is s) (emits_st (run_emits steps)) <= 1)%nat -> In (EmitST m s) emits ->
     count_obs (ObsGotST s) outs = (if local_recipient m && full then 1 else 0)%nat).
Proof.
  intros full pre fixed emits post m s steps a outs Hsos Hpost.
  destruct (server_event_never_twice full steps s) as (U1 & U2 & _). fold outs in U1, U2.
  pose proof (reachable_linv full pre) as Hinv. fold a in Hinv.
  destruct (server_event_local_copy a fixed emits s Hinv Hsos) as (X1 & X2 & _).
  assert (Hdec : outs = snd (run_local (lapp_init full) pre) ++ snd (lframe a fixed emits)
                        :: snd (run_local (fst (lframe a fixed emits)) post)) by apply run_split.
  pose proof (linv_lframe a fixed emits Hinv) as Hinv1.
  assert (Hfull1 : la_full (fst (lframe a fixed emits)) = full).
  { destruct (frame_flags a fixed emits) as (F1 & _). rewrite F1. subst a. rewrite run_full. reflexivity. }
  split; intros Hu Hin.
  - assert (Hin' : In (m, s) (emits_se (run_emits steps))).
    { subst steps. rewrite run_emits_split, !emits_se_app. apply in_or_app. right. apply in_or_app. left. apply In_emits_se, Hin. }
    pose proof (count_unique_mode local_recipient s m _ Hu Hin') as Hc. fold (se_local s) in Hc. rewrite Hc in U1.
    destruct (local_recipient m) eqn:Hl; [|lia].
    pose proof (pending_next_is_output _ post (ObsGotSE s) Hinv1 Hpost eq_refl eq_refl) as Hp.
    assert (H1 : (1 <= count_p (se_local s) (carried_se a ++ emits_se emits))%nat).
    { apply (count_p_In _ _ (m, s)); [apply in_or_app; right; apply In_emits_se, Hin|].
      unfold se_local. cbn [fst snd]. rewrite N.eqb_refl, Hl. reflexivity. }
    rewrite Hdec, !count_obs_split in *. lia.
  - assert (Hin' : In (m, s) (emits_st (run_emits steps))).
    { subst steps. rewrite run_emits_split, !emits_st_app. apply in_or_app. right. apply in_or_app. left. apply In_emits_st, Hin. }
    pose proof (count_unique_mode local_recipient s m _ Hu Hin') as Hc. fold (se_local s) in Hc. rewrite Hc in U2.
    destruct full eqn:Hfull.
    + rewrite andb_true_r. destruct (local_recipient m) eqn:Hl; [|lia].
      assert (Hg : is_got_st (ObsGotST s) && negb (la_full (fst (lframe a fixed emits))) = false) by (rewrite Hfull1; reflexivity).
      pose proof (pending_next_is_output _ post (ObsGotST s) Hinv1 Hpost eq_refl Hg) as Hp.
      assert (H1 : (1 <= count_p (se_local s) (carried_st a ++ emits_st emits))%nat).
      { apply (count_p_In _ _ (m, s)); [apply in_or_app; right; apply In_emits_st, Hin|].
        unfold se_local. cbn [fst snd]. rewrite N.eqb_refl, Hl. reflexivity. }
      rewrite Hdec, !count_obs_split in *. lia.
    + rewrite andb_false_r. destruct (dedicated_server_never_twice steps s) as (_ & _ & _ & _ & D & _). exact D.
Qed.
