(* Specification vocabulary for Events/Local.v (definitions only; lemmas are in Events/Local_proofs.v):
   runs, occurrence counting, the buffer invariant, and a projection-style description of one frame
   (`lframe_spec`, proved equal to `lframe` on well-formed states). *)
From RV Require Import Lib.Res Events.Local.
Open Scope N_scope.

(* ---------- runs ---------- *)
Definition run_local (a : lapp) (steps : list lstep) : lapp * list (list lobs) :=
  fold_left (fun acc s => let '(a, outs) := acc in let '(a', o) := lstep_run a s in (a', outs ++ [o])) steps (a, []).

Definition is_frame (st : lstep) : bool := match st with LFrame _ _ => true | _ => false end.
Definition no_frames (steps : list lstep) : bool := forallb (fun st => negb (is_frame st)) steps.
Definition step_emits (st : lstep) : list lemit := match st with LFrame _ em => em | _ => [] end.
Definition run_emits (steps : list lstep) : list lemit := flat_map step_emits steps.

(* every state in which a step of the run is executed satisfies `ok` *)
Fixpoint all_states (ok : lapp -> bool) (a : lapp) (steps : list lstep) : bool :=
  match steps with
  | [] => true
  | st :: rest => ok a && all_states ok (fst (lstep_run a st)) rest
  end.

(* ---------- counting ---------- *)
Definition lobs_eqb (x y : lobs) : bool :=
  match x, y with
  | ObsFromCE s, ObsFromCE t => N.eqb s t
  | ObsFromCT s, ObsFromCT t => N.eqb s t
  | ObsGotSE s, ObsGotSE t => N.eqb s t
  | ObsGotST s, ObsGotST t => N.eqb s t
  | NetC2S_CE s, NetC2S_CE t => N.eqb s t
  | NetC2S_CT s, NetC2S_CT t => N.eqb s t
  | NetS2C_SE s, NetS2C_SE t => N.eqb s t
  | NetS2C_ST s, NetS2C_ST t => N.eqb s t
  | _, _ => false
  end.

Definition count_p {A} (p : A -> bool) (l : list A) : nat := length (filter p l).
Definition count_in (o : lobs) (l : list lobs) : nat := count_p (lobs_eqb o) l.
Definition count_obs (o : lobs) (outs : list (list lobs)) : nat := count_in o (concat outs).
Definition count_seq (s : N) (l : list N) : nat := count_p (fun x => N.eqb s x) l.

(* everything an app without the client plugins must never produce *)
Definition client_side_count (s : N) (l : list lobs) : nat :=
  (count_in (ObsFromCE s) l + count_in (ObsFromCT s) l + count_in (NetC2S_CE s) l + count_in (NetC2S_CT s) l + count_in (ObsGotST s) l)%nat.

(* server events carry (mode, seq) *)
Definition se_is (s : N) (ms : lmode * N) : bool := N.eqb s (snd ms).
Definition se_local (s : N) (ms : lmode * N) : bool := N.eqb s (snd ms) && local_recipient (fst ms).
Definition se_remote (s : N) (ms : lmode * N) : bool := N.eqb s (snd ms) && remote_recipient (fst ms).

Definition is_c2s (o : lobs) : bool := match o with NetC2S_CE _ | NetC2S_CT _ => true | _ => false end.
Definition is_s2c (o : lobs) : bool := match o with NetS2C_SE _ | NetS2C_ST _ => true | _ => false end.
Definition is_local_obs (o : lobs) : bool :=
  match o with ObsFromCE _ | ObsFromCT _ | ObsGotSE _ | ObsGotST _ => true | _ => false end.
Definition is_got_st (o : lobs) : bool := match o with ObsGotST _ => true | _ => false end.

(* ---------- what a frame's emissions are ---------- *)
Definition emits_ce (emits : list lemit) : list N :=
  flat_map (fun e => match e with EmitCE s => [s] | _ => [] end) emits.
Definition emits_ct (emits : list lemit) : list N :=
  flat_map (fun e => match e with EmitCT s => [s] | _ => [] end) emits.
Definition emits_se (emits : list lemit) : list (lmode * N) :=
  flat_map (fun e => match e with EmitSE m s => [(m, s)] | _ => [] end) emits.
Definition emits_st (emits : list lemit) : list (lmode * N) :=
  flat_map (fun e => match e with EmitST m s => [(m, s)] | _ => [] end) emits.

(* ---------- Events<E> vocabulary ---------- *)
Definition ev_all {A} (e : evbuf A) : list A := ev_a e ++ ev_b e.
(* what a cursor standing at id `c` would read *)
Definition unread {A} (e : evbuf A) (c : N) : list A := fst (ev_read e c).
Definition ev_sends {A} (e : evbuf A) (xs : list A) : evbuf A :=
  mkEv (ev_a e) (ev_b e ++ xs) (ev_a_start e) (ev_b_start e) (ev_count e + N.of_nat (length xs)).

(* ids are consecutive: generation a, then generation b, then `ev_count` *)
Definition ev_wf {A} (e : evbuf A) : Prop :=
  ev_a_start e + N.of_nat (length (ev_a e)) = ev_b_start e /\
  ev_b_start e + N.of_nat (length (ev_b e)) = ev_count e.

(* the invariant of reachable apps: both client buffers well formed, send cursors not beyond the end,
   only local observations wait in the local queues *)
Definition linv (a : lapp) : Prop :=
  ev_wf (la_ce a) /\ ev_wf (la_ct a) /\
  la_ce_cursor a <= ev_count (la_ce a) /\ la_ct_cursor a <= ev_count (la_ct a) /\
  forallb is_local_obs (la_next a) = true.

(* ---------- one frame, in projection style ---------- *)
Definition just_connected (a : lapp) : bool := la_full a && connected a && negb (la_last_connected a).
Definition do_update (a : lapp) : bool := match la_upd a with UWaiting => false | _ => true end.
(* a buffer after event_update_system and (client events only) ResetEvents *)
Definition pre_buf {A} (a : lapp) (reset : bool) (e : evbuf A) : evbuf A :=
  let e1 := if do_update a then ev_update e else e in
  if reset && just_connected a then fst (ev_drain e1) else e1.
Definition frame_ce (a : lapp) (emits : list lemit) : evbuf N := ev_sends (pre_buf a true (la_ce a)) (emits_ce emits).
Definition frame_ct (a : lapp) (emits : list lemit) : evbuf N := ev_sends (pre_buf a true (la_ct a)) (emits_ct emits).
Definition frame_se (a : lapp) (emits : list lemit) : evbuf (lmode * N) := ev_sends (pre_buf a false (la_se a)) (emits_se emits).
Definition frame_st (a : lapp) (emits : list lemit) : evbuf (lmode * N) := ev_sends (pre_buf a false (la_st a)) (emits_st emits).
(* events of earlier frames that are still in the buffer and not yet consumed when PostUpdate of this frame runs *)
Definition carried_ce (a : lapp) : list N := unread (pre_buf a true (la_ce a)) (la_ce_cursor a).
Definition carried_ct (a : lapp) : list N := unread (pre_buf a true (la_ct a)) (la_ct_cursor a).
Definition carried_se (a : lapp) : list (lmode * N) := ev_all (pre_buf a false (la_se a)).
Definition carried_st (a : lapp) : list (lmode * N) := ev_all (pre_buf a false (la_st a)).

Definition client_send (a : lapp) : bool := la_full a && connected a.
Definition client_resend (a : lapp) : bool := la_full a && disconnected a.
Definition next_upd (a : lapp) (fixed_ran : bool) : upd_mode :=
  if fixed_ran then UReady else match la_upd a with UReady => UWaiting | m => m end.
Definition observed_now (a : lapp) : list lobs :=
  filter (fun o => match o with ObsGotST _ => la_full a | _ => true end) (la_next a).
Definition net_s2c_of (se st : list (lmode * N)) : list lobs :=
  map (fun ms => NetS2C_SE (snd ms)) (filter (fun ms => remote_recipient (fst ms)) se)
  ++ map (fun ms => NetS2C_ST (snd ms)) (filter (fun ms => remote_recipient (fst ms)) st).
Definition local_s2c_of (se st : list (lmode * N)) : list lobs :=
  map (fun ms => ObsGotSE (snd ms)) (filter (fun ms => local_recipient (fst ms)) se)
  ++ map (fun ms => ObsGotST (snd ms)) (filter (fun ms => local_recipient (fst ms)) st).

Definition lframe_spec (a : lapp) (fixed_ran : bool) (emits : list lemit) : lapp * list lobs :=
  let ce := frame_ce a emits in let ct := frame_ct a emits in
  let se := frame_se a emits in let st := frame_st a emits in
  let new_ce := carried_ce a ++ emits_ce emits in
  let new_ct := carried_ct a ++ emits_ct emits in
  let all_se := carried_se a ++ emits_se emits in
  let all_st := carried_st a ++ emits_st emits in
  (mkLApp (la_full a) (la_running a) (la_status a) (connected a) (la_remote a) (next_upd a fixed_ran)
     (if client_resend a then fst (ev_drain ce) else ce)
     (if client_send a then ev_count ce else la_ce_cursor a)
     (if client_resend a then fst (ev_drain ct) else ct)
     (if client_send a then ev_count ct else la_ct_cursor a)
     (if server_or_singleplayer a then fst (ev_drain se) else se)
     (if server_or_singleplayer a then fst (ev_drain st) else st)
     ((if client_resend a then map ObsFromCE new_ce ++ map ObsFromCT new_ct else [])
      ++ (if server_or_singleplayer a then local_s2c_of all_se all_st else [])),
   observed_now a
   ++ (if client_send a then map NetC2S_CE new_ce ++ map NetC2S_CT new_ct else [])
   ++ (if la_running a && la_remote a then net_s2c_of all_se all_st else [])).

(* every step of the run is executed in a supported configuration *)
Definition all_supported (a : lapp) (steps : list lstep) : bool := all_states supported a steps.

Definition set_next (a : lapp) (nx : list lobs) : lapp :=
  set_bufs a (la_ce a) (la_ce_cursor a) (la_ct a) (la_ct_cursor a) (la_se a) (la_st a) nx.

(* ---------- accounting: what is still on its way to an observer ---------- *)
Definition pend_ce (s : N) (a : lapp) : nat :=
  (count_in (ObsFromCE s) (la_next a) + count_seq s (unread (la_ce a) (la_ce_cursor a)))%nat.
Definition pend_ct (s : N) (a : lapp) : nat :=
  (count_in (ObsFromCT s) (la_next a) + count_seq s (unread (la_ct a) (la_ct_cursor a)))%nat.
Definition pend_se_local (s : N) (a : lapp) : nat :=
  (count_in (ObsGotSE s) (la_next a) + count_p (se_local s) (ev_all (la_se a)))%nat.
Definition pend_st_local (s : N) (a : lapp) : nat :=
  (count_in (ObsGotST s) (la_next a) + count_p (se_local s) (ev_all (la_st a)))%nat.
Definition pend_se_remote (s : N) (a : lapp) : nat := count_p (se_remote s) (ev_all (la_se a)).
Definition pend_st_remote (s : N) (a : lapp) : nat := count_p (se_remote s) (ev_all (la_st a)).
