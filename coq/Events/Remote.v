(* Layer 1, remote events layered over Repl.Sys (which it does not modify):
   src/shared/event/server_event.rs (`send_or_buffer`, `BufferedServerEvents`, `send_all`,
   `send_independent_event`, client `receive_typed` with `ClientEventQueue`), server_trigger.rs,
   client_event.rs (`send_typed` through a cursor, `receive_typed`, `resend_locally`, `reset`),
   src/server/event.rs and src/client/event.rs (system order and run conditions),
   src/server.rs `handle_connects` (`exclude_client`) and `reset` (`buffered_events.clear`).

   Event types of the harness pool, in registration (= channel) order:
     server -> client: SE0 ordered, SEI ordered + independent, SEM ordered + mapped entity,
                       SEU unreliable, ST trigger with targets (ordered)
     client -> server: CE0 ordered, CEM ordered + mapped entity, CT trigger with targets.
   Connections are identified by a unique id (a `ConnectedClient` entity is never reused), because a
   send mode names a client entity, not a slot. *)
From RV Require Import Lib.Res Repl.ClientTicks Repl.World Repl.Server Repl.Client Repl.Sys Tick.RepliconTick.
Open Scope N_scope.

Inductive sety := SE0 | SEI | SEM | SEU | ST.
Inductive cety := CE0 | CEM | CT.
Definition sety_code (t : sety) : N := match t with SE0 => 0 | SEI => 1 | SEM => 2 | SEU => 3 | ST => 4 end.
Definition cety_code (t : cety) : N := match t with CE0 => 0 | CEM => 1 | CT => 2 end.
Definition sety_all : list sety := [SE0; SEI; SEM; SEU; ST].
Definition cety_all : list cety := [CE0; CEM; CT].
Definition sety_eqb (a b : sety) : bool := sety_code a =? sety_code b.
Definition cety_eqb (a b : cety) : bool := cety_code a =? cety_code b.
Definition independent (t : sety) : bool := match t with SEI => true | _ => false end.

Inductive smode := MBroadcast | MExcept (uid : N) | MDirect (uid : N) | MDirectServer.

(* a server event as written by game logic *)
Record sev := mkSev { sev_ty : sety; sev_mode : smode; sev_seq : N; sev_ent : option N }.
(* on the wire: dependent events carry the receiver's update tick *)
Record smsg := mkSMsg { sm_ty : sety; sm_tick : option N; sm_seq : N; sm_ent : option N }.
(* a client event as written by client logic, and on the wire (entity already mapped to the server's) *)
Record cev := mkCev { cev_ty : cety; cev_seq : N; cev_ent : option N (* server entity the client means *) }.

Record bset := mkBSet { bs_events : list sev; bs_excluded : list N }.

Record cevents := mkCE {
  ce_queue : list (sety * N * smsg);         (* ClientEventQueue per type: (type, tick, message), arrival order kept *)
  ce_inbox : list smsg;                      (* received, not yet processed *)
  ce_emitted : list cev                      (* written by client logic in this frame *)
}.
Definition cevents_init : cevents := mkCE [] [] [].

Record syse := mkSysE {
  e_sys : sys;
  e_uids : list (N * N);                     (* slot -> connection id *)
  e_next_uid : N;
  e_emitted : list sev;                      (* written by server logic in this frame *)
  e_buffer : list bset;                      (* BufferedServerEvents::buffer *)
  e_inbox : list (N * cev);                  (* slot, event : received by the server backend *)
  e_clients : list (N * cevents);
  e_s2c : list (N * list smsg);              (* per slot, all server->client event channels in sending order *)
  e_c2s : list (N * list cev)
}.

Definition syse_init (c : cfg) (nclients : N) : syse :=
  let y := sys_init c nclients in
  mkSysE y [] 1 [] [] [] (map (fun kv => (fst kv, cevents_init)) (y_clients y))
         (map (fun kv => (fst kv, [])) (y_clients y)) (map (fun kv => (fst kv, [])) (y_clients y)).

Definition uid_of (e : syse) (slot : N) : option N := al_get slot (e_uids e).
Definition slot_of (e : syse) (uid : N) : option N :=
  match find (fun kv => snd kv =? uid) (e_uids e) with Some kv => Some (fst kv) | None => None end.

(* ---------- server side ---------- *)

Definition connected_slots (e : syse) : list N := sort_N (map sc_slot (sv_clients (y_server (e_sys e)))).

Definition recipients (e : syse) (mode : smode) (excluded : list N) (authorized_only : bool) : list N :=
  filter (fun slot =>
            match uid_of e slot, find_client (y_server (e_sys e)) slot with
            | Some uid, Some cl =>
              negb (mem_N uid excluded)
              && (negb authorized_only || sc_authorized cl)
              && match mode with
                 | MBroadcast => true
                 | MExcept u => negb (u =? uid)
                 | MDirect u => u =? uid
                 | MDirectServer => false
                 end
            | _, _ => false
            end) (connected_slots e).

Definition push_s2c (q : list (N * list smsg)) (slot : N) (m : smsg) : list (N * list smsg) :=
  al_insert slot (match al_get slot q with Some l => l ++ [m] | None => [m] end) q.

(* send_or_buffer for one frame: a fresh set, independent events go out at once *)
Definition send_or_buffer (e : syse) : syse * list (N * smsg) :=
  let evs := flat_map (fun t => filter (fun ev => sety_eqb (sev_ty ev) t) (e_emitted e)) sety_all in
  let '(sent, buffered) :=
    fold_left (fun acc ev =>
                 let '(sent, buffered) := acc in
                 if independent (sev_ty ev) then
                   (sent ++ map (fun slot => (slot, mkSMsg (sev_ty ev) None (sev_seq ev) (sev_ent ev)))
                                (recipients e (sev_mode ev) [] false), buffered)
                 else (sent, buffered ++ [ev])) evs ([], []) in
  (mkSysE (e_sys e) (e_uids e) (e_next_uid e) [] (e_buffer e ++ [mkBSet buffered []]) (e_inbox e) (e_clients e)
          (fold_left (fun q sm => push_s2c q (fst sm) (snd sm)) sent (e_s2c e)) (e_c2s e),
   sent).

(* send_all: every buffered set, stamped with the receiver's current update tick *)
Definition send_buffered (e : syse) : syse * list (N * smsg) :=
  let sent :=
    flat_map (fun set =>
      flat_map (fun ev =>
        flat_map (fun slot =>
          match find_client (y_server (e_sys e)) slot with
          | Some cl => [(slot, mkSMsg (sev_ty ev) (Some (ct_update_tick (sc_ticks cl))) (sev_seq ev) (sev_ent ev))]
          | None => []
          end) (recipients e (sev_mode ev) (bs_excluded set) true)) (bs_events set)) (e_buffer e) in
  (mkSysE (e_sys e) (e_uids e) (e_next_uid e) (e_emitted e) [] (e_inbox e) (e_clients e)
          (fold_left (fun q sm => push_s2c q (fst sm) (snd sm)) sent (e_s2c e)) (e_c2s e),
   sent).

(* server `receive` + `trigger`: everything in the backend inbox reaches server logic with its sender *)
Definition server_receive (e : syse) : syse * list (N * cev) :=
  let got := flat_map (fun t => filter (fun m => cety_eqb (cev_ty (snd m)) t) (e_inbox e)) [CT; CE0; CEM] in
  (mkSysE (e_sys e) (e_uids e) (e_next_uid e) (e_emitted e) (e_buffer e) [] (e_clients e) (e_s2c e) (e_c2s e), got).

(* ---------- client side ---------- *)

Definition deliverable (c : client) (m : smsg) : option (sety * N * option N) :=
  match sm_ent m with
  | None => Some (sm_ty m, sm_seq m, None)
  | Some se =>
    (* mapped events / trigger targets: an unmapped entity makes the event undeliverable (dropped) *)
    match al_get se (cl_s2c c) with
    | Some _ => Some (sm_ty m, sm_seq m, Some se)
    | None => None
    end
  end.

Fixpoint insert_by_tick (x : sety * N * smsg) (l : list (sety * N * smsg)) : list (sety * N * smsg) :=
  match l with
  | [] => [x]
  | y :: t => if tick_ltb (snd (fst x)) (snd (fst y)) then x :: y :: t else y :: insert_by_tick x t
  end.

(* receive_typed for one event type: first the queue (tick order), then what arrived *)
Definition client_receive_type (c : client) (ce : cevents) (t : sety) : cevents * list (sety * N * option N) :=
  let upd := cl_upd_tick c in
  let mine q := sety_eqb (fst (fst q)) t in
  let ready := filter (fun q => mine q && negb (tick_gtb (snd (fst q)) upd)) (ce_queue ce) in
  let keep := filter (fun q => negb (mine q && negb (tick_gtb (snd (fst q)) upd))) (ce_queue ce) in
  let arrived := filter (fun m => sety_eqb (sm_ty m) t) (ce_inbox ce) in
  let '(queue', now) :=
    fold_left (fun acc m =>
                 let '(queue, now) := acc in
                 match sm_tick m with
                 | Some tk => if tick_gtb tk upd then (insert_by_tick (t, tk, m) queue, now) else (queue, now ++ [m])
                 | None => (queue, now ++ [m])
                 end) arrived (keep, map snd ready) in
  (mkCE queue' (filter (fun m => negb (sety_eqb (sm_ty m) t)) (ce_inbox ce)) (ce_emitted ce),
   fold_right (fun m acc => match deliverable c m with Some d => d :: acc | None => acc end) [] now).

Definition client_receive (c : client) (ce : cevents) : cevents * list (sety * N * option N) :=
  fold_left (fun acc t =>
               let '(ce, got) := acc in
               let '(ce', g) := client_receive_type c ce t in
               (ce', got ++ g)) [ST; SE0; SEI; SEM; SEU] (ce, []).

(* client `send`: events whose entity cannot be mapped to the server's are not sent *)
Definition client_send (c : client) (ce : cevents) : list cev :=
  flat_map (fun t =>
    flat_map (fun ev =>
      if cety_eqb (cev_ty ev) t then
        match cev_ent ev with
        | None => [ev]
        | Some se => match al_get se (cl_s2c c) with
                     | Some cid => match al_get cid (cl_c2s c) with Some s => [mkCev (cev_ty ev) (cev_seq ev) (Some s)] | None => [] end
                     | None => []
                     end
        end
      else []) (ce_emitted ce)) cety_all.

(* ---------- steps ---------- *)

Inductive estep :=
| EBase (st : step)                                   (* start/stop/authorize/replication deliveries *)
| ESFrame (tick : bool) (dt : N) (cleanup : bool) (ops : list sop) (parts : list (N * partition)) (emit : list (sety * (N * bool * bool) * N * option N))
    (* emissions: type, mode as (slot, is_except, is_direct) with slot = 999 for broadcast / 998 for direct-to-server, seq, entity *)
| ECFrame (slot : N) (ops : list cop) (emit : list cev)
| EDeliverS2C (slot : N) (ty : sety) (w : which) (drop : bool)
| EDeliverC2S (slot : N) (ty : cety) (w : which).

Record eout := mkEOut {
  eo_base : out;
  eo_from : list (N * cev);                          (* server logic observed (slot of the sender) *)
  eo_sent : list (N * smsg);                         (* event messages handed to the backend this frame *)
  eo_got : list (sety * N * option N);               (* client logic observed *)
  eo_csent : list cev                                (* client event messages handed to the backend *)
}.

Definition resolve_mode (e : syse) (m : N * bool * bool) : option smode :=
  let '(slot, is_except, is_direct) := m in
  if slot =? 999 then Some MBroadcast
  else if slot =? 998 then Some MDirectServer
  else match uid_of e slot with
       | Some uid => if is_except then Some (MExcept uid) else if is_direct then Some (MDirect uid) else None
       | None => None
       end.

Definition set_sys (e : syse) (y : sys) : syse :=
  mkSysE y (e_uids e) (e_next_uid e) (e_emitted e) (e_buffer e) (e_inbox e) (e_clients e) (e_s2c e) (e_c2s e).

(* the ids of clients the server lost in this step (reset despawns them all) are forgotten *)
Definition prune_uids (e : syse) : syse :=
  let live := map sc_slot (sv_clients (y_server (e_sys e))) in
  mkSysE (e_sys e) (filter (fun kv => mem_N (fst kv) live) (e_uids e)) (e_next_uid e) (e_emitted e) (e_buffer e)
         (filter (fun m => mem_N (fst m) live) (e_inbox e)) (e_clients e) (e_s2c e) (e_c2s e).

Definition take_typed {A : Type} (is_ty : A -> bool) (w : which) (q : list A) : list A * list A :=
  let mine := filter is_ty q in
  let '(picked, _) := take w mine in
  (* remove exactly the picked elements (first / last / all of that type), keep the rest in order *)
  match w with
  | All => (picked, filter (fun x => negb (is_ty x)) q)
  | First =>
    (picked, (fix go (l : list A) (done : bool) : list A :=
                match l with
                | [] => []
                | x :: t => if is_ty x && negb done then go t true else x :: go t done
                end) q false)
  | Last =>
    (picked, rev ((fix go (l : list A) (done : bool) : list A :=
                     match l with
                     | [] => []
                     | x :: t => if is_ty x && negb done then go t true else x :: go t done
                     end) (rev q) false))
  end.

Definition syse_step (e : syse) (st : estep) : res (syse * eout) :=
  let c := y_cfg (e_sys e) in
  match st with
  | EBase b =>
    let* (y', o) := sys_step (e_sys e) b in
    let e1 := set_sys e y' in
    let e2 :=
      match b with
      | StConnect slot _ =>
        (* a new ConnectedClient entity: `handle_connects` excludes it from everything buffered so far *)
        match find_client (y_server (e_sys e)) slot, find_client (y_server y') slot with
        | None, Some _ =>
          let uid := e_next_uid e1 in
          mkSysE y' (al_insert slot uid (e_uids e1)) (uid + 1) (e_emitted e1)
                 (map (fun set => mkBSet (bs_events set) (bs_excluded set ++ [uid])) (e_buffer e1))
                 (e_inbox e1) (e_clients e1) (e_s2c e1) (e_c2s e1)
        | _, _ => e1
        end
      | StDisconnect slot =>
        mkSysE y' (al_remove slot (e_uids e1)) (e_next_uid e1) (e_emitted e1) (e_buffer e1)
               (filter (fun m => negb (fst m =? slot)) (e_inbox e1))
               (al_insert slot (match al_get slot (e_clients e1) with
                                | Some ce => mkCE (ce_queue ce) [] (ce_emitted ce)
                                | None => cevents_init end) (e_clients e1))
               (al_insert slot [] (e_s2c e1)) (al_insert slot [] (e_c2s e1))
      | StStop =>
        mkSysE y' (e_uids e1) (e_next_uid e1) (e_emitted e1) (e_buffer e1) [] (e_clients e1)
               (map (fun kv => (fst kv, [])) (e_s2c e1)) (map (fun kv => (fst kv, [])) (e_c2s e1))
      | _ => e1
      end in
    Ok (e2, mkEOut o [] [] [] [])
  | ESFrame tick dt cleanup ops parts emit =>
    let running_before := sv_running (y_server (e_sys e)) in
    (* PreUpdate: client events reach server logic while the server runs *)
    let '(e0, from) := if running_before then server_receive e else (e, []) in
    let* (y', o) := sys_step (e_sys e0) (StSFrame tick dt cleanup ops parts) in
    let ran := match o with OSFrame fo _ => fo_ran fo | _ => false end in
    let just_stopped := negb running_before && sv_last_running (y_server (e_sys e)) in
    (* Update: emissions, resolved against the connections that exist now *)
    let evs := fold_right (fun em acc =>
                 let '(ty, m, seq, ent) := em in
                 match resolve_mode e0 m with
                 | Some mode => mkSev ty mode seq ent :: acc
                 | None => acc
                 end) [] emit in
    let e1 := mkSysE y' (e_uids e0) (e_next_uid e0) evs (e_buffer e0) (e_inbox e0) (e_clients e0) (e_s2c e0) (e_c2s e0) in
    (* PostUpdate *)
    let '(e2, sent1) := if running_before then send_or_buffer e1
                        else (mkSysE y' (e_uids e1) (e_next_uid e1) [] (e_buffer e1) (e_inbox e1) (e_clients e1) (e_s2c e1) (e_c2s e1), []) in
    let '(e3, sent2) := if running_before && ran then send_buffered e2 else (e2, []) in
    let e4 := if just_stopped
              then mkSysE (e_sys e3) (e_uids e3) (e_next_uid e3) (e_emitted e3) [] (e_inbox e3) (e_clients e3) (e_s2c e3) (e_c2s e3)
              else e3 in
    Ok (prune_uids e4, mkEOut o from (sent1 ++ sent2) [] [])
  | ECFrame slot ops emit =>
    match al_get slot (y_clients (e_sys e)), al_get slot (e_clients e) with
    | Some cl_before, Some ce =>
      let connected_before := match cl_status cl_before with Connected => true | Disconnected => false end in
      let just_connected := connected_before && negb (cl_last_connected cl_before) in
      let* (y', o) := sys_step (e_sys e) (StCFrame slot ops) in
      match al_get slot (y_clients y') with
      | None => Ok (set_sys e y', mkEOut o [] [] [] [])
      | Some cl =>
        (* ResetEvents on client_just_connected: queued server events are discarded *)
        let ce0 := if just_connected then mkCE [] (ce_inbox ce) [] else ce in
        let '(ce1, got) := if connected_before then client_receive cl ce0 else (ce0, []) in
        (* Update: the client's own logic writes events; PostUpdate: `send` (only while connected) *)
        let ce2 := mkCE (ce_queue ce1) (ce_inbox ce1) emit in
        let sent := if connected_before then client_send cl ce2 else [] in
        let ce3 := mkCE (ce_queue ce2) (ce_inbox ce2) [] in
        let q := match al_get slot (e_c2s e) with Some l => l | None => [] end in
        Ok (mkSysE y' (e_uids e) (e_next_uid e) (e_emitted e) (e_buffer e) (e_inbox e)
                   (al_insert slot ce3 (e_clients e)) (e_s2c e) (al_insert slot (q ++ sent) (e_c2s e)),
            mkEOut o [] [] got sent)
      end
    | _, _ => Ok (e, mkEOut ONone [] [] [] [])
    end
  | EDeliverS2C slot ty w drop =>
    let q := match al_get slot (e_s2c e) with Some l => l | None => [] end in
    let '(picked, rest) := take_typed (fun m => sety_eqb (sm_ty m) ty) w q in
    let connected := match al_get slot (y_clients (e_sys e)) with
                     | Some cl => match cl_status cl with Connected => true | Disconnected => false end
                     | None => false
                     end in
    let ces := if drop || negb connected then e_clients e
               else match al_get slot (e_clients e) with
                    | Some ce => al_insert slot (mkCE (ce_queue ce) (ce_inbox ce ++ picked) (ce_emitted ce)) (e_clients e)
                    | None => e_clients e
                    end in
    Ok (mkSysE (e_sys e) (e_uids e) (e_next_uid e) (e_emitted e) (e_buffer e) (e_inbox e) ces
               (al_insert slot rest (e_s2c e)) (e_c2s e), mkEOut ONone [] [] [] [])
  | EDeliverC2S slot ty w =>
    let q := match al_get slot (e_c2s e) with Some l => l | None => [] end in
    let '(picked, rest) := take_typed (fun m => cety_eqb (cev_ty m) ty) w q in
    let ok := sv_running (y_server (e_sys e)) && match find_client (y_server (e_sys e)) slot with Some _ => true | None => false end in
    Ok (mkSysE (e_sys e) (e_uids e) (e_next_uid e) (e_emitted e) (e_buffer e)
               (if ok then e_inbox e ++ map (fun m => (slot, m)) picked else e_inbox e)
               (e_clients e) (e_s2c e) (al_insert slot rest (e_c2s e)), mkEOut ONone [] [] [] [])
  end.
