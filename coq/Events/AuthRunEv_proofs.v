(* C07 over whole-system runs with remote events (`erun` over `syse_step`): what an unauthorized connection is sent.
     1. a step never turns an authorized record into an unauthorized one (Sys level)
     2. A2, one server frame: every message for a slot whose record is not authorized is unstamped / of an independent type
     3. A2, runs: the session ledger of such a slot holds only unstamped messages; with the premises of C04E / C05E so does
        everything the connection holds or has handed to its conversion step
     4. after authorization: the flush is complete (every dependent event buffered for a connection that is not excluded
        goes to it when it is authorized), and a connection is excluded only from sets created before it existed
   Pinned in Properties/C07E.v. *)
From Coq Require Import ZifyBool ZifyN Permutation Sorted.
From RV Require Import Lib.Res Repl.ClientTicks Repl.ClientTicks_proofs Repl.World Repl.Server Repl.Client Repl.Sys Tick.RepliconTick
  Repl.ClientSys_proofs Repl.StructE2E_proofs Repl.StructE2EMut_proofs Repl.StructE2EVis_proofs Repl.StructE2ESess_proofs Repl.ValSpec
  Repl.Session_proofs Repl.AuthRun_proofs.
From RV Require Import Events.Remote Events.RemoteSpec Events.Remote_proofs Events.RemoteRun Events.RemoteRunProj_proofs
  Events.RemoteRunTick_proofs Events.RemoteRunE1_proofs Events.RemoteRunLedger_proofs Events.RemoteRunOrder_proofs
  Events.RemoteRunBirth_proofs.
Ltac Zify.zify_post_hook ::= Z.div_mod_to_equations.
Arguments N.add : simpl never. Arguments N.mul : simpl never. Arguments N.pow : simpl never.
Arguments N.ltb : simpl never. Arguments N.leb : simpl never. Arguments N.div : simpl never.
Arguments N.modulo : simpl never. Arguments N.sub : simpl never. Arguments N.eqb : simpl never.
Open Scope N_scope.

(* ================================================================== *)
(* 1. records after a step, read backwards                            *)
(* ================================================================== *)

(* a record that exists after a step existed before it, unless the step is the `StConnect` of its slot *)
Lemma step_rec_back y st y' o slot : link_inv y -> sys_step y st = Ok (y', o) ->
  has_rec (y_server y') slot -> has_rec (y_server y) slot \/ exists max, st = StConnect slot max /\ find_client (y_server y) slot = None.
Proof.
  intros Hinv H Hr. destruct (is_sframe st) eqn:Ef.
  - destruct st; try discriminate. cbn [sys_step] in H.
    destruct (server_frame (y_cfg y) (y_server y) tick dt cleanup ops parts) as [[s' fo]| |] eqn:E; cbn [bind] in H; try discriminate.
    inversion H; subst y' o. rewrite (proj1 (proj2 (enqueue_fields _ _))) in Hr. cbn [set_server y_server] in Hr.
    destruct (frame_auth _ _ _ _ _ _ _ _ _ (li_nodup _ Hinv) E) as (_ & _ & _ & _ & _ & F6 & _). left. exact (F6 slot Hr).
  - destruct (step_server y st y' o Ef H) as (_ & _ & Hs).
    destruct st as [| |sl max|sl|sl|tick dt cleanup ops parts|sl ops|sl s2c ch w|sl s2c ch w]; try discriminate.
    + left. rewrite Hs in Hr. exact Hr.
    + left. rewrite Hs in Hr. exact Hr.
    + destruct Hs as [Hs|(Hn & Hrun & Hs)]; [left; rewrite Hs in Hr; exact Hr|].
      destruct (N.eq_dec slot sl) as [->|Hne]; [right; exists max; auto|]. left.
      apply has_rec_find. apply has_rec_find in Hr. rewrite Hs, (find_client_connect_other _ _ _ _ _ Hne) in Hr. exact Hr.
    + left. rewrite Hs in Hr. apply has_rec_slots in Hr. apply has_rec_slots. unfold authorize_client in Hr.
      destruct (find_client (y_server y) sl) as [r|]; [|exact Hr]. destruct (sc_authorized r); [exact Hr|].
      rewrite upd_client_slots in Hr. exact Hr.
    + left. destruct Hs as [Hs|Hs]; rewrite Hs in Hr; [exact Hr|]. destruct Hr as [r [Hin Hsl]].
      unfold disconnect_client in Hin. cbn [sv_clients] in Hin. apply filter_In in Hin. exists r. tauto.
    + left. destruct Hs as [Hs _]. unfold has_rec in *. rewrite Hs in Hr. exact Hr.
    + left. destruct Hs as [Hs _]. unfold has_rec in *. rewrite Hs in Hr. exact Hr.
    + left. destruct Hs as [Hs _]. unfold has_rec in *. rewrite Hs in Hr. exact Hr.
Qed.

(* a slot whose record is authorized before a step and still has a record after it is authorized after it *)
Lemma step_auth_kept y st y' o slot : link_inv y -> sys_step y st = Ok (y', o) ->
  has_auth (y_server y) slot -> has_rec (y_server y') slot -> has_auth (y_server y') slot.
Proof.
  intros Hinv H Ha Hr.
  destruct st as [| |sl max|sl|sl|tick dt cleanup ops parts|sl ops|sl s2c ch w|sl s2c ch w];
    try (apply (step_auth_mono y _ y' o H I slot Ha)).
  - cbn [sys_step] in H. destruct (al_get sl (y_clients y)); inversion H; subst; [|exact Ha].
    cbn [clear_link set_link set_client set_server y_server] in *. destruct Ha as [r [Hin [Hs Hau]]]. exists r. split; [|auto].
    unfold disconnect_client. cbn [sv_clients]. apply filter_In. split; [exact Hin|]. apply negb_true_iff.
    destruct (N.eqb_spec (sc_slot r) sl) as [E|E]; [|reflexivity]. exfalso.
    apply has_rec_find in Hr. apply Hr. rewrite <- Hs, E. apply (proj1 (disconnect_forgets_client (y_server y) sl)).
  - cbn [sys_step] in H.
    destruct (server_frame (y_cfg y) (y_server y) tick dt cleanup ops parts) as [[s' fo]| |] eqn:E; cbn [bind] in H; try discriminate.
    inversion H; subst y' o. rewrite (proj1 (proj2 (enqueue_fields _ _))) in *. cbn [set_server y_server] in *.
    destruct (frame_auth _ _ _ _ _ _ _ _ _ (li_nodup _ Hinv) E) as (_ & _ & _ & _ & _ & _ & _ & _ & F9). exact (proj1 (F9 slot Hr) Ha).
Qed.

(* an unauthorized record after a step: it was there, unauthorized, before the step, or the step connected the slot *)
Theorem step_unauth_back y st y' o slot r' : link_inv y -> sys_step y st = Ok (y', o) ->
  find_client (y_server y') slot = Some r' -> sc_authorized r' = false ->
  (exists r0, find_client (y_server y) slot = Some r0 /\ sc_authorized r0 = false) \/
  (exists max, st = StConnect slot max /\ find_client (y_server y) slot = None).
Proof.
  intros Hinv H Hf Hna. pose proof (link_step y st y' o Hinv H) as Hinv'.
  assert (Hr : has_rec (y_server y') slot) by (apply has_rec_find; congruence).
  destruct (step_rec_back y st y' o slot Hinv H Hr) as [Hb|Hc]; [|right; exact Hc]. left.
  apply has_rec_find in Hb. destruct (find_client (y_server y) slot) as [r0|] eqn:E0; [|congruence].
  exists r0. split; [reflexivity|]. destruct (sc_authorized r0) eqn:Ea; [|reflexivity]. exfalso.
  assert (Ha : has_auth (y_server y) slot) by (apply (has_auth_find _ _ (li_nodup _ Hinv)); exists r0; auto).
  pose proof (step_auth_kept y st y' o slot Hinv H Ha Hr) as Ha'.
  apply (has_auth_find _ _ (li_nodup _ Hinv')) in Ha'. destruct Ha' as [r1 [F1 A1]]. congruence.
Qed.

(* ================================================================== *)
(* 2. A2, one server frame                                            *)
(* ================================================================== *)

(* every event message a server frame hands to the backend goes to a slot that has a record after the frame; it is
   unstamped and of an independent type, or stamped, of a dependent type, and its slot's record is AUTHORIZED.  So: a
   slot whose record is not authorized is sent independent events only *)
Theorem sframe_sent_classified e tick dt cleanup ops parts emit e' o :
  RemoteSpec.inv e -> syse_step e (ESFrame tick dt cleanup ops parts emit) = Ok (e', o) ->
  forall slot m, In (slot, m) (eo_sent o) ->
  exists r, find_client (y_server (e_sys e')) slot = Some r /\
    ((sm_tick m = None /\ independent (sm_ty m) = true) \/
     (sc_authorized r = true /\ sm_tick m = Some (ct_update_tick (sc_ticks r)) /\ independent (sm_ty m) = false)).
Proof.
  intros Hinv H slot m Hin. destruct (sframe_full _ _ _ _ _ _ _ _ _ H) as (_ & _ & F). destruct (F slot m Hin) as [r [Hf Hc]].
  exists r. split; [exact Hf|].
  destruct (sframe_sent e tick dt cleanup ops parts emit e' o Hinv H slot m Hin) as [[A B]|[r2 [F2 [A B]]]].
  - left. auto.
  - right. destruct Hc as [Hc|[Ha Ht]]; [congruence|]. auto.
Qed.

Corollary sframe_unauthorized_independent e tick dt cleanup ops parts emit e' o :
  RemoteSpec.inv e -> syse_step e (ESFrame tick dt cleanup ops parts emit) = Ok (e', o) ->
  forall slot m, In (slot, m) (eo_sent o) ->
  (forall r, find_client (y_server (e_sys e')) slot = Some r -> sc_authorized r = false) ->
  sm_tick m = None /\ independent (sm_ty m) = true.
Proof.
  intros Hinv H slot m Hin Hn. destruct (sframe_sent_classified e tick dt cleanup ops parts emit e' o Hinv H slot m Hin) as [r [Hf [Hc|[Ha _]]]].
  - exact Hc.
  - rewrite (Hn r Hf) in Ha. discriminate.
Qed.

(* ================================================================== *)
(* 3. A2, runs: the session ledger of an unauthorized connection      *)
(* ================================================================== *)

(* the slot's record is not authorized (a slot without a record is not concerned) *)
Definition unauth_rec (e : syse) (slot : N) : Prop :=
  exists r, find_client (y_server (e_sys e)) slot = Some r /\ sc_authorized r = false.

Definition ssent_unstamped (e : syse) (gl : lghost) : Prop :=
  forall slot, unauth_rec e slot -> forall m, In m (ssent gl slot) -> sm_tick m = None /\ independent (sm_ty m) = true.

Lemma in_for_slot {A} slot (l : list (N * A)) m : In m (for_slot slot l) <-> In (slot, m) l.
Proof.
  unfold for_slot. rewrite in_map_iff. split.
  - intros [[s m'] [E H]]. cbn [snd] in E. subst m'. apply filter_In in H. destruct H as [H Hs]. cbn [fst] in Hs.
    assert (s = slot) by lia. subst s. exact H.
  - intros H. exists (slot, m). split; [reflexivity|]. apply filter_In. split; [exact H|]. cbn [fst]. apply N.eqb_refl.
Qed.

Theorem ssent_unstamped_step e gl st e' o :
  RemoteSpec.inv e -> clients_dom e -> link_inv (e_sys e) -> ssent_unstamped e gl -> syse_step e st = Ok (e', o) ->
  ssent_unstamped e' (lstep e gl st e' o).
Proof.
  intros Hinv Hdom Hl Hs H slot [r' [Hf' Hna']] m Hm.
  (* a step that leaves the session ledger alone *)
  assert (Hsame : forall b, sys_step (e_sys e) b = Ok (e_sys e', eo_base o) -> (forall max, b <> StConnect slot max) ->
            In m (ssent gl slot) -> sm_tick m = None /\ independent (sm_ty m) = true).
  { intros b Hb Hnc Hin. destruct (step_unauth_back (e_sys e) b (e_sys e') (eo_base o) slot r' Hl Hb Hf' Hna') as [[r0 [F0 A0]]|[max [E _]]].
    - apply (Hs slot); [exists r0; auto|exact Hin].
    - exfalso. exact (Hnc max E). }
  destruct st as [b|tick dt cleanup ops parts emit|sl ops emit|sl ty w drop|sl ty w].
  - destruct (ebase_unfold _ _ _ _ H) as (Hb & _).
    destruct b as [| |sl max|sl|sl|tick dt cleanup ops parts|sl ops|sl s2c ch w|sl s2c ch w]; cbn [lstep] in Hm;
      try (apply (Hsame _ Hb); [discriminate|exact Hm]).
    destruct (find_client (y_server (e_sys e)) sl) as [r0|] eqn:E0.
    + destruct (step_unauth_back (e_sys e) _ (e_sys e') (eo_base o) slot r' Hl Hb Hf' Hna') as [[r1 [F1 A1]]|[max' [E F]]].
      * apply (Hs slot); [exists r1; auto|exact Hm].
      * inversion E; subst. congruence.
    + unfold ssent in Hm. cbn [lg_sent] in Hm. destruct (N.eq_dec slot sl) as [->|Hne].
      * rewrite for_slot_drop_same in Hm. destruct Hm.
      * rewrite (for_slot_drop_other _ _ _ Hne) in Hm. apply (Hsame _ Hb); [intros max' E; inversion E; congruence|exact Hm].
  - cbn [lstep] in Hm. unfold ssent in Hm. cbn [lg_sent] in Hm. rewrite for_slot_app in Hm. apply in_app_or in Hm.
    destruct (sframe_unfold _ _ _ _ _ _ _ _ _ H) as (y' & ob & Hb & Ey & Eo & _). subst y' ob.
    destruct Hm as [Hm|Hm].
    + apply (Hsame _ Hb); [discriminate|exact Hm].
    + apply in_for_slot in Hm. apply (sframe_unauthorized_independent e tick dt cleanup ops parts emit e' o Hinv H slot m Hm).
      intros r Hr. congruence.
  - destruct (cframe_unfold _ _ _ _ _ _ Hdom H) as (Hb & _). apply (Hsame _ Hb); [discriminate|].
    cbn [lstep] in Hm. destruct (al_get sl (y_clients (e_sys e))) as [cb|]; [|exact Hm].
    destruct (al_get sl (e_clients e)) as [ce|]; [|exact Hm]. destruct (al_get sl (y_clients (e_sys e'))) as [cl|]; [|exact Hm].
    destruct (cl_status cb); exact Hm.
  - destruct (deliver_s2c_step _ _ _ _ _ _ _ H) as (picked & rest & _ & _ & _ & _ & _ & _ & Es & _).
    apply (Hs slot); [exists r'; rewrite <- Es; auto|].
    cbn [lstep] in Hm. destruct drop; [exact Hm|]. destruct (client_connected e sl); exact Hm.
  - assert (Es : e_sys e' = e_sys e) by (unfold syse_step in H; destruct (take_typed _ w _); injection H as <- _; reflexivity).
    apply (Hs slot); [exists r'; rewrite <- Es; auto|exact Hm].
Qed.

Theorem ssent_unstamped_run c n script : forall e gl os,
  lrun (syse_init c n) lg_init script = Ok (e, gl, os) -> ssent_unstamped e gl.
Proof.
  induction script as [|st t IH] using rev_ind; intros e gl os H.
  - cbn in H. inversion H; subst. intros slot _ m [].
  - destruct (grun_snoc _ _ _ _ _ _ _ _ _ H) as (e1 & g1 & os1 & o & H1 & Hs & -> & ->).
    pose proof (grun_erun _ _ _ _ _ _ _ _ H1) as He1.
    assert (Hr : reachable c n e1) by (eapply erun_reachable; [apply reach_init|exact He1]).
    apply (ssent_unstamped_step e1 g1 st e o (reachable_inv _ _ _ Hr) (erun_init_dom _ _ _ _ _ He1)); [|exact (IH _ _ _ H1)|exact Hs].
    exact (link_run_init c n _ _ (erun_init_sys c n t e1 os1 He1)).
Qed.

(* A2 for the whole unauthorized period, in every run: whatever has been handed to the backend for a connection in its
   current session while its record is not authorized is unstamped and of an independent type *)
Theorem run_unauthorized_sent_independent c n script e gl os slot r :
  lrun (syse_init c n) lg_init script = Ok (e, gl, os) ->
  find_client (y_server (e_sys e)) slot = Some r -> sc_authorized r = false ->
  forall m, In m (ssent gl slot) -> sm_tick m = None /\ independent (sm_ty m) = true.
Proof. intros H Hf Hn. apply (ssent_unstamped_run c n script e gl os H slot). exists r. auto. Qed.

(* ... and with the premises of C04E / C05E: so is everything the connection holds (link, inbox, queue of the session)
   and everything it has handed to its conversion step, i.e. to game logic, in this session *)
Theorem run_unauthorized_held_independent c n script e gu gl os slot cl r :
  escript_ok script = true -> tick_frames (proj_script script) < 2 ^ 31 ->
  crun (syse_init c n) (ug_init, lg_init) script = Ok (e, (gu, gl), os) ->
  al_get slot (y_clients (e_sys e)) = Some cl -> emode script slot = MLive -> cl_status cl = Connected ->
  find_client (y_server (e_sys e)) slot = Some r -> sc_authorized r = false ->
  forall m, In m (held_msgs e slot cl) \/ In m (snow gl slot) -> sm_tick m = None /\ independent (sm_ty m) = true.
Proof.
  intros Hok Hb H Hc Hm Hst Hf Hn m Hin.
  destruct (e3_attribution c n script e gu gl os slot cl Hok Hb H Hc Hm Hst) as (A & _).
  destruct (crun_split _ _ _ _ _ _ _ _ H) as [_ Hl].
  exact (run_unauthorized_sent_independent c n script e gl os slot r Hl Hf Hn m (A m Hin)).
Qed.

(* ================================================================== *)
(* 4. after authorization: the flush is complete                      *)
(* ================================================================== *)

(* a frame of a running server in which `send_replication` runs flushes the buffer: every buffered dependent event, and
   every dependent event emitted in this very frame, goes - stamped - to every connection that has an authorized
   record after the frame, is not excluded from the event's set and is addressed by the event's mode *)
Theorem flush_complete e tick dt cleanup ops parts emit e' o :
  syse_step e (ESFrame tick dt cleanup ops parts emit) = Ok (e', o) ->
  sv_running (y_server (e_sys e)) = true -> out_ran (eo_base o) = true ->
  forall slot uid r, uid_of e slot = Some uid -> find_client (y_server (e_sys e')) slot = Some r -> sc_authorized r = true ->
  (forall set ev, In set (e_buffer e) -> In ev (bs_events set) -> ~ In uid (bs_excluded set) -> mode_allows (sev_mode ev) uid ->
     In (slot, stamped r ev) (eo_sent o)) /\
  (forall ev, In ev (resolved_emits e emit) -> independent (sev_ty ev) = false -> mode_allows (sev_mode ev) uid ->
     In (slot, stamped r ev) (eo_sent o)).
Proof.
  intros H Hrun Hran slot uid r Hu Hf Ha.
  destruct (sframe_unfold _ _ _ _ _ _ _ _ _ H) as (y' & ob & _ & Ey & Eo & _ & _ & _ & Hrest). subst y' ob.
  rewrite Hrun in Hrest. cbv zeta in Hrest. destruct Hrest as [_ Hrest]. rewrite Hran in Hrest. destruct Hrest as (Es & _).
  set (e1 := sframe_mid e (e_sys e') emit) in *. set (e2 := fst (send_or_buffer e1)) in *.
  destruct (send_or_buffer_state e1) as (_ & Eb & Esys & Eu & _). fold e2 in Eb, Esys, Eu.
  assert (Hgo : forall set ev, In set (e_buffer e2) -> In ev (bs_events set) -> ~ In uid (bs_excluded set) ->
            mode_allows (sev_mode ev) uid -> In (slot, stamped r ev) (eo_sent o)).
  { intros set ev Hset Hev Hex Hmode. rewrite Es. apply in_or_app. right. apply in_send_buffered.
    exists set, ev, r. split; [exact Hset|]. split; [exact Hev|]. rewrite Esys. cbn [e1 sframe_mid e_sys].
    split; [|split; [exact Hf|reflexivity]]. apply recipients_spec. exists uid, r.
    split; [unfold uid_of; rewrite Eu; exact Hu|]. rewrite Esys. cbn [e1 sframe_mid e_sys]. auto. }
  split.
  - intros set ev Hset Hev Hex Hmode. apply (Hgo set ev); try assumption. rewrite Eb. apply in_or_app. left. exact Hset.
  - intros ev Hev Hdep Hmode.
    apply (Hgo (mkBSet (filter (fun ev0 => negb (independent (sev_ty ev0))) (emitted_in_order e1)) []) ev).
    + rewrite Eb. apply in_or_app. right. left. reflexivity.
    + cbn [bs_events]. apply filter_In. split; [|rewrite Hdep; reflexivity].
      apply (Permutation_in _ (Permutation_sym (emitted_in_order_perm e1))). exact Hev.
    + intros [].
    + exact Hmode.
Qed.

(* a connection is excluded only from sets that existed when it started: the excluded ids of a set are not below the
   set's birth (the ghost `births` of Properties/C05E.v: the value of the connection-id counter when the set was
   created) *)
Definition born_after (set : bset) (birth : N) : Prop := forall u, In u (bs_excluded set) -> birth <= u.
Definition binv2 (e : syse) (b : list N) : Prop := Forall2 born_after (e_buffer e) b.

Theorem binv2_step e b st e' o : clients_dom e -> binv e b -> binv2 e b -> syse_step e st = Ok (e', o) -> binv2 e' (bstep e b st e' o).
Proof.
  intros Hdom Hb1 Hb H. unfold binv2 in *.
  destruct st as [b0|tick dt cleanup ops parts emit|sl ops emit|sl ty w drop|sl ty w].
  - cbn [bstep]. destruct (ebase_unfold _ _ _ _ H) as (_ & _ & _ & _ & _ & _ & Hl).
    destruct b0 as [| |s0 max|s0|s0|tick dt cleanup ops parts|s0 ops|s0 s2c ch w|s0 s2c ch w];
      try (destruct Hl as (_ & _ & _ & _ & _ & Eb & _); rewrite Eb; exact Hb).
    destruct Hl as (_ & _ & _ & _ & Hl).
    destruct (find_client (y_server (e_sys e)) s0); [destruct Hl as (_ & _ & Eb); rewrite Eb; exact Hb|].
    destruct (find_client (y_server (e_sys e')) s0); [|destruct Hl as (_ & _ & Eb); rewrite Eb; exact Hb].
    destruct Hl as (_ & _ & Eb). rewrite Eb. apply Forall2_map_l. unfold binv in Hb1.
    clear - Hb Hb1. revert Hb1. induction Hb as [|set birth l l' Hs F IH]; intros Hb1; [constructor|].
    inversion Hb1 as [|? ? ? ? [Hle _] F1]; subst. constructor; [|exact (IH F1)].
    intros u Hu. cbn [bs_excluded] in Hu. apply in_app_or in Hu. destruct Hu as [Hu|[<-|[]]]; [exact (Hs u Hu)|exact Hle].
  - destruct (sframe_unfold _ _ _ _ _ _ _ _ _ H) as (y' & ob & _ & _ & Hob & _ & _ & _ & Hrest). cbn [bstep]. rewrite Hob.
    destruct (sv_running (y_server (e_sys e))).
    + cbv zeta in Hrest. destruct Hrest as [_ Hrest]. destruct (out_ran ob).
      * destruct Hrest as (_ & _ & ->). constructor.
      * destruct Hrest as (_ & _ & ->). destruct (send_or_buffer_state (sframe_mid e y' emit)) as (_ & Eb & _). rewrite Eb. cbn [sframe_mid e_buffer].
        apply Forall2_app; [exact Hb|]. constructor; [|constructor]. intros u [].
    + destruct Hrest as (_ & _ & _ & ->). destruct (sv_last_running (y_server (e_sys e))); [constructor|exact Hb].
  - cbn [bstep]. destruct (cframe_unfold _ _ _ _ _ _ Hdom H) as (_ & _ & _ & Eb & _). rewrite Eb. exact Hb.
  - cbn [bstep]. destruct (deliver_s2c_step _ _ _ _ _ _ _ H) as (picked & rest & _ & _ & _ & _ & _ & _ & _ & _ & _ & _ & Eb & _).
    rewrite Eb. exact Hb.
  - cbn [bstep]. unfold syse_step in H. destruct (take_typed _ w _) as [picked rest]. injection H as <- _. cbn [e_buffer]. exact Hb.
Qed.

Theorem binv2_run c n script : forall e b os, brun (syse_init c n) [] script = Ok (e, b, os) -> binv2 e b.
Proof.
  induction script as [|st t IH] using rev_ind; intros e b os H.
  - cbn in H. inversion H; subst. constructor.
  - destruct (grun_snoc _ _ _ _ _ _ _ _ _ H) as (e1 & b1 & os1 & o & H1 & Hs & -> & ->).
    pose proof (grun_erun _ _ _ _ _ _ _ _ H1) as He1.
    exact (binv2_step _ _ _ _ _ (erun_init_dom _ _ _ _ _ He1) (binv_run _ _ _ _ _ _ H1) (IH _ _ _ H1) Hs).
Qed.

(* hence: a connection that existed when a set was created (its id is below the set's birth) is not excluded from it *)
Theorem run_not_excluded c n script e b os :
  brun (syse_init c n) [] script = Ok (e, b, os) ->
  Forall2 (fun set birth => forall uid, uid < birth -> ~ In uid (bs_excluded set)) (e_buffer e) b.
Proof.
  intros H. pose proof (binv2_run c n script e b os H) as Hb. unfold binv2 in Hb.
  clear H. induction Hb as [|set birth l l' Hs F IH]; [constructor|]. constructor; [|exact IH].
  intros uid Hlt Hin. pose proof (Hs uid Hin). lia.
Qed.

(* "after authorization dependent events emitted from then on are delivered": a frame of a running server in which
   `send_replication` runs, in a run; a connection (id [uid]) whose record is authorized after the frame receives
   - every dependent event of this frame's emissions addressed to it, and
   - every dependent event still buffered from an earlier frame of the run in which the connection already existed
     ([uid] below the birth of the event's set) *)
Theorem run_flush_after_authorization c n pre e b os tick dt cleanup ops parts emit e' o :
  brun (syse_init c n) [] pre = Ok (e, b, os) -> syse_step e (ESFrame tick dt cleanup ops parts emit) = Ok (e', o) ->
  sv_running (y_server (e_sys e)) = true -> out_ran (eo_base o) = true ->
  forall slot uid r, uid_of e slot = Some uid -> find_client (y_server (e_sys e')) slot = Some r -> sc_authorized r = true ->
  (forall ev, In ev (resolved_emits e emit) -> independent (sev_ty ev) = false -> mode_allows (sev_mode ev) uid ->
     In (slot, stamped r ev) (eo_sent o)) /\
  (forall set birth ev, In (set, birth) (combine (e_buffer e) b) -> uid < birth -> In ev (bs_events set) ->
     mode_allows (sev_mode ev) uid -> In (slot, stamped r ev) (eo_sent o)).
Proof.
  intros Hpre H Hrun Hran slot uid r Hu Hf Ha.
  destruct (flush_complete e tick dt cleanup ops parts emit e' o H Hrun Hran slot uid r Hu Hf Ha) as [A B].
  split; [exact B|]. intros set birth ev Hin Hlt Hev Hmode. apply (A set ev); [exact (in_combine_l _ _ _ _ Hin)|exact Hev| |exact Hmode].
  pose proof (run_not_excluded c n pre e b os Hpre) as Hne. clear - Hne Hin Hlt.
  induction Hne as [|s0 b0 l l' Hs F IH]; [destruct Hin|]. destruct Hin as [E|Hin]; [inversion E; subst; exact (Hs uid Hlt)|exact (IH Hin)].
Qed.
