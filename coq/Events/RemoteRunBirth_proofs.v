(* E2 (C05 end to end), "a client never receives an event sent before it connected": the ghost `births` records, for every
   buffered set, the value of the connection-id counter `e_next_uid` when the set was created (in the server frame of
   the emission).  Invariant: every connection whose id is not below the birth of a set is excluded from it.  Hence a
   recipient of a flush has an id below the birth of the event's set: it was connected before the emission frame. *)
From Coq Require Import ZifyBool ZifyN Permutation Sorted.
From RV Require Import Lib.Res Repl.ClientTicks Repl.World Repl.Server Repl.Client Repl.Sys Tick.RepliconTick
  Repl.ClientSys_proofs Repl.StructE2E_proofs Repl.StructE2EMut_proofs Repl.StructE2ESess_proofs Repl.ValSpec.
From RV Require Import Events.Remote Events.RemoteSpec Events.Remote_proofs Events.RemoteRun Events.RemoteRunProj_proofs
  Events.RemoteRunTick_proofs.
Ltac Zify.zify_post_hook ::= Z.div_mod_to_equations.
Arguments N.add : simpl never. Arguments N.mul : simpl never. Arguments N.pow : simpl never.
Arguments N.ltb : simpl never. Arguments N.leb : simpl never. Arguments N.div : simpl never.
Arguments N.modulo : simpl never. Arguments N.sub : simpl never. Arguments N.eqb : simpl never.
Open Scope N_scope.

Definition bstep (e : syse) (b : list N) (st : estep) (e' : syse) (o : eout) : list N :=
  match st with
  | ESFrame _ _ _ _ _ _ =>
    if sv_running (y_server (e_sys e)) then (if out_ran (eo_base o) then [] else b ++ [e_next_uid e])
    else if sv_last_running (y_server (e_sys e)) then [] else b
  | _ => b
  end.
Definition brun : syse -> list N -> list estep -> res (syse * list N * list eout) := grun bstep.

Definition born (e : syse) (set : bset) (birth : N) : Prop :=
  birth <= e_next_uid e /\ forall slot uid, uid_of e slot = Some uid -> birth <= uid -> In uid (bs_excluded set).
Definition binv (e : syse) (b : list N) : Prop := Forall2 (born e) (e_buffer e) b.

Lemma Forall2_weaken {A B} (P Q : A -> B -> Prop) l l' : (forall a b, In a l -> P a b -> Q a b) -> Forall2 P l l' -> Forall2 Q l l'.
Proof.
  intros H F. induction F as [|a b l l' Hab F IH]; [constructor|]. constructor; [apply H; [left; reflexivity|exact Hab]|].
  apply IH. intros a' b' Ha'. apply H. right. exact Ha'.
Qed.

Lemma Forall2_in_left {A B} (P : A -> B -> Prop) l l' a : Forall2 P l l' -> In a l -> exists b, In b l' /\ P a b.
Proof.
  induction 1 as [|x y l l' Hxy F IH]; intros Ha; [destruct Ha|]. destruct Ha as [->|Ha]; [exists y; split; [left; reflexivity|exact Hxy]|].
  destruct (IH Ha) as (b & Hb & Hp). exists b. split; [right; exact Hb|exact Hp].
Qed.

Lemma Forall2_map_l {A A' B} (f : A -> A') (P : A' -> B -> Prop) l l' : Forall2 (fun a b => P (f a) b) l l' -> Forall2 P (map f l) l'.
Proof. induction 1; cbn [map]; constructor; assumption. Qed.

Theorem binv_step e b st e' o : RemoteSpec.inv e -> clients_dom e -> binv e b -> syse_step e st = Ok (e', o) -> binv e' (bstep e b st e' o).
Proof.
  intros (_ & _ & Hfresh & _) Hdom Hb H. unfold binv in *.
  (* connections only disappear, the counter stays: every set keeps its birth *)
  assert (Hkeep : e_next_uid e' = e_next_uid e -> (forall slot uid, uid_of e' slot = Some uid -> uid_of e slot = Some uid) ->
                  Forall2 (born e') (e_buffer e) b).
  { intros En Hu. revert Hb. apply Forall2_weaken. intros set birth _ [A B]. split; [rewrite En; exact A|]. intros slot uid Hs Hle. exact (B slot uid (Hu slot uid Hs) Hle). }
  destruct st as [b0|tick dt cleanup ops parts emit|sl ops emit|sl ty w drop|sl ty w].
  - cbn [bstep]. destruct (ebase_unfold _ _ _ _ H) as (_ & _ & _ & _ & _ & _ & Hl).
    destruct b0 as [| |s0 max|s0|s0|tick dt cleanup ops parts|s0 ops|s0 s2c ch w|s0 s2c ch w];
      try (destruct Hl as (_ & _ & _ & Eu & _ & Eb & En); rewrite Eb; apply Hkeep; [exact En|unfold uid_of; rewrite Eu; intros ? ? X; exact X]).
    + destruct Hl as (_ & _ & _ & _ & Hl).
      destruct (find_client (y_server (e_sys e)) s0); [destruct Hl as (Eu & En & Eb); rewrite Eb; apply Hkeep; [exact En|unfold uid_of; rewrite Eu; auto]|].
      destruct (find_client (y_server (e_sys e')) s0); [|destruct Hl as (Eu & En & Eb); rewrite Eb; apply Hkeep; [exact En|unfold uid_of; rewrite Eu; auto]].
      destruct Hl as (Eu & En & Eb). rewrite Eb. apply Forall2_map_l. revert Hb. apply Forall2_weaken. intros set birth _ [A B]. split; [rewrite En; lia|].
      intros slot uid Hs Hle. cbn [bs_excluded]. apply in_or_app. unfold uid_of in Hs. rewrite Eu in Hs.
      destruct (N.eq_dec slot s0) as [->|Hne].
      * rewrite al_get_insert_same in Hs. injection Hs as <-. right. left. reflexivity.
      * rewrite al_get_insert_other in Hs by exact Hne. left. exact (B slot uid Hs Hle).
    + destruct Hl as (_ & _ & _ & Eu & _ & Eb & En). rewrite Eb. apply Hkeep; [exact En|].
      intros slot uid. unfold uid_of. rewrite Eu, al_get_remove. destruct (s0 =? slot); [discriminate|auto].
  - destruct (sframe_shape _ _ _ _ _ _ _ _ _ H) as (_ & En & _ & (live & Eu) & _).
    assert (Hu : forall slot uid, uid_of e' slot = Some uid -> uid_of e slot = Some uid).
    { intros slot uid. unfold uid_of. rewrite Eu, (al_get_filter_key (fun k => mem_N k live)). destruct (mem_N slot live); [auto|discriminate]. }
    destruct (sframe_unfold _ _ _ _ _ _ _ _ _ H) as (y' & ob & _ & _ & Hob & _ & _ & _ & Hrest). cbn [bstep]. rewrite Hob.
    destruct (sv_running (y_server (e_sys e))).
    + cbv zeta in Hrest. destruct Hrest as [_ Hrest]. destruct (out_ran ob).
      * destruct Hrest as (_ & _ & ->). constructor.
      * destruct Hrest as (_ & _ & ->). destruct (send_or_buffer_state (sframe_mid e y' emit)) as (_ & Eb & _). rewrite Eb. cbn [sframe_mid e_buffer].
        apply Forall2_app; [exact (Hkeep En Hu)|]. constructor; [|constructor]. split; [rewrite En; lia|].
        intros slot uid Hs Hle. exfalso. pose proof (Hfresh slot uid (Hu slot uid Hs)). lia.
    + destruct Hrest as (_ & _ & _ & ->). destruct (sv_last_running (y_server (e_sys e))); [constructor|exact (Hkeep En Hu)].
  - cbn [bstep]. destruct (cframe_unfold _ _ _ _ _ _ Hdom H) as (_ & _ & Eu & Eb & _ & En & _). rewrite Eb. apply Hkeep; [exact En|unfold uid_of; rewrite Eu; auto].
  - cbn [bstep]. destruct (deliver_s2c_step _ _ _ _ _ _ _ H) as (picked & rest & _ & _ & _ & _ & _ & _ & _ & Eu & En & _ & Eb & _).
    rewrite Eb. apply Hkeep; [exact En|unfold uid_of; rewrite Eu; auto].
  - cbn [bstep]. unfold syse_step in H. destruct (take_typed _ w _) as [picked rest]. injection H as <- _. cbn [e_buffer]. apply Hkeep; [reflexivity|auto].
Qed.

Theorem binv_run c n script : forall e b os, brun (syse_init c n) [] script = Ok (e, b, os) -> binv e b.
Proof.
  induction script as [|st t IH] using rev_ind; intros e b os H.
  - cbn in H. inversion H; subst. constructor.
  - destruct (grun_snoc _ _ _ _ _ _ _ _ _ H) as (e1 & b1 & os1 & o & H1 & Hs & -> & ->).
    pose proof (grun_erun _ _ _ _ _ _ _ _ H1) as He1.
    assert (Hr : reachable c n e1) by (eapply erun_reachable; [apply reach_init|exact He1]).
    exact (binv_step _ _ _ _ _ (reachable_inv _ _ _ Hr) (erun_init_dom _ _ _ _ _ He1) (IH _ _ _ H1) Hs).
Qed.

(* the flush: a stamped (dependent) message goes to a connection whose id is below the birth of the event's set: the
   connection existed when the set was created, i.e. in the server frame of the emission; a connection that started
   later (its id is the counter's value at its `StConnect`, never below a birth that already existed) gets nothing *)
Theorem flush_recipient_born_before e b tick dt cleanup ops parts emit e' o :
  RemoteSpec.inv e -> binv e b -> syse_step e (ESFrame tick dt cleanup ops parts emit) = Ok (e', o) ->
  forall slot m, In (slot, m) (eo_sent o) -> sm_tick m <> None ->
  exists uid birth, uid_of e slot = Some uid /\ In birth (b ++ [e_next_uid e]) /\ uid < birth.
Proof.
  intros (_ & _ & Hfresh & _) Hb H slot m Hin Hst.
  destruct (sframe_unfold _ _ _ _ _ _ _ _ _ H) as (y' & ob & _ & _ & _ & _ & _ & _ & Hrest).
  destruct (sv_running (y_server (e_sys e))); [|destruct Hrest as (E & _); rewrite E in Hin; destruct Hin].
  cbv zeta in Hrest. destruct Hrest as [_ Hrest]. set (e1 := sframe_mid e y' emit) in *.
  assert (Hindep : forall s x, In (s, x) (snd (send_or_buffer e1)) -> sm_tick x = None).
  { intros s x Hx. exact (proj1 (independent_events_carry_no_tick e1 s x Hx)). }
  destruct (out_ran ob).
  2:{ destruct Hrest as (E & _). rewrite E in Hin. exfalso. exact (Hst (Hindep slot m Hin)). }
  destruct Hrest as (E & _). rewrite E in Hin. apply in_app_or in Hin. destruct Hin as [Hin|Hin]; [exfalso; exact (Hst (Hindep slot m Hin))|].
  apply in_send_buffered in Hin. destruct Hin as (set & ev & cl & Hset & _ & Hr & _).
  apply recipients_spec in Hr. destruct Hr as (uid & cl2 & Hu & _ & Hex & _).
  destruct (send_or_buffer_state e1) as (_ & Eb & _ & Eu & _). unfold uid_of in Hu. rewrite Eu in Hu. change (e_uids e1) with (e_uids e) in Hu.
  exists uid. rewrite Eb in Hset. change (e_buffer e1) with (e_buffer e) in Hset. apply in_app_or in Hset. destruct Hset as [Hset|[<-|[]]].
  - unfold binv in Hb. destruct (Forall2_in_left _ _ _ _ Hb Hset) as (birth & Hbirth & [_ B]).
    exists birth. split; [exact Hu|]. split; [apply in_or_app; left; exact Hbirth|].
    destruct (N.lt_ge_cases uid birth) as [X|X]; [exact X|exfalso; exact (Hex (B slot uid Hu X))].
  - exists (e_next_uid e). split; [exact Hu|]. split; [apply in_or_app; right; left; reflexivity|]. exact (Hfresh slot uid Hu).
Qed.

(* along a run from the initial state *)
Theorem recipient_born_before_run c n pre e b os tick dt cleanup ops parts emit e' o :
  brun (syse_init c n) [] pre = Ok (e, b, os) -> syse_step e (ESFrame tick dt cleanup ops parts emit) = Ok (e', o) ->
  forall slot m, In (slot, m) (eo_sent o) -> sm_tick m <> None ->
  exists uid birth, uid_of e slot = Some uid /\ In birth (b ++ [e_next_uid e]) /\ uid < birth /\
                    (forall birth', In birth' b -> birth' <= e_next_uid e).
Proof.
  intros H Hs slot m Hin Hst. pose proof (binv_run _ _ _ _ _ _ H) as Hb.
  assert (Hr : reachable c n e) by (eapply erun_reachable; [apply reach_init|exact (grun_erun _ _ _ _ _ _ _ _ H)]).
  destruct (flush_recipient_born_before e b tick dt cleanup ops parts emit e' o (reachable_inv _ _ _ Hr) Hb Hs slot m Hin Hst) as (uid & birth & A & B & C).
  exists uid, birth. repeat (split; [assumption|]). intros birth' Hb'. unfold binv in Hb.
  clear - Hb Hb'. induction Hb as [|set x l l' [Hx _] F IH]; [destruct Hb'|]. destruct Hb' as [<-|Hb']; [exact Hx|exact (IH Hb')].
Qed.
