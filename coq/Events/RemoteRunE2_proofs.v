(* E2 (C05 end to end), the combination: exactly one copy for each recipient of the flush, none for anybody else; and E1
   end to end for THE event (identified by its sequence number). *)
From Coq Require Import ZifyBool ZifyN Permutation Sorted.
From RV Require Import Lib.Res Repl.ClientTicks Repl.World Vis.Visibility Repl.Server Repl.ServerSpec Repl.Client Repl.Sys Tick.RepliconTick
  Repl.StructSpec Repl.StructVisSpec Repl.ClientSys_proofs Repl.StructE2E_proofs Repl.StructE2EMut_proofs Repl.StructE2ESess_proofs Repl.ValSpec.
From RV Require Import Events.Remote Events.RemoteSpec Events.Remote_proofs Events.RemoteRun Events.RemoteRunProj_proofs
  Events.RemoteRunTick_proofs Events.RemoteRunE1_proofs Events.RemoteRunLedger_proofs Events.RemoteRunOnce_proofs.
Ltac Zify.zify_post_hook ::= Z.div_mod_to_equations.
Arguments N.add : simpl never. Arguments N.mul : simpl never. Arguments N.pow : simpl never.
Arguments N.ltb : simpl never. Arguments N.leb : simpl never. Arguments N.div : simpl never.
Arguments N.modulo : simpl never. Arguments N.sub : simpl never. Arguments N.eqb : simpl never.
Open Scope N_scope.

(* everything a client side holds was handed to the backend for its slot (every run, no premise) *)
Theorem held_in_sent c n script : forall e g os,
  lrun (syse_init c n) lg_init script = Ok (e, g, os) ->
  forall slot m, In m (held_all e slot) -> In m (for_slot slot (lt_sent g)).
Proof.
  induction script as [|st t IH] using rev_ind; intros e g os H slot m Hm.
  - cbn in H. inversion H; subst. exfalso. pose proof (ledger_init c n (fun _ => true) slot) as B. unfold balance in B.
    cbn [lg_init lt_got lt_unm lt_disc lt_drop lt_sent for_slot filter map cnt length] in B.
    unfold cnt in B. rewrite filter_all_true in B by reflexivity. destruct (held_all (syse_init c n) slot); [destruct Hm|cbn in B; lia].
  - destruct (grun_snoc _ _ _ _ _ _ _ _ _ H) as (e1 & g1 & os1 & o & H1 & Hs & -> & ->).
    destruct (ledger_run c n _ _ _ _ H1) as [_ Hdom].
    destruct (lt_sent_grows e1 g1 st e o) as [ext Eext]. rewrite Eext, for_slot_app. apply in_or_app.
    destruct (held_all_step _ _ _ _ Hdom Hs slot m Hm) as [Hold|Hnew]; [left; exact (IH _ _ _ H1 slot m Hold)|right].
    assert (Ee : ext = eo_sent o).
    { destruct st as [b|tick dt cleanup ops parts emit|sl ops emit|sl ty w drop|sl ty w].
      - destruct (ebase_unfold _ _ _ _ Hs) as (_ & E & _). rewrite E in Hnew. destruct Hnew.
      - cbn [lstep lt_sent] in Eext. apply app_inv_head in Eext. congruence.
      - destruct (cframe_unfold _ _ _ _ _ _ Hdom Hs) as (_ & _ & _ & _ & _ & _ & E & _). rewrite E in Hnew. destruct Hnew.
      - unfold syse_step in Hs. destruct (take_typed _ w _) as [picked rest]. injection Hs as _ <-. destruct Hnew.
      - unfold syse_step in Hs. destruct (take_typed _ w _) as [picked rest]. injection Hs as _ <-. destruct Hnew. }
    rewrite Ee. apply in_msgs_for. exact Hnew.
Qed.

(* a sequence number that occurs at most once identifies the message *)
Lemma count_seq_unique q l m m' : (count_seq q l <= 1)%nat -> In m l -> In m' l -> sm_seq m = q -> sm_seq m' = q -> m = m'.
Proof.
  intros Hc Hm Hm' Eq Eq'. apply in_split in Hm. destruct Hm as (l1 & l2 & ->). unfold count_seq in Hc. rewrite filter_app in Hc. cbn [filter] in Hc.
  rewrite Eq, N.eqb_refl in Hc. rewrite app_length in Hc. cbn [length] in Hc.
  apply in_app_or in Hm'. destruct Hm' as [X|[X|X]]; [|exact X|]; exfalso.
  - assert (Hin : In m' (filter (fun m0 => sm_seq m0 =? q) l1)) by (apply filter_In; split; [exact X|rewrite Eq'; apply N.eqb_refl]).
    destruct (filter (fun m0 => sm_seq m0 =? q) l1); [destruct Hin|cbn [length] in Hc; lia].
  - assert (Hin : In m' (filter (fun m0 => sm_seq m0 =? q) l2)) by (apply filter_In; split; [exact X|rewrite Eq'; apply N.eqb_refl]).
    destruct (filter (fun m0 => sm_seq m0 =? q) l2); [destruct Hin|cbn [length] in Hc; lia].
Qed.

Lemma nodup_app_l {A} (a b : list A) : NoDup (a ++ b) -> NoDup a.
Proof.
  induction a as [|x a IH]; intros H; [constructor|]. cbn [app] in H. inversion H as [|? ? Hnin Hnd]; subst.
  constructor; [intros Hx; apply Hnin; apply in_or_app; left; exact Hx|exact (IH Hnd)].
Qed.

Lemma seqs_distinct_app a b : seqs_distinct (a ++ b) -> seqs_distinct a.
Proof. unfold seqs_distinct. rewrite flat_map_app. apply nodup_app_l. Qed.

Section E2.
  Variables (cfg0 : cfg) (nclients : N).

  (* an event flushed to a slot: from then on exactly one of its messages has been handed to the backend for that slot,
     and exactly one copy is accounted for - in flight, received, queued, handed to game logic, unresolvable,
     discarded by a session end, or dropped by the unreliable channel *)
  Theorem e2_one_copy pre st rest e1 g1 os1 e2 o2 e3 g3 os3 slot m q :
    escript_ok ((pre ++ [st]) ++ rest) = true -> tick_frames (proj_script ((pre ++ [st]) ++ rest)) < 2 ^ 31 ->
    seqs_distinct ((pre ++ [st]) ++ rest) ->
    lrun (syse_init cfg0 nclients) lg_init pre = Ok (e1, g1, os1) -> syse_step e1 st = Ok (e2, o2) ->
    lrun e2 (lstep e1 g1 st e2 o2) rest = Ok (e3, g3, os3) ->
    In (slot, m) (eo_sent o2) -> sm_seq m = q ->
    count_seq q (for_slot slot (lt_sent g3)) = 1%nat /\
    (count_seq q (held_all e3 slot) + count_seq q (for_slot slot (lt_got g3)) + count_seq q (for_slot slot (lt_unm g3))
     + count_seq q (for_slot slot (lt_disc g3)) + count_seq q (for_slot slot (lt_drop g3)))%nat = 1%nat.
  Proof.
    intros Hok Hb Hd H1 Hs H3 Hin Hq.
    pose proof (lrun_snoc cfg0 nclients _ _ _ _ _ _ _ H1 Hs) as H2.
    assert (Hfull : lrun (syse_init cfg0 nclients) lg_init ((pre ++ [st]) ++ rest) = Ok (e3, g3, (os1 ++ [o2]) ++ os3)).
    { unfold lrun in *. rewrite grun_app, H2. cbn [bind]. rewrite H3. reflexivity. }
    pose proof (e2_sent_once cfg0 nclients _ _ _ _ q slot Hok Hb Hd Hfull) as Hle.
    assert (Hge : (1 <= count_seq q (for_slot slot (lt_sent g3)))%nat).
    { destruct (lrun_sent_grows _ _ _ _ _ _ H3) as [ext E]. rewrite E, for_slot_app, count_seq_app.
      assert (Hin2 : In m (for_slot slot (lt_sent (lstep e1 g1 st e2 o2)))).
      { destruct (lt_sent_grows e1 g1 st e2 o2) as [ext1 E1]. rewrite E1, for_slot_app. apply in_or_app. right.
        assert (Ee : ext1 = eo_sent o2).
        { destruct st as [b|tick dt cleanup ops parts emit|sl ops emit|sl ty w drop|sl ty w].
          - destruct (ebase_unfold _ _ _ _ Hs) as (_ & E0 & _). rewrite E0 in Hin. destruct Hin.
          - cbn [lstep lt_sent] in E1. apply app_inv_head in E1. congruence.
          - exfalso. destruct (ledger_run cfg0 nclients _ _ _ _ H1) as [_ Hdom].
            destruct (cframe_unfold _ _ _ _ _ _ Hdom Hs) as (_ & _ & _ & _ & _ & _ & E0 & _). rewrite E0 in Hin. destruct Hin.
          - unfold syse_step in Hs. destruct (take_typed _ w _) as [picked r0]. injection Hs as _ <-. destruct Hin.
          - unfold syse_step in Hs. destruct (take_typed _ w _) as [picked r0]. injection Hs as _ <-. destruct Hin. }
        rewrite Ee. apply in_msgs_for. exact Hin. }
      unfold count_seq at 1. assert (X : In m (filter (fun m0 => sm_seq m0 =? q) (for_slot slot (lt_sent (lstep e1 g1 st e2 o2))))).
      { apply filter_In. split; [exact Hin2|rewrite Hq; apply N.eqb_refl]. }
      destruct (filter (fun m0 => sm_seq m0 =? q) (for_slot slot (lt_sent (lstep e1 g1 st e2 o2)))); [destruct X|cbn [length]; lia]. }
    assert (E1 : count_seq q (for_slot slot (lt_sent g3)) = 1%nat) by lia. split; [exact E1|].
    pose proof (proj1 (ledger_run cfg0 nclients _ _ _ _ Hfull) (fun m0 => sm_seq m0 =? q) slot) as B. unfold balance, cnt in B. unfold count_seq in *. lia.
  Qed.
End E2.

(* what a step hands to the backend stays in the ledger *)
Lemma flushed_in_sent e1 g1 st e2 o2 rest e3 g3 os3 slot m : clients_dom e1 ->
  syse_step e1 st = Ok (e2, o2) -> lrun e2 (lstep e1 g1 st e2 o2) rest = Ok (e3, g3, os3) ->
  In (slot, m) (eo_sent o2) -> In m (for_slot slot (lt_sent g3)).
Proof.
  intros Hdom Hs H3 Hin. destruct (lrun_sent_grows _ _ _ _ _ _ H3) as [ext E]. rewrite E, for_slot_app. apply in_or_app. left.
  destruct (lt_sent_grows e1 g1 st e2 o2) as [ext1 E1]. rewrite E1, for_slot_app. apply in_or_app. right.
  assert (Ee : ext1 = eo_sent o2).
  { destruct st as [b|tick dt cleanup ops parts emit|sl ops emit|sl ty w drop|sl ty w].
    - destruct (ebase_unfold _ _ _ _ Hs) as (_ & E0 & _). rewrite E0 in Hin. destruct Hin.
    - cbn [lstep lt_sent] in E1. apply app_inv_head in E1. congruence.
    - exfalso. destruct (cframe_unfold _ _ _ _ _ _ Hdom Hs) as (_ & _ & _ & _ & _ & _ & E0 & _). rewrite E0 in Hin. destruct Hin.
    - unfold syse_step in Hs. destruct (take_typed _ w _) as [picked r0]. injection Hs as _ <-. destruct Hin.
    - unfold syse_step in Hs. destruct (take_typed _ w _) as [picked r0]. injection Hs as _ <-. destruct Hin. }
  rewrite Ee. apply in_msgs_for. exact Hin.
Qed.

Section E1SEQ.
  Variables (cfg0 : cfg) (nclients : N).

  (* E1 end to end for THE event: with distinct sequence numbers, the event with number q flushed to a live connection
     and the event with number q that connection hands to its game logic later in the session are the same message:
     every update message sent to the connection up to and including the flush frame has been applied before *)
  Theorem e1_end_to_end_seq script tick dt cleanup ops parts emit mid slot cops cemit e1 g1 os1 e2 o2 e3 g3 os3 e4 o4 c2 :
    let stf := ESFrame tick dt cleanup ops parts emit in
    let stc := ECFrame slot cops cemit in
    let g2 := ustep e1 g1 stf e2 o2 in
    let g4 := ustep e3 g3 stc e4 o4 in
    let full := ((script ++ [stf]) ++ mid) ++ [stc] in
    escript_ok full = true -> tick_frames (proj_script full) < 2 ^ 31 -> seqs_distinct full ->
    urun (syse_init cfg0 nclients) ug_init script = Ok (e1, g1, os1) -> syse_step e1 stf = Ok (e2, o2) ->
    urun e2 g2 mid = Ok (e3, g3, os3) -> syse_step e3 stc = Ok (e4, o4) ->
    emode (script ++ [stf]) slot = MLive -> al_get slot (y_clients (e_sys e2)) = Some c2 ->
    forallb (fun b => negb (ends_session slot b)) (proj_script mid) = true ->
    forall m tk ty q ent, In (slot, m) (eo_sent o2) -> sm_tick m = Some tk -> sm_seq m = q ->
    In (ty, q, ent) (eo_got o4) -> independent ty = false ->
    exists cl, al_get slot (y_clients (e_sys e4)) = Some cl /\ deliverable cl m = Some (ty, q, ent) /\
      tk <= cl_upd_tick cl /\ tk = last_tick (usent g2 slot) /\ is_prefix (usent g2 slot) (uapplied g4 slot).
  Proof.
    intros stf stc g2 g4 full Hok Hb Hd H1 Hsf H3 Hsc Hmf Hc2 Hne m tk ty q ent Hin Htk Hq Hgot Hdep.
    destruct (e1_end_to_end cfg0 nclients script tick dt cleanup ops parts emit mid slot cops cemit e1 g1 os1 e2 o2 e3 g3 os3 e4 o4 c2
                Hok Hb H1 Hsf H3 Hsc Hmf Hc2 Hne m tk Hin Htk ty q ent Hgot Hdep) as (cl & tk' & m' & A1 & A2 & A3 & A4 & A5 & A6 & A7).
    (* the ledger of the run up to the client frame *)
    pose proof (grun_erun _ _ _ _ _ _ _ _ H1) as E1. destruct (erun_grun _ lstep _ _ lg_init _ _ E1) as [gl1 L1]. fold (lrun (syse_init cfg0 nclients) lg_init script) in L1.
    pose proof (grun_erun _ _ _ _ _ _ _ _ H3) as E3. destruct (erun_grun _ lstep _ _ (lstep e1 gl1 stf e2 o2) _ _ E3) as [gl3 L3]. fold (lrun e2 (lstep e1 gl1 stf e2 o2) mid) in L3.
    pose proof (lrun_snoc cfg0 nclients _ _ _ _ _ _ _ L1 Hsf) as L2.
    assert (LP : lrun (syse_init cfg0 nclients) lg_init ((script ++ [stf]) ++ mid) = Ok (e3, gl3, (os1 ++ [o2]) ++ os3)).
    { unfold lrun in *. rewrite grun_app, L2. cbn [bind]. rewrite L3. reflexivity. }
    pose proof (escript_ok_app _ _ Hok) as Hok3.
    assert (Hb3 : tick_frames (proj_script ((script ++ [stf]) ++ mid)) < 2 ^ 31).
    { pose proof (tick_frames_app_le (proj_script ((script ++ [stf]) ++ mid)) (proj_estep stc)). unfold full in Hb. rewrite proj_script_snoc in Hb. lia. }
    pose proof (e2_sent_once cfg0 nclients _ _ _ _ q slot Hok3 Hb3 (seqs_distinct_app _ _ Hd) LP) as Hle.
    pose proof (erun_init_dom _ _ _ _ _ E1) as Hdom1.
    pose proof (flushed_in_sent e1 gl1 stf e2 o2 mid e3 gl3 os3 slot m Hdom1 Hsf L3 Hin) as Hm.
    pose proof (held_in_sent cfg0 nclients _ _ _ _ LP slot m' A4) as Hm'.
    assert (Eq' : sm_seq m' = q) by (destruct (deliverable_some _ _ _ A2) as [E _]; congruence).
    assert (Em : m = m') by exact (count_seq_unique q _ m m' Hle Hm Hm' Hq Eq'). subst m'.
    assert (tk' = tk) by congruence. subst tk'. exists cl. split; [exact A1|]. split; [exact A2|]. split; [exact A5|]. split; [exact A6|].
    apply A7. lia.
  Qed.
End E1SEQ.
