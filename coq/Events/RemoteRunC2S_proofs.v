(* E2 (C05 end to end), the mirror for client events: the ledger `cledger` of client event messages balances in every
   run: per slot (= per sender), in the link + received by the server backend + handed to server logic tagged with that
   slot + discarded (session end, server not running / no record of the sender) = handed to the backend by the client. *)
From Coq Require Import ZifyBool ZifyN Permutation Sorted.
From RV Require Import Lib.Res Repl.ClientTicks Repl.World Repl.Server Repl.Client Repl.Sys Tick.RepliconTick
  Repl.ClientSys_proofs Repl.StructE2E_proofs Repl.StructE2EMut_proofs Repl.StructE2ESess_proofs Repl.ValSpec.
From RV Require Import Events.Remote Events.RemoteSpec Events.Remote_proofs Events.RemoteRun Events.RemoteRunProj_proofs
  Events.RemoteRunTick_proofs Events.RemoteRunLedger_proofs.
Ltac Zify.zify_post_hook ::= Z.div_mod_to_equations.
Arguments N.add : simpl never. Arguments N.mul : simpl never. Arguments N.pow : simpl never.
Arguments N.ltb : simpl never. Arguments N.leb : simpl never. Arguments N.div : simpl never.
Arguments N.modulo : simpl never. Arguments N.sub : simpl never. Arguments N.eqb : simpl never.
Open Scope N_scope.

Record cledger := mkCL {
  lc_sent : list (N * cev);      (* handed to the backend by the client app of the slot *)
  lc_from : list (N * cev);      (* handed to server logic, with the slot the backend received it on *)
  lc_disc : list (N * cev)       (* discarded: session end, stopped server, sender without record *)
}.
Definition cl_init : cledger := mkCL [] [] [].

Definition c2s_ok (e : syse) (slot : N) : bool :=
  sv_running (y_server (e_sys e)) && match find_client (y_server (e_sys e)) slot with Some _ => true | None => false end.

Definition clstep (e : syse) (g : cledger) (st : estep) (e' : syse) (o : eout) : cledger :=
  match st with
  | ECFrame slot _ _ => mkCL (lc_sent g ++ tag slot (eo_csent o)) (lc_from g) (lc_disc g)
  | ESFrame _ _ _ _ _ _ =>
    mkCL (lc_sent g) (lc_from g ++ eo_from o)
         (lc_disc g ++ (if sv_running (y_server (e_sys e)) then []
                        else filter (fun m => negb (mem_N (fst m) (map sc_slot (sv_clients (y_server (e_sys e')))))) (e_inbox e)))
  | EBase (StDisconnect slot) =>
    mkCL (lc_sent g) (lc_from g) (lc_disc g ++ tag slot (chan_c2s e slot) ++ filter (fun m => fst m =? slot) (e_inbox e))
  | EBase StStop =>
    mkCL (lc_sent g) (lc_from g)
         (lc_disc g ++ flat_map (fun k => tag k (chan_c2s e k)) (nodup N.eq_dec (map fst (e_c2s e))) ++ e_inbox e)
  | EDeliverC2S slot ty w =>
    if c2s_ok e slot then g
    else mkCL (lc_sent g) (lc_from g)
              (lc_disc g ++ tag slot (fst (take_typed (fun m => cety_eqb (cev_ty m) ty) w (chan_c2s e slot))))
  | _ => g
  end.
Definition clrun : syse -> cledger -> list estep -> res (syse * cledger * list eout) := grun clstep.

Definition cntc (p : cev -> bool) (l : list cev) : nat := length (filter p l).

Lemma cntc_app p a b : cntc p (a ++ b) = (cntc p a + cntc p b)%nat.
Proof. unfold cntc. rewrite filter_app, app_length. reflexivity. Qed.

Lemma cntc_perm p a b : Permutation a b -> cntc p a = cntc p b.
Proof.
  intros H. unfold cntc. induction H as [|x l l' H IH|x y l|l l' l'' H1 IH1 H2 IH2]; cbn [filter].
  - reflexivity.
  - destruct (p x); cbn [length]; rewrite IH; reflexivity.
  - destruct (p x), (p y); reflexivity.
  - congruence.
Qed.

Definition cbalance (p : cev -> bool) (e : syse) (g : cledger) (slot : N) : Prop :=
  (cntc p (chan_c2s e slot) + cntc p (for_slot slot (e_inbox e)) + cntc p (for_slot slot (lc_from g))
   + cntc p (for_slot slot (lc_disc g)))%nat = cntc p (for_slot slot (lc_sent g)).
Definition cledger_ok (e : syse) (g : cledger) : Prop := forall p slot, cbalance p e g slot.

Lemma for_slot_perm {A} slot (a b : list (N * A)) : Permutation a b -> Permutation (for_slot slot a) (for_slot slot b).
Proof.
  intros H. unfold for_slot. apply Permutation_map.
  induction H as [|x l l' H IH|x y l|l l' l'' H1 IH1 H2 IH2]; cbn [filter].
  - constructor.
  - destruct (fst x =? slot); [constructor|]; exact IH.
  - destruct (fst x =? slot), (fst y =? slot); try apply Permutation_refl. apply perm_swap.
  - eapply Permutation_trans; eassumption.
Qed.

Lemma for_slot_filter_key {A} slot (q : N -> bool) (l : list (N * A)) :
  for_slot slot (filter (fun m => q (fst m)) l) = if q slot then for_slot slot l else [].
Proof.
  unfold for_slot. induction l as [|[k v] l IH]; cbn [filter fst]; [destruct (q slot); reflexivity|].
  destruct (q k) eqn:Eq; cbn [filter fst].
  - destruct (N.eqb_spec k slot) as [->|Hne]; cbn [map snd]; rewrite IH; [rewrite Eq; reflexivity|destruct (q slot); reflexivity].
  - rewrite IH. destruct (N.eqb_spec k slot) as [->|Hne]; [rewrite Eq; reflexivity|destruct (q slot); reflexivity].
Qed.

Lemma for_slot_map_pair {A} slot s (l : list A) : for_slot slot (map (fun m => (s, m)) l) = if s =? slot then l else [].
Proof. exact (for_slot_tag slot s l). Qed.

(* the inbox of the server backend after a server frame *)
Lemma sframe_inbox e tick dt cleanup ops parts emit e' o :
  syse_step e (ESFrame tick dt cleanup ops parts emit) = Ok (e', o) ->
  e_inbox e' = if sv_running (y_server (e_sys e)) then []
               else filter (fun m => mem_N (fst m) (map sc_slot (sv_clients (y_server (e_sys e'))))) (e_inbox e).
Proof.
  unfold syse_step.
  destruct (sv_running (y_server (e_sys e))) eqn:Hrb.
  - destruct (server_receive e) as [e0 from] eqn:Hsr.
    assert (Hi0 : e_inbox e0 = []) by (unfold server_receive in Hsr; injection Hsr as <- _; reflexivity).
    destruct (sys_step (e_sys e0) (StSFrame tick dt cleanup ops parts)) as [[y' o']| |]; cbn [bind]; try discriminate.
    match goal with |- context [send_or_buffer ?x] => set (e1 := x) end.
    destruct (send_or_buffer e1) as [e2 sent1] eqn:Hsob.
    pose proof (send_or_buffer_state e1) as Ho. cbv zeta in Ho. rewrite Hsob in Ho. cbn [fst snd] in Ho.
    destruct Ho as (_ & _ & _ & _ & _ & Hi2 & _).
    cbn [negb andb].
    match goal with |- context [if ?r then send_buffered e2 else _] => destruct r end.
    + destruct (send_buffered e2) as [e3 sent2] eqn:Hsb.
      pose proof (send_buffered_state e2) as Ho. cbv zeta in Ho. rewrite Hsb in Ho. cbn [fst] in Ho. destruct Ho as (_ & _ & _ & _ & _ & Hi3 & _).
      intros H. injection H as <- _. unfold prune_uids. cbn [e_inbox]. rewrite Hi3, Hi2. subst e1. cbn [e_inbox]. rewrite Hi0. reflexivity.
    + intros H. injection H as <- _. unfold prune_uids. cbn [e_inbox]. rewrite Hi2. subst e1. cbn [e_inbox]. rewrite Hi0. reflexivity.
  - destruct (sys_step (e_sys e) (StSFrame tick dt cleanup ops parts)) as [[y' o']| |]; cbn [bind]; try discriminate.
    cbn [negb andb].
    destruct (sv_last_running (y_server (e_sys e))); intros H; injection H as <- _; unfold prune_uids; cbn [e_inbox e_sys]; reflexivity.
Qed.

Lemma cbalance_same p e g e' g' slot : chan_c2s e' slot = chan_c2s e slot -> e_inbox e' = e_inbox e -> g' = g ->
  cbalance p e g slot -> cbalance p e' g' slot.
Proof. unfold cbalance. intros -> -> ->. auto. Qed.

Theorem cledger_step e g st e' o : clients_dom e -> cledger_ok e g -> syse_step e st = Ok (e', o) -> cledger_ok e' (clstep e g st e' o).
Proof.
  intros Hdom Hl H p slot. specialize (Hl p slot).
  destruct st as [b|tick dt cleanup ops parts emit|sl ops emit|sl ty w drop|sl ty w].
  - destruct (ebase_unfold _ _ _ _ H) as (_ & _ & _ & _ & _ & _ & Hlayer).
    destruct b as [| |s0 max|s0|s0|tick dt cleanup ops parts|s0 ops|s0 s2c ch w|s0 s2c ch w];
      try (destruct Hlayer as (_ & _ & Eq & _ & Ei & _); apply (cbalance_same p e g); [unfold chan_c2s; rewrite Eq; reflexivity|exact Ei|reflexivity|exact Hl]).
    + (* StStop *)
      destruct Hlayer as (_ & _ & Eq & _ & Ei & _). unfold cbalance in *. cbn [clstep lc_sent lc_from lc_disc].
      rewrite !for_slot_app, !cntc_app, (for_slot_flat_tag slot (fun k => chan_c2s e k)) by (apply NoDup_nodup).
      assert (Hc' : chan_c2s e' slot = []).
      { unfold chan_c2s. rewrite Eq. clear Eq. induction (e_c2s e) as [|[k v] l IH]; cbn [map al_get fst]; [reflexivity|]. destruct (k =? slot); [reflexivity|exact IH]. }
      rewrite Hc', Ei. cbn [for_slot filter map cntc length].
      destruct (in_dec N.eq_dec slot (nodup N.eq_dec (map fst (e_c2s e)))) as [Hi|Hn]; [cbn [cntc filter length] in *; lia|].
      assert (Hc : chan_c2s e slot = []).
      { unfold chan_c2s. rewrite al_get_not_in; [reflexivity|]. intros Hin. apply Hn. apply nodup_In. exact Hin. }
      rewrite Hc in Hl. cbn [cntc filter length] in *. lia.
    + (* StConnect *)
      destruct Hlayer as (_ & _ & Eq & Ei & _). apply (cbalance_same p e g); [unfold chan_c2s; rewrite Eq; reflexivity|exact Ei|reflexivity|exact Hl].
    + (* StDisconnect *)
      destruct Hlayer as (_ & _ & Eq & _ & Ei & _). unfold cbalance in *. cbn [clstep lc_sent lc_from lc_disc].
      rewrite !for_slot_app, for_slot_tag, !cntc_app, Ei.
      rewrite (for_slot_filter_key slot (fun k => negb (k =? s0))), (for_slot_filter_key slot (fun k => k =? s0)).
      destruct (N.eqb_spec s0 slot) as [->|Hne].
      * rewrite N.eqb_refl. cbn [negb]. unfold chan_c2s at 1. rewrite Eq, al_get_insert_same. cbn [opt_list cntc filter length] in *. lia.
      * replace (slot =? s0) with false by (symmetry; apply N.eqb_neq; congruence). cbn [negb].
        unfold chan_c2s at 1. rewrite Eq, al_get_insert_other by congruence. fold (chan_c2s e slot). cbn [cntc filter length] in *. lia.
  - (* ESFrame *)
    destruct (sframe_unfold _ _ _ _ _ _ _ _ _ H) as (y' & ob & _ & _ & _ & _ & Ec & _ & Hrest).
    pose proof (sframe_inbox _ _ _ _ _ _ _ _ _ H) as Hi.
    unfold cbalance in *. cbn [clstep lc_sent lc_from lc_disc]. rewrite !for_slot_app, !cntc_app. unfold chan_c2s at 1. rewrite Ec. fold (chan_c2s e slot).
    destruct (sv_running (y_server (e_sys e))).
    + cbv zeta in Hrest. destruct Hrest as [Hfrom _]. rewrite Hi, Hfrom. cbn [for_slot filter map cntc length].
      pose proof (cntc_perm p _ _ (for_slot_perm slot _ _ (proj1 (server_receive_conservation e)))) as Hp. cbn [cntc filter length] in *. lia.
    + destruct Hrest as (_ & Hfrom & _). rewrite Hi, Hfrom.
      rewrite (for_slot_filter_key slot (fun k => mem_N k (map sc_slot (sv_clients (y_server (e_sys e')))))),
              (for_slot_filter_key slot (fun k => negb (mem_N k (map sc_slot (sv_clients (y_server (e_sys e'))))))).
      destruct (mem_N slot (map sc_slot (sv_clients (y_server (e_sys e'))))); unfold cntc in *; cbn [negb for_slot filter map length] in *; lia.
  - (* ECFrame *)
    destruct (cframe_unfold _ _ _ _ _ _ Hdom H) as (_ & _ & _ & _ & Ei & _ & _ & _ & _ & Hcho & Hcase).
    unfold cbalance in *. cbn [clstep lc_sent lc_from lc_disc]. rewrite for_slot_app, for_slot_tag, cntc_app, Ei.
    destruct (N.eqb_spec sl slot) as [->|Hne].
    2:{ rewrite (Hcho slot) by congruence. cbn [cntc filter length]. lia. }
    destruct (al_get slot (y_clients (e_sys e))) as [cb|].
    2:{ destruct Hcase as (-> & _ & ->). cbn [cntc filter length]. lia. }
    destruct Hcase as (ce & cl & _ & _ & _ & Hcase). destruct (cl_status cb).
    + destruct Hcase as (_ & _ & -> & ->). cbn [cntc filter length]. lia.
    + cbv zeta in Hcase. destruct Hcase as (_ & _ & _ & ->). rewrite cntc_app. lia.
  - (* EDeliverS2C *)
    destruct (deliver_s2c_step _ _ _ _ _ _ _ H) as (picked & rest & _ & _ & _ & _ & _ & _ & _ & _ & _ & _ & _ & Ei & Ec).
    apply (cbalance_same p e g); [unfold chan_c2s; rewrite Ec; reflexivity|exact Ei|reflexivity|exact Hl].
  - (* EDeliverC2S *)
    destruct (deliver_c2s_tags_sender _ _ _ _ _ _ H) as (picked & rest & Htk & Hch & Hcho & Hi).
    destruct (take_typed_perm _ _ _ _ _ Htk) as [Hperm _]. pose proof (cntc_perm p _ _ Hperm) as Hc. rewrite cntc_app in Hc.
    unfold cbalance in *. cbn [clstep]. rewrite Htk. cbn [fst]. fold (c2s_ok e sl) in Hi. rewrite Hi.
    destruct (N.eq_dec slot sl) as [->|Hne].
    + rewrite Hch. destruct (c2s_ok e sl); cbn [lc_sent lc_from lc_disc].
      * rewrite for_slot_app, for_slot_map_pair, N.eqb_refl, cntc_app. lia.
      * rewrite for_slot_app, for_slot_tag, N.eqb_refl, cntc_app. lia.
    + rewrite (Hcho slot Hne). destruct (c2s_ok e sl); cbn [lc_sent lc_from lc_disc].
      * rewrite for_slot_app, for_slot_map_pair. replace (sl =? slot) with false by (symmetry; apply N.eqb_neq; congruence).
        rewrite app_nil_r. exact Hl.
      * rewrite for_slot_app, for_slot_tag. replace (sl =? slot) with false by (symmetry; apply N.eqb_neq; congruence).
        rewrite app_nil_r. exact Hl.
Qed.

Lemma cledger_init c n : cledger_ok (syse_init c n) cl_init.
Proof.
  intros p slot. unfold cbalance. cbn [cl_init lc_sent lc_from lc_disc for_slot filter map cntc length syse_init e_inbox].
  assert (Hc : chan_c2s (syse_init c n) slot = []).
  { unfold chan_c2s, syse_init. cbn [e_c2s]. induction (y_clients (sys_init c n)) as [|[k v] l IH]; cbn [map al_get fst]; [reflexivity|].
    destruct (k =? slot); [reflexivity|exact IH]. }
  rewrite Hc. reflexivity.
Qed.

(* in every run the ledger of client events balances, for every sender slot and every predicate *)
Theorem cledger_run c n script : forall e g os,
  clrun (syse_init c n) cl_init script = Ok (e, g, os) -> cledger_ok e g.
Proof.
  induction script as [|st t IH] using rev_ind; intros e g os H.
  - cbn in H. inversion H; subst. apply cledger_init.
  - destruct (grun_snoc _ _ _ _ _ _ _ _ _ H) as (e1 & g1 & os1 & o & H1 & Hs & -> & ->).
    exact (cledger_step _ _ _ _ _ (erun_init_dom _ _ _ _ _ (grun_erun _ _ _ _ _ _ _ _ H1)) (IH _ _ _ H1) Hs).
Qed.
