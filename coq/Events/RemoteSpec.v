(* Specification-level vocabulary for Events/Remote.v (definitions only, no lemmas):
   decompositions of the model's functions into named pieces, invariants of reachable
   states and the legality predicate of event deliveries.  Lemmas: Events/Remote_proofs.v. *)
From RV Require Import Lib.Res Repl.ClientTicks Repl.World Repl.Server Repl.Client Repl.Sys Tick.RepliconTick Events.Remote.
Open Scope N_scope.

(* ---------- generic ---------- *)

Fixpoint omap {A B : Type} (f : A -> option B) (l : list A) : list B :=
  match l with
  | [] => []
  | x :: t => match f x with Some y => y :: omap f t | None => omap f t end
  end.

Definition opt_list {A : Type} (o : option (list A)) : list A := match o with Some l => l | None => [] end.

(* ---------- server side ---------- *)

(* what a send mode means for one connection id *)
Definition mode_allows (mode : smode) (uid : N) : Prop :=
  match mode with
  | MBroadcast => True
  | MExcept u => uid <> u
  | MDirect u => uid = u
  | MDirectServer => False
  end.

(* the message a dependent event becomes for one receiver *)
Definition stamped (cl : sclient) (ev : sev) : smsg :=
  mkSMsg (sev_ty ev) (Some (ct_update_tick (sc_ticks cl))) (sev_seq ev) (sev_ent ev).
(* the message an independent event becomes *)
Definition unstamped (ev : sev) : smsg := mkSMsg (sev_ty ev) None (sev_seq ev) (sev_ent ev).

(* messages of one buffered event of one set / of one set, as computed by [send_buffered] *)
Definition ev_msgs (e : syse) (set : bset) (ev : sev) : list (N * smsg) :=
  flat_map (fun slot =>
              match find_client (y_server (e_sys e)) slot with
              | Some cl => [(slot, mkSMsg (sev_ty ev) (Some (ct_update_tick (sc_ticks cl))) (sev_seq ev) (sev_ent ev))]
              | None => []
              end) (recipients e (sev_mode ev) (bs_excluded set) true).
Definition set_msgs (e : syse) (set : bset) : list (N * smsg) := flat_map (ev_msgs e set) (bs_events set).

(* the frame's emissions in the order the per-type systems see them *)
Definition emitted_in_order (e : syse) : list sev :=
  flat_map (fun t => filter (fun ev => sety_eqb (sev_ty ev) t) (e_emitted e)) sety_all.
(* messages of one emitted event as computed by [send_or_buffer] *)
Definition indep_msgs (e : syse) (ev : sev) : list (N * smsg) :=
  if independent (sev_ty ev)
  then map (fun slot => (slot, mkSMsg (sev_ty ev) None (sev_seq ev) (sev_ent ev))) (recipients e (sev_mode ev) [] false)
  else [].

(* the per-slot channel content *)
Definition chan_s2c (e : syse) (slot : N) : list smsg := opt_list (al_get slot (e_s2c e)).
Definition chan_c2s (e : syse) (slot : N) : list cev := opt_list (al_get slot (e_c2s e)).
Definition msgs_for (slot : N) (sent : list (N * smsg)) : list smsg :=
  map snd (filter (fun sm => fst sm =? slot) sent).

(* ---------- client side ---------- *)

(* a message that has to wait: it carries a tick the client has not applied yet *)
Definition held (upd : N) (m : smsg) : bool :=
  match sm_tick m with Some tk => tick_gtb tk upd | None => false end.
Definition qentry (t : sety) (m : smsg) : sety * N * smsg :=
  (t, match sm_tick m with Some tk => tk | None => 0 end, m).
Definition q_ready (upd : N) (t : sety) (q : sety * N * smsg) : bool :=
  sety_eqb (fst (fst q)) t && negb (tick_gtb (snd (fst q)) upd).

(* the messages [client_receive_type] hands to the conversion step, in order *)
Definition now_msgs (c : client) (ce : cevents) (t : sety) : list smsg :=
  map snd (filter (q_ready (cl_upd_tick c) t) (ce_queue ce))
  ++ filter (fun m => negb (held (cl_upd_tick c) m)) (filter (fun m => sety_eqb (sm_ty m) t) (ce_inbox ce)).

(* recursive form of [client_receive] over a list of types *)
Fixpoint client_receive_types (c : client) (ce : cevents) (ts : list sety) : cevents * list (sety * N * option N) :=
  match ts with
  | [] => (ce, [])
  | t :: ts' =>
    let '(ce1, g1) := client_receive_type c ce t in
    let '(ce2, g2) := client_receive_types c ce1 ts' in
    (ce2, g1 ++ g2)
  end.

(* queue entries are (type of the message, tick of the message, message) *)
Definition queue_wf (q : list (sety * N * smsg)) : Prop :=
  forall ty tk m, In (ty, tk, m) q -> sm_ty m = ty /\ sm_tick m = Some tk.

(* one emitted client event on the wire *)
Definition send_one (c : client) (ev : cev) : list cev :=
  match cev_ent ev with
  | None => [ev]
  | Some se => match al_get se (cl_s2c c) with
               | Some cid => match al_get cid (cl_c2s c) with
                             | Some s => [mkCev (cev_ty ev) (cev_seq ev) (Some s)]
                             | None => []
                             end
               | None => []
               end
  end.
Definition client_emitted_in_order (ce : cevents) : list cev :=
  flat_map (fun t => filter (fun ev => cety_eqb (cev_ty ev) t) (ce_emitted ce)) cety_all.
(* the entity maps of a client agree with each other *)
Definition maps_consistent (c : client) : Prop :=
  forall se cid, al_get se (cl_s2c c) = Some cid -> al_get cid (cl_c2s c) = Some se.

(* ---------- tick order of the queue ---------- *)

Definition qkey (q : sety * N * smsg) : N := snd (fst q).
(* b is not before a *)
Definition q_le (a b : sety * N * smsg) : Prop := tick_ltb (qkey b) (qkey a) = false.
(* all ticks are u32 images of integers of one window shorter than half the range *)
Definition in_window (base : Z) (tk : N) : Prop := exists z : Z, tk = wrap z /\ (base <= z < base + 2 ^ 31)%Z.

(* the queue [client_receive_type] leaves behind *)
Definition queue_after (c : client) (ce : cevents) (t : sety) : list (sety * N * smsg) :=
  fold_left (fun q m => insert_by_tick (qentry t m) q)
            (filter (held (cl_upd_tick c)) (filter (fun m => sety_eqb (sm_ty m) t) (ce_inbox ce)))
            (filter (fun q => negb (q_ready (cl_upd_tick c) t q)) (ce_queue ce)).

Definition client_connected (e : syse) (slot : N) : bool :=
  match al_get slot (y_clients (e_sys e)) with
  | Some cl => match cl_status cl with Connected => true | Disconnected => false end
  | None => false
  end.

(* ---------- runs, invariants, legality ---------- *)

Inductive reachable (c : cfg) (n : N) : syse -> Prop :=
| reach_init : reachable c n (syse_init c n)
| reach_step e st e' o : reachable c n e -> syse_step e st = Ok (e', o) -> reachable c n e'.

(* only dependent events are ever buffered *)
Definition buffer_dependent (e : syse) : Prop :=
  forall set ev, In set (e_buffer e) -> In ev (bs_events set) -> independent (sev_ty ev) = false.
(* connection ids are fresh: below the counter, and no two slots share one *)
Definition uids_fresh (e : syse) : Prop :=
  forall slot uid, uid_of e slot = Some uid -> uid < e_next_uid e.
Definition clients_wf (e : syse) : Prop :=
  forall slot ce, al_get slot (e_clients e) = Some ce -> queue_wf (ce_queue ce) /\ ce_emitted ce = [].
Definition inv (e : syse) : Prop :=
  buffer_dependent e /\ e_emitted e = [] /\ uids_fresh e /\ clients_wf e.

(* ordered reliable channels deliver in order and never drop; only SEU is unreliable *)
Definition legal_estep (st : estep) : bool :=
  match st with
  | EBase b => legal_step b
  | EDeliverS2C _ ty w drop =>
    match ty with
    | SEU => true
    | _ => negb drop && match w with Last => false | _ => true end
    end
  | EDeliverC2S _ _ w => match w with Last => false | _ => true end
  | _ => true
  end.

(* the local loop of [take_typed]: drop the first element satisfying is_ty *)
Definition remove_first {A : Type} (is_ty : A -> bool) : list A -> bool -> list A :=
  fix go (l : list A) (done : bool) : list A :=
    match l with
    | [] => []
    | x :: t => if is_ty x && negb done then go t true else x :: go t done
    end.

(* a script of steps, collecting the observations; stops at the first Err/Panic *)
Fixpoint erun (e : syse) (script : list estep) : res (syse * list eout) :=
  match script with
  | [] => Ok (e, [])
  | st :: rest =>
    let* (e1, o) := syse_step e st in
    let* (e2, os) := erun e1 rest in
    Ok (e2, o :: os)
  end.
