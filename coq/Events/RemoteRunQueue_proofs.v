(* E3 (order), the client side: what `client_receive_type` does to the stream of one event type when ticks are below half
   the range (numeric order), the queue is sorted by tick and the stamps of the type's messages do not decrease in
   arrival order.  Vocabulary: Events/RemoteRun.v (`skey`, `tyf`). *)
From Coq Require Import ZifyBool ZifyN Permutation Sorted.
From RV Require Import Lib.Res Repl.ClientTicks Repl.World Repl.Server Repl.Client Repl.Sys Tick.RepliconTick Tick.RepliconTick_proofs
  Repl.ClientStructSpec Repl.ClientStruct_proofs.
From RV Require Import Events.Remote Events.RemoteSpec Events.Remote_proofs Events.RemoteRun.
Ltac Zify.zify_post_hook ::= Z.div_mod_to_equations.
Arguments N.add : simpl never. Arguments N.mul : simpl never. Arguments N.pow : simpl never.
Arguments N.ltb : simpl never. Arguments N.leb : simpl never. Arguments N.div : simpl never.
Arguments N.modulo : simpl never. Arguments N.sub : simpl never. Arguments N.eqb : simpl never.
Open Scope N_scope.

Lemma tick_ltb_small a b : a < 2 ^ 31 -> b < 2 ^ 31 -> tick_ltb a b = (a <? b).
Proof.
  intros Ha Hb. pose proof Npow31 as P31. pose proof Npow32 as P32.
  replace (tick_ltb a b) with (tick_ltb (wrap (Z.of_N a)) (wrap (Z.of_N b))) by (rewrite !wrap_of_N by lia; reflexivity).
  rewrite tick_ltb_spec by (rewrite Zpow31; lia).
  destruct (Z.ltb_spec (Z.of_N a) (Z.of_N b)); destruct (N.ltb_spec a b); lia.
Qed.

(* ---------- lists sorted by a key ---------- *)

Definition nondecr (l : list N) : Prop := StronglySorted N.le l.

Lemma nondecr_app_inv a b : nondecr (a ++ b) -> nondecr a /\ nondecr b /\ forall x y, In x a -> In y b -> x <= y.
Proof.
  induction a as [|z a IH]; intros H; cbn [app] in H.
  - split; [constructor|]. split; [exact H|]. intros x y [].
  - inversion H as [|? ? Hs Hall]; subst. destruct (IH Hs) as (A & B & C). rewrite Forall_forall in Hall. split; [|split; [exact B|]].
    + constructor; [exact A|]. apply Forall_forall. intros x Hx. apply Hall. apply in_or_app. left. exact Hx.
    + intros x y [->|Hx] Hy; [apply Hall; apply in_or_app; right; exact Hy|exact (C x y Hx Hy)].
Qed.

Lemma nondecr_app a b : nondecr a -> nondecr b -> (forall x y, In x a -> In y b -> x <= y) -> nondecr (a ++ b).
Proof.
  induction a as [|z a IH]; intros Ha Hb Hab; cbn [app]; [exact Hb|]. inversion Ha as [|? ? Hs Hall]; subst.
  constructor; [apply IH; [exact Hs|exact Hb|intros x y Hx Hy; apply Hab; [right; exact Hx|exact Hy]]|].
  rewrite Forall_forall in *. intros x Hx. apply in_app_or in Hx. destruct Hx as [Hx|Hx]; [exact (Hall x Hx)|apply Hab; [left; reflexivity|exact Hx]].
Qed.

(* a list with non-decreasing keys splits at any bound: the small keys come first *)
Lemma nondecr_split {A} (k : A -> N) (l : list A) x : nondecr (map k l) ->
  l = filter (fun a => k a <=? x) l ++ filter (fun a => negb (k a <=? x)) l.
Proof.
  induction l as [|a l IH]; intros H; [reflexivity|]. cbn [map] in H. inversion H as [|? ? Hs Hall]; subst. cbn [filter].
  destruct (k a <=? x) eqn:E; cbn [negb app].
  - f_equal. exact (IH Hs).
  - assert (Hnil : filter (fun a0 => k a0 <=? x) l = []).
    { apply filter_all_false. intros b Hb. apply N.leb_gt. apply N.leb_gt in E. rewrite Forall_forall in Hall.
      pose proof (Hall (k b) (in_map k _ _ Hb)). lia. }
    rewrite Hnil. cbn [app]. f_equal. rewrite (IH Hs) at 1. rewrite Hnil. reflexivity.
Qed.

Lemma nondecr_filter {A} (k : A -> N) (p : A -> bool) l : nondecr (map k l) -> nondecr (map k (filter p l)).
Proof.
  induction l as [|a l IH]; intros H; [constructor|]. cbn [map] in H. inversion H as [|? ? Hs Hall]; subst. cbn [filter].
  destruct (p a); [|exact (IH Hs)]. cbn [map]. constructor; [exact (IH Hs)|]. rewrite Forall_forall in *. intros y Hy.
  apply in_map_iff in Hy. destruct Hy as (b & <- & Hb). apply filter_In in Hb. apply Hall. apply in_map. tauto.
Qed.

(* ---------- the queue ---------- *)

Definition qsorted (q : list (sety * N * smsg)) : Prop := nondecr (map qkey q).
Definition qsmall (q : list (sety * N * smsg)) : Prop := forall x, In x q -> qkey x < 2 ^ 31.
(* the type of a queue entry is the type of its message, its key the message's stamp *)
Definition qmsg_ty (t : sety) (q : sety * N * smsg) : bool := tyf t (snd q).

Lemma insert_small x l : qkey x < 2 ^ 31 -> qsmall l -> qsorted l ->
  exists l1 l2, l = l1 ++ l2 /\ insert_by_tick x l = l1 ++ x :: l2 /\
    (forall y, In y l1 -> qkey y <= qkey x) /\ (forall y, In y l2 -> qkey x < qkey y) /\ qsorted (l1 ++ x :: l2).
Proof.
  intros Hx Hsm Hs. destruct (insert_by_tick_split x l) as (l1 & l2 & El & Ei & H1 & H2). exists l1, l2.
  split; [exact El|]. split; [exact Ei|].
  assert (A1 : forall y, In y l1 -> qkey y <= qkey x).
  { intros y Hy. rewrite Forall_forall in H1. specialize (H1 y Hy). rewrite tick_ltb_small in H1; [lia|exact Hx|].
    apply Hsm. rewrite El. apply in_or_app. left. exact Hy. }
  assert (A2 : forall y, In y l2 -> qkey x < qkey y).
  { intros y Hy. destruct l2 as [|y0 l2']; [destruct Hy|]. rewrite tick_ltb_small in H2; [|exact Hx|apply Hsm; rewrite El; apply in_or_app; right; left; reflexivity].
    unfold qsorted in Hs. rewrite El, map_app in Hs. destruct (nondecr_app_inv _ _ Hs) as (_ & B & _). cbn [map] in B.
    inversion B as [|? ? _ Hall]; subst. destruct Hy as [->|Hy]; [lia|]. rewrite Forall_forall in Hall.
    pose proof (Hall (qkey y) (in_map qkey _ _ Hy)). lia. }
  split; [exact A1|]. split; [exact A2|].
  unfold qsorted in *. rewrite El, map_app in Hs. destruct (nondecr_app_inv _ _ Hs) as (S1 & S2 & S12). rewrite map_app. cbn [map].
  apply nondecr_app; [exact S1| |].
  - constructor; [exact S2|]. apply Forall_forall. intros z Hz. apply in_map_iff in Hz. destruct Hz as (y & <- & Hy). pose proof (A2 y Hy). lia.
  - intros a b Ha [<-|Hb]; [apply in_map_iff in Ha; destruct Ha as (y & <- & Hy); exact (A1 y Hy)|exact (S12 a b Ha Hb)].
Qed.

Lemma insert_qsmall x l : qkey x < 2 ^ 31 -> qsmall l -> qsmall (insert_by_tick x l).
Proof. intros Hx Hl y Hy. apply (Permutation_in _ (insert_by_tick_perm x l)) in Hy. destruct Hy as [<-|Hy]; [exact Hx|exact (Hl y Hy)]. Qed.

(* inserting an entry of another type does not touch the stream of type t *)
Lemma insert_other_type t x l : qmsg_ty t x = false ->
  filter (tyf t) (map snd (insert_by_tick x l)) = filter (tyf t) (map snd l).
Proof.
  intros Hx. destruct (insert_by_tick_split x l) as (l1 & l2 & -> & -> & _). rewrite !map_app, !filter_app. cbn [map filter].
  unfold qmsg_ty in Hx. rewrite Hx. reflexivity.
Qed.

(* inserting an entry of type t whose key is not below the keys of the type-t entries puts it behind them *)
Lemma insert_same_type t x l : qkey x < 2 ^ 31 -> qsmall l -> qsorted l -> qmsg_ty t x = true ->
  (forall y, In y l -> qmsg_ty t y = true -> qkey y <= qkey x) ->
  filter (tyf t) (map snd (insert_by_tick x l)) = filter (tyf t) (map snd l) ++ [snd x].
Proof.
  intros Hx Hsm Hs Ht Hle. destruct (insert_small x l Hx Hsm Hs) as (l1 & l2 & -> & -> & _ & A2 & _).
  rewrite !map_app, !filter_app. cbn [map filter]. unfold qmsg_ty in Ht. rewrite Ht.
  assert (Hnil : filter (tyf t) (map snd l2) = []).
  { apply filter_all_false. intros m Hm. apply in_map_iff in Hm. destruct Hm as (y & <- & Hy).
    destruct (tyf t (snd y)) eqn:E; [|reflexivity]. exfalso. pose proof (A2 y Hy).
    pose proof (Hle y (in_or_app _ _ _ (or_intror Hy)) E). lia. }
  rewrite Hnil, app_nil_r. reflexivity.
Qed.

(* ---------- inserting the held arrivals of one type ---------- *)

Lemma fold_insert_type t : forall (H : list smsg) (K : list (sety * N * smsg)),
  qsmall K -> qsorted K ->
  (forall h, In h H -> tyf t h = true /\ exists tk, sm_tick h = Some tk /\ tk < 2 ^ 31) ->
  nondecr (map skey H) ->
  (forall y h, In y K -> qmsg_ty t y = true -> In h H -> qkey y <= skey h) ->
  let K' := fold_left (fun q m => insert_by_tick (qentry t m) q) H K in
  filter (tyf t) (map snd K') = filter (tyf t) (map snd K) ++ H /\
  (forall t', t' <> t -> filter (tyf t') (map snd K') = filter (tyf t') (map snd K)) /\
  qsmall K' /\ qsorted K'.
Proof.
  induction H as [|h H IH]; intros K Hsm Hs Hh Hnd Hle; cbn [fold_left].
  - cbv zeta. rewrite app_nil_r. auto.
  - destruct (Hh h (or_introl eq_refl)) as (Hty & tk & Etk & Htk).
    assert (Eq : qentry t h = (t, tk, h)) by (unfold qentry; rewrite Etk; reflexivity).
    assert (Ek : skey h = tk) by (unfold skey; rewrite Etk; reflexivity).
    assert (Hx : qkey (qentry t h) < 2 ^ 31) by (rewrite Eq; exact Htk).
    assert (Hxt : qmsg_ty t (qentry t h) = true) by (rewrite Eq; exact Hty).
    cbn [map] in Hnd. apply StronglySorted_inv in Hnd. destruct Hnd as [Hnd' Hall].
    destruct (insert_small (qentry t h) K Hx Hsm Hs) as (l1 & l2 & El & Ei & _ & _ & Hs').
    assert (Hsame : filter (tyf t) (map snd (insert_by_tick (qentry t h) K)) = filter (tyf t) (map snd K) ++ [h]).
    { rewrite (insert_same_type t _ K Hx Hsm Hs Hxt); [rewrite Eq; reflexivity|].
      intros y Hy Hyt. rewrite Eq. cbn [qkey fst snd]. rewrite <- Ek. exact (Hle y h Hy Hyt (or_introl eq_refl)). }
    specialize (IH (insert_by_tick (qentry t h) K)). cbv zeta in IH. destruct IH as (I1 & I2 & I3 & I4).
    + apply insert_qsmall; assumption.
    + rewrite Ei. exact Hs'.
    + intros h' Hh'. apply Hh. right. exact Hh'.
    + exact Hnd'.
    + intros y h' Hy Hyt Hh'. apply (Permutation_in _ (insert_by_tick_perm _ _)) in Hy. destruct Hy as [<-|Hy].
      * rewrite Eq. cbn [qkey fst snd]. rewrite <- Ek. rewrite Forall_forall in Hall. apply Hall. apply in_map. exact Hh'.
      * apply (Hle y h' Hy Hyt). right. exact Hh'.
    + cbv zeta. split; [rewrite I1, Hsame, <- app_assoc; reflexivity|]. split; [|split; assumption].
      intros t' Hne. rewrite (I2 t' Hne). apply insert_other_type. rewrite Eq. unfold qmsg_ty, tyf. cbn [snd].
      unfold tyf in Hty. apply sety_eqb_eq in Hty. rewrite Hty. apply sety_eqb_neq. congruence.
Qed.

(* ---------- one event type of one frame ---------- *)

Lemma filter_map_snd (p : smsg -> bool) (l : list (sety * N * smsg)) :
  filter p (map snd l) = map snd (filter (fun q => p (snd q)) l).
Proof. induction l as [|q l IH]; cbn [map filter]; [reflexivity|]. destruct (p (snd q)); cbn [map]; rewrite IH; reflexivity. Qed.

Lemma filter_filter_and {A} (p q : A -> bool) l : filter p (filter q l) = filter (fun x => q x && p x) l.
Proof. induction l as [|x l IH]; [reflexivity|]. cbn [filter]. destruct (q x); cbn [filter andb]; rewrite IH; reflexivity. Qed.

Lemma neg_held_small upd m : upd < 2 ^ 31 -> (forall tk, sm_tick m = Some tk -> tk < 2 ^ 31) ->
  negb (held upd m) = (skey m <=? upd).
Proof.
  intros Hu Hm. unfold held, skey. destruct (sm_tick m) as [tk|]; [|symmetry; apply N.leb_le; lia].
  rewrite tick_gtb_small; [|exact (Hm tk eq_refl)|exact Hu]. destruct (N.ltb_spec upd tk); destruct (N.leb_spec tk upd); cbn; try reflexivity; lia.
Qed.

Section CRT.
  Variables (c : client) (t : sety).

  Lemma crt_order ce :
    queue_wf (ce_queue ce) -> qsorted (ce_queue ce) -> qsmall (ce_queue ce) -> cl_upd_tick c < 2 ^ 31 ->
    (forall m tk, In m (ce_inbox ce) -> sm_tick m = Some tk -> tk < 2 ^ 31) ->
    nondecr (map skey (filter (tyf t) (map snd (ce_queue ce)) ++ filter (tyf t) (ce_inbox ce))) ->
    now_msgs c ce t ++ filter (tyf t) (map snd (ce_queue (fst (client_receive_type c ce t))))
    = filter (tyf t) (map snd (ce_queue ce)) ++ filter (tyf t) (ce_inbox ce).
  Proof.
    intros Hwf Hs Hsm Hu Hin Hz. rewrite client_receive_type_eq. cbn [fst ce_queue]. unfold now_msgs, queue_after.
    set (upd := cl_upd_tick c) in *.
    change (filter (fun m => sety_eqb (sm_ty m) t) (ce_inbox ce)) with (filter (tyf t) (ce_inbox ce)).
    set (A := filter (tyf t) (ce_inbox ce)) in *.
    set (R := filter (q_ready upd t) (ce_queue ce)).
    set (K := filter (fun q => negb (q_ready upd t q)) (ce_queue ce)).
    set (Hd := filter (held upd) A). set (U := filter (fun m => negb (held upd m)) A).
    (* entries: tag = type of the message, key = stamp *)
    assert (Htag : forall q, In q (ce_queue ce) -> sety_eqb (fst (fst q)) t = tyf t (snd q) /\ skey (snd q) = qkey q).
    { intros [[ty tk] m] Hq. destruct (Hwf _ _ _ Hq) as [E1 E2]. cbn [fst snd qkey]. unfold tyf, skey. rewrite E1, E2. auto. }
    assert (Hready : forall q, In q (ce_queue ce) -> q_ready upd t q = tyf t (snd q) && (qkey q <=? upd)).
    { intros q Hq. unfold q_ready. rewrite (proj1 (Htag q Hq)). f_equal. fold (qkey q).
      rewrite tick_gtb_small; [|exact (Hsm q Hq)|exact Hu]. destruct (N.ltb_spec upd (qkey q)); destruct (N.leb_spec (qkey q) upd); cbn; try reflexivity; lia. }
    (* 1. the type's entries: ready ones first *)
    set (Lt := filter (fun q => tyf t (snd q)) (ce_queue ce)).
    assert (HLt : nondecr (map qkey Lt)) by (apply nondecr_filter; exact Hs).
    assert (E1 : filter (tyf t) (map snd (ce_queue ce)) = map snd R ++ filter (tyf t) (map snd K)).
    { rewrite !filter_map_snd, <- map_app. f_equal. fold Lt. rewrite (nondecr_split qkey Lt upd HLt) at 1. f_equal.
      - unfold Lt, R. rewrite filter_filter_and. apply filter_ext_in'. intros q Hq. symmetry. apply Hready. exact Hq.
      - unfold Lt, K. rewrite !filter_filter_and. apply filter_ext_in'. intros q Hq. rewrite (Hready q Hq).
        destruct (tyf t (snd q)), (qkey q <=? upd); reflexivity. }
    (* 2. the arrivals: those that need not wait first *)
    assert (HA : nondecr (map skey A)).
    { rewrite map_app in Hz. exact (proj1 (proj2 (nondecr_app_inv _ _ Hz))). }
    assert (HinA : forall m, In m A -> In m (ce_inbox ce) /\ tyf t m = true) by (intros m Hm; apply filter_In in Hm; exact Hm).
    assert (E2 : A = U ++ Hd).
    { rewrite (nondecr_split skey A upd HA) at 1. unfold U, Hd. f_equal.
      - apply filter_ext_in'. intros m Hm. symmetry. apply neg_held_small; [exact Hu|]. intros tk. apply Hin. exact (proj1 (HinA m Hm)).
      - apply filter_ext_in'. intros m Hm. rewrite <- (neg_held_small upd m Hu); [rewrite negb_involutive; reflexivity|].
        intros tk. apply Hin. exact (proj1 (HinA m Hm)). }
    (* 3. the held arrivals go behind the type's entries that stay *)
    assert (HK : forall q, In q K -> In q (ce_queue ce)) by (intros q Hq; apply filter_In in Hq; exact (proj1 Hq)).
    assert (Hcross : forall y h, In y (ce_queue ce) -> tyf t (snd y) = true -> In h A -> qkey y <= skey h).
    { intros y h Hy Hyt Hh. rewrite map_app in Hz. destruct (nondecr_app_inv _ _ Hz) as (_ & _ & Hc).
      rewrite <- (proj2 (Htag y Hy)). apply Hc; [|apply in_map; exact Hh].
      apply in_map. apply filter_In. split; [apply in_map; exact Hy|exact Hyt]. }
    destruct (fold_insert_type t Hd K) as (F1 & _).
    { intros q Hq. apply Hsm. exact (HK q Hq). }
    { unfold K. apply nondecr_filter. exact Hs. }
    { intros h Hh. unfold Hd in Hh. apply filter_In in Hh. destruct Hh as [Hh Hheld]. split; [exact (proj2 (HinA h Hh))|].
      unfold held in Hheld. destruct (sm_tick h) as [tk|] eqn:E; [|discriminate]. exists tk. split; [reflexivity|].
      exact (Hin h tk (proj1 (HinA h Hh)) E). }
    { unfold Hd. apply nondecr_filter. exact HA. }
    { intros y h Hy Hyt Hh. apply (Hcross y h (HK y Hy) Hyt). unfold Hd in Hh. apply filter_In in Hh. exact (proj1 Hh). }
    cbv zeta in F1. rewrite F1, E1, E2.
    (* 4. nothing passes an entry that stays *)
    destruct (filter (tyf t) (map snd K)) as [|m1 Kt] eqn:EK; [rewrite !app_nil_r, <- !app_assoc; reflexivity|].
    destruct U as [|u U'] eqn:EU; [cbn [app]; rewrite !app_nil_r, <- !app_assoc; reflexivity|]. exfalso.
    assert (Hm1 : In m1 (filter (tyf t) (map snd K))) by (rewrite EK; left; reflexivity).
    apply filter_In in Hm1. destruct Hm1 as [Hm1 Hm1t]. apply in_map_iff in Hm1. destruct Hm1 as (y & <- & Hy).
    assert (HyK := Hy). unfold K in Hy. apply filter_In in Hy. destruct Hy as [Hy Hnr]. rewrite (Hready y Hy), Hm1t in Hnr. cbn [andb] in Hnr.
    assert (Hu' : In u A) by (rewrite E2; left; reflexivity).
    assert (HuU : In u (filter (fun m => negb (held upd m)) A)) by (fold U; rewrite EU; left; reflexivity).
    apply filter_In in HuU. destruct HuU as [_ Hnh]. rewrite (neg_held_small upd u Hu) in Hnh by (intros tk; apply Hin; exact (proj1 (HinA u Hu'))).
    pose proof (Hcross y u Hy Hm1t Hu'). apply N.leb_le in Hnh. destruct (N.leb_spec (qkey y) upd); [discriminate|lia].
  Qed.

  (* everything handed on is of the type; the other types are not touched *)
  Lemma crt_now_type ce : queue_wf (ce_queue ce) -> forall m, In m (now_msgs c ce t) -> tyf t m = true.
  Proof.
    intros Hwf m Hm. apply in_now_msgs in Hm. destruct Hm as [(q & Hq & <- & Ht & _)|(_ & Ht & _)].
    - destruct q as [[ty tk] m0]. destruct (Hwf _ _ _ Hq) as [E _]. cbn [fst snd] in *. unfold tyf. rewrite E, Ht. apply sety_eqb_refl.
    - unfold tyf. rewrite Ht. apply sety_eqb_refl.
  Qed.

  Lemma crt_other ce t' : t' <> t -> queue_wf (ce_queue ce) -> qsorted (ce_queue ce) -> qsmall (ce_queue ce) ->
    (forall m tk, In m (ce_inbox ce) -> sm_tick m = Some tk -> tk < 2 ^ 31) ->
    let ce' := fst (client_receive_type c ce t) in
    filter (tyf t') (now_msgs c ce t) = [] /\
    filter (tyf t') (map snd (ce_queue ce')) = filter (tyf t') (map snd (ce_queue ce)) /\
    filter (tyf t') (ce_inbox ce') = filter (tyf t') (ce_inbox ce).
  Proof.
    intros Hne Hwf Hs Hsm Hin. cbv zeta. split; [|split].
    - apply filter_all_false. intros m Hm. pose proof (crt_now_type ce Hwf m Hm) as Ht. unfold tyf in *.
      apply sety_eqb_eq in Ht. rewrite Ht. apply sety_eqb_neq. congruence.
    - rewrite client_receive_type_eq. cbn [fst ce_queue]. unfold queue_after.
      set (upd := cl_upd_tick c).
      set (K := filter (fun q => negb (q_ready upd t q)) (ce_queue ce)).
      set (Hd := filter (held upd) (filter (fun m => sety_eqb (sm_ty m) t) (ce_inbox ce))).
      assert (HK : filter (tyf t') (map snd K) = filter (tyf t') (map snd (ce_queue ce))).
      { rewrite !filter_map_snd. f_equal. unfold K. rewrite filter_filter_and. apply filter_ext_in'. intros [[ty tk] m] Hq.
        destruct (Hwf _ _ _ Hq) as [E _]. cbn [snd]. destruct (tyf t' m) eqn:Et'; [|rewrite andb_false_r; reflexivity].
        rewrite andb_true_r. unfold q_ready. cbn [fst]. unfold tyf in Et'. apply sety_eqb_eq in Et'. rewrite <- E, Et'.
        replace (sety_eqb t' t) with false by (symmetry; apply sety_eqb_neq; exact Hne). reflexivity. }
      rewrite <- HK.
      assert (Hgen : forall H K0, (forall h, In h H -> tyf t h = true) ->
                filter (tyf t') (map snd (fold_left (fun q m => insert_by_tick (qentry t m) q) H K0)) = filter (tyf t') (map snd K0)).
      { induction H as [|h H IH]; intros K0 Hh; cbn [fold_left]; [reflexivity|]. rewrite IH by (intros h' Hh'; apply Hh; right; exact Hh').
        apply insert_other_type. unfold qmsg_ty, qentry. cbn [snd]. pose proof (Hh h (or_introl eq_refl)) as Ht. unfold tyf in *.
        apply sety_eqb_eq in Ht. rewrite Ht. apply sety_eqb_neq. congruence. }
      apply Hgen. intros h Hh. unfold Hd in Hh. apply filter_In in Hh. destruct Hh as [Hh _]. apply filter_In in Hh. exact (proj2 Hh).
    - rewrite client_receive_type_eq. cbn [fst ce_inbox]. rewrite filter_filter_and. apply filter_ext_in'. intros m _.
      destruct (tyf t' m) eqn:Et'; [|rewrite andb_false_r; reflexivity]. rewrite andb_true_r. unfold tyf in Et'. apply sety_eqb_eq in Et'.
      rewrite Et'. replace (sety_eqb t' t) with false by (symmetry; apply sety_eqb_neq; exact Hne). reflexivity.
  Qed.

  Lemma crt_inbox_same ce : filter (tyf t) (ce_inbox (fst (client_receive_type c ce t))) = [].
  Proof.
    rewrite client_receive_type_eq. cbn [fst ce_inbox]. rewrite filter_filter_and. apply filter_all_false. intros m _.
    unfold tyf. destruct (sety_eqb (sm_ty m) t); reflexivity.
  Qed.

  (* the queue stays well-formed, sorted, small; the inbox shrinks *)
  Lemma crt_inv ce : queue_wf (ce_queue ce) -> qsorted (ce_queue ce) -> qsmall (ce_queue ce) ->
    (forall m tk, In m (ce_inbox ce) -> sm_tick m = Some tk -> tk < 2 ^ 31) ->
    let ce' := fst (client_receive_type c ce t) in
    queue_wf (ce_queue ce') /\ qsorted (ce_queue ce') /\ qsmall (ce_queue ce') /\
    (forall m, In m (ce_inbox ce') -> In m (ce_inbox ce)).
  Proof.
    intros Hwf Hs Hsm Hin. cbv zeta. rewrite client_receive_type_eq. cbn [fst ce_queue ce_inbox].
    split; [apply queue_wf_after; exact Hwf|].
    assert (Hsmall' : qsmall (queue_after c ce t)).
    { intros q Hq. apply in_queue_after in Hq. destruct Hq as [[Hq _]|(m & tk & -> & Hm & _ & Etk & _)]; [exact (Hsm q Hq)|exact (Hin m tk Hm Etk)]. }
    split; [|split; [exact Hsmall'|intros m Hm; apply filter_In in Hm; exact (proj1 Hm)]].
    unfold queue_after.
    set (K := filter (fun q => negb (q_ready (cl_upd_tick c) t q)) (ce_queue ce)).
    set (Hd := filter (held (cl_upd_tick c)) (filter (fun m => sety_eqb (sm_ty m) t) (ce_inbox ce))).
    assert (HK : qsorted K /\ qsmall K).
    { split; [unfold K; apply nondecr_filter; exact Hs|intros q Hq; apply filter_In in Hq; exact (Hsm q (proj1 Hq))]. }
    assert (HH : forall h, In h Hd -> qkey (qentry t h) < 2 ^ 31).
    { intros h Hh. unfold Hd in Hh. apply filter_In in Hh. destruct Hh as [Hh Hheld]. apply filter_In in Hh. destruct Hh as [Hh _].
      unfold held in Hheld. unfold qentry. destruct (sm_tick h) as [tk|] eqn:E; [|discriminate]. exact (Hin h tk Hh E). }
    clearbody K Hd. revert K HK. induction Hd as [|h Hd IH]; intros K [HK1 HK2]; cbn [fold_left]; [exact HK1|].
    apply IH; [intros h' Hh'; apply HH; right; exact Hh'|]. pose proof (HH h (or_introl eq_refl)) as Hx.
    destruct (insert_small (qentry t h) K Hx HK2 HK1) as (l1 & l2 & _ & Ei & _ & _ & Hs'). split; [rewrite Ei; exact Hs'|apply insert_qsmall; assumption].
  Qed.
End CRT.

(* ---------- all event types of one frame ---------- *)

Definition stream_ok (t : sety) (ce : cevents) : Prop :=
  nondecr (map skey (filter (tyf t) (map snd (ce_queue ce)) ++ filter (tyf t) (ce_inbox ce))).

Lemma tyf_neq_dec (t t' : sety) : t = t' \/ t <> t'.
Proof. destruct t, t'; try (left; reflexivity); right; discriminate. Qed.

Lemma rts_order c ts : NoDup ts -> forall ce,
  queue_wf (ce_queue ce) -> qsorted (ce_queue ce) -> qsmall (ce_queue ce) -> cl_upd_tick c < 2 ^ 31 ->
  (forall m tk, In m (ce_inbox ce) -> sm_tick m = Some tk -> tk < 2 ^ 31) ->
  let ce' := fst (client_receive_types c ce ts) in
  (forall t, In t ts -> stream_ok t ce ->
     filter (tyf t) (receive_now c ce ts) ++ filter (tyf t) (map snd (ce_queue ce'))
     = filter (tyf t) (map snd (ce_queue ce)) ++ filter (tyf t) (ce_inbox ce) /\
     filter (tyf t) (ce_inbox ce') = []) /\
  (forall t, ~ In t ts ->
     filter (tyf t) (receive_now c ce ts) = [] /\
     filter (tyf t) (map snd (ce_queue ce')) = filter (tyf t) (map snd (ce_queue ce)) /\
     filter (tyf t) (ce_inbox ce') = filter (tyf t) (ce_inbox ce)) /\
  queue_wf (ce_queue ce') /\ qsorted (ce_queue ce') /\ qsmall (ce_queue ce').
Proof.
  induction 1 as [|t0 ts Hnin Hnd IH]; intros ce Hwf Hs Hsm Hu Hin; cbn [client_receive_types receive_now].
  - cbv zeta. cbn [fst]. split; [intros t []|]. split; [intros t _; auto|auto].
  - destruct (client_receive_type c ce t0) as [ce1 g1] eqn:H1.
    assert (E1 : ce1 = fst (client_receive_type c ce t0)) by (rewrite H1; reflexivity).
    destruct (crt_inv c t0 ce Hwf Hs Hsm Hin) as (Hwf1 & Hs1 & Hsm1 & Hin1). rewrite <- E1 in Hwf1, Hs1, Hsm1, Hin1.
    assert (Hin1' : forall m tk, In m (ce_inbox ce1) -> sm_tick m = Some tk -> tk < 2 ^ 31) by (intros m tk Hm; apply Hin; apply Hin1; exact Hm).
    specialize (IH ce1 Hwf1 Hs1 Hsm1 Hu Hin1'). cbv zeta in IH. cbn [fst].
    destruct (client_receive_types c ce1 ts) as [ce2 g2] eqn:H2. cbn [fst] in *. destruct IH as (IHin & IHout & IHinv).
    cbv zeta. split; [|split; [|exact IHinv]].
    + intros t Ht Hok. rewrite filter_app. destruct Ht as [<-|Ht].
      * destruct (IHout t0 Hnin) as (A & B & C). rewrite A, app_nil_r, B, C, E1.
        split; [|apply crt_inbox_same].
        rewrite <- (crt_order c t0 ce Hwf Hs Hsm Hu Hin Hok). f_equal. apply filter_all_true. intros m Hm. exact (crt_now_type c t0 ce Hwf m Hm).
      * assert (Hne : t <> t0) by (intros ->; contradiction).
        destruct (crt_other c t0 ce t Hne Hwf Hs Hsm Hin) as (A & B & C). rewrite <- E1 in B, C. rewrite A. cbn [app].
        assert (Hok1 : stream_ok t ce1) by (unfold stream_ok; rewrite B, C; exact Hok).
        destruct (IHin t Ht Hok1) as (D & E). rewrite D, B, C. auto.
    + intros t Ht. assert (Hne : t <> t0) by (intros ->; apply Ht; left; reflexivity).
      assert (Ht' : ~ In t ts) by (intros X; apply Ht; right; exact X).
      destruct (crt_other c t0 ce t Hne Hwf Hs Hsm Hin) as (A & B & C). rewrite <- E1 in B, C.
      destruct (IHout t Ht') as (D & E & F). rewrite filter_app, A, D, E, F, B, C. auto.
Qed.

(* a whole frame: for every type whose stream is in tick order, what reaches the conversion step followed by what
   stays queued is what was queued followed by what had arrived *)
Theorem frame_order c ce :
  queue_wf (ce_queue ce) -> qsorted (ce_queue ce) -> qsmall (ce_queue ce) -> cl_upd_tick c < 2 ^ 31 ->
  (forall m tk, In m (ce_inbox ce) -> sm_tick m = Some tk -> tk < 2 ^ 31) ->
  let ce' := fst (client_receive c ce) in
  (forall t, stream_ok t ce ->
     filter (tyf t) (frame_now c ce) ++ filter (tyf t) (map snd (ce_queue ce'))
     = filter (tyf t) (map snd (ce_queue ce)) ++ filter (tyf t) (ce_inbox ce)) /\
  queue_wf (ce_queue ce') /\ qsorted (ce_queue ce') /\ qsmall (ce_queue ce').
Proof.
  intros Hwf Hs Hsm Hu Hin. cbv zeta. rewrite client_receive_eq. unfold frame_now.
  assert (Hnd : NoDup [ST; SE0; SEI; SEM; SEU]) by (repeat constructor; cbv; intuition discriminate).
  destruct (rts_order c _ Hnd ce Hwf Hs Hsm Hu Hin) as (A & _ & B). split; [|exact B].
  intros t Hok. apply A; [destruct t; cbv; tauto|exact Hok].
Qed.
