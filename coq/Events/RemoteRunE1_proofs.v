(* E1 (C04 end to end): theorems over whole runs.  The invariant is `tinv` (Events/RemoteRunTick_proofs.v). *)
From Coq Require Import ZifyBool ZifyN Permutation Sorted.
From RV Require Import Lib.Res Repl.ClientTicks Repl.ClientTicks_proofs Repl.World Vis.Visibility Repl.Server Repl.ServerSpec
  Repl.Client Repl.Sys Tick.RepliconTick Tick.RepliconTick_proofs
  Repl.StructSpec Repl.StructVisSpec Repl.Client_proofs Repl.ClientSys_proofs Repl.Session_proofs
  Repl.ClientStructSpec Repl.ClientStruct_proofs
  Repl.StructE2E_proofs Repl.StructE2EMut_proofs Repl.StructE2EVis_proofs Repl.StructE2ESess_proofs Repl.ValSpec.
From RV Require Import Events.Remote Events.RemoteSpec Events.Remote_proofs Events.RemoteRun Events.RemoteRunProj_proofs
  Events.RemoteRunTick_proofs.
Ltac Zify.zify_post_hook ::= Z.div_mod_to_equations.
Arguments N.add : simpl never. Arguments N.mul : simpl never. Arguments N.pow : simpl never.
Arguments N.ltb : simpl never. Arguments N.leb : simpl never. Arguments N.div : simpl never.
Arguments N.modulo : simpl never. Arguments N.sub : simpl never. Arguments N.eqb : simpl never.
Open Scope N_scope.

(* ================================================================== *)
(* 1. every event message a client side holds was handed to the       *)
(*    backend for its slot; stamped = dependent                       *)
(* ================================================================== *)

Definition held_all (e : syse) (slot : N) : list smsg :=
  chan_s2c e slot ++ inbox_of e slot ++ map snd (queue_of e slot).

(* nothing appears on the client side of a slot that was not there or is not sent to the slot by this step *)
Lemma held_all_step e st e' o : clients_dom e -> syse_step e st = Ok (e', o) ->
  forall slot m, In m (held_all e' slot) -> In m (held_all e slot) \/ In (slot, m) (eo_sent o).
Proof.
  intros Hdom H slot m Hm. destruct st as [b|tick dt cleanup ops parts emit|sl ops emit|sl ty w drop|sl ty w].
  - left. destruct (ebase_unfold _ _ _ _ H) as (_ & _ & _ & _ & _ & _ & Hl). revert Hm. unfold held_all, chan_s2c, inbox_of, queue_of.
    destruct b as [| |s0 max|s0|s0|tick dt cleanup ops parts|s0 ops|s0 s2c ch w|s0 s2c ch w];
      try (destruct Hl as (-> & -> & _); exact (fun x => x)).
    + destruct Hl as (-> & -> & _). rewrite chan_map_empty. cbn [app]. intros Hm. apply in_or_app. right. exact Hm.
    + destruct Hl as (-> & -> & _). destruct (N.eq_dec slot s0) as [->|Hne].
      * rewrite !al_get_insert_same. cbn [opt_list app]. destruct (al_get s0 (e_clients e)) as [ce|]; cbn [ce_inbox ce_queue app map]; [|intros []].
        intros Hm. apply in_or_app. right. apply in_or_app. right. exact Hm.
      * rewrite !al_get_insert_other by exact Hne. exact (fun x => x).
  - destruct (sframe_full _ _ _ _ _ _ _ _ _ H) as (Hce & Hch & _). unfold held_all, inbox_of, queue_of in *. rewrite Hch, Hce in Hm.
    rewrite <- app_assoc in Hm. apply in_app_or in Hm. destruct Hm as [Hm|Hm]; [left; apply in_or_app; left; exact Hm|].
    apply in_app_or in Hm. destruct Hm as [Hm|Hm]; [right; apply in_msgs_for; exact Hm|left; apply in_or_app; right; exact Hm].
  - left. destruct (cframe_unfold _ _ _ _ _ _ Hdom H) as (_ & Hq & _ & _ & _ & _ & _ & _ & Hceo & _ & Hcase).
    revert Hm. unfold held_all, chan_s2c, inbox_of, queue_of. rewrite Hq.
    destruct (N.eq_dec slot sl) as [->|Hne]; [|rewrite (Hceo slot Hne); exact (fun x => x)].
    destruct (al_get sl (y_clients (e_sys e))) as [cb|]; [|destruct Hcase as (-> & _); exact (fun x => x)].
    destruct Hcase as (ce & cl & Hce & _ & _ & Hcase). rewrite Hce. destruct (cl_status cb).
    + destruct Hcase as (-> & _). exact (fun x => x).
    + cbv zeta in Hcase. destruct Hcase as (-> & _). cbn [ce_inbox ce_queue]. rewrite client_receive_inbox_nil. cbn [app].
      intros Hm. apply in_app_or in Hm. apply in_or_app. destruct Hm as [Hm|Hm]; [left; exact Hm|right].
      apply in_map_iff in Hm. destruct Hm as (q & <- & Hq'). apply client_receive_queue_from in Hq'. apply in_or_app.
      destruct (cl_last_connected cb); cbn [negb ce_queue ce_inbox] in Hq'.
      * destruct Hq' as [Hq'|Hq']; [right; apply in_map; exact Hq'|left; exact Hq'].
      * destruct Hq' as [[]|Hq']. left. exact Hq'.
  - left. destruct (deliver_s2c_step _ _ _ _ _ _ _ H) as (picked & rest & Htk & Hch & Hcho & Hceo & Hce & Hnone & _).
    destruct (take_typed_perm _ _ _ _ _ Htk) as [Hperm _].
    revert Hm. unfold held_all, inbox_of, queue_of. destruct (N.eq_dec slot sl) as [->|Hne]; [|rewrite (Hcho slot Hne), (Hceo slot Hne); exact (fun x => x)].
    rewrite Hch. destruct (al_get sl (e_clients e)) as [ce|] eqn:Ec.
    + rewrite (Hce ce eq_refl). intros Hm.
      assert (Hin : In m ((picked ++ rest) ++ ce_inbox ce ++ map snd (ce_queue ce))).
      { apply in_app_or in Hm. destruct Hm as [Hm|Hm]; [apply in_or_app; left; apply in_or_app; right; exact Hm|].
        destruct (drop || negb (client_connected e sl)); [apply in_or_app; right; exact Hm|]. cbn [ce_inbox ce_queue] in Hm.
        rewrite <- app_assoc in Hm. apply in_app_or in Hm. destruct Hm as [Hm|Hm]; [apply in_or_app; right; apply in_or_app; left; exact Hm|].
        apply in_app_or in Hm. destruct Hm as [Hm|Hm]; [apply in_or_app; left; apply in_or_app; left; exact Hm|].
        apply in_or_app; right; apply in_or_app; right; exact Hm. }
      apply in_app_or in Hin. apply in_or_app. destruct Hin as [Hin|Hin]; [left|right; exact Hin].
      exact (Permutation_in _ (Permutation_sym Hperm) Hin).
    + rewrite (Hnone eq_refl), Ec. cbn [app map]. rewrite !app_nil_r. intros Hm.
      apply (Permutation_in _ (Permutation_sym Hperm)). apply in_or_app. right. exact Hm.
  - left. unfold syse_step in H. destruct (take_typed _ w _) as [picked rest]. injection H as <- _. exact Hm.
Qed.

Definition msg_ok (m : smsg) : Prop := sm_tick m = None <-> independent (sm_ty m) = true.
Definition minv (e : syse) : Prop := forall slot m, In m (held_all e slot) -> msg_ok m.

Lemma minv_step e st e' o : RemoteSpec.inv e -> clients_dom e -> minv e -> syse_step e st = Ok (e', o) -> minv e'.
Proof.
  intros Hinv Hdom Hm H slot m Hin. destruct (held_all_step _ _ _ _ Hdom H slot m Hin) as [Hold|Hnew]; [exact (Hm slot m Hold)|].
  destruct st as [b|tick dt cleanup ops parts emit|sl ops emit|sl ty w drop|sl ty w].
  - destruct (ebase_unfold _ _ _ _ H) as (_ & E & _). rewrite E in Hnew. destruct Hnew.
  - destruct (sframe_sent _ _ _ _ _ _ _ _ _ Hinv H slot m Hnew) as [[A B]|(cl & _ & A & B)]; unfold msg_ok; rewrite A, B; split; congruence.
  - destruct (cframe_unfold _ _ _ _ _ _ Hdom H) as (_ & _ & _ & _ & _ & _ & E & _). rewrite E in Hnew. destruct Hnew.
  - unfold syse_step in H. destruct (take_typed _ w _) as [picked rest]. injection H as _ <-. destruct Hnew.
  - unfold syse_step in H. destruct (take_typed _ w _) as [picked rest]. injection H as _ <-. destruct Hnew.
Qed.

Lemma minv_init c n : minv (syse_init c n).
Proof.
  intros slot m Hin. exfalso. revert Hin. unfold held_all, chan_s2c, inbox_of, queue_of, syse_init. cbn [e_s2c e_clients].
  generalize (y_clients (sys_init c n)). intros l.
  assert (A : opt_list (al_get slot (map (fun kv : N * client => (fst kv, @nil smsg)) l)) = []).
  { induction l as [|[k v] l IH]; cbn [map al_get fst]; [reflexivity|]. destruct (k =? slot); [reflexivity|exact IH]. }
  assert (B : al_get slot (map (fun kv : N * client => (fst kv, cevents_init)) l) = None \/
              al_get slot (map (fun kv : N * client => (fst kv, cevents_init)) l) = Some cevents_init).
  { clear A. induction l as [|[k v] l IH]; cbn [map al_get fst]; [left; reflexivity|]. destruct (k =? slot); [right; reflexivity|exact IH]. }
  rewrite A. destruct B as [-> | ->]; intros [].
Qed.

Theorem reachable_minv c n e : reachable c n e -> minv e /\ clients_dom e.
Proof.
  induction 1 as [|e st e' o Hr [IH1 IH2] H]; [split; [apply minv_init|apply clients_dom_init]|].
  split; [exact (minv_step _ _ _ _ (reachable_inv _ _ _ Hr) IH2 IH1 H)|exact (clients_dom_step _ _ _ _ IH2 H)].
Qed.

(* ================================================================== *)
(* 2. E1 at the two ends: the flush and the delivery                  *)
(* ================================================================== *)

Section E1.
  Variables (cfg0 : cfg) (nclients : N).

  Lemma urun_snoc script st e1 g1 os1 e o :
    urun (syse_init cfg0 nclients) ug_init script = Ok (e1, g1, os1) -> syse_step e1 st = Ok (e, o) ->
    urun (syse_init cfg0 nclients) ug_init (script ++ [st]) = Ok (e, ustep e1 g1 st e o, os1 ++ [o]).
  Proof. intros H1 Hs. unfold urun in *. rewrite grun_app, H1. cbn [bind grun]. rewrite Hs. reflexivity. Qed.

  Lemma urun_reachable script e g os :
    urun (syse_init cfg0 nclients) ug_init script = Ok (e, g, os) -> reachable cfg0 nclients e.
  Proof. intros H. eapply erun_reachable; [apply reach_init|exact (grun_erun _ _ _ _ _ _ _ _ H)]. Qed.

  (* ticks of a live connection are small *)
  Lemma live_ticks_small s slot lupd held sent applied c : sv_tick s < 2 ^ 31 ->
    live_conn s slot lupd held sent applied c ->
    (forall tk, tk = 0 \/ In tk (map u_tick sent) -> tk < 2 ^ 31) /\ cl_upd_tick c < 2 ^ 31.
  Proof.
    intros Hs [L1 L2 L3 L4 L5 L6].
    assert (A : forall tk, tk = 0 \/ In tk (map u_tick sent) -> tk < 2 ^ 31).
    { intros tk [->|Hin]; [reflexivity|]. apply in_map_iff in Hin. destruct Hin as (u & <- & Hu). specialize (L3 u Hu). lia. }
    split; [exact A|]. rewrite L5. apply A. unfold last_tick.
    destruct (last_default_in (map u_tick applied) 0) as [E|E]; [left; symmetry; exact E|right].
    rewrite L1, map_app. apply in_or_app. left. exact E.
  Qed.

  (* E1, the delivery: a dependent event handed to game logic by a frame of a live connection came in a message whose
     stamp is 0 (no update message had been sent to the connection) or the tick of an update message sent to it in this
     session; the client's update tick is not behind the stamp, and every update message of the session with a tick up
     to the stamp has been applied (what the client applied and what is still in flight is what was sent, in order) *)
  Theorem e1_delivery script slot ops emit e1 g1 os1 e o :
    let st := ECFrame slot ops emit in
    let g := ustep e1 g1 st e o in
    escript_ok (script ++ [st]) = true -> tick_frames (proj_script (script ++ [st])) < 2 ^ 31 ->
    urun (syse_init cfg0 nclients) ug_init script = Ok (e1, g1, os1) -> syse_step e1 st = Ok (e, o) ->
    emode (script ++ [st]) slot = MLive ->
    forall ty q ent, In (ty, q, ent) (eo_got o) -> independent ty = false ->
    exists cl tk m,
      al_get slot (y_clients (e_sys e)) = Some cl /\ cl_status cl = Connected /\
      deliverable cl m = Some (ty, q, ent) /\ sm_tick m = Some tk /\ In m (held_all e1 slot) /\
      (tk = 0 \/ In tk (map u_tick (usent g slot))) /\
      tk <= cl_upd_tick cl /\ cl_upd_tick cl = last_tick (uapplied g slot) /\
      usent g slot = uapplied g slot ++ l_upd (get_link (e_sys e) slot) /\
      is_prefix (sent_upto tk (usent g slot)) (uapplied g slot).
  Proof.
    intros st g Hok Hb H1 Hs Hmode ty q ent Hd Hdep.
    pose proof (urun_snoc _ _ _ _ _ _ _ H1 Hs) as H2. fold st g in H2.
    pose proof (tinv_run cfg0 nclients _ _ _ _ Hok Hb H2) as [_ _ T3'].
    destruct (escript_ok_snoc _ _ Hok) as (Hokt & _).
    assert (Hbt : tick_frames (proj_script script) < 2 ^ 31).
    { pose proof (tick_frames_app_le (proj_script script) (proj_estep st)). rewrite proj_script_snoc in Hb. lia. }
    pose proof (tinv_run cfg0 nclients _ _ _ _ Hokt Hbt H1) as [_ _ T3].
    pose proof (urun_reachable _ _ _ _ H1) as Hreach. pose proof (reachable_inv _ _ _ Hreach) as (_ & _ & _ & Hwf).
    destruct (reachable_minv _ _ _ Hreach) as [Hminv Hdom].
    destruct (finv_of_erun cfg0 nclients _ _ _ Hok Hb (grun_erun _ _ _ _ _ _ _ _ H2)) as (gs' & _ & Hf').
    destruct (cframe_unfold _ _ _ _ _ _ Hdom Hs) as (Hsys & Hq & _ & _ & _ & _ & _ & _ & _ & _ & Hcase).
    destruct (al_get slot (y_clients (e_sys e1))) as [cb|] eqn:Hcb.
    2:{ destruct Hcase as (_ & E & _). rewrite E in Hd. destruct Hd. }
    destruct Hcase as (ce & cl & Hce & Hcl & (out & Hfr) & Hcase).
    destruct (client_frame_fields _ _ _ _ Hfr) as (Fst & _).
    destruct (cl_status cb) eqn:Esb; [destruct Hcase as (_ & E & _); rewrite E in Hd; destruct Hd|].
    cbv zeta in Hcase. destruct Hcase as (_ & Hgot & _).
    assert (Hmb : emode script slot = MLive).
    { unfold st in Hmode. rewrite (emode_snoc_one _ _ (StCFrame slot ops)) in Hmode by reflexivity. cbn [mode_step] in Hmode.
      rewrite N.eqb_refl in Hmode. destruct (emode script slot); try discriminate; reflexivity. }
    destruct (T3 slot cb Hcb) as [_ I2]. specialize (I2 Hmb Esb). destruct I2 as [_ _ _ _ _ L6].
    destruct (T3' slot cl Hcl) as [_ I2']. assert (Hsc : cl_status cl = Connected) by congruence.
    specialize (I2' Hmode Hsc). pose proof I2' as [L1' L2' L3' _ L5' _].
    (* the message *)
    set (ce0 := if negb (cl_last_connected cb) then mkCE [] (ce_inbox ce) [] else ce) in *.
    destruct (client_receive cl ce0) as [ce1 got] eqn:Hr. cbn [snd] in Hgot. rewrite Hgot in Hd.
    destruct (client_receive_delivered _ _ _ _ Hr _ Hd) as (m & Hm & Hsrc).
    assert (Hty : sm_ty m = ty) by (destruct (deliverable_some _ _ _ Hm) as [E _]; congruence).
    assert (Hheld : In m (held_msgs e1 slot cb) /\ In m (held_all e1 slot) /\
                    exists tk, sm_tick m = Some tk /\ tick_gtb tk (cl_upd_tick cl) = false).
    { assert (Hstamped : forall (X : In m (held_all e1 slot)), exists tk, sm_tick m = Some tk).
      { intros X. destruct (sm_tick m) as [tk|] eqn:Etk; [exists tk; reflexivity|]. exfalso.
        apply (Hminv slot m X) in Etk. rewrite Hty in Etk. congruence. }
      destruct Hsrc as [(qe & Hqe & Esnd & Hg)|(Hin & Hstk)].
      - assert (Hce0 : ce0 = ce /\ cl_last_connected cb = true).
        { unfold ce0 in *. destruct (cl_last_connected cb); cbn [negb] in *; [auto|destruct Hqe]. }
        destruct Hce0 as [E0 Elc]. rewrite E0 in Hqe.
        assert (X : In m (map snd (ce_queue ce))) by (rewrite <- Esnd; apply in_map; exact Hqe).
        assert (Y : In m (held_all e1 slot)).
        { unfold held_all, queue_of. rewrite Hce. apply in_or_app. right. apply in_or_app. right. exact X. }
        split; [|split; [exact Y|]].
        + unfold held_msgs, queue_of. rewrite Hce, Elc. apply in_or_app. right. apply in_or_app. right. exact X.
        + destruct qe as [[t0 tk0] m0]. cbn [snd] in Esnd. subst m0. destruct (proj1 (Hwf _ _ Hce) _ _ _ Hqe) as [_ Etk].
          exists tk0. split; [exact Etk|exact Hg].
      - assert (Hin' : In m (ce_inbox ce)) by (unfold ce0 in Hin; destruct (negb (cl_last_connected cb)); exact Hin).
        assert (Y : In m (held_all e1 slot)).
        { unfold held_all, inbox_of. rewrite Hce. apply in_or_app. right. apply in_or_app. left. exact Hin'. }
        split; [|split; [exact Y|]].
        + unfold held_msgs, inbox_of. rewrite Hce. apply in_or_app. right. apply in_or_app. left. exact Hin'.
        + destruct (Hstamped Y) as [tk Etk]. destruct Hstk as [E|(tk' & E & Hg)]; [congruence|].
          exists tk. split; [exact Etk|]. congruence. }
    destruct Hheld as (Hh1 & Hh2 & tk & Etk & Hg).
    assert (Hus : usent g slot = usent g1 slot).
    { unfold g, st. change (ustep e1 g1 (ECFrame slot ops emit) e o) with (ustep_base (e_sys e1) g1 (StCFrame slot ops) (eo_base o)).
      cbn [ustep_base]. rewrite Hcb, Esb. reflexivity. }
    assert (Hin : cl_inbox_upd cl = []) by exact (proj1 (frame_clears_inbox cb ops cl out Esb Hfr)).
    rewrite Hin in L1'. cbn [app] in L1'.
    destruct (L6 m tk Hh1 Etk) as [Hz|Hz].
    - (* stamp 0 *)
      exists cl, tk, m. subst tk. split; [exact Hcl|]. split; [exact Hsc|]. split; [exact Hm|]. split; [exact Etk|]. split; [exact Hh2|].
      split; [left; reflexivity|]. split; [lia|]. split; [exact L5'|]. split; [exact L1'|].
      rewrite L1'. apply sent_upto_prefix; [rewrite <- L1'; exact L2'|intros u Hu; rewrite <- L1' in Hu; specialize (L3' u Hu); lia|lia].
    - rewrite <- Hus in Hz.
      assert (Hsm : sv_tick (y_server (e_sys e)) < 2 ^ 31).
      { pose proof (fi_tick _ _ _ _ _ Hf'). lia. }
      destruct (live_ticks_small _ _ _ _ _ _ _ Hsm I2') as [Ha Hb'].
      assert (Hle : tk <= cl_upd_tick cl).
      { rewrite (tick_gtb_small tk (cl_upd_tick cl)) in Hg; [lia| |exact Hb']. apply Ha. right. exact Hz. }
      exists cl, tk, m. split; [exact Hcl|]. split; [exact Hsc|]. split; [exact Hm|]. split; [exact Etk|]. split; [exact Hh2|].
      split; [right; exact Hz|]. split; [exact Hle|]. split; [exact L5'|]. split; [exact L1'|].
      rewrite L1'. apply sent_upto_prefix; [rewrite <- L1'; exact L2'|intros u Hu; rewrite <- L1' in Hu; specialize (L3' u Hu); lia|].
      rewrite <- L5'. exact Hle.
  Qed.

  (* E1, the flush: a stamped message handed to the backend for a live slot carries the update tick of the slot's
     authorized record after this frame's replication, which is the tick of the last update message sent to the
     connection in this session, this frame's message included: every update message sent so far has a tick up to
     the stamp *)
  Theorem e1_flush script tick dt cleanup ops parts emit e1 g1 os1 e o :
    let st := ESFrame tick dt cleanup ops parts emit in
    let g := ustep e1 g1 st e o in
    escript_ok (script ++ [st]) = true -> tick_frames (proj_script (script ++ [st])) < 2 ^ 31 ->
    urun (syse_init cfg0 nclients) ug_init script = Ok (e1, g1, os1) -> syse_step e1 st = Ok (e, o) ->
    forall slot c m tk, emode (script ++ [st]) slot = MLive -> al_get slot (y_clients (e_sys e)) = Some c ->
    In (slot, m) (eo_sent o) -> sm_tick m = Some tk ->
    cl_status c = Connected /\
    (exists cl, find_client (y_server (e_sys e)) slot = Some cl /\ sc_authorized cl = true /\ ct_update_tick (sc_ticks cl) = tk) /\
    tk = last_tick (usent g slot) /\ sent_upto tk (usent g slot) = usent g slot /\
    (exists fo views, eo_base o = OSFrame fo views /\ usent g slot = usent g1 slot ++ updates_for slot (fo_clients fo)).
  Proof.
    intros st g Hok Hb H1 Hs slot c m tk Hmode Hc Hin Htk.
    pose proof (urun_snoc _ _ _ _ _ _ _ H1 Hs) as H2. fold st g in H2.
    pose proof (tinv_run cfg0 nclients _ _ _ _ Hok Hb H2) as [_ _ T3'].
    destruct (finv_of_erun cfg0 nclients _ _ _ Hok Hb (grun_erun _ _ _ _ _ _ _ _ H2)) as (gs' & _ & Hf').
    destruct (sframe_full _ _ _ _ _ _ _ _ _ Hs) as (_ & _ & Hstamp).
    destruct (Hstamp slot m Hin) as (cl & Hfc & [Hn|[Ha Ht]]); [congruence|].
    assert (Hconn : cl_status c = Connected).
    { destruct Hf' as [_ _ _ _ Hslots]. destruct (Hslots slot c Hc) as [_ _ _ O4]. unfold emode in Hmode. rewrite Hmode in O4.
      cbn [mode_inv] in O4. destruct O4 as (A & _). apply A. apply has_rec_find. congruence. }
    destruct (T3' slot c Hc) as [_ I2]. specialize (I2 Hmode Hconn). destruct I2 as [_ L2 _ L4 _ _].
    specialize (L4 cl Hfc). rewrite Ha in L4.
    assert (Etk : tk = last_tick (usent g slot)) by congruence.
    split; [exact Hconn|]. split; [exists cl; repeat split; congruence|]. split; [exact Etk|].
    split; [rewrite Etk; apply sent_upto_all; exact L2|].
    destruct (sframe_unfold _ _ _ _ _ _ _ _ _ Hs) as (y' & ob & Hsys & _ & Hob & _).
    cbn [sys_step] in Hsys. destruct (server_frame _ _ tick dt cleanup ops parts) as [[s' fo]| |]; cbn [bind] in Hsys; try discriminate.
    injection Hsys as _ Eo. exists fo, (if fo_ran fo then server_views s' else []). split; [congruence|].
    unfold g, st. change (ustep e1 g1 (ESFrame tick dt cleanup ops parts emit) e o) with (ustep_base (e_sys e1) g1 (StSFrame tick dt cleanup ops parts) (eo_base o)).
    rewrite Hob, <- Eo. unfold usent. cbn [ustep_base ug_sent]. apply usent_push.
  Qed.

  (* the structure the client holds when the event is delivered (C03F_every_moment at that moment): empty, or the
     structure visible to the slot's record at a moment of the current session whose tick is the client's update
     tick - not before the stamp *)
  Theorem e1_structure script slot ops emit e1 g1 os1 e o :
    let st := ECFrame slot ops emit in
    escript_ok (script ++ [st]) = true -> tick_frames (proj_script (script ++ [st])) < 2 ^ 31 ->
    urun (syse_init cfg0 nclients) ug_init script = Ok (e1, g1, os1) -> syse_step e1 st = Ok (e, o) ->
    emode (script ++ [st]) slot = MLive ->
    forall ty q ent, In (ty, q, ent) (eo_got o) -> independent ty = false ->
    exists cl tk m,
      al_get slot (y_clients (e_sys e)) = Some cl /\ deliverable cl m = Some (ty, q, ent) /\ sm_tick m = Some tk /\
      tk <= cl_upd_tick cl /\
      (struct_equiv (client_struct cl) [] \/
       exists pre post y1 cl1, proj_script (script ++ [st]) = pre ++ post /\ run (sys_init cfg0 nclients) pre = Ok y1 /\
         forallb (fun b => negb (ends_session slot b)) post = true /\
         find_client (y_server y1) slot = Some cl1 /\ sc_authorized cl1 = true /\
         struct_equiv (client_struct cl) (struct_vis (y_server y1) cl1) /\ cl_upd_tick cl = sv_tick (y_server y1) /\
         tk <= sv_tick (y_server y1)).
  Proof.
    intros st Hok Hb H1 Hs Hmode ty q ent Hd Hdep.
    destruct (e1_delivery script slot ops emit e1 g1 os1 e o Hok Hb H1 Hs Hmode ty q ent Hd Hdep)
      as (cl & tk & m & Hcl & Hsc & Hm & Etk & _ & _ & Hle & _).
    exists cl, tk, m. repeat (split; [assumption|]).
    pose proof (urun_snoc _ _ _ _ _ _ _ H1 Hs) as H2.
    pose proof (erun_init_sys _ _ _ _ _ (grun_erun _ _ _ _ _ _ _ _ H2)) as Hrun.
    assert (Hokf : script_okf (proj_script (script ++ [st])) = true).
    { unfold escript_ok in Hok. apply andb_prop in Hok. destruct Hok as [Hok _]. apply andb_prop in Hok. exact (proj2 Hok). }
    destruct (f_every_moment cfg0 nclients _ _ slot cl Hokf Hb Hrun Hcl (or_intror Hmode)) as [G|(pre & post & y1 & cl1 & A1 & A2 & A3 & A4 & A5 & A6 & A7)].
    - left. exact G.
    - right. exists pre, post, y1, cl1. repeat (split; [assumption|]). lia.
  Qed.
End E1.

(* ================================================================== *)
(* 3. within a session the list of update messages sent only grows    *)
(* ================================================================== *)

Lemma escript_ok_app a b : escript_ok (a ++ b) = true -> escript_ok a = true.
Proof.
  induction b as [|x b IH] using rev_ind; [rewrite app_nil_r; auto|]. rewrite app_assoc. intros H. apply IH.
  exact (proj1 (escript_ok_snoc _ _ H)).
Qed.

Lemma al_get_insert_some {V} k (v : V) l k' : al_get k' l <> None -> al_get k' (al_insert k v l) <> None.
Proof.
  intros H. destruct (N.eq_dec k' k) as [->|Hne]; [rewrite al_get_insert_same; discriminate|].
  rewrite al_get_insert_other by exact Hne. exact H.
Qed.

(* `sys_step` never removes a client app *)
Lemma sys_step_clients_some y st y' o slot :
  sys_step y st = Ok (y', o) -> al_get slot (y_clients y) <> None -> al_get slot (y_clients y') <> None.
Proof.
  intros H Hn Hn'. apply Hn. clear Hn. revert Hn'.
  destruct st as [| |sl max|sl|sl|tick dt cleanup ops parts|sl ops|sl s2c ch w|sl s2c ch w]; cbn [sys_step] in H.
  - inversion H; auto.
  - inversion H; auto.
  - destruct (find_client (y_server y) sl); [inversion H; subst; auto|].
    destruct (al_get sl (y_clients y)) eqn:Ec; [|inversion H; subst; auto].
    destruct (sv_running (y_server y)); inversion H; subst; [|auto]. cbn [set_client set_server y_clients]. apply al_get_insert_keeps.
  - inversion H; auto.
  - destruct (al_get sl (y_clients y)) eqn:Ec; inversion H; subst; [|auto].
    cbn [clear_link set_link set_client set_server y_clients]. apply al_get_insert_keeps.
  - destruct (server_frame (y_cfg y) (y_server y) tick dt cleanup ops parts) as [[s' fo]| |]; cbn [bind] in H; try discriminate.
    inversion H; subst. rewrite (proj2 (proj2 (enqueue_fields _ _))). auto.
  - destruct (al_get sl (y_clients y)) as [cl|] eqn:Ec; [|inversion H; subst; auto].
    destruct (client_frame cl ops) as [[cl' cfo]| |] eqn:Ef; cbn [bind] in H; try discriminate.
    assert (H' : sys_step y (StCFrame sl ops) = Ok (y', o)) by (cbn [sys_step]; rewrite Ec, Ef; exact H).
    destruct (cframe_sys y sl ops cl cl' cfo y' o Ec Ef H') as (_ & E & _). rewrite E. apply al_get_insert_keeps.
  - destruct (al_get sl (y_clients y)) eqn:Ec; [|inversion H; subst; auto]. destruct s2c.
    + destruct (ch =? 0); [destruct (take w (l_upd (get_link y sl))); inversion H; subst; apply al_get_insert_keeps|].
      destruct (ch =? 1); [destruct (take w (l_mut (get_link y sl))); inversion H; subst; apply al_get_insert_keeps|inversion H; subst; auto].
    + destruct (ch =? 0); [destruct (take w (l_ack (get_link y sl))); inversion H; subst; auto|inversion H; subst; auto].
  - destruct (al_get sl (y_clients y)) eqn:Ec; [|inversion H; subst; auto]. destruct s2c.
    + destruct (ch =? 0); [destruct (take w (l_upd (get_link y sl))); inversion H; subst; apply al_get_insert_keeps|].
      destruct (ch =? 1); [destruct (take w (l_mut (get_link y sl))); inversion H; subst; apply al_get_insert_keeps|inversion H; subst; auto].
    + destruct (ch =? 0); [destruct (take w (l_ack (get_link y sl))); inversion H; subst; auto|inversion H; subst; auto].
Qed.

(* unless the slot connects anew, its list of update messages is extended *)
Lemma usent_ustep_ext e g st e' o slot :
  (forall max, st = EBase (StConnect slot max) -> find_client (y_server (e_sys e)) slot <> None) ->
  exists ext, usent (ustep e g st e' o) slot = usent g slot ++ ext.
Proof.
  intros Hc. destruct st as [b|tick dt cleanup ops parts emit|sl ops emit|sl ty w drop|sl ty w];
    try (exists []; rewrite app_nil_r; reflexivity).
  - change (ustep e g (EBase b) e' o) with (ustep_base (e_sys e) g b (eo_base o)).
    destruct b as [| |s0 max|s0|s0|tick dt cleanup ops parts|s0 ops|s0 s2c ch w|s0 s2c ch w]; cbn [ustep_base];
      try (exists []; rewrite app_nil_r; reflexivity).
    + destruct (find_client (y_server (e_sys e)) s0) eqn:Ef; [exists []; rewrite app_nil_r; reflexivity|].
      destruct (N.eq_dec slot s0) as [->|Hne]; [exfalso; exact (Hc max eq_refl Ef)|].
      exists []. rewrite app_nil_r. unfold usent. cbn [ug_sent]. rewrite al_get_insert_other by exact Hne. reflexivity.
    + destruct (eo_base o) as [|fo views| |]; try (exists []; rewrite app_nil_r; reflexivity).
      exists (updates_for slot (fo_clients fo)). unfold usent. cbn [ug_sent]. apply usent_push.
    + destruct (al_get s0 (y_clients (e_sys e))) as [c|]; [|exists []; rewrite app_nil_r; reflexivity].
      destruct (cl_status c); exists []; rewrite app_nil_r; reflexivity.
  - change (ustep e g (ESFrame tick dt cleanup ops parts emit) e' o) with (ustep_base (e_sys e) g (StSFrame tick dt cleanup ops parts) (eo_base o)).
    cbn [ustep_base]. destruct (eo_base o) as [|fo views| |]; try (exists []; rewrite app_nil_r; reflexivity).
    exists (updates_for slot (fo_clients fo)). unfold usent. cbn [ug_sent]. apply usent_push.
  - change (ustep e g (ECFrame sl ops emit) e' o) with (ustep_base (e_sys e) g (StCFrame sl ops) (eo_base o)).
    cbn [ustep_base]. destruct (al_get sl (y_clients (e_sys e))) as [c|]; [|exists []; rewrite app_nil_r; reflexivity].
    destruct (cl_status c); exists []; rewrite app_nil_r; reflexivity.
Qed.

Lemma mode_step_live slot b : ends_session slot b = false -> mode_step slot MLive b = MLive.
Proof.
  destruct b; cbn [ends_session mode_step]; try reflexivity; try discriminate.
  - destruct (slot0 =? slot); reflexivity.
  - intros ->. reflexivity.
  - destruct (slot0 =? slot); reflexivity.
Qed.

(* a connected client app stays connected while its session is not ended *)
Lemma step_keeps_connected y b y' o slot c : sys_step y b = Ok (y', o) -> ends_session slot b = false ->
  al_get slot (y_clients y) = Some c -> cl_status c = Connected ->
  exists c', al_get slot (y_clients y') = Some c' /\ cl_status c' = Connected.
Proof.
  intros H He Hc Hs.
  destruct (al_get slot (y_clients y')) as [c'|] eqn:Hc'.
  2:{ exfalso. apply (sys_step_clients_some _ _ _ _ slot H); congruence. }
  exists c'. split; [reflexivity|]. destruct (step_client_kind _ _ _ _ _ _ H Hc') as (c0 & Hc0 & Hev). rewrite Hc in Hc0. injection Hc0 as <-.
  destruct b as [| |s0 max|s0|s0|tick dt cleanup ops parts|s0 ops|s0 s2c ch w|s0 s2c ch w]; cbn [client_evolves_by ends_session] in *;
    try (subst c'; exact Hs); try discriminate.
  - destruct Hev as [-> | ->]; [exact Hs|reflexivity].
  - destruct (step_other _ _ _ _ slot H eq_refl) as (A & _); [discriminate|cbn; intros E; injection E as ->; rewrite N.eqb_refl in He; discriminate|].
    rewrite A, Hc in Hc'. injection Hc' as <-. exact Hs.
  - destruct Hev as [-> |[out Hf]]; [exact Hs|]. rewrite (proj1 (client_frame_fields _ _ _ _ Hf)). exact Hs.
  - destruct Hev as [-> |[[p ->]|[p ->]]]; [exact Hs| |].
    + destruct (deliver_updates_lc p c) as (_ & _ & _ & X). congruence.
    + destruct (deliver_mutates_lc p c) as (_ & _ & _ & X & _). congruence.
  - destruct Hev as [-> |[[p ->]|[p ->]]]; [exact Hs| |].
    + destruct (deliver_updates_lc p c) as (_ & _ & _ & X). congruence.
    + destruct (deliver_mutates_lc p c) as (_ & _ & _ & X & _). congruence.
Qed.

Section E1S.
  Variables (cfg0 : cfg) (nclients : N).

  Theorem e1_session mid : forall script slot e1 g1 os1 e2 g2 os2 c1,
    escript_ok (script ++ mid) = true -> tick_frames (proj_script (script ++ mid)) < 2 ^ 31 ->
    urun (syse_init cfg0 nclients) ug_init script = Ok (e1, g1, os1) -> urun e1 g1 mid = Ok (e2, g2, os2) ->
    emode script slot = MLive -> al_get slot (y_clients (e_sys e1)) = Some c1 -> cl_status c1 = Connected ->
    forallb (fun b => negb (ends_session slot b)) (proj_script mid) = true ->
    exists ext c2, usent g2 slot = usent g1 slot ++ ext /\ emode (script ++ mid) slot = MLive /\
                   al_get slot (y_clients (e_sys e2)) = Some c2 /\ cl_status c2 = Connected.
  Proof.
    induction mid as [|st rest IH]; intros script slot e1 g1 os1 e2 g2 os2 c1 Hok Hb H1 H2 Hm Hc Hs Hne.
    - cbn in H2. inversion H2; subst. exists [], c1. rewrite !app_nil_r. auto.
    - unfold urun in H2. cbn [grun] in H2. destruct (syse_step e1 st) as [[e1' o]| |] eqn:Est; cbn [bind] in H2; try discriminate.
      destruct (grun ustep e1' (ustep e1 g1 st e1' o) rest) as [[[e2' g2'] os2']| |] eqn:Er; cbn [bind] in H2; try discriminate.
      inversion H2; subst e2' g2' os2. clear H2.
      assert (Eapp : script ++ st :: rest = (script ++ [st]) ++ rest) by (rewrite <- app_assoc; reflexivity).
      rewrite Eapp in Hok, Hb |- *.
      pose proof (escript_ok_app _ _ Hok) as Hok1.
      assert (Hb1 : tick_frames (proj_script (script ++ [st])) < 2 ^ 31).
      { pose proof (tick_frames_app_le (proj_script (script ++ [st])) (proj_script rest)). rewrite proj_script_app in Hb. lia. }
      pose proof (escript_ok_app _ _ Hok1) as Hok0.
      assert (Hb0 : tick_frames (proj_script script) < 2 ^ 31).
      { pose proof (tick_frames_app_le (proj_script script) (proj_estep st)). rewrite proj_script_snoc in Hb1. lia. }
      pose proof (grun_erun _ _ _ _ _ _ _ _ H1) as He1.
      destruct (finv_of_erun cfg0 nclients _ _ _ Hok0 Hb0 He1) as (gs & _ & Hf).
      pose proof (erun_init_dom _ _ _ _ _ He1) as Hdom.
      destruct (f_live_facts cfg0 nclients _ _ _ slot c1 Hf Hc Hm Hs) as [Hrec _]. apply has_rec_find in Hrec.
      change (proj_script (st :: rest)) with (proj_estep st ++ proj_script rest) in Hne. rewrite forallb_app in Hne.
      apply andb_prop in Hne. destruct Hne as [Hne1 Hne2].
      destruct (usent_ustep_ext e1 g1 st e1' o slot (fun _ _ => Hrec)) as [ext1 Hext1].
      assert (Hm1 : emode (script ++ [st]) slot = MLive).
      { destruct (proj_estep st) as [|b [|b' r]] eqn:Ep.
        - rewrite emode_snoc_none by exact Ep. exact Hm.
        - rewrite (emode_snoc_one _ _ b) by exact Ep. rewrite Hm. apply mode_step_live. cbn [forallb] in Hne1.
          destruct (ends_session slot b); [discriminate|reflexivity].
        - destruct st; discriminate. }
      assert (Hc1 : exists c1', al_get slot (y_clients (e_sys e1')) = Some c1' /\ cl_status c1' = Connected).
      { pose proof (step_sys _ _ _ _ Hdom Est) as Hsys. unfold sys_of_step in Hsys. destruct (proj_estep st) as [|b r] eqn:Ep.
        - rewrite Hsys. exists c1. auto.
        - apply (step_keeps_connected _ _ _ _ slot c1 Hsys); auto. cbn [forallb] in Hne1.
          destruct (ends_session slot b); [discriminate|reflexivity]. }
      destruct Hc1 as (c1' & Hc1' & Hs1').
      pose proof (urun_snoc cfg0 nclients _ _ _ _ _ _ _ H1 Est) as H1'.
      destruct (IH (script ++ [st]) slot e1' _ _ e2 g2 os2' c1' Hok Hb H1' Er Hm1 Hc1' Hs1' Hne2) as (ext2 & c2 & A & B & C & D).
      exists (ext1 ++ ext2), c2. rewrite A, Hext1, <- app_assoc. auto.
  Qed.

  (* in a strictly increasing list of positive ticks: the messages up to the last tick of a prefix are that prefix *)
  Lemma sent_upto_app_last a b : StronglySorted N.lt (map u_tick (a ++ b)) -> (forall u, In u (a ++ b) -> 1 <= u_tick u) ->
    sent_upto (last_tick a) (a ++ b) = a.
  Proof.
    intros Hs Hpos. unfold sent_upto. rewrite filter_app. rewrite map_app in Hs.
    assert (Ha : filter (fun u => u_tick u <=? last_tick a) a = a).
    { apply filter_all_true. intros u Hu. apply N.leb_le. unfold last_tick. apply sorted_le_last; [exact (sorted_app_l _ _ Hs)|apply in_map; exact Hu]. }
    assert (Hb : filter (fun u => u_tick u <=? last_tick a) b = []).
    { apply filter_all_false. intros u Hu. apply N.leb_gt. destruct a as [|x a'] eqn:Ea.
      - cbn. pose proof (Hpos u (in_or_app _ _ _ (or_intror Hu))). lia.
      - rewrite <- Ea in *. assert (Hne : a <> []) by (rewrite Ea; discriminate).
        exact (sorted_app_lt _ _ Hs (last_tick a) (u_tick u) (last_tick_in a Hne) (in_map u_tick _ _ Hu)). }
    rewrite Ha, Hb, app_nil_r. reflexivity.
  Qed.

  (* E1 end to end: a dependent event flushed to a live connection by a server frame and, later in the same session,
     an event handed to game logic by a client frame of that connection whose stamp is not older (the same event, or
     one flushed later): every update message the server had sent to the connection up to and including the flush frame
     has been applied, in order, before the event is observed *)
  Theorem e1_end_to_end script tick dt cleanup ops parts emit mid slot cops cemit e1 g1 os1 e2 o2 e3 g3 os3 e4 o4 c2 :
    let stf := ESFrame tick dt cleanup ops parts emit in
    let stc := ECFrame slot cops cemit in
    let g2 := ustep e1 g1 stf e2 o2 in
    let g4 := ustep e3 g3 stc e4 o4 in
    let full := ((script ++ [stf]) ++ mid) ++ [stc] in
    escript_ok full = true -> tick_frames (proj_script full) < 2 ^ 31 ->
    urun (syse_init cfg0 nclients) ug_init script = Ok (e1, g1, os1) -> syse_step e1 stf = Ok (e2, o2) ->
    urun e2 g2 mid = Ok (e3, g3, os3) -> syse_step e3 stc = Ok (e4, o4) ->
    emode (script ++ [stf]) slot = MLive -> al_get slot (y_clients (e_sys e2)) = Some c2 ->
    forallb (fun b => negb (ends_session slot b)) (proj_script mid) = true ->
    forall m tk, In (slot, m) (eo_sent o2) -> sm_tick m = Some tk ->
    forall ty q ent, In (ty, q, ent) (eo_got o4) -> independent ty = false ->
    exists cl tk' m',
      al_get slot (y_clients (e_sys e4)) = Some cl /\ deliverable cl m' = Some (ty, q, ent) /\ sm_tick m' = Some tk' /\
      In m' (held_all e3 slot) /\ tk' <= cl_upd_tick cl /\ tk = last_tick (usent g2 slot) /\
      (tk <= tk' -> is_prefix (usent g2 slot) (uapplied g4 slot)).
  Proof.
    intros stf stc g2 g4 full Hok Hb H1 Hsf H3 Hsc Hmf Hc2 Hne m tk Hin Htk ty q ent Hd Hdep.
    pose proof (escript_ok_app _ _ Hok) as Hok3. pose proof (escript_ok_app _ _ Hok3) as Hok2.
    assert (Hb3 : tick_frames (proj_script ((script ++ [stf]) ++ mid)) < 2 ^ 31).
    { pose proof (tick_frames_app_le (proj_script ((script ++ [stf]) ++ mid)) (proj_estep stc)). unfold full in Hb. rewrite proj_script_snoc in Hb. lia. }
    assert (Hb2 : tick_frames (proj_script (script ++ [stf])) < 2 ^ 31).
    { pose proof (tick_frames_app_le (proj_script (script ++ [stf])) (proj_script mid)). rewrite proj_script_app in Hb3. lia. }
    destruct (e1_flush cfg0 nclients script tick dt cleanup ops parts emit e1 g1 os1 e2 o2 Hok2 Hb2 H1 Hsf slot c2 m tk Hmf Hc2 Hin Htk)
      as (Hconn2 & _ & Etk & _).
    pose proof (urun_snoc cfg0 nclients _ _ _ _ _ _ _ H1 Hsf) as H2. fold stf g2 in H2.
    destruct (e1_session mid (script ++ [stf]) slot e2 g2 _ e3 g3 os3 c2 Hok3 Hb3 H2 H3 Hmf Hc2 Hconn2 Hne) as (ext & c3 & Eext & Hm3 & Hc3 & Hs3).
    assert (H3' : urun (syse_init cfg0 nclients) ug_init ((script ++ [stf]) ++ mid) = Ok (e3, g3, (os1 ++ [o2]) ++ os3)).
    { unfold urun in *. rewrite grun_app, H2. cbn [bind]. rewrite H3. reflexivity. }
    assert (Hm4 : emode full slot = MLive).
    { unfold full, stc. rewrite (emode_snoc_one _ _ (StCFrame slot cops)) by reflexivity. rewrite Hm3. cbn [mode_step]. rewrite N.eqb_refl. reflexivity. }
    destruct (e1_delivery cfg0 nclients _ slot cops cemit e3 g3 _ e4 o4 Hok Hb H3' Hsc Hm4 ty q ent Hd Hdep)
      as (cl & tk' & m' & Hcl & Hscl & Hm' & Etk' & Hheld & _ & Hle & Hupd & Hfifo & _).
    exists cl, tk', m'. split; [exact Hcl|]. split; [exact Hm'|]. split; [exact Etk'|]. split; [exact Hheld|]. split; [exact Hle|]. split; [exact Etk|]. intros Hlt.
    pose proof (urun_snoc cfg0 nclients _ _ _ _ _ _ _ H3' Hsc) as H4. fold stc g4 full in H4.
    pose proof (tinv_run cfg0 nclients _ _ _ _ Hok Hb H4) as [_ _ T3].
    destruct (T3 slot cl Hcl) as [_ I2]. specialize (I2 Hm4 Hscl). destruct I2 as [_ L2 L3 _ _ _].
    unfold g4 in *. clear g4.
    set (g4 := ustep e3 g3 stc e4 o4) in *.
    change (usent g4 slot = uapplied g4 slot ++ l_upd (get_link (e_sys e4) slot)) in Hfifo.
    change (cl_upd_tick cl = last_tick (uapplied g4 slot)) in Hupd.
    assert (Hus4 : usent g4 slot = usent g2 slot ++ ext).
    { rewrite <- Eext. unfold g4, stc. change (ustep e3 g3 (ECFrame slot cops cemit) e4 o4) with (ustep_base (e_sys e3) g3 (StCFrame slot cops) (eo_base o4)).
      cbn [ustep_base]. destruct (al_get slot (y_clients (e_sys e3))) as [c|]; [|reflexivity]. destruct (cl_status c); reflexivity. }
    assert (Hpos : forall u, In u (usent g4 slot) -> 1 <= u_tick u) by (intros u Hu; specialize (L3 u Hu); lia).
    assert (E2 : sent_upto tk (usent g4 slot) = usent g2 slot).
    { rewrite Hus4, Etk. apply sent_upto_app_last; [rewrite <- Hus4; exact L2|rewrite <- Hus4; exact Hpos]. }
    rewrite <- E2. rewrite Hfifo. apply sent_upto_prefix; [rewrite <- Hfifo; exact L2|rewrite <- Hfifo; exact Hpos|]. rewrite <- Hupd. lia.
  Qed.
End E1S.

(* ================================================================== *)
(* 4. entity references                                               *)
(* ================================================================== *)

Section E1ENT.
  Variables (cfg0 : cfg) (nclients : N).

  (* a delivered mapped event / trigger target names a server entity the client has a mapping for; when the mapped client
     entity is a replica (alive, marked `Replicated`: it is in the client's structure), it is the replica of THAT server
     entity: the entity was replicated and visible to this client, with these component kinds, at a moment of the
     current session whose tick is the client's update tick - not before the stamp of the event *)
  Theorem e1_entity script slot ops emit e1 g1 os1 e o :
    let st := ECFrame slot ops emit in
    escript_ok (script ++ [st]) = true -> tick_frames (proj_script (script ++ [st])) < 2 ^ 31 ->
    urun (syse_init cfg0 nclients) ug_init script = Ok (e1, g1, os1) -> syse_step e1 st = Ok (e, o) ->
    emode (script ++ [st]) slot = MLive ->
    forall ty q se, In (ty, q, Some se) (eo_got o) -> independent ty = false ->
    exists cl tk, al_get slot (y_clients (e_sys e)) = Some cl /\ al_get se (cl_s2c cl) <> None /\ tk <= cl_upd_tick cl /\
      forall ks, al_get se (client_struct cl) = Some ks ->
        exists pre post y1 cl1 ks', proj_script (script ++ [st]) = pre ++ post /\ run (sys_init cfg0 nclients) pre = Ok y1 /\
          forallb (fun b => negb (ends_session slot b)) post = true /\
          find_client (y_server y1) slot = Some cl1 /\ sc_authorized cl1 = true /\
          al_get se (struct_vis (y_server y1) cl1) = Some ks' /\ kinds_equiv ks ks' /\
          cl_upd_tick cl = sv_tick (y_server y1) /\ tk <= sv_tick (y_server y1).
  Proof.
    intros st Hok Hb H1 Hs Hmode ty q se Hd Hdep.
    destruct (e1_structure cfg0 nclients script slot ops emit e1 g1 os1 e o Hok Hb H1 Hs Hmode ty q (Some se) Hd Hdep)
      as (cl & tk & m & Hcl & Hm & Etk & Hle & Hstruct).
    exists cl, tk. split; [exact Hcl|]. split; [|split; [exact Hle|]].
    - destruct (deliverable_some _ _ _ Hm) as [E Hres]. apply Hres. congruence.
    - intros ks Hks. destruct Hstruct as [G|(pre & post & y1 & cl1 & A1 & A2 & A3 & A4 & A5 & A6 & A7 & A8)].
      + specialize (G se). rewrite Hks in G. cbn [al_get] in G. destruct G.
      + specialize (A6 se). rewrite Hks in A6. destruct (al_get se (struct_vis (y_server y1) cl1)) as [ks'|] eqn:E; [|destruct A6].
        exists pre, post, y1, cl1, ks'. auto 10.
  Qed.
End E1ENT.
