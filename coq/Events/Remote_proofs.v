(* Lemmas about Events/Remote.v (remote events layered over Repl.Sys); vocabulary in Events/RemoteSpec.v.
   Pinned in Properties/C04.v and Properties/C05.v. *)
From Coq Require Import ZifyBool ZifyN Permutation Sorted.
From RV Require Import Lib.Res Repl.ClientTicks Repl.World Repl.Server Repl.Client Repl.Sys
  Tick.RepliconTick Tick.RepliconTick_proofs Events.Remote Events.RemoteSpec.
Ltac Zify.zify_post_hook ::= Z.div_mod_to_equations.
Arguments N.add : simpl never. Arguments N.mul : simpl never. Arguments N.pow : simpl never.
Arguments N.ltb : simpl never. Arguments N.leb : simpl never. Arguments N.div : simpl never.
Arguments N.modulo : simpl never. Arguments N.sub : simpl never. Arguments N.eqb : simpl never.
Open Scope N_scope.

(* ================= generic list facts ================= *)

Lemma filter_split_perm {A} (p : A -> bool) l : Permutation (filter p l ++ filter (fun x => negb (p x)) l) l.
Proof.
  induction l as [|x l IH]; cbn [filter]; [constructor|].
  destruct (p x); cbn [negb app].
  - constructor; exact IH.
  - apply Permutation_sym, Permutation_cons_app, Permutation_sym, IH.
Qed.

Lemma filter_filter_comm {A} (p q : A -> bool) l : filter p (filter q l) = filter q (filter p l).
Proof.
  induction l as [|x l IH]; [reflexivity|]. cbn [filter].
  destruct (q x) eqn:Hq, (p x) eqn:Hp; cbn [filter]; rewrite ?Hq, ?Hp, IH; reflexivity.
Qed.

Lemma filter_ext_in' {A} (p q : A -> bool) l : (forall x, In x l -> p x = q x) -> filter p l = filter q l.
Proof.
  induction l as [|x l IH]; intros H; [reflexivity|]. cbn [filter].
  rewrite (H x (or_introl eq_refl)), IH; [reflexivity|]. intros y Hy; apply H; right; exact Hy.
Qed.

Lemma filter_all_true {A} (p : A -> bool) l : (forall x, In x l -> p x = true) -> filter p l = l.
Proof.
  induction l as [|x l IH]; intros H; [reflexivity|]. cbn [filter].
  rewrite (H x (or_introl eq_refl)), IH; [reflexivity|]. intros y Hy; apply H; right; exact Hy.
Qed.

Lemma filter_all_false {A} (p : A -> bool) l : (forall x, In x l -> p x = false) -> filter p l = [].
Proof.
  induction l as [|x l IH]; intros H; [reflexivity|]. cbn [filter].
  rewrite (H x (or_introl eq_refl)), IH; [reflexivity|]. intros y Hy; apply H; right; exact Hy.
Qed.

Lemma flat_map_ext_in' {A B} (f g : A -> list B) l : (forall x, In x l -> f x = g x) -> flat_map f l = flat_map g l.
Proof.
  induction l as [|x l IH]; intros H; [reflexivity|]. cbn [flat_map].
  rewrite (H x (or_introl eq_refl)), IH; [reflexivity|]. intros y Hy; apply H; right; exact Hy.
Qed.

Lemma flat_map_if_filter {A B} (p : A -> bool) (f : A -> list B) l :
  flat_map (fun x => if p x then f x else []) l = flat_map f (filter p l).
Proof.
  induction l as [|x l IH]; [reflexivity|]. cbn [flat_map filter].
  destruct (p x); cbn [flat_map app]; rewrite IH; reflexivity.
Qed.

Lemma flat_map_flat_map {A B C} (f : B -> list C) (g : A -> list B) l :
  flat_map f (flat_map g l) = flat_map (fun x => flat_map f (g x)) l.
Proof.
  induction l as [|x l IH]; [reflexivity|]. cbn [flat_map]. rewrite flat_map_app, IH. reflexivity.
Qed.

(* classifying a list by a finite set of classes and concatenating the classes is a permutation *)
Lemma classify_perm {A T} (cls : A -> T) (eqb : T -> T -> bool)
  (eqb_spec : forall a b, eqb a b = true <-> a = b) (ts : list T) :
  NoDup ts -> forall l, (forall x, In x l -> In (cls x) ts) ->
  Permutation (flat_map (fun t => filter (fun x => eqb (cls x) t) l) ts) l.
Proof.
  induction 1 as [|t ts Hnin Hnd IH]; intros l Hall.
  - destruct l as [|x l]; [constructor|]. destruct (Hall x (or_introl eq_refl)).
  - cbn [flat_map].
    assert (Hrest : flat_map (fun t' => filter (fun x => eqb (cls x) t') l) ts
                    = flat_map (fun t' => filter (fun x => eqb (cls x) t') (filter (fun x => negb (eqb (cls x) t)) l)) ts).
    { apply flat_map_ext_in'. intros t' Ht'. rewrite filter_filter_comm.
      symmetry. apply filter_all_true. intros x Hx. apply filter_In in Hx. destruct Hx as [_ Hx].
      apply eqb_spec in Hx. destruct (eqb (cls x) t) eqn:E; [|reflexivity].
      apply eqb_spec in E. congruence. }
    rewrite Hrest.
    eapply Permutation_trans; [|apply (filter_split_perm (fun x => eqb (cls x) t))].
    apply Permutation_app_head. apply IH.
    intros x Hx. apply filter_In in Hx. destruct Hx as [Hx Hne].
    destruct (Hall x Hx) as [E|Hin]; [|exact Hin].
    assert (eqb (cls x) t = true) as E' by (apply eqb_spec; congruence). rewrite E' in Hne. discriminate.
Qed.

Lemma in_classify {A T} (cls : A -> T) (eqb : T -> T -> bool)
  (eqb_spec : forall a b, eqb a b = true <-> a = b) (ts : list T) l x :
  (forall t, In t ts) -> In x (flat_map (fun t => filter (fun x => eqb (cls x) t) l) ts) <-> In x l.
Proof.
  intros Hall. rewrite in_flat_map. split.
  - intros [t [_ Hx]]. apply filter_In in Hx. tauto.
  - intros Hx. exists (cls x). split; [apply Hall|]. apply filter_In. split; [exact Hx|]. apply eqb_spec. reflexivity.
Qed.

(* ---------- omap ---------- *)

Lemma omap_app {A B} (f : A -> option B) l1 l2 : omap f (l1 ++ l2) = omap f l1 ++ omap f l2.
Proof.
  induction l1 as [|x l1 IH]; [reflexivity|]. cbn [omap app]. destruct (f x); rewrite IH; reflexivity.
Qed.

Lemma in_omap {A B} (f : A -> option B) l y : In y (omap f l) <-> exists x, In x l /\ f x = Some y.
Proof.
  induction l as [|x l IH]; cbn [omap In].
  - split; [tauto|]. intros [x [[] _]].
  - destruct (f x) eqn:E; cbn [In]; rewrite IH; split.
    + intros [-> | [x' [Hin Hf]]]; [exists x; auto|exists x'; auto].
    + intros [x' [[-> | Hin] Hf]]; [left; congruence|right; exists x'; auto].
    + intros [x' [Hin Hf]]; exists x'; auto.
    + intros [x' [[-> | Hin] Hf]]; [congruence|exists x'; auto].
Qed.

Lemma omap_fold_right {A B} (f : A -> option B) l :
  fold_right (fun m acc => match f m with Some d => d :: acc | None => acc end) [] l = omap f l.
Proof. induction l as [|x l IH]; [reflexivity|]. cbn [fold_right omap]. rewrite IH. reflexivity. Qed.

Lemma omap_perm {A B} (f : A -> option B) l l' : Permutation l l' -> Permutation (omap f l) (omap f l').
Proof.
  induction 1 as [|x l l' H IH|x y l|l l' l'' H1 IH1 H2 IH2]; cbn [omap].
  - constructor.
  - destruct (f x); [constructor|]; exact IH.
  - destruct (f x), (f y); try apply Permutation_refl. apply perm_swap.
  - eapply Permutation_trans; eassumption.
Qed.

(* ---------- association lists, mem_N, sort_N ---------- *)

Lemma al_get_insert_same {V} k (v : V) l : al_get k (al_insert k v l) = Some v.
Proof.
  induction l as [|[k' v'] l IH]; cbn [al_insert al_get].
  - rewrite N.eqb_refl. reflexivity.
  - destruct (k' =? k) eqn:E; cbn [al_get]; [rewrite N.eqb_refl|rewrite E]; auto.
Qed.

Lemma al_get_insert_other {V} k k' (v : V) l : k' <> k -> al_get k' (al_insert k v l) = al_get k' l.
Proof.
  intros Hne. induction l as [|[k2 v2] l IH]; cbn [al_insert al_get].
  - destruct (k =? k') eqn:E; [apply N.eqb_eq in E; congruence|reflexivity].
  - destruct (k2 =? k) eqn:E; cbn [al_get].
    + apply N.eqb_eq in E. subst k2.
      destruct (k =? k') eqn:E2; [apply N.eqb_eq in E2; congruence|reflexivity].
    + destruct (k2 =? k'); auto.
Qed.

Lemma al_get_in {V} k (v : V) l : al_get k l = Some v -> In (k, v) l.
Proof.
  induction l as [|[k' v'] l IH]; cbn [al_get]; [discriminate|].
  destruct (k' =? k) eqn:E.
  - intros H; injection H as ->. apply N.eqb_eq in E. subst. left; reflexivity.
  - intros H; right; auto.
Qed.

Lemma in_al_insert {V} k (v : V) l k' v' : In (k', v') (al_insert k v l) -> (k', v') = (k, v) \/ In (k', v') l.
Proof.
  induction l as [|[k2 v2] l IH]; cbn [al_insert In].
  - intros [H | []]; left; auto.
  - destruct (k2 =? k); cbn [In]; intros [H | H]; auto. destruct (IH H); auto.
Qed.

Lemma in_al_remove {V} k l k' (v' : V) : In (k', v') (al_remove k l) -> In (k', v') l /\ k' <> k.
Proof.
  induction l as [|[k2 v2] l IH]; cbn [al_remove In]; [tauto|].
  destruct (k2 =? k) eqn:E; cbn [In].
  - intros H; destruct (IH H); auto.
  - intros [H | H]; [|destruct (IH H); auto].
    injection H as -> ->. split; [auto|]. intros ->. rewrite N.eqb_refl in E. discriminate.
Qed.

Lemma mem_N_In x l : mem_N x l = true <-> In x l.
Proof.
  unfold mem_N. rewrite existsb_exists. split.
  - intros [y [Hy E]]. apply N.eqb_eq in E. subst; exact Hy.
  - intros H; exists x; split; [exact H|apply N.eqb_refl].
Qed.

Lemma insert_sorted_perm x l : Permutation (insert_sorted x l) (x :: l).
Proof.
  induction l as [|y l IH]; cbn [insert_sorted]; [apply Permutation_refl|].
  destruct (x <=? y); [apply Permutation_refl|].
  eapply Permutation_trans; [apply perm_skip, IH|apply perm_swap].
Qed.

Lemma sort_N_perm l : Permutation (sort_N l) l.
Proof.
  unfold sort_N. induction l as [|x l IH]; cbn [fold_right]; [constructor|].
  eapply Permutation_trans; [apply insert_sorted_perm|apply perm_skip, IH].
Qed.

Lemma find_client_some s slot cl : find_client s slot = Some cl -> In cl (sv_clients s) /\ sc_slot cl = slot.
Proof.
  unfold find_client. intros H. apply find_some in H. destruct H as [H E]. apply N.eqb_eq in E. auto.
Qed.

Lemma find_client_none s slot : find_client s slot = None -> ~ In slot (map sc_slot (sv_clients s)).
Proof.
  unfold find_client. intros H Hin. apply in_map_iff in Hin. destruct Hin as [cl [E Hin]].
  pose proof (find_none _ _ H cl Hin) as Hn. cbn beta in Hn. rewrite E, N.eqb_refl in Hn. discriminate.
Qed.

(* ---------- event types ---------- *)

Lemma sety_eqb_eq a b : sety_eqb a b = true <-> a = b.
Proof. destruct a, b; cbv; split; intros H; try reflexivity; try discriminate. Qed.
Lemma cety_eqb_eq a b : cety_eqb a b = true <-> a = b.
Proof. destruct a, b; cbv; split; intros H; try reflexivity; try discriminate. Qed.
Lemma sety_eqb_refl a : sety_eqb a a = true. Proof. apply sety_eqb_eq; reflexivity. Qed.
Lemma sety_eqb_neq a b : sety_eqb a b = false <-> a <> b.
Proof. destruct (sety_eqb a b) eqn:E; split; intros H; try discriminate; try reflexivity.
  - apply sety_eqb_eq in E. contradiction.
  - intros ->. rewrite sety_eqb_refl in E. discriminate. Qed.
Lemma sety_all_complete t : In t sety_all. Proof. destruct t; cbv; tauto. Qed.
Lemma cety_all_complete t : In t cety_all. Proof. destruct t; cbv; tauto. Qed.
Lemma sety_all_nodup : NoDup sety_all.
Proof. repeat constructor; cbv; intuition discriminate. Qed.
Lemma cety_all_nodup : NoDup cety_all.
Proof. repeat constructor; cbv; intuition discriminate. Qed.

(* ================= server side ================= *)

(* ---------- 5. recipients ---------- *)

Lemma in_connected_slots e slot :
  In slot (connected_slots e) <-> In slot (map sc_slot (sv_clients (y_server (e_sys e)))).
Proof.
  unfold connected_slots. split; apply Permutation_in; [|apply Permutation_sym]; apply sort_N_perm.
Qed.

Theorem recipients_spec e mode excluded auth_only slot :
  In slot (recipients e mode excluded auth_only) <->
  exists uid cl, uid_of e slot = Some uid /\ find_client (y_server (e_sys e)) slot = Some cl /\
                 ~ In uid excluded /\ (auth_only = true -> sc_authorized cl = true) /\ mode_allows mode uid.
Proof.
  unfold recipients. rewrite filter_In. split.
  - intros [_ H]. destruct (uid_of e slot) as [uid|]; [|discriminate].
    destruct (find_client (y_server (e_sys e)) slot) as [cl|]; [|discriminate].
    exists uid, cl. apply andb_prop in H. destruct H as [H Hm]. apply andb_prop in H. destruct H as [Hx Ha].
    repeat split; auto.
    + intros Hin. apply mem_N_In in Hin. rewrite Hin in Hx. discriminate.
    + intros ->. cbn [negb orb] in Ha. exact Ha.
    + destruct mode as [|u|u|]; cbn [mode_allows]; auto.
      * intros ->. rewrite N.eqb_refl in Hm. discriminate.
      * apply N.eqb_eq in Hm. auto.
      * discriminate.
  - intros [uid [cl [Hu [Hc [Hx [Ha Hm]]]]]]. split.
    + apply in_connected_slots. apply find_client_some in Hc. destruct Hc as [Hin E].
      apply in_map_iff. exists cl; auto.
    + rewrite Hu, Hc. apply andb_true_intro; split; [apply andb_true_intro; split|].
      * destruct (mem_N uid excluded) eqn:E; [apply mem_N_In in E; contradiction|reflexivity].
      * destruct auth_only; [rewrite Ha; reflexivity|reflexivity].
      * destruct mode as [|u|u|]; cbn [mode_allows] in Hm; [reflexivity| | |destruct Hm].
        -- destruct (u =? uid) eqn:E; [apply N.eqb_eq in E; congruence|reflexivity].
        -- subst; apply N.eqb_refl.
Qed.

Theorem recipients_nodup e mode excluded auth_only :
  NoDup (map sc_slot (sv_clients (y_server (e_sys e)))) -> NoDup (recipients e mode excluded auth_only).
Proof.
  intros H. unfold recipients. apply NoDup_filter. unfold connected_slots.
  eapply Permutation_NoDup; [apply Permutation_sym, sort_N_perm|exact H].
Qed.

Lemma recipients_direct_server e excluded a : recipients e MDirectServer excluded a = [].
Proof.
  unfold recipients. apply filter_all_false. intros slot _.
  destruct (uid_of e slot); [|reflexivity]. destruct (find_client _ slot); [|reflexivity].
  apply andb_false_r.
Qed.

(* ---------- 1. / 7. send_buffered ---------- *)

Lemma send_buffered_sent e : snd (send_buffered e) = flat_map (set_msgs e) (e_buffer e).
Proof. reflexivity. Qed.

Lemma send_buffered_buffer e : e_buffer (fst (send_buffered e)) = [].
Proof. reflexivity. Qed.

Lemma in_ev_msgs e set ev slot m :
  In (slot, m) (ev_msgs e set ev) <->
  In slot (recipients e (sev_mode ev) (bs_excluded set) true) /\
  exists cl, find_client (y_server (e_sys e)) slot = Some cl /\ m = stamped cl ev.
Proof.
  unfold ev_msgs. rewrite in_flat_map. split.
  - intros [s [Hs Hin]]. destruct (find_client _ s) as [cl|] eqn:Hc; [|destruct Hin].
    destruct Hin as [H | []]. injection H as <- <-. split; [exact Hs|]. exists cl; auto.
  - intros [Hs [cl [Hc ->]]]. exists slot. split; [exact Hs|]. rewrite Hc. left; reflexivity.
Qed.

Lemma in_send_buffered e slot m :
  In (slot, m) (snd (send_buffered e)) <->
  exists set ev cl, In set (e_buffer e) /\ In ev (bs_events set) /\
    In slot (recipients e (sev_mode ev) (bs_excluded set) true) /\
    find_client (y_server (e_sys e)) slot = Some cl /\ m = stamped cl ev.
Proof.
  rewrite send_buffered_sent, in_flat_map. unfold set_msgs. split.
  - intros [set [Hset Hin]]. apply in_flat_map in Hin. destruct Hin as [ev [Hev Hin]].
    apply in_ev_msgs in Hin. destruct Hin as [Hs [cl [Hc ->]]]. exists set, ev, cl; auto.
  - intros [set [ev [cl [Hset [Hev [Hs [Hc ->]]]]]]]. exists set; split; [exact Hset|].
    apply in_flat_map. exists ev; split; [exact Hev|]. apply in_ev_msgs. split; [exact Hs|]. exists cl; auto.
Qed.

(* each buffered event: exactly one message for each recipient, none for anybody else *)
Lemma ev_msgs_slots e set ev :
  map fst (ev_msgs e set ev) = recipients e (sev_mode ev) (bs_excluded set) true.
Proof.
  unfold ev_msgs.
  assert (H : forall l, (forall s, In s l -> exists cl, find_client (y_server (e_sys e)) s = Some cl) ->
    map fst (flat_map (fun slot => match find_client (y_server (e_sys e)) slot with
       | Some cl => [(slot, mkSMsg (sev_ty ev) (Some (ct_update_tick (sc_ticks cl))) (sev_seq ev) (sev_ent ev))]
       | None => [] end) l) = l).
  { induction l as [|s l IH]; intros Hl; [reflexivity|]. cbn [flat_map].
    destruct (Hl s (or_introl eq_refl)) as [cl Hc]. rewrite Hc. cbn [app map fst].
    rewrite IH; [reflexivity|]. intros s' Hs'. apply Hl. right; exact Hs'. }
  apply H. intros s Hs. apply recipients_spec in Hs. destruct Hs as [uid [cl [_ [Hc _]]]]. exists cl; exact Hc.
Qed.

Theorem dependent_events_carry_update_tick e slot m :
  buffer_dependent e -> In (slot, m) (snd (send_buffered e)) ->
  exists cl, find_client (y_server (e_sys e)) slot = Some cl /\
             sm_tick m = Some (ct_update_tick (sc_ticks cl)) /\ independent (sm_ty m) = false.
Proof.
  intros Hdep Hin. apply in_send_buffered in Hin.
  destruct Hin as [set [ev [cl [Hset [Hev [_ [Hc ->]]]]]]]. exists cl. repeat split; auto.
  cbn [stamped sm_ty]. eapply Hdep; eassumption.
Qed.

(* ---------- send_or_buffer ---------- *)

Lemma send_or_buffer_fold e evs sent0 buf0 :
  fold_left (fun acc ev =>
               let '(sent, buffered) := acc in
               if independent (sev_ty ev) then
                 (sent ++ map (fun slot => (slot, mkSMsg (sev_ty ev) None (sev_seq ev) (sev_ent ev)))
                              (recipients e (sev_mode ev) [] false), buffered)
               else (sent, buffered ++ [ev])) evs (sent0, buf0)
  = (sent0 ++ flat_map (indep_msgs e) evs, buf0 ++ filter (fun ev => negb (independent (sev_ty ev))) evs).
Proof.
  revert sent0 buf0. induction evs as [|ev evs IH]; intros sent0 buf0; cbn [fold_left flat_map filter].
  - rewrite !app_nil_r. reflexivity.
  - assert (Hm : indep_msgs e ev = if independent (sev_ty ev)
        then map (fun slot => (slot, mkSMsg (sev_ty ev) None (sev_seq ev) (sev_ent ev))) (recipients e (sev_mode ev) [] false)
        else []) by reflexivity.
    destruct (independent (sev_ty ev)); cbn [negb]; rewrite IH, Hm.
    + rewrite <- app_assoc. reflexivity.
    + cbn [app]. rewrite <- app_assoc. reflexivity.
Qed.

Lemma send_or_buffer_sent e : snd (send_or_buffer e) = flat_map (indep_msgs e) (emitted_in_order e).
Proof.
  unfold send_or_buffer. fold (emitted_in_order e). rewrite send_or_buffer_fold. reflexivity.
Qed.

Lemma send_or_buffer_state e :
  let e' := fst (send_or_buffer e) in
  e_emitted e' = [] /\
  e_buffer e' = e_buffer e ++ [mkBSet (filter (fun ev => negb (independent (sev_ty ev))) (emitted_in_order e)) []] /\
  e_sys e' = e_sys e /\ e_uids e' = e_uids e /\ e_next_uid e' = e_next_uid e /\ e_inbox e' = e_inbox e /\
  e_clients e' = e_clients e /\ e_c2s e' = e_c2s e /\
  e_s2c e' = fold_left (fun q sm => push_s2c q (fst sm) (snd sm)) (snd (send_or_buffer e)) (e_s2c e).
Proof.
  unfold send_or_buffer. fold (emitted_in_order e). rewrite send_or_buffer_fold. cbn. repeat split; reflexivity.
Qed.

Lemma emitted_in_order_perm e : Permutation (emitted_in_order e) (e_emitted e).
Proof.
  unfold emitted_in_order. apply (classify_perm sev_ty sety_eqb sety_eqb_eq).
  - apply sety_all_nodup.
  - intros x _. apply sety_all_complete.
Qed.

Lemma in_send_or_buffer e slot m :
  In (slot, m) (snd (send_or_buffer e)) <->
  exists ev, In ev (e_emitted e) /\ independent (sev_ty ev) = true /\
             In slot (recipients e (sev_mode ev) [] false) /\ m = unstamped ev.
Proof.
  rewrite send_or_buffer_sent, in_flat_map. split.
  - intros [ev [Hev Hin]]. exists ev. split; [eapply Permutation_in; [apply emitted_in_order_perm|exact Hev]|].
    unfold indep_msgs in Hin. destruct (independent (sev_ty ev)); [|destruct Hin].
    apply in_map_iff in Hin. destruct Hin as [s [E Hs]]. injection E as <- <-. auto.
  - intros [ev [Hev [Hi [Hs ->]]]]. exists ev.
    split; [eapply Permutation_in; [apply Permutation_sym, emitted_in_order_perm|exact Hev]|].
    unfold indep_msgs. rewrite Hi. apply in_map_iff. exists slot. auto.
Qed.

Theorem independent_events_carry_no_tick e slot m :
  In (slot, m) (snd (send_or_buffer e)) -> sm_tick m = None /\ independent (sm_ty m) = true.
Proof.
  intros H. apply in_send_or_buffer in H. destruct H as [ev [_ [Hi [_ ->]]]]. split; [reflexivity|exact Hi].
Qed.

(* the set added by send_or_buffer holds exactly the dependent emissions, each once *)
Lemma send_or_buffer_buffered_perm e :
  exists set, e_buffer (fst (send_or_buffer e)) = e_buffer e ++ [set] /\ bs_excluded set = [] /\
    Permutation (bs_events set) (filter (fun ev => negb (independent (sev_ty ev))) (e_emitted e)).
Proof.
  destruct (send_or_buffer_state e) as [_ [Hb _]]. eexists; split; [exact Hb|]. split; [reflexivity|].
  cbn [bs_events].
  assert (Hf : forall (p : sev -> bool) l l', Permutation l l' -> Permutation (filter p l) (filter p l')).
  { intros p l l' HP. induction HP as [|x l l' H IH|x y l|l l' l'' H1 IH1 H2 IH2]; cbn [filter].
    - constructor.
    - destruct (p x); [constructor|]; exact IH.
    - destruct (p x), (p y); try apply Permutation_refl. apply perm_swap.
    - eapply Permutation_trans; eassumption. }
  apply Hf, emitted_in_order_perm.
Qed.

(* ---------- 7. what send puts on the channels ---------- *)

Lemma push_all_chan sent : forall q slot,
  opt_list (al_get slot (fold_left (fun q sm => push_s2c q (fst sm) (snd sm)) sent q))
  = opt_list (al_get slot q) ++ msgs_for slot sent.
Proof.
  unfold msgs_for. induction sent as [|[s m] sent IH]; intros q slot; cbn [fold_left filter map fst snd].
  - rewrite app_nil_r. reflexivity.
  - rewrite IH. unfold push_s2c. destruct (s =? slot) eqn:E.
    + apply N.eqb_eq in E. subst s. rewrite al_get_insert_same. cbn [map snd opt_list].
      destruct (al_get slot q) as [l|]; cbn [opt_list app]; [rewrite <- app_assoc|]; reflexivity.
    + rewrite al_get_insert_other; [reflexivity|]. intros ->. rewrite N.eqb_refl in E. discriminate.
Qed.

Lemma send_buffered_chan e slot :
  chan_s2c (fst (send_buffered e)) slot = chan_s2c e slot ++ msgs_for slot (snd (send_buffered e)).
Proof. unfold chan_s2c. cbn [send_buffered fst snd e_s2c]. apply push_all_chan. Qed.

Lemma send_or_buffer_chan e slot :
  chan_s2c (fst (send_or_buffer e)) slot = chan_s2c e slot ++ msgs_for slot (snd (send_or_buffer e)).
Proof.
  unfold chan_s2c. destruct (send_or_buffer_state e) as [_ [_ [_ [_ [_ [_ [_ [_ H]]]]]]]]. rewrite H. apply push_all_chan.
Qed.

Theorem buffer_flushed_once e :
  e_buffer (fst (send_buffered e)) = [] /\
  e_emitted (fst (send_or_buffer e)) = [] /\
  snd (send_buffered e) = flat_map (fun set => flat_map (ev_msgs e set) (bs_events set)) (e_buffer e) /\
  (forall set ev, map fst (ev_msgs e set ev) = recipients e (sev_mode ev) (bs_excluded set) true) /\
  (NoDup (map sc_slot (sv_clients (y_server (e_sys e)))) -> forall set ev, NoDup (map fst (ev_msgs e set ev))) /\
  (forall slot, chan_s2c (fst (send_buffered e)) slot = chan_s2c e slot ++ msgs_for slot (snd (send_buffered e))).
Proof.
  split; [reflexivity|]. split; [apply send_or_buffer_state|]. split; [reflexivity|].
  split; [apply ev_msgs_slots|]. split; [|apply send_buffered_chan].
  intros H set ev. rewrite ev_msgs_slots. apply recipients_nodup, H.
Qed.

(* ---------- 6. connecting ---------- *)

Lemma excluded_not_sent e slot uid set m :
  uid_of e slot = Some uid -> In uid (bs_excluded set) -> ~ In (slot, m) (set_msgs e set).
Proof.
  intros Hu Hx Hin. unfold set_msgs in Hin. apply in_flat_map in Hin. destruct Hin as [ev [_ Hin]].
  apply in_ev_msgs in Hin. destruct Hin as [Hs _]. apply recipients_spec in Hs.
  destruct Hs as [uid' [cl [Hu' [_ [Hn _]]]]]. congruence.
Qed.

Theorem connect_excludes_from_buffered e slot max e' o :
  syse_step e (EBase (StConnect slot max)) = Ok (e', o) ->
  find_client (y_server (e_sys e)) slot = None ->
  find_client (y_server (e_sys e')) slot <> None ->
  uid_of e' slot = Some (e_next_uid e) /\
  (forall s, s <> slot -> uid_of e' s = uid_of e s) /\
  e_next_uid e' = e_next_uid e + 1 /\
  e_buffer e' = map (fun set => mkBSet (bs_events set) (bs_excluded set ++ [e_next_uid e])) (e_buffer e) /\
  (forall set, In set (e_buffer e') -> In (e_next_uid e) (bs_excluded set)) /\
  (forall m, ~ In (slot, m) (snd (send_buffered e'))) /\
  e_s2c e' = e_s2c e.
Proof.
  intros H Hnone Hsome. unfold syse_step in H.
  destruct (sys_step (e_sys e) (StConnect slot max)) as [[y' o']| |] eqn:Hs; cbn [bind] in H; try discriminate.
  rewrite Hnone in H. destruct (find_client (y_server y') slot) as [cl'|] eqn:Hc'.
  - injection H as <- <-. cbn [set_sys e_uids e_next_uid e_buffer e_sys e_s2c].
    assert (Hu : uid_of (mkSysE y' (al_insert slot (e_next_uid e) (e_uids e)) (e_next_uid e + 1) (e_emitted e)
        (map (fun set => mkBSet (bs_events set) (bs_excluded set ++ [e_next_uid e])) (e_buffer e))
        (e_inbox e) (e_clients e) (e_s2c e) (e_c2s e)) slot = Some (e_next_uid e)).
    { unfold uid_of. cbn [e_uids]. apply al_get_insert_same. }
    assert (Hall : forall set, In set (map (fun set => mkBSet (bs_events set) (bs_excluded set ++ [e_next_uid e])) (e_buffer e)) ->
                               In (e_next_uid e) (bs_excluded set)).
    { intros set Hin. apply in_map_iff in Hin. destruct Hin as [set0 [<- _]]. cbn [bs_excluded].
      apply in_or_app. right. left. reflexivity. }
    split; [exact Hu|]. split.
    { intros s Hne. unfold uid_of. cbn [e_uids]. apply al_get_insert_other. exact Hne. }
    split; [reflexivity|]. split; [reflexivity|]. split; [exact Hall|]. split; [|reflexivity].
    intros m Hin. rewrite send_buffered_sent in Hin. apply in_flat_map in Hin. destruct Hin as [set [Hset Hin]].
    cbn [e_buffer] in Hset. eapply excluded_not_sent; [exact Hu|apply Hall; exact Hset|exact Hin].
  - injection H as <- <-. cbn [set_sys e_sys] in Hsome. congruence.
Qed.

(* excluding a connection id does not change what anybody else gets *)
Lemma recipients_exclude_one e mode excl u a s :
  In s (recipients e mode (excl ++ [u]) a) <-> In s (recipients e mode excl a) /\ uid_of e s <> Some u.
Proof.
  rewrite !recipients_spec. split.
  - intros [uid [cl [Hu [Hc [Hx [Ha Hm]]]]]]. split.
    + exists uid, cl. repeat split; auto. intros Hin. apply Hx, in_or_app. left; exact Hin.
    + intros E. rewrite Hu in E. injection E as ->. apply Hx, in_or_app. right; left; reflexivity.
  - intros [[uid [cl [Hu [Hc [Hx [Ha Hm]]]]]] Hne]. exists uid, cl. repeat split; auto.
    intros Hin. apply in_app_or in Hin. destruct Hin as [Hin | [-> | []]]; [auto|congruence].
Qed.

(* independent events go at emission time to the connections that exist then *)
Theorem independent_sent_to_existing_connections e slot m :
  In (slot, m) (snd (send_or_buffer e)) ->
  exists uid cl, uid_of e slot = Some uid /\ find_client (y_server (e_sys e)) slot = Some cl.
Proof.
  intros H. apply in_send_or_buffer in H. destruct H as [ev [_ [_ [Hs _]]]].
  apply recipients_spec in Hs. destruct Hs as [uid [cl [Hu [Hc _]]]]. exists uid, cl; auto.
Qed.

(* ---------- 8. server receive ---------- *)

Theorem server_receive_conservation e :
  Permutation (snd (server_receive e)) (e_inbox e) /\
  e_inbox (fst (server_receive e)) = [] /\
  (forall t, filter (fun m => cety_eqb (cev_ty (snd m)) t) (snd (server_receive e))
             = filter (fun m => cety_eqb (cev_ty (snd m)) t) (e_inbox e)).
Proof.
  split; [|split; [reflexivity|]].
  - cbn [server_receive snd].
    apply (classify_perm (fun m : N * cev => cev_ty (snd m)) cety_eqb cety_eqb_eq).
    + repeat constructor; cbv; intuition discriminate.
    + intros [s [[] sq en]] _; cbv; tauto.
  - intros t. cbn [server_receive snd flat_map]. rewrite !filter_app. cbn [filter]. rewrite app_nil_r.
    assert (Hf : forall t', filter (fun m : N * cev => cety_eqb (cev_ty (snd m)) t)
                   (filter (fun m => cety_eqb (cev_ty (snd m)) t') (e_inbox e))
                 = if cety_eqb t' t then filter (fun m => cety_eqb (cev_ty (snd m)) t) (e_inbox e) else []).
    { intros t'. destruct (cety_eqb t' t) eqn:E.
      - apply cety_eqb_eq in E. subst t'. apply filter_all_true.
        intros x Hx. apply filter_In in Hx. tauto.
      - apply filter_all_false. intros x Hx. apply filter_In in Hx. destruct Hx as [_ Hx].
        apply cety_eqb_eq in Hx. rewrite Hx. exact E. }
    rewrite !Hf. destruct t; cbv [cety_eqb cety_code N.eqb Pos.eqb]; cbn [app]; rewrite ?app_nil_r; reflexivity.
Qed.

Lemma server_receive_other e :
  let e' := fst (server_receive e) in
  e_sys e' = e_sys e /\ e_uids e' = e_uids e /\ e_next_uid e' = e_next_uid e /\ e_emitted e' = e_emitted e /\
  e_buffer e' = e_buffer e /\ e_clients e' = e_clients e /\ e_s2c e' = e_s2c e /\ e_c2s e' = e_c2s e.
Proof. cbn. repeat split; reflexivity. Qed.

Theorem deliver_c2s_tags_sender e slot ty w e' o :
  syse_step e (EDeliverC2S slot ty w) = Ok (e', o) ->
  exists picked rest,
    take_typed (fun m => cety_eqb (cev_ty m) ty) w (chan_c2s e slot) = (picked, rest) /\
    chan_c2s e' slot = rest /\
    (forall s, s <> slot -> chan_c2s e' s = chan_c2s e s) /\
    e_inbox e' = (if sv_running (y_server (e_sys e)) &&
                     match find_client (y_server (e_sys e)) slot with Some _ => true | None => false end
                  then e_inbox e ++ map (fun m => (slot, m)) picked else e_inbox e).
Proof.
  unfold syse_step, chan_c2s. 
  change (match al_get slot (e_c2s e) with Some l => l | None => [] end) with (opt_list (al_get slot (e_c2s e))).
  destruct (take_typed (fun m => cety_eqb (cev_ty m) ty) w (opt_list (al_get slot (e_c2s e)))) as [picked rest] eqn:Ht.
  intros H. injection H as <- <-. exists picked, rest. cbn [e_c2s e_inbox e_sys].
  split; [reflexivity|]. split; [rewrite al_get_insert_same; reflexivity|]. split; [|reflexivity].
  intros s Hne. rewrite al_get_insert_other; auto.
Qed.

(* ---------- 9. client send ---------- *)

Lemma client_send_eq c ce : client_send c ce = flat_map (send_one c) (client_emitted_in_order ce).
Proof.
  unfold client_send, client_emitted_in_order. rewrite flat_map_flat_map.
  apply flat_map_ext. intros t.
  rewrite <- (flat_map_if_filter (fun ev => cety_eqb (cev_ty ev) t) (send_one c)). reflexivity.
Qed.

Lemma client_emitted_in_order_perm ce : Permutation (client_emitted_in_order ce) (ce_emitted ce).
Proof.
  unfold client_emitted_in_order. apply (classify_perm cev_ty cety_eqb cety_eqb_eq).
  - apply cety_all_nodup.
  - intros x _. apply cety_all_complete.
Qed.

Lemma send_one_length c ev : (length (send_one c ev) <= 1)%nat.
Proof.
  unfold send_one. destruct (cev_ent ev); [|cbn; lia].
  destruct (al_get _ (cl_s2c c)); [|cbn; lia]. destruct (al_get _ (cl_c2s c)); cbn; lia.
Qed.

Lemma send_one_no_entity c ev : cev_ent ev = None -> send_one c ev = [ev].
Proof. unfold send_one. intros ->. reflexivity. Qed.

Lemma send_one_entity c ev se :
  cev_ent ev = Some se ->
  (forall cid s, al_get se (cl_s2c c) = Some cid -> al_get cid (cl_c2s c) = Some s ->
                 send_one c ev = [mkCev (cev_ty ev) (cev_seq ev) (Some s)]) /\
  ((al_get se (cl_s2c c) = None \/ exists cid, al_get se (cl_s2c c) = Some cid /\ al_get cid (cl_c2s c) = None) ->
   send_one c ev = []).
Proof.
  unfold send_one. intros ->. split.
  - intros cid s -> ->. reflexivity.
  - intros [-> | [cid [-> ->]]]; reflexivity.
Qed.

Lemma send_one_consistent c ev se :
  maps_consistent c -> cev_ent ev = Some se ->
  send_one c ev = match al_get se (cl_s2c c) with Some _ => [ev] | None => [] end.
Proof.
  intros Hc He. unfold send_one. rewrite He. destruct (al_get se (cl_s2c c)) as [cid|] eqn:E; [|reflexivity].
  rewrite (Hc _ _ E). destruct ev as [ty sq en]. cbn in He |- *. rewrite He. reflexivity.
Qed.

Theorem client_send_maps_or_drops c ce :
  Permutation (client_send c ce) (flat_map (send_one c) (ce_emitted ce)) /\
  (forall ev, (length (send_one c ev) <= 1)%nat) /\
  (forall ev, cev_ent ev = None -> send_one c ev = [ev]) /\
  (forall ev se, cev_ent ev = Some se ->
     (forall cid s, al_get se (cl_s2c c) = Some cid -> al_get cid (cl_c2s c) = Some s ->
                    send_one c ev = [mkCev (cev_ty ev) (cev_seq ev) (Some s)]) /\
     ((al_get se (cl_s2c c) = None \/ exists cid, al_get se (cl_s2c c) = Some cid /\ al_get cid (cl_c2s c) = None) ->
      send_one c ev = [])) /\
  (maps_consistent c -> forall ev se, cev_ent ev = Some se ->
     send_one c ev = match al_get se (cl_s2c c) with Some _ => [ev] | None => [] end).
Proof.
  split; [|split; [apply send_one_length|split; [apply send_one_no_entity|split; [apply send_one_entity|]]]].
  - rewrite client_send_eq. apply Permutation_flat_map, client_emitted_in_order_perm.
  - intros Hc ev se. apply send_one_consistent, Hc.
Qed.

(* ---------- 10. channels ---------- *)

Lemma take_typed_unfold {A} (is_ty : A -> bool) w q :
  take_typed is_ty w q =
  (fst (take w (filter is_ty q)),
   match w with
   | All => filter (fun x => negb (is_ty x)) q
   | First => remove_first is_ty q false
   | Last => rev (remove_first is_ty (rev q) false)
   end).
Proof. unfold take_typed. destruct (take w (filter is_ty q)) as [picked r]. destruct w; reflexivity. Qed.

Lemma remove_first_done {A} (is_ty : A -> bool) l : remove_first is_ty l true = l.
Proof.
  induction l as [|x l IH]; [reflexivity|]. cbn [remove_first negb]. rewrite andb_false_r, IH. reflexivity.
Qed.

Lemma remove_first_spec {A} (is_ty : A -> bool) q :
  (filter is_ty q = [] /\ remove_first is_ty q false = q) \/
  (exists l1 x l2, q = l1 ++ x :: l2 /\ filter is_ty l1 = [] /\ is_ty x = true /\
                   remove_first is_ty q false = l1 ++ l2).
Proof.
  induction q as [|y q IH]; [left; split; reflexivity|].
  cbn [remove_first filter negb]. rewrite andb_true_r. destruct (is_ty y) eqn:E.
  - right. exists [], y, q. rewrite remove_first_done. cbn [app filter]. auto.
  - destruct IH as [[Hf Hr] | [l1 [x [l2 [-> [Hf [Hx Hr]]]]]]].
    + left. rewrite Hr. auto.
    + right. exists (y :: l1), x, l2. cbn [app filter]. rewrite E, Hr. auto.
Qed.

Theorem take_typed_first {A} (is_ty : A -> bool) q picked rest :
  take_typed is_ty First q = (picked, rest) ->
  (picked = [] /\ rest = q /\ filter is_ty q = []) \/
  (exists l1 x l2, q = l1 ++ x :: l2 /\ filter is_ty l1 = [] /\ is_ty x = true /\ picked = [x] /\ rest = l1 ++ l2).
Proof.
  rewrite take_typed_unfold. intros H. injection H as <- <-.
  destruct (remove_first_spec is_ty q) as [[Hf Hr] | [l1 [x [l2 [-> [Hf [Hx Hr]]]]]]].
  - left. rewrite Hf, Hr. auto.
  - right. exists l1, x, l2. rewrite Hr, filter_app, Hf. cbn [app filter]. rewrite Hx. cbn [take fst]. auto.
Qed.

Theorem take_typed_all {A} (is_ty : A -> bool) q picked rest :
  take_typed is_ty All q = (picked, rest) ->
  picked = filter is_ty q /\ rest = filter (fun x => negb (is_ty x)) q.
Proof. rewrite take_typed_unfold. intros H. injection H as <- <-. auto. Qed.

(* in-order deliveries: the picked elements are a prefix of the type's stream, everything else keeps its order *)
Theorem channel_fifo {A} (is_ty : A -> bool) w q picked rest :
  w <> Last -> take_typed is_ty w q = (picked, rest) ->
  filter is_ty q = picked ++ filter is_ty rest /\
  (forall p : A -> bool, (forall x, is_ty x = true -> p x = false) -> filter p rest = filter p q).
Proof.
  intros Hw H. destruct w; [|congruence|].
  - apply take_typed_first in H.
    destruct H as [[-> [-> Hf]] | [l1 [x [l2 [-> [Hf [Hx [-> ->]]]]]]]].
    + split; [reflexivity|]. reflexivity.
    + split.
      * rewrite !filter_app, Hf. cbn [filter app]. rewrite Hx. reflexivity.
      * intros p Hp. rewrite !filter_app. cbn [filter]. rewrite (Hp x Hx). reflexivity.
  - apply take_typed_all in H. destruct H as [-> ->]. split.
    + rewrite (filter_all_false is_ty (filter (fun x => negb (is_ty x)) q)), app_nil_r; [reflexivity|].
      intros x Hx. apply filter_In in Hx. destruct Hx as [_ Hx]. destruct (is_ty x); [discriminate|reflexivity].
    + intros p Hp. rewrite filter_filter_comm. apply filter_all_true.
      intros x Hx. apply filter_In in Hx. destruct Hx as [_ Hx].
      destruct (is_ty x) eqn:E; [rewrite (Hp x E) in Hx; discriminate|reflexivity].
Qed.

Lemma take_typed_picked {A} (is_ty : A -> bool) w q picked rest :
  take_typed is_ty w q = (picked, rest) -> forall x, In x picked -> In x q /\ is_ty x = true.
Proof.
  rewrite take_typed_unfold. intros H. injection H as <- _. intros x Hx.
  assert (Hin : In x (filter is_ty q)).
  { destruct w; cbn [take fst] in Hx.
    - destruct (filter is_ty q) as [|y t]; [destruct Hx|]. destruct Hx as [-> | []]. left; reflexivity.
    - destruct (rev (filter is_ty q)) as [|y t] eqn:E; [destruct Hx|]. destruct Hx as [-> | []].
      apply in_rev. rewrite E. left; reflexivity.
    - exact Hx. }
  apply filter_In in Hin. exact Hin.
Qed.

(* ================= client side ================= *)

Lemma deliverable_some c m d :
  deliverable c m = Some d ->
  d = (sm_ty m, sm_seq m, sm_ent m) /\ (forall se, sm_ent m = Some se -> al_get se (cl_s2c c) <> None).
Proof.
  unfold deliverable. destruct (sm_ent m) as [se|] eqn:E.
  - destruct (al_get se (cl_s2c c)) eqn:G; [|discriminate]. intros H; injection H as <-.
    split; [reflexivity|]. intros se' H. injection H as <-. congruence.
  - intros H; injection H as <-. split; [reflexivity|]. discriminate.
Qed.

Lemma deliverable_none c m :
  deliverable c m = None <-> exists se, sm_ent m = Some se /\ al_get se (cl_s2c c) = None.
Proof.
  unfold deliverable. destruct (sm_ent m) as [se|].
  - destruct (al_get se (cl_s2c c)) eqn:G; split.
    + discriminate.
    + intros [se' [H1 H2]]. injection H1 as <-. congruence.
    + intros _. exists se; auto.
    + reflexivity.
  - split; [discriminate|]. intros [se [H _]]; discriminate.
Qed.

Lemma insert_by_tick_perm x l : Permutation (insert_by_tick x l) (x :: l).
Proof.
  induction l as [|y l IH]; cbn [insert_by_tick]; [apply Permutation_refl|].
  destruct (tick_ltb _ _); [apply Permutation_refl|].
  eapply Permutation_trans; [apply perm_skip, IH|apply perm_swap].
Qed.

Lemma insert_all_perm {A} (f : A -> sety * N * smsg) l : forall q0,
  Permutation (fold_left (fun q m => insert_by_tick (f m) q) l q0) (q0 ++ map f l).
Proof.
  induction l as [|m l IH]; intros q0; cbn [fold_left map].
  - rewrite app_nil_r. apply Permutation_refl.
  - eapply Permutation_trans; [apply IH|].
    eapply Permutation_trans; [apply Permutation_app_tail, insert_by_tick_perm|].
    cbn [app]. apply Permutation_middle.
Qed.

Lemma receive_fold t upd arrived : forall q0 n0,
  fold_left (fun (acc : list (sety * N * smsg) * list smsg) m =>
               let '(queue, now) := acc in
               match sm_tick m with
               | Some tk => if tick_gtb tk upd then (insert_by_tick (t, tk, m) queue, now) else (queue, now ++ [m])
               | None => (queue, now ++ [m])
               end) arrived (q0, n0)
  = (fold_left (fun q m => insert_by_tick (qentry t m) q) (filter (held upd) arrived) q0,
     n0 ++ filter (fun m => negb (held upd m)) arrived).
Proof.
  induction arrived as [|m l IH]; intros q0 n0; cbn [fold_left filter].
  - rewrite app_nil_r. reflexivity.
  - destruct (sm_tick m) as [tk|] eqn:Etk.
    + assert (Hh : held upd m = tick_gtb tk upd) by (unfold held; rewrite Etk; reflexivity).
      assert (Hq : qentry t m = (t, tk, m)) by (unfold qentry; rewrite Etk; reflexivity).
      rewrite Hh. destruct (tick_gtb tk upd); cbn [negb fold_left]; rewrite IH, ?Hq; [reflexivity|].
      rewrite <- app_assoc. reflexivity.
    + assert (Hh : held upd m = false) by (unfold held; rewrite Etk; reflexivity).
      rewrite Hh. cbn [negb]. rewrite IH, <- app_assoc. reflexivity.
Qed.

Lemma client_receive_type_eq c ce t :
  client_receive_type c ce t =
  (mkCE (queue_after c ce t) (filter (fun m => negb (sety_eqb (sm_ty m) t)) (ce_inbox ce)) (ce_emitted ce),
   omap (deliverable c) (now_msgs c ce t)).
Proof.
  unfold client_receive_type. cbv zeta. rewrite receive_fold, omap_fold_right. reflexivity.
Qed.

Lemma map_snd_qentry t l : map snd (map (qentry t) l) = l.
Proof. induction l as [|m l IH]; [reflexivity|]. cbn [map]. rewrite IH. reflexivity. Qed.

Lemma queue_after_perm c ce t :
  Permutation (queue_after c ce t)
    (filter (fun q => negb (q_ready (cl_upd_tick c) t q)) (ce_queue ce)
     ++ map (qentry t) (filter (held (cl_upd_tick c)) (filter (fun m => sety_eqb (sm_ty m) t) (ce_inbox ce)))).
Proof. apply insert_all_perm. Qed.

(* ---------- 11. conservation: nothing is duplicated, nothing disappears silently ---------- *)

Theorem client_receive_type_conservation c ce t ce' got :
  client_receive_type c ce t = (ce', got) ->
  got = omap (deliverable c) (now_msgs c ce t) /\
  Permutation (map snd (ce_queue ce) ++ ce_inbox ce) (now_msgs c ce t ++ map snd (ce_queue ce') ++ ce_inbox ce') /\
  ce_emitted ce' = ce_emitted ce.
Proof.
  rewrite client_receive_type_eq. intros H. injection H as <- <-. split; [reflexivity|]. split; [|reflexivity].
  cbn [ce_queue ce_inbox]. unfold now_msgs.
  set (upd := cl_upd_tick c).
  set (R := map snd (filter (q_ready upd t) (ce_queue ce))).
  set (A := filter (fun m => sety_eqb (sm_ty m) t) (ce_inbox ce)).
  set (O := filter (fun m => negb (sety_eqb (sm_ty m) t)) (ce_inbox ce)).
  set (U := filter (fun m => negb (held upd m)) A).
  set (K := filter (fun q => negb (q_ready upd t q)) (ce_queue ce)).
  assert (HQ : Permutation (map snd (ce_queue ce)) (R ++ map snd K)).
  { unfold R, K. rewrite <- map_app. apply Permutation_map, Permutation_sym, filter_split_perm. }
  assert (HI : Permutation (ce_inbox ce) ((filter (held upd) A ++ U) ++ O)).
  { eapply Permutation_trans; [apply Permutation_sym, (filter_split_perm (fun m => sety_eqb (sm_ty m) t))|].
    apply Permutation_app_tail. apply Permutation_sym, filter_split_perm. }
  assert (HQ' : Permutation (map snd (queue_after c ce t)) (map snd K ++ filter (held upd) A)).
  { eapply Permutation_trans; [apply Permutation_map, queue_after_perm|].
    rewrite map_app, map_snd_qentry. apply Permutation_refl. }
  eapply Permutation_trans; [apply Permutation_app; [exact HQ|exact HI]|].
  eapply Permutation_trans; [|apply Permutation_app_head, Permutation_app_tail, Permutation_sym, HQ'].
  rewrite <- !app_assoc. apply Permutation_app_head.
  rewrite (app_assoc (map snd K) _ (U ++ O)), (app_assoc (map snd K) _ O). apply Permutation_app_swap_app.
Qed.

Lemma in_now_msgs c ce t m :
  In m (now_msgs c ce t) <->
  (exists q, In q (ce_queue ce) /\ snd q = m /\ fst (fst q) = t /\ tick_gtb (qkey q) (cl_upd_tick c) = false) \/
  (In m (ce_inbox ce) /\ sm_ty m = t /\ held (cl_upd_tick c) m = false).
Proof.
  unfold now_msgs. rewrite in_app_iff, in_map_iff. split.
  - intros [[q [E Hq]] | H].
    + left. exists q. apply filter_In in Hq. destruct Hq as [Hq Hr]. unfold q_ready in Hr.
      apply andb_prop in Hr. destruct Hr as [Ht Hg]. apply sety_eqb_eq in Ht.
      unfold qkey. destruct (tick_gtb _ _); [discriminate|]. auto.
    + right. apply filter_In in H. destruct H as [H Hh]. apply filter_In in H. destruct H as [H Ht].
      apply sety_eqb_eq in Ht. destruct (held _ m); [discriminate|]. auto.
  - intros [[q [Hq [E [Ht Hg]]]] | [H [Ht Hh]]].
    + left. exists q. split; [exact E|]. apply filter_In. split; [exact Hq|]. unfold q_ready.
      unfold qkey in Hg. rewrite Hg. rewrite Ht, sety_eqb_refl. reflexivity.
    + right. apply filter_In. split; [|rewrite Hh; reflexivity]. apply filter_In. split; [exact H|].
      apply sety_eqb_eq. exact Ht.
Qed.

Lemma in_queue_after c ce t q :
  In q (queue_after c ce t) <->
  (In q (ce_queue ce) /\ (fst (fst q) <> t \/ tick_gtb (qkey q) (cl_upd_tick c) = true)) \/
  (exists m tk, q = (t, tk, m) /\ In m (ce_inbox ce) /\ sm_ty m = t /\ sm_tick m = Some tk /\
                tick_gtb tk (cl_upd_tick c) = true).
Proof.
  assert (Hheld : forall m, held (cl_upd_tick c) m = true <-> exists tk, sm_tick m = Some tk /\ tick_gtb tk (cl_upd_tick c) = true).
  { intros m. unfold held. destruct (sm_tick m) as [tk|]; split.
    - intros H; exists tk; auto.
    - intros [tk' [E H]]. injection E as ->. exact H.
    - discriminate.
    - intros [tk' [E _]]; discriminate. }
  split.
  - intros H. apply (Permutation_in _ (queue_after_perm c ce t)) in H. apply in_app_or in H.
    destruct H as [H | H].
    + left. apply filter_In in H. destruct H as [H Hr]. split; [exact H|]. unfold q_ready, qkey in *.
      destruct (sety_eqb (fst (fst q)) t) eqn:E.
      * right. destruct (tick_gtb _ _); [reflexivity|discriminate].
      * left. apply sety_eqb_neq. exact E.
    + right. apply in_map_iff in H. destruct H as [m [<- H]]. apply filter_In in H. destruct H as [H Hh].
      apply filter_In in H. destruct H as [H Ht]. apply sety_eqb_eq in Ht.
      apply Hheld in Hh. destruct Hh as [tk [Etk Hg]]. exists m, tk. unfold qentry. rewrite Etk. auto.
  - intros H. apply (Permutation_in _ (Permutation_sym (queue_after_perm c ce t))). apply in_or_app.
    destruct H as [[H Hc] | [m [tk [-> [H [Ht [Etk Hg]]]]]]].
    + left. apply filter_In. split; [exact H|]. unfold q_ready, qkey in *. destruct Hc as [Hc | Hc].
      * apply sety_eqb_neq in Hc. rewrite Hc. reflexivity.
      * rewrite Hc. cbn [negb]. rewrite andb_false_r. reflexivity.
    + right. apply in_map_iff. exists m. split; [unfold qentry; rewrite Etk; reflexivity|].
      apply filter_In. split; [|apply Hheld; exists tk; auto]. apply filter_In. split; [exact H|].
      apply sety_eqb_eq. exact Ht.
Qed.

(* ---------- 2. a dependent event waits for its tick ---------- *)

Theorem delivered_only_when_tick_applied c ce t ce' got :
  client_receive_type c ce t = (ce', got) ->
  forall d, In d got ->
  exists m, deliverable c m = Some d /\
    ((exists q, In q (ce_queue ce) /\ snd q = m /\ fst (fst q) = t /\ tick_gtb (qkey q) (cl_upd_tick c) = false) \/
     (In m (ce_inbox ce) /\ sm_ty m = t /\
      (sm_tick m = None \/ exists tk, sm_tick m = Some tk /\ tick_gtb tk (cl_upd_tick c) = false))).
Proof.
  rewrite client_receive_type_eq. intros H. injection H as <- <-. intros d Hd.
  apply in_omap in Hd. destruct Hd as [m [Hm Hd]]. exists m. split; [exact Hd|].
  apply in_now_msgs in Hm. destruct Hm as [Hq | [Hi [Ht Hh]]]; [left; exact Hq|right].
  split; [exact Hi|]. split; [exact Ht|]. unfold held in Hh. destruct (sm_tick m) as [tk|]; [right; exists tk|left]; auto.
Qed.

Theorem withheld_not_lost c ce t ce' got :
  client_receive_type c ce t = (ce', got) ->
  (forall m tk, In m (ce_inbox ce) -> sm_ty m = t -> sm_tick m = Some tk -> tick_gtb tk (cl_upd_tick c) = true ->
                In (t, tk, m) (ce_queue ce')) /\
  (forall q, In q (ce_queue ce) -> fst (fst q) <> t \/ tick_gtb (qkey q) (cl_upd_tick c) = true -> In q (ce_queue ce')) /\
  (forall q, In q (ce_queue ce') ->
     In q (ce_queue ce) \/
     exists m tk, q = (t, tk, m) /\ In m (ce_inbox ce) /\ sm_ty m = t /\ sm_tick m = Some tk /\
                  tick_gtb tk (cl_upd_tick c) = true) /\
  ce_inbox ce' = filter (fun m => negb (sety_eqb (sm_ty m) t)) (ce_inbox ce).
Proof.
  rewrite client_receive_type_eq. intros H. injection H as <- <-. cbn [ce_queue ce_inbox].
  split; [|split; [|split; [|reflexivity]]].
  - intros m tk Hi Ht Etk Hg. apply in_queue_after. right. exists m, tk. auto.
  - intros q Hq Hc. apply in_queue_after. left. auto.
  - intros q Hq. apply in_queue_after in Hq. destruct Hq as [[Hq _] | Hq]; auto.
Qed.

Lemma queue_wf_after c ce t : queue_wf (ce_queue ce) -> queue_wf (queue_after c ce t).
Proof.
  intros Hwf ty tk m Hin. apply in_queue_after in Hin.
  destruct Hin as [[Hin _] | [m' [tk' [E [_ [Ht [Etk _]]]]]]]; [apply Hwf; exact Hin|].
  injection E as -> -> ->. auto.
Qed.

(* under the queue invariant the queued tick is the message's own tick *)
Theorem delivered_only_when_tick_applied_wf c ce t ce' got :
  queue_wf (ce_queue ce) -> client_receive_type c ce t = (ce', got) ->
  forall d, In d got ->
  exists m, deliverable c m = Some d /\ sm_ty m = t /\
    ((exists tk, In (t, tk, m) (ce_queue ce)) \/ In m (ce_inbox ce)) /\
    (sm_tick m = None \/ exists tk, sm_tick m = Some tk /\ tick_gtb tk (cl_upd_tick c) = false).
Proof.
  intros Hwf H d Hd. destruct (delivered_only_when_tick_applied _ _ _ _ _ H d Hd) as [m [Hm Hsrc]].
  exists m. split; [exact Hm|]. destruct Hsrc as [[[[ty tk] m'] [Hq [E [Et Hg]]]] | [Hi [Ht Htk]]].
  - cbn [fst snd qkey] in *. subst m' ty. destruct (Hwf _ _ _ Hq) as [Hty Htk].
    split; [exact Hty|]. split; [left; exists tk; exact Hq|]. right. exists tk. auto.
  - split; [exact Ht|]. split; [right; exact Hi|exact Htk].
Qed.

(* ---------- 3. references resolve or the event is dropped ---------- *)

Theorem delivered_references_resolve c ce t ce' got :
  client_receive_type c ce t = (ce', got) ->
  (forall ty sq se, In (ty, sq, Some se) got -> al_get se (cl_s2c c) <> None) /\
  (forall m, In m (now_msgs c ce t) -> deliverable c m = None ->
     (exists se, sm_ent m = Some se /\ al_get se (cl_s2c c) = None) /\
     forall l1 l2, now_msgs c ce t = l1 ++ m :: l2 -> got = omap (deliverable c) l1 ++ omap (deliverable c) l2).
Proof.
  intros H. destruct (client_receive_type_conservation _ _ _ _ _ H) as [Hgot _]. split.
  - intros ty sq se Hd. rewrite Hgot in Hd. apply in_omap in Hd. destruct Hd as [m [_ Hm]].
    apply deliverable_some in Hm. destruct Hm as [E Hres]. injection E as -> -> E. apply Hres. auto.
  - intros m _ Hn. split; [apply deliverable_none; exact Hn|].
    intros l1 l2 E. rewrite Hgot, E, omap_app. cbn [omap]. rewrite Hn. reflexivity.
Qed.

(* ---------- client_receive: all types of one frame ---------- *)

Lemma client_receive_fold c ts : forall ce g0,
  fold_left (fun (acc : cevents * list (sety * N * option N)) t =>
               let '(ce, got) := acc in
               let '(ce', g) := client_receive_type c ce t in
               (ce', got ++ g)) ts (ce, g0)
  = (fst (client_receive_types c ce ts), g0 ++ snd (client_receive_types c ce ts)).
Proof.
  induction ts as [|t ts IH]; intros ce g0; cbn [fold_left client_receive_types].
  - cbn [fst snd]. rewrite app_nil_r. reflexivity.
  - destruct (client_receive_type c ce t) as [ce1 g1]. rewrite IH.
    destruct (client_receive_types c ce1 ts) as [ce2 g2]. cbn [fst snd]. rewrite app_assoc. reflexivity.
Qed.

Lemma client_receive_eq c ce : client_receive c ce = client_receive_types c ce [ST; SE0; SEI; SEM; SEU].
Proof.
  unfold client_receive. rewrite client_receive_fold. cbn [app].
  destruct (client_receive_types c ce [ST; SE0; SEI; SEM; SEU]); reflexivity.
Qed.

Lemma receive_types_conservation c ts : forall ce ce' got,
  client_receive_types c ce ts = (ce', got) ->
  exists now, got = omap (deliverable c) now /\
    Permutation (map snd (ce_queue ce) ++ ce_inbox ce) (now ++ map snd (ce_queue ce') ++ ce_inbox ce') /\
    ce_emitted ce' = ce_emitted ce.
Proof.
  induction ts as [|t ts IH]; intros ce ce' got H; cbn [client_receive_types] in H.
  - injection H as <- <-. exists []. split; [reflexivity|]. split; [apply Permutation_refl|reflexivity].
  - destruct (client_receive_type c ce t) as [ce1 g1] eqn:H1.
    destruct (client_receive_types c ce1 ts) as [ce2 g2] eqn:H2. injection H as <- <-.
    destruct (client_receive_type_conservation _ _ _ _ _ H1) as [Hg1 [HP1 He1]].
    destruct (IH _ _ _ H2) as [now2 [Hg2 [HP2 He2]]].
    exists (now_msgs c ce t ++ now2). split; [rewrite omap_app; congruence|]. split; [|congruence].
    eapply Permutation_trans; [exact HP1|]. rewrite <- app_assoc. apply Permutation_app_head. exact HP2.
Qed.

Lemma receive_types_delivered c ts : NoDup ts -> forall ce ce' got,
  client_receive_types c ce ts = (ce', got) ->
  forall d, In d got ->
  exists m, deliverable c m = Some d /\
    ((exists q, In q (ce_queue ce) /\ snd q = m /\ In (fst (fst q)) ts /\ tick_gtb (qkey q) (cl_upd_tick c) = false) \/
     (In m (ce_inbox ce) /\ In (sm_ty m) ts /\ held (cl_upd_tick c) m = false)).
Proof.
  induction 1 as [|t ts Hnin Hnd IH]; intros ce ce' got H d Hd; cbn [client_receive_types] in H.
  - injection H as <- <-. destruct Hd.
  - destruct (client_receive_type c ce t) as [ce1 g1] eqn:H1.
    destruct (client_receive_types c ce1 ts) as [ce2 g2] eqn:H2. injection H as <- <-.
    apply in_app_or in Hd. destruct Hd as [Hd | Hd].
    + pose proof H1 as H1'. rewrite client_receive_type_eq in H1'. injection H1' as _ Hg. rewrite <- Hg in Hd.
      apply in_omap in Hd. destruct Hd as [m [Hm Hd]]. apply in_now_msgs in Hm.
      exists m. split; [exact Hd|].
      destruct Hm as [[q [Hq [E [Ht Hg']]]] | [Hi [Ht Hh]]].
      * left. exists q. repeat split; auto. left; auto.
      * right. repeat split; auto. left; auto.
    + destruct (IH _ _ _ H2 d Hd) as [m [Hm Hsrc]]. exists m. split; [exact Hm|].
      destruct (withheld_not_lost _ _ _ _ _ H1) as [_ [_ [Hback Hinb]]].
      destruct Hsrc as [[q [Hq [E [Ht Hg]]]] | [Hi [Ht Hh]]].
      * left. exists q. destruct (Hback q Hq) as [Hq0 | [m' [tk [-> _]]]].
        -- repeat split; auto. right; exact Ht.
        -- cbn [fst] in Ht. contradiction.
      * right. rewrite Hinb in Hi. apply filter_In in Hi. destruct Hi as [Hi _].
        repeat split; auto. right; exact Ht.
Qed.

Lemma receive_types_queue_kept c ts : forall ce q,
  In q (ce_queue ce) -> tick_gtb (qkey q) (cl_upd_tick c) = true ->
  In q (ce_queue (fst (client_receive_types c ce ts))).
Proof.
  induction ts as [|t ts IH]; intros ce q Hq Hg; cbn [client_receive_types]; [exact Hq|].
  destruct (client_receive_type c ce t) as [ce1 g1] eqn:H1.
  specialize (IH ce1 q). destruct (client_receive_types c ce1 ts) as [ce2 g2]. cbn [fst] in *.
  apply IH; [|exact Hg]. destruct (withheld_not_lost _ _ _ _ _ H1) as [_ [Hk _]]. apply Hk; auto.
Qed.

Lemma receive_types_withheld c ts : forall ce m tk,
  In m (ce_inbox ce) -> In (sm_ty m) ts -> sm_tick m = Some tk -> tick_gtb tk (cl_upd_tick c) = true ->
  In (sm_ty m, tk, m) (ce_queue (fst (client_receive_types c ce ts))).
Proof.
  induction ts as [|t ts IH]; intros ce m tk Hi Ht Etk Hg; [destruct Ht|]. cbn [client_receive_types].
  destruct (client_receive_type c ce t) as [ce1 g1] eqn:H1.
  pose proof (receive_types_queue_kept c ts ce1 (sm_ty m, tk, m)) as Hkept.
  specialize (IH ce1 m tk). destruct (client_receive_types c ce1 ts) as [ce2 g2]. cbn [fst] in *.
  destruct (withheld_not_lost _ _ _ _ _ H1) as [Hw [_ [_ Hinb]]].
  destruct (sety_eqb (sm_ty m) t) eqn:E.
  - apply sety_eqb_eq in E. apply Hkept; [|exact Hg]. rewrite E. apply Hw; auto.
  - apply IH; auto.
    + rewrite Hinb. apply filter_In. split; [exact Hi|]. rewrite E. reflexivity.
    + destruct Ht as [Ht | Ht]; [|exact Ht]. subst t. rewrite sety_eqb_refl in E. discriminate.
Qed.

Lemma receive_types_inbox c ts : forall ce,
  ce_inbox (fst (client_receive_types c ce ts)) = filter (fun m => negb (existsb (sety_eqb (sm_ty m)) ts)) (ce_inbox ce).
Proof.
  induction ts as [|t ts IH]; intros ce; cbn [client_receive_types existsb].
  - cbn [fst negb]. symmetry. apply filter_all_true. reflexivity.
  - destruct (client_receive_type c ce t) as [ce1 g1] eqn:H1. specialize (IH ce1).
    destruct (client_receive_types c ce1 ts) as [ce2 g2]. cbn [fst] in *. rewrite IH.
    destruct (withheld_not_lost _ _ _ _ _ H1) as [_ [_ [_ ->]]].
    rewrite filter_filter_comm.
    assert (Hff : forall (p q : smsg -> bool) l, filter p (filter q l) = filter (fun x => q x && p x) l).
    { intros p q l. induction l as [|x l IHl]; [reflexivity|]. cbn [filter]. destruct (q x); cbn [filter andb]; rewrite IHl; reflexivity. }
    rewrite filter_filter_comm, Hff. apply filter_ext. intros m. rewrite negb_orb. reflexivity.
Qed.

Lemma receive_types_queue_wf c ts : forall ce,
  queue_wf (ce_queue ce) -> queue_wf (ce_queue (fst (client_receive_types c ce ts))).
Proof.
  induction ts as [|t ts IH]; intros ce Hwf; cbn [client_receive_types]; [exact Hwf|].
  destruct (client_receive_type c ce t) as [ce1 g1] eqn:H1. specialize (IH ce1).
  destruct (client_receive_types c ce1 ts) as [ce2 g2]. cbn [fst] in *. apply IH.
  rewrite client_receive_type_eq in H1. injection H1 as <- _. cbn [ce_queue]. apply queue_wf_after, Hwf.
Qed.

(* the frame-level statements *)
Theorem client_receive_delivered c ce ce' got :
  client_receive c ce = (ce', got) ->
  forall d, In d got ->
  exists m, deliverable c m = Some d /\
    ((exists q, In q (ce_queue ce) /\ snd q = m /\ tick_gtb (qkey q) (cl_upd_tick c) = false) \/
     (In m (ce_inbox ce) /\
      (sm_tick m = None \/ exists tk, sm_tick m = Some tk /\ tick_gtb tk (cl_upd_tick c) = false))).
Proof.
  rewrite client_receive_eq. intros H d Hd.
  assert (Hnd : NoDup [ST; SE0; SEI; SEM; SEU]) by (repeat constructor; cbv; intuition discriminate).
  destruct (receive_types_delivered c _ Hnd _ _ _ H d Hd) as [m [Hm Hsrc]]. exists m. split; [exact Hm|].
  destruct Hsrc as [[q [Hq [E [_ Hg]]]] | [Hi [_ Hh]]].
  - left. exists q; auto.
  - right. split; [exact Hi|]. unfold held in Hh. destruct (sm_tick m) as [tk|]; [right; exists tk|left]; auto.
Qed.

Theorem client_receive_withheld c ce ce' got :
  client_receive c ce = (ce', got) ->
  (forall m tk, In m (ce_inbox ce) -> sm_tick m = Some tk -> tick_gtb tk (cl_upd_tick c) = true ->
                In (sm_ty m, tk, m) (ce_queue ce')) /\
  (forall q, In q (ce_queue ce) -> tick_gtb (qkey q) (cl_upd_tick c) = true -> In q (ce_queue ce')) /\
  ce_inbox ce' = [] /\
  (queue_wf (ce_queue ce) -> queue_wf (ce_queue ce')).
Proof.
  rewrite client_receive_eq. intros H.
  assert (E : ce' = fst (client_receive_types c ce [ST; SE0; SEI; SEM; SEU])) by (rewrite H; reflexivity).
  subst ce'. split; [|split; [|split]].
  - intros m tk Hi Etk Hg. apply receive_types_withheld; auto. destruct (sm_ty m); cbv; tauto.
  - intros q Hq Hg. apply receive_types_queue_kept; auto.
  - rewrite receive_types_inbox. apply filter_all_false. intros m _. destruct (sm_ty m); reflexivity.
  - apply receive_types_queue_wf.
Qed.

Theorem client_receive_conservation c ce ce' got :
  client_receive c ce = (ce', got) ->
  exists now, got = omap (deliverable c) now /\
    Permutation (map snd (ce_queue ce) ++ ce_inbox ce) (now ++ map snd (ce_queue ce')) /\
    ce_inbox ce' = [] /\ ce_emitted ce' = ce_emitted ce.
Proof.
  intros H. destruct (client_receive_withheld _ _ _ _ H) as [_ [_ [Hinb _]]].
  rewrite client_receive_eq in H. destruct (receive_types_conservation _ _ _ _ _ H) as [now [Hg [HP He]]].
  exists now. rewrite Hinb, app_nil_r in HP. auto.
Qed.

(* ---------- 4. tick order of the queue ---------- *)

Lemma insert_by_tick_split x l :
  exists l1 l2, l = l1 ++ l2 /\ insert_by_tick x l = l1 ++ x :: l2 /\
    Forall (fun y => tick_ltb (qkey x) (qkey y) = false) l1 /\
    match l2 with [] => True | y :: _ => tick_ltb (qkey x) (qkey y) = true end.
Proof.
  induction l as [|y l IH]; cbn [insert_by_tick].
  - exists [], []. repeat split; auto.
  - fold (qkey x). fold (qkey y). destruct (tick_ltb (qkey x) (qkey y)) eqn:E.
    + exists [], (y :: l). repeat split; auto.
    + destruct IH as [l1 [l2 [-> [-> [Hf Hh]]]]]. exists (y :: l1), l2. repeat split; auto.
Qed.

Lemma window_ltb base a b :
  in_window base a -> in_window base b ->
  exists za zb, (base <= za < base + 2 ^ 31)%Z /\ (base <= zb < base + 2 ^ 31)%Z /\
                tick_ltb a b = (za <? zb)%Z /\ tick_ltb b a = (zb <? za)%Z.
Proof.
  intros [za [-> Ha]] [zb [-> Hb]]. exists za, zb. rewrite Zpow31 in *.
  repeat split; try lia; apply tick_ltb_spec; rewrite Zpow31; lia.
Qed.

Lemma window_asym base a b : in_window base a -> in_window base b -> tick_ltb a b = true -> tick_ltb b a = false.
Proof.
  intros Ha Hb. destruct (window_ltb base a b Ha Hb) as [za [zb [_ [_ [-> ->]]]]]. lia.
Qed.

Lemma window_trans base a b x :
  in_window base a -> in_window base b -> in_window base x ->
  tick_ltb x a = true -> tick_ltb b a = false -> tick_ltb b x = false.
Proof.
  intros [za [-> Ha]] [zb [-> Hb]] [zx [-> Hx]]. rewrite Zpow31 in *.
  rewrite !tick_ltb_spec by (rewrite Zpow31; lia). lia.
Qed.

Theorem insert_by_tick_sorted base x l :
  Forall (fun q => in_window base (qkey q)) (x :: l) ->
  StronglySorted q_le l -> StronglySorted q_le (insert_by_tick x l).
Proof.
  intros Hw. apply Forall_cons_iff in Hw. destruct Hw as [Hx Hw].
  induction l as [|y l IH]; intros Hs; cbn [insert_by_tick].
  - constructor; constructor.
  - apply Forall_cons_iff in Hw. destruct Hw as [Hy Hw]. apply StronglySorted_inv in Hs. destruct Hs as [Hs Hall].
    fold (qkey x). fold (qkey y). destruct (tick_ltb (qkey x) (qkey y)) eqn:E.
    + constructor; [constructor; assumption|]. constructor.
      * unfold q_le. eapply window_asym; eassumption.
      * rewrite Forall_forall in *. intros z Hz. unfold q_le.
        eapply (window_trans base (qkey y) (qkey z) (qkey x)); auto. apply Hall; exact Hz.
    + constructor; [apply IH; assumption|].
      rewrite Forall_forall in *. intros z Hz.
      apply (Permutation_in _ (insert_by_tick_perm x l)) in Hz. destruct Hz as [<- | Hz]; [exact E|auto].
Qed.

Lemma StronglySorted_filter {A} (R : A -> A -> Prop) (p : A -> bool) l :
  StronglySorted R l -> StronglySorted R (filter p l).
Proof.
  induction 1 as [|x l Hs IH Hall]; cbn [filter]; [constructor|].
  destruct (p x); [|exact IH]. constructor; [exact IH|].
  rewrite Forall_forall in *. intros y Hy. apply filter_In in Hy. apply Hall. tauto.
Qed.

Theorem queue_sorted base c ce t ce' got :
  client_receive_type c ce t = (ce', got) ->
  Forall (fun q => in_window base (qkey q)) (ce_queue ce) ->
  (forall m tk, In m (ce_inbox ce) -> sm_tick m = Some tk -> in_window base tk) ->
  StronglySorted q_le (ce_queue ce) ->
  StronglySorted q_le (ce_queue ce') /\
  Forall (fun q => in_window base (qkey q)) (ce_queue ce') /\
  (* what is taken from the queue comes out in tick order, before the new arrivals *)
  StronglySorted q_le (filter (q_ready (cl_upd_tick c) t) (ce_queue ce)) /\
  exists rest, now_msgs c ce t = map snd (filter (q_ready (cl_upd_tick c) t) (ce_queue ce)) ++ rest.
Proof.
  rewrite client_receive_type_eq. intros H Hwq Hwi Hs. injection H as <- _. cbn [ce_queue].
  split; [|split; [|split; [apply StronglySorted_filter, Hs|eexists; reflexivity]]].
  - unfold queue_after.
    set (keep := filter (fun q => negb (q_ready (cl_upd_tick c) t q)) (ce_queue ce)).
    assert (Hk : StronglySorted q_le keep) by (apply StronglySorted_filter, Hs).
    assert (Hkw : Forall (fun q => in_window base (qkey q)) keep).
    { rewrite Forall_forall in *. intros q Hq. apply filter_In in Hq. apply Hwq. tauto. }
    set (arr := filter (held (cl_upd_tick c)) (filter (fun m => sety_eqb (sm_ty m) t) (ce_inbox ce))).
    assert (Ha : forall m, In m arr -> in_window base (qkey (qentry t m))).
    { intros m Hm. unfold arr in Hm. apply filter_In in Hm. destruct Hm as [Hm Hh]. apply filter_In in Hm.
      unfold held in Hh. unfold qentry, qkey. cbn [fst snd]. destruct (sm_tick m) as [tk|] eqn:E; [|discriminate].
      eapply Hwi; [apply Hm|exact E]. }
    clearbody keep arr. revert keep Hk Hkw. induction arr as [|m arr IH]; intros keep Hk Hkw; cbn [fold_left]; [exact Hk|].
    apply IH.
    + intros m' Hm'. apply Ha. right; exact Hm'.
    + apply (insert_by_tick_sorted base); [|exact Hk]. constructor; [apply Ha; left; reflexivity|exact Hkw].
    + rewrite Forall_forall in *. intros q Hq. apply (Permutation_in _ (insert_by_tick_perm _ _)) in Hq.
      destruct Hq as [<- | Hq]; [apply Ha; left; reflexivity|auto].
  - rewrite Forall_forall in *. intros q Hq. apply in_queue_after in Hq.
    destruct Hq as [[Hq _] | [m [tk [-> [Hi [_ [E _]]]]]]]; [auto|]. unfold qkey. cbn [fst snd]. eapply Hwi; eassumption.
Qed.

(* ================= steps and invariants ================= *)

Lemma filter_rev {A} (p : A -> bool) l : filter p (rev l) = rev (filter p l).
Proof.
  induction l as [|x l IH]; [reflexivity|]. cbn [rev filter]. rewrite filter_app, IH. cbn [filter].
  destruct (p x); cbn [rev]; [reflexivity|rewrite app_nil_r; reflexivity].
Qed.

(* whatever is picked, channel content = picked + rest (as multisets) *)
Lemma take_typed_perm {A} (is_ty : A -> bool) w q picked rest :
  take_typed is_ty w q = (picked, rest) -> Permutation q (picked ++ rest) /\ (length picked <= length q)%nat.
Proof.
  intros H. destruct w.
  - apply take_typed_first in H. destruct H as [[-> [-> _]] | [l1 [x [l2 [-> [_ [_ [-> ->]]]]]]]].
    + split; [apply Permutation_refl|cbn; lia].
    + split; [cbn [app]; apply Permutation_sym, Permutation_middle|rewrite app_length; cbn; lia].
  - rewrite take_typed_unfold in H. injection H as <- <-.
    destruct (remove_first_spec is_ty (rev q)) as [[Hf Hr] | [l1 [x [l2 [Hq [Hf [Hx Hr]]]]]]].
    + rewrite Hr, rev_involutive. rewrite filter_rev in Hf.
      assert (E : filter is_ty q = []) by (rewrite <- (rev_involutive (filter is_ty q)), Hf; reflexivity).
      rewrite E. cbn [take rev fst app length]. split; [apply Permutation_refl|lia].
    + rewrite Hr. assert (Eq : q = rev l2 ++ x :: rev l1).
      { rewrite <- (rev_involutive q), Hq, rev_app_distr. cbn [rev]. rewrite <- app_assoc. reflexivity. }
      assert (Ef : rev (filter is_ty q) = x :: filter is_ty l2).
      { rewrite <- filter_rev, Hq, filter_app, Hf. cbn [filter app]. rewrite Hx. reflexivity. }
      cbn [take]. rewrite Ef. cbn [fst]. rewrite rev_app_distr. split.
      * rewrite Eq. apply Permutation_sym. cbn [app]. apply Permutation_middle.
      * rewrite Eq, app_length. cbn; lia.
  - apply take_typed_all in H. destruct H as [-> ->]. split; [apply Permutation_sym, filter_split_perm|].
    induction q as [|x q IHq]; cbn [filter length]; [lia|]. destruct (is_ty x); cbn [length]; lia.
Qed.

(* ---------- EDeliverS2C ---------- *)

Theorem deliver_s2c_step e slot ty w drop e' o :
  syse_step e (EDeliverS2C slot ty w drop) = Ok (e', o) ->
  exists picked rest,
    take_typed (fun m => sety_eqb (sm_ty m) ty) w (chan_s2c e slot) = (picked, rest) /\
    chan_s2c e' slot = rest /\
    (forall s, s <> slot -> chan_s2c e' s = chan_s2c e s) /\
    (forall s, s <> slot -> al_get s (e_clients e') = al_get s (e_clients e)) /\
    (forall ce, al_get slot (e_clients e) = Some ce ->
       al_get slot (e_clients e') =
       Some (if drop || negb (client_connected e slot) then ce
             else mkCE (ce_queue ce) (ce_inbox ce ++ picked) (ce_emitted ce))) /\
    (al_get slot (e_clients e) = None -> e_clients e' = e_clients e) /\
    e_sys e' = e_sys e /\ e_uids e' = e_uids e /\ e_next_uid e' = e_next_uid e /\ e_emitted e' = e_emitted e /\
    e_buffer e' = e_buffer e /\ e_inbox e' = e_inbox e /\ e_c2s e' = e_c2s e.
Proof.
  unfold syse_step, chan_s2c, client_connected.
  change (match al_get slot (e_s2c e) with Some l => l | None => [] end) with (opt_list (al_get slot (e_s2c e))).
  destruct (take_typed (fun m => sety_eqb (sm_ty m) ty) w (opt_list (al_get slot (e_s2c e)))) as [picked rest] eqn:Ht.
  intros H. injection H as <- <-. exists picked, rest.
  cbn [e_s2c e_clients e_sys e_uids e_next_uid e_emitted e_buffer e_inbox e_c2s].
  split; [reflexivity|]. split; [rewrite al_get_insert_same; reflexivity|].
  split; [intros s Hne; rewrite al_get_insert_other; auto|].
  set (conn := match al_get slot (y_clients (e_sys e)) with
               | Some cl => match cl_status cl with Connected => true | Disconnected => false end
               | None => false end).
  split; [|split; [|split; [|repeat split; reflexivity]]].
  - intros s Hne. destruct (drop || negb conn); [reflexivity|].
    destruct (al_get slot (e_clients e)); [|reflexivity]. apply al_get_insert_other. exact Hne.
  - intros ce Hce. destruct (drop || negb conn); [exact Hce|]. rewrite Hce. apply al_get_insert_same.
  - intros Hn. destruct (drop || negb conn); [reflexivity|]. rewrite Hn. reflexivity.
Qed.

(* a legal delivery on an ordered channel keeps, for every type, the stream "inbox then channel" unchanged:
   messages are neither lost nor duplicated nor reordered on their way into the inbox *)
Theorem deliver_s2c_fifo e slot ty w drop e' o ce :
  syse_step e (EDeliverS2C slot ty w drop) = Ok (e', o) ->
  legal_estep (EDeliverS2C slot ty w drop) = true -> ty <> SEU ->
  al_get slot (e_clients e) = Some ce -> client_connected e slot = true ->
  exists ce', al_get slot (e_clients e') = Some ce' /\ ce_queue ce' = ce_queue ce /\ ce_emitted ce' = ce_emitted ce /\
    forall t, filter (fun m => sety_eqb (sm_ty m) t) (ce_inbox ce' ++ chan_s2c e' slot)
              = filter (fun m => sety_eqb (sm_ty m) t) (ce_inbox ce ++ chan_s2c e slot).
Proof.
  intros H Hl Hty Hce Hconn.
  destruct (deliver_s2c_step _ _ _ _ _ _ _ H) as [picked [rest [Ht [Hc [_ [_ [Hsl _]]]]]]].
  assert (Hd : drop = false /\ w <> Last).
  { cbn [legal_estep] in Hl. destruct ty; try congruence; apply andb_prop in Hl; destruct Hl as [Hd Hw];
      (split; [destruct drop; [discriminate|reflexivity]|intros ->; discriminate]). }
  destruct Hd as [-> Hw]. rewrite Hconn in Hsl. cbn [orb negb] in Hsl.
  eexists. split; [apply Hsl, Hce|]. cbn [ce_queue ce_emitted ce_inbox]. split; [reflexivity|]. split; [reflexivity|].
  intros t. rewrite Hc. destruct (channel_fifo _ _ _ _ _ Hw Ht) as [Hfifo Hother].
  rewrite !filter_app. rewrite <- app_assoc. f_equal.
  destruct (sety_eqb ty t) eqn:E.
  - apply sety_eqb_eq in E. subst t. rewrite Hfifo. f_equal.
    apply filter_all_true. intros m Hm. destruct (take_typed_picked _ _ _ _ _ Ht m Hm) as [_ Hm']. exact Hm'.
  - rewrite (Hother (fun m => sety_eqb (sm_ty m) t)).
    + rewrite (filter_all_false _ picked); [reflexivity|].
      intros m Hm. destruct (take_typed_picked _ _ _ _ _ Ht m Hm) as [_ Hm']. apply sety_eqb_eq in Hm'.
      rewrite Hm'. exact E.
    + intros m Hm. apply sety_eqb_eq in Hm. rewrite Hm. exact E.
Qed.

(* any delivery: a channel element moves to the inbox at most once (it leaves the channel) *)
Theorem deliver_s2c_at_most_once e slot ty w drop e' o ce :
  syse_step e (EDeliverS2C slot ty w drop) = Ok (e', o) ->
  al_get slot (e_clients e) = Some ce ->
  exists ce' picked, al_get slot (e_clients e') = Some ce' /\ ce_queue ce' = ce_queue ce /\
    Permutation (chan_s2c e slot) (picked ++ chan_s2c e' slot) /\
    (ce_inbox ce' = ce_inbox ce ++ picked \/ ce_inbox ce' = ce_inbox ce).
Proof.
  intros H Hce. destruct (deliver_s2c_step _ _ _ _ _ _ _ H) as [picked [rest [Ht [Hc [_ [_ [Hsl _]]]]]]].
  eexists. exists picked. split; [apply Hsl, Hce|]. rewrite Hc.
  destruct (take_typed_perm _ _ _ _ _ Ht) as [HP _].
  destruct (drop || negb (client_connected e slot)); cbn [ce_queue ce_inbox]; auto.
Qed.

(* ---------- invariants ---------- *)

Lemma al_get_remove {V} k k' (l : list (N * V)) : al_get k' (al_remove k l) = if k =? k' then None else al_get k' l.
Proof.
  induction l as [|[k2 v2] l IH]; cbn [al_remove al_get]; [destruct (k =? k'); reflexivity|].
  destruct (k2 =? k) eqn:E.
  - apply N.eqb_eq in E. subst k2. rewrite IH. destruct (k =? k'); reflexivity.
  - cbn [al_get]. rewrite IH. destruct (k2 =? k') eqn:E2; [|reflexivity].
    apply N.eqb_eq in E2. subst k2. rewrite N.eqb_sym, E. reflexivity.
Qed.

Lemma al_get_filter_key {V} (p : N -> bool) k (l : list (N * V)) :
  al_get k (filter (fun kv => p (fst kv)) l) = if p k then al_get k l else None.
Proof.
  induction l as [|[k2 v2] l IH]; cbn [filter al_get fst]; [destruct (p k); reflexivity|].
  destruct (p k2) eqn:E; cbn [al_get]; rewrite IH.
  - destruct (k2 =? k) eqn:E2; [|reflexivity]. apply N.eqb_eq in E2. subst. rewrite E. reflexivity.
  - destruct (k2 =? k) eqn:E2; [|reflexivity]. apply N.eqb_eq in E2. subst. rewrite E. reflexivity.
Qed.

Lemma inv_same_fields e e' :
  e_buffer e' = e_buffer e -> e_emitted e' = e_emitted e -> e_uids e' = e_uids e ->
  e_next_uid e' = e_next_uid e -> e_clients e' = e_clients e -> inv e -> inv e'.
Proof.
  unfold inv, buffer_dependent, uids_fresh, clients_wf, uid_of. intros -> -> -> -> ->. auto.
Qed.

Lemma inv_init c n : inv (syse_init c n).
Proof.
  unfold inv, buffer_dependent, uids_fresh, clients_wf, uid_of, syse_init. cbn [e_buffer e_emitted e_uids e_next_uid e_clients].
  split; [intros set ev []|]. split; [reflexivity|]. split; [intros slot uid; cbn [al_get]; discriminate|].
  intros slot ce H. apply al_get_in in H. apply in_map_iff in H. destruct H as [kv [E _]]. injection E as _ <-.
  split; [intros ty tk m []|reflexivity].
Qed.

Lemma send_buffered_state e :
  let e' := fst (send_buffered e) in
  e_buffer e' = [] /\ e_emitted e' = e_emitted e /\ e_sys e' = e_sys e /\ e_uids e' = e_uids e /\
  e_next_uid e' = e_next_uid e /\ e_inbox e' = e_inbox e /\ e_clients e' = e_clients e /\ e_c2s e' = e_c2s e.
Proof. cbn. repeat split; reflexivity. Qed.

Lemma sframe_shape e tick dt cleanup ops parts emit e' o :
  syse_step e (ESFrame tick dt cleanup ops parts emit) = Ok (e', o) ->
  e_emitted e' = [] /\ e_next_uid e' = e_next_uid e /\ e_clients e' = e_clients e /\
  (exists live, e_uids e' = filter (fun kv => mem_N (fst kv) live) (e_uids e)) /\
  (e_buffer e' = [] \/ e_buffer e' = e_buffer e \/
   exists new, e_buffer e' = e_buffer e ++ [mkBSet new []] /\ forall ev, In ev new -> independent (sev_ty ev) = false).
Proof.
  unfold syse_step.
  destruct (sv_running (y_server (e_sys e))) eqn:Hrb.
  - destruct (server_receive e) as [e0 from] eqn:Hsr.
    pose proof (server_receive_other e) as Ho. cbv zeta in Ho. rewrite Hsr in Ho. cbn [fst] in Ho.
    destruct Ho as [Hsys [Hu [Hn [_ [Hb [Hc _]]]]]].
    destruct (sys_step (e_sys e0) (StSFrame tick dt cleanup ops parts)) as [[y' o']| |]; cbn [bind]; try discriminate.
    match goal with |- context [send_or_buffer ?x] => set (e1 := x) end.
    destruct (send_or_buffer e1) as [e2 sent1] eqn:Hsob.
    pose proof (send_or_buffer_state e1) as Ho. cbv zeta in Ho. rewrite Hsob in Ho. cbn [fst snd] in Ho.
    destruct Ho as [He2 [Hb2 [_ [Hu2 [Hn2 [_ [Hc2 _]]]]]]].
    cbn [negb andb].
    match goal with |- context [if ?r then send_buffered e2 else _] => destruct r end.
    + destruct (send_buffered e2) as [e3 sent2] eqn:Hsb.
      pose proof (send_buffered_state e2) as Ho. cbv zeta in Ho. rewrite Hsb in Ho. cbn [fst] in Ho.
      destruct Ho as [Hb3 [He3 [_ [Hu3 [Hn3 [_ [Hc3 _]]]]]]].
      intros H. injection H as <- _. unfold prune_uids. cbn [e_emitted e_next_uid e_clients e_uids e_buffer].
      split; [congruence|]. split; [subst e1; cbn [e_next_uid] in *; congruence|].
      split; [subst e1; cbn [e_clients] in *; congruence|]. split; [|left; exact Hb3].
      eexists. rewrite Hu3, Hu2. subst e1. cbn [e_uids]. rewrite Hu. reflexivity.
    + intros H. injection H as <- _. unfold prune_uids. cbn [e_emitted e_next_uid e_clients e_uids e_buffer].
      split; [exact He2|]. split; [subst e1; cbn [e_next_uid] in *; congruence|].
      split; [subst e1; cbn [e_clients] in *; congruence|]. split.
      * eexists. rewrite Hu2. subst e1. cbn [e_uids]. rewrite Hu. reflexivity.
      * right. right. eexists. split; [rewrite Hb2; subst e1; cbn [e_buffer]; rewrite Hb; reflexivity|].
        intros ev Hev. apply filter_In in Hev. destruct Hev as [_ Hev]. destruct (independent (sev_ty ev)); [discriminate|reflexivity].
  - destruct (sys_step (e_sys e) (StSFrame tick dt cleanup ops parts)) as [[y' o']| |]; cbn [bind]; try discriminate.
    cbn [negb andb].
    destruct (sv_last_running (y_server (e_sys e))); intros H; injection H as <- _; unfold prune_uids;
      cbn [e_emitted e_next_uid e_clients e_uids e_buffer e_sys];
      (split; [reflexivity|]); (split; [reflexivity|]); (split; [reflexivity|]); (split; [eexists; reflexivity|]); auto.
Qed.

Lemma cframe_shape e slot ops emit e' o :
  syse_step e (ECFrame slot ops emit) = Ok (e', o) ->
  e_emitted e' = e_emitted e /\ e_next_uid e' = e_next_uid e /\ e_uids e' = e_uids e /\ e_buffer e' = e_buffer e /\
  e_inbox e' = e_inbox e /\ e_s2c e' = e_s2c e /\
  ((e_clients e' = e_clients e /\ e_c2s e' = e_c2s e /\ eo_got o = [] /\ eo_csent o = []) \/
   exists cl ce ce1 got sent,
     al_get slot (y_clients (e_sys e')) = Some cl /\ al_get slot (e_clients e) = Some ce /\
     e_clients e' = al_insert slot (mkCE (ce_queue ce1) (ce_inbox ce1) []) (e_clients e) /\
     e_c2s e' = al_insert slot (chan_c2s e slot ++ sent) (e_c2s e) /\
     eo_got o = got /\ eo_csent o = sent /\
     ((ce1 = ce /\ got = [] /\ sent = []) \/
      (exists ce0, (ce0 = ce \/ ce0 = mkCE [] (ce_inbox ce) []) /\ client_receive cl ce0 = (ce1, got) /\
                   sent = client_send cl (mkCE (ce_queue ce1) (ce_inbox ce1) emit)))).
Proof.
  unfold syse_step.
  destruct (al_get slot (y_clients (e_sys e))) as [cl_before|] eqn:Hcb.
  2:{ intros H. injection H as <- <-. repeat split; auto. }
  destruct (al_get slot (e_clients e)) as [ce|] eqn:Hce.
  2:{ intros H. injection H as <- <-. repeat split; auto. }
  destruct (sys_step (e_sys e) (StCFrame slot ops)) as [[y' o']| |]; cbn [bind]; try discriminate.
  destruct (al_get slot (y_clients y')) as [cl|] eqn:Hcl.
  2:{ intros H. injection H as <- <-. unfold set_sys. cbn. repeat split; auto. }
  set (connected_before := match cl_status cl_before with Connected => true | Disconnected => false end).
  set (ce0 := if connected_before && negb (cl_last_connected cl_before) then mkCE [] (ce_inbox ce) [] else ce).
  destruct connected_before.
  - destruct (client_receive cl ce0) as [ce1 got] eqn:Hr. intros H. injection H as <- <-.
    cbn [e_emitted e_next_uid e_uids e_buffer e_inbox e_s2c e_clients e_sys e_c2s eo_got eo_csent ce_queue ce_inbox].
    repeat (split; [reflexivity|]). right. exists cl, ce, ce1, got. eexists.
    split; [exact Hcl|]. split; [reflexivity|]. split; [reflexivity|]. split; [reflexivity|].
    split; [reflexivity|]. split; [reflexivity|]. right. exists ce0. split; [|split; [exact Hr|reflexivity]].
    subst ce0. destruct (true && negb (cl_last_connected cl_before)); auto.
  - intros H. injection H as <- <-.
    cbn [e_emitted e_next_uid e_uids e_buffer e_inbox e_s2c e_clients e_sys e_c2s eo_got eo_csent ce_queue ce_inbox].
    repeat (split; [reflexivity|]). right. exists cl, ce, ce, [], [].
    split; [exact Hcl|]. split; [reflexivity|]. subst ce0. cbn [andb].
    split; [reflexivity|]. split; [reflexivity|]. split; [reflexivity|]. split; [reflexivity|]. left. auto.
Qed.

Theorem inv_step e st e' o : inv e -> syse_step e st = Ok (e', o) -> inv e'.
Proof.
  intros Hinv H. destruct st as [b|tick dt cleanup ops parts emit|slot ops emit|slot ty w drop|slot ty w].
  - unfold syse_step in H.
    destruct (sys_step (e_sys e) b) as [[y' o']| |]; cbn [bind] in H; try discriminate.
    injection H as <- _.
    destruct b as [| |slot max|slot|slot|tick dt cl ops parts|slot ops|slot s2c ch w|slot s2c ch w];
      try (apply (inv_same_fields e); [reflexivity..|exact Hinv]).
    + destruct (find_client (y_server (e_sys e)) slot); [apply (inv_same_fields e); [reflexivity..|exact Hinv]|].
      destruct (find_client (y_server y') slot); [|apply (inv_same_fields e); [reflexivity..|exact Hinv]].
      destruct Hinv as [Hb [He [Hu Hc]]]. unfold set_sys. cbn [e_uids e_next_uid e_emitted e_buffer e_inbox e_clients e_s2c e_c2s].
      split; [|split; [exact He|split; [|exact Hc]]].
      * intros set ev Hset Hev. cbn [e_buffer] in Hset. apply in_map_iff in Hset. destruct Hset as [set0 [<- Hset0]].
        cbn [bs_events] in Hev. eapply Hb; eassumption.
      * intros sl uid. unfold uid_of. cbn [e_uids e_next_uid]. destruct (N.eq_dec sl slot) as [-> | Hne].
        -- rewrite al_get_insert_same. intros E. injection E as <-. lia.
        -- rewrite al_get_insert_other by exact Hne. intros E. specialize (Hu sl uid E). lia.
    + destruct Hinv as [Hb [He [Hu Hc]]]. unfold set_sys. cbn [e_uids e_next_uid e_emitted e_buffer e_inbox e_clients e_s2c e_c2s].
      split; [exact Hb|split; [exact He|split]].
      * intros s uid. unfold uid_of. cbn [e_uids e_next_uid]. rewrite al_get_remove.
        destruct (slot =? s); [discriminate|]. apply Hu.
      * intros s ce. cbn [e_clients]. destruct (N.eq_dec s slot) as [-> | Hne].
        -- rewrite al_get_insert_same. intros E. injection E as <-.
           destruct (al_get slot (e_clients e)) as [ce0|] eqn:E0.
           ++ destruct (Hc _ _ E0) as [Hq Hem]. cbn [ce_queue ce_emitted]. auto.
           ++ split; [intros ty tk m []|reflexivity].
        -- rewrite al_get_insert_other by exact Hne. apply Hc.
  - destruct (sframe_shape _ _ _ _ _ _ _ _ _ H) as [He' [Hn' [Hc' [[live Hu'] Hb']]]].
    destruct Hinv as [Hb [He [Hu Hc]]]. split; [|split; [exact He'|split]].
    + intros set ev Hset Hev. destruct Hb' as [Hb' | [Hb' | [new [Hb' Hnew]]]]; rewrite Hb' in Hset.
      * destruct Hset.
      * eapply Hb; eassumption.
      * apply in_app_or in Hset. destruct Hset as [Hset | [<- | []]]; [eapply Hb; eassumption|]. apply Hnew, Hev.
    + intros s uid. unfold uid_of. rewrite Hu', Hn'.
      rewrite (al_get_filter_key (fun k => mem_N k live)). destruct (mem_N s live); [apply Hu|discriminate].
    + unfold clients_wf. rewrite Hc'. exact Hc.
  - destruct (cframe_shape _ _ _ _ _ _ H) as [He' [Hn' [Hu' [Hb' [_ [_ Hc']]]]]].
    destruct Hc' as [[Hc' _] | [cl [ce [ce1 [got [sent [_ [Hce [Hc' [_ [_ [_ Hcase]]]]]]]]]]]].
    + apply (inv_same_fields e); auto.
    + destruct Hinv as [Hb [He [Hu Hc]]]. split; [|split; [congruence|split]].
      * unfold buffer_dependent. rewrite Hb'. exact Hb.
      * unfold uids_fresh, uid_of. rewrite Hu', Hn'. exact Hu.
      * intros s ce'. rewrite Hc'. destruct (N.eq_dec s slot) as [-> | Hne].
        -- rewrite al_get_insert_same. intros E. injection E as <-. cbn [ce_queue ce_emitted]. split; [|reflexivity].
           destruct (Hc _ _ Hce) as [Hq _].
           destruct Hcase as [[-> _] | [ce0 [Hce0 [Hr _]]]]; [exact Hq|].
           destruct (client_receive_withheld _ _ _ _ Hr) as [_ [_ [_ Hwf]]]. apply Hwf.
           destruct Hce0 as [-> | ->]; [exact Hq|]. intros ty tk m [].
        -- rewrite al_get_insert_other by exact Hne. apply Hc.
  - destruct (deliver_s2c_step _ _ _ _ _ _ _ H) as [picked [rest [_ [_ [_ [Hoth [Hsl [Hnone [_ [Hu' [Hn' [He' [Hb' _]]]]]]]]]]]]].
    destruct Hinv as [Hb [He [Hu Hc]]]. split; [|split; [congruence|split]].
    + unfold buffer_dependent. rewrite Hb'. exact Hb.
    + unfold uids_fresh, uid_of. rewrite Hu', Hn'. exact Hu.
    + intros s ce'. destruct (N.eq_dec s slot) as [-> | Hne].
      * destruct (al_get slot (e_clients e)) as [ce|] eqn:Hce.
        -- rewrite (Hsl ce eq_refl). intros E. injection E as <-. destruct (Hc _ _ Hce) as [Hq Hem].
           destruct (drop || negb (client_connected e slot)); cbn [ce_queue ce_emitted]; auto.
        -- rewrite (Hnone eq_refl), Hce. discriminate.
      * rewrite (Hoth s Hne). apply Hc.
  - unfold syse_step in H.
    destruct (take_typed _ w _) as [picked rest]. injection H as <- _.
    apply (inv_same_fields e); [reflexivity..|exact Hinv].
Qed.

Theorem reachable_inv c n e : reachable c n e -> inv e.
Proof. induction 1 as [|e st e' o _ IH H]; [apply inv_init|eapply inv_step; eassumption]. Qed.

(* ---------- frame-level statements ---------- *)

(* every event message a server frame hands to the backend is either an independent event without tick
   or a dependent event stamped with the receiver's update tick as of this frame *)
Theorem sframe_sent e tick dt cleanup ops parts emit e' o :
  inv e -> syse_step e (ESFrame tick dt cleanup ops parts emit) = Ok (e', o) ->
  forall slot m, In (slot, m) (eo_sent o) ->
  (sm_tick m = None /\ independent (sm_ty m) = true) \/
  (exists cl, find_client (y_server (e_sys e')) slot = Some cl /\
              sm_tick m = Some (ct_update_tick (sc_ticks cl)) /\ independent (sm_ty m) = false).
Proof.
  intros [Hdep _]. unfold syse_step.
  destruct (sv_running (y_server (e_sys e))) eqn:Hrb.
  - destruct (server_receive e) as [e0 from] eqn:Hsr.
    pose proof (server_receive_other e) as Ho. cbv zeta in Ho. rewrite Hsr in Ho. cbn [fst] in Ho.
    destruct Ho as [Hsys [Hu [Hn [_ [Hb [Hc _]]]]]].
    destruct (sys_step (e_sys e0) (StSFrame tick dt cleanup ops parts)) as [[y' o']| |]; cbn [bind]; try discriminate.
    match goal with |- context [send_or_buffer ?x] => set (e1 := x) end.
    destruct (send_or_buffer e1) as [e2 sent1] eqn:Hsob.
    pose proof (send_or_buffer_state e1) as Ho. cbv zeta in Ho. rewrite Hsob in Ho. cbn [fst snd] in Ho.
    destruct Ho as [He2 [Hb2 [Hs2 _]]].
    assert (Hsent1 : forall slot m, In (slot, m) sent1 -> sm_tick m = None /\ independent (sm_ty m) = true).
    { intros slot m Hin. apply (independent_events_carry_no_tick e1 slot m). rewrite Hsob. exact Hin. }
    assert (Hdep2 : buffer_dependent e2).
    { intros set ev Hset Hev. rewrite Hb2 in Hset. subst e1. cbn [e_buffer] in Hset. rewrite Hb in Hset.
      apply in_app_or in Hset. destruct Hset as [Hset | [<- | []]]; [eapply Hdep; eassumption|].
      cbn [bs_events] in Hev. apply filter_In in Hev. destruct Hev as [_ Hev].
      destruct (independent (sev_ty ev)); [discriminate|reflexivity]. }
    cbn [negb andb].
    match goal with |- context [if ?r then send_buffered e2 else _] => destruct r end.
    + destruct (send_buffered e2) as [e3 sent2] eqn:Hsb.
      pose proof (send_buffered_state e2) as Ho. cbv zeta in Ho. rewrite Hsb in Ho. cbn [fst] in Ho.
      destruct Ho as [_ [_ [Hs3 _]]].
      intros H. injection H as <- <-. cbn [eo_sent]. unfold prune_uids. cbn [e_sys].
      intros slot m Hin. apply in_app_or in Hin. destruct Hin as [Hin | Hin]; [left; apply (Hsent1 slot), Hin|].
      right. rewrite Hs3. apply (dependent_events_carry_update_tick e2 slot m Hdep2). rewrite Hsb. exact Hin.
    + intros H. injection H as <- <-. cbn [eo_sent]. intros slot m Hin. rewrite app_nil_r in Hin.
      left. apply (Hsent1 slot), Hin.
  - destruct (sys_step (e_sys e) (StSFrame tick dt cleanup ops parts)) as [[y' o']| |]; cbn [bind]; try discriminate.
    cbn [negb andb]. intros H. injection H as _ <-. cbn [eo_sent app]. intros slot m [].
Qed.

(* every event handed to a client's logic in a client frame: its tick is not ahead of the update tick the
   client has after applying this frame's replication messages, and its entity is mapped *)
Theorem cframe_got e slot ops emit e' o :
  inv e -> syse_step e (ECFrame slot ops emit) = Ok (e', o) ->
  forall d, In d (eo_got o) ->
  exists cl m, al_get slot (y_clients (e_sys e')) = Some cl /\ deliverable cl m = Some d /\
    (sm_tick m = None \/ exists tk, sm_tick m = Some tk /\ tick_gtb tk (cl_upd_tick cl) = false) /\
    (forall se, sm_ent m = Some se -> al_get se (cl_s2c cl) <> None).
Proof.
  intros [_ [_ [_ Hwf]]] H d Hd. destruct (cframe_shape _ _ _ _ _ _ H) as [_ [_ [_ [_ [_ [_ Hc]]]]]].
  destruct Hc as [[_ [_ [Hg _]]] | [cl [ce [ce1 [got [sent [Hcl [Hce [_ [_ [Hg [_ Hcase]]]]]]]]]]]].
  - rewrite Hg in Hd. destruct Hd.
  - rewrite Hg in Hd. destruct Hcase as [[_ [-> _]] | [ce0 [Hce0 [Hr _]]]]; [destruct Hd|].
    destruct (client_receive_delivered _ _ _ _ Hr d Hd) as [m [Hm Hsrc]].
    exists cl, m. split; [exact Hcl|]. split; [exact Hm|]. split; [|apply (deliverable_some _ _ _ Hm)].
    destruct Hsrc as [[[[ty tk] m'] [Hq [E Hgt]]] | [_ Htk]]; [|exact Htk].
    cbn [snd qkey fst] in *. subst m'. right. exists tk. split; [|exact Hgt].
    assert (Hq0 : queue_wf (ce_queue ce0)).
    { destruct Hce0 as [-> | ->]; [apply (Hwf _ _ Hce)|intros ? ? ? []]. }
    apply (Hq0 _ _ _ Hq).
Qed.

(* the server never hands a client event to its logic twice, and reports the slot it arrived on *)
Theorem sframe_from e tick dt cleanup ops parts emit e' o :
  syse_step e (ESFrame tick dt cleanup ops parts emit) = Ok (e', o) ->
  (sv_running (y_server (e_sys e)) = true -> Permutation (eo_from o) (e_inbox e) /\ e_inbox e' = []) /\
  (sv_running (y_server (e_sys e)) = false -> eo_from o = []).
Proof.
  unfold syse_step.
  destruct (sv_running (y_server (e_sys e))) eqn:Hrb.
  - destruct (server_receive e) as [e0 from] eqn:Hsr.
    destruct (server_receive_conservation e) as [HP [Hi _]]. rewrite Hsr in HP, Hi. cbn [fst snd] in HP, Hi.
    destruct (sys_step (e_sys e0) (StSFrame tick dt cleanup ops parts)) as [[y' o']| |]; cbn [bind]; try discriminate.
    match goal with |- context [send_or_buffer ?x] => set (e1 := x) end.
    destruct (send_or_buffer e1) as [e2 sent1] eqn:Hsob.
    pose proof (send_or_buffer_state e1) as Ho. cbv zeta in Ho. rewrite Hsob in Ho. cbn [fst snd] in Ho.
    destruct Ho as [_ [_ [_ [_ [_ [Hi2 _]]]]]].
    cbn [negb andb].
    match goal with |- context [if ?r then send_buffered e2 else _] => destruct r end.
    + destruct (send_buffered e2) as [e3 sent2] eqn:Hsb.
      pose proof (send_buffered_state e2) as Ho. cbv zeta in Ho. rewrite Hsb in Ho. cbn [fst] in Ho.
      destruct Ho as [_ [_ [_ [_ [_ [Hi3 _]]]]]].
      intros H. injection H as <- <-. cbn [eo_from]. split; [|discriminate]. intros _. split; [exact HP|].
      unfold prune_uids. cbn [e_inbox]. rewrite Hi3, Hi2. subst e1. cbn [e_inbox]. rewrite Hi. reflexivity.
    + intros H. injection H as <- <-. cbn [eo_from]. split; [|discriminate]. intros _. split; [exact HP|].
      unfold prune_uids. cbn [e_inbox]. rewrite Hi2. subst e1. cbn [e_inbox]. rewrite Hi. reflexivity.
  - destruct (sys_step (e_sys e) (StSFrame tick dt cleanup ops parts)) as [[y' o']| |]; cbn [bind]; try discriminate.
    intros H. injection H as _ <-. cbn [eo_from]. split; [discriminate|reflexivity].
Qed.

(* a buffered set after a step either descends from a set that was there before, with at least the same
   exclusions and the same events, or it is the fresh set of this server frame *)
Theorem buffer_step_mono e st e' o :
  syse_step e st = Ok (e', o) ->
  forall set', In set' (e_buffer e') ->
  (exists set, In set (e_buffer e) /\ bs_events set' = bs_events set /\ incl (bs_excluded set) (bs_excluded set')) \/
  (bs_excluded set' = [] /\ exists tick dt cleanup ops parts emit, st = ESFrame tick dt cleanup ops parts emit).
Proof.
  intros H set' Hin.
  assert (Hsame : e_buffer e' = e_buffer e ->
          exists set, In set (e_buffer e) /\ bs_events set' = bs_events set /\ incl (bs_excluded set) (bs_excluded set')).
  { intros E. rewrite E in Hin. exists set'. split; [exact Hin|]. split; [reflexivity|apply incl_refl]. }
  destruct st as [b|tick dt cleanup ops parts emit|slot ops emit|slot ty w drop|slot ty w].
  - left. unfold syse_step in H.
    destruct (sys_step (e_sys e) b) as [[y' o']| |]; cbn [bind] in H; try discriminate.
    injection H as <- _.
    destruct b as [| |slot max|slot|slot|tick dt cl ops parts|slot ops|slot s2c ch w|slot s2c ch w];
      try (apply Hsame; reflexivity).
    destruct (find_client (y_server (e_sys e)) slot); [apply Hsame; reflexivity|].
    destruct (find_client (y_server y') slot); [|apply Hsame; reflexivity].
    cbn [e_buffer set_sys] in Hin. apply in_map_iff in Hin. destruct Hin as [set [<- Hset]].
    exists set. split; [exact Hset|]. split; [reflexivity|]. cbn [bs_excluded]. apply incl_appl, incl_refl.
  - destruct (sframe_shape _ _ _ _ _ _ _ _ _ H) as [_ [_ [_ [_ Hb']]]].
    destruct Hb' as [Hb' | [Hb' | [new [Hb' _]]]].
    + rewrite Hb' in Hin. destruct Hin.
    + left. apply Hsame, Hb'.
    + rewrite Hb' in Hin. apply in_app_or in Hin. destruct Hin as [Hin | [<- | []]].
      * left. exists set'. split; [exact Hin|]. split; [reflexivity|apply incl_refl].
      * right. split; [reflexivity|]. exists tick, dt, cleanup, ops, parts, emit. reflexivity.
  - left. apply Hsame. apply (cframe_shape _ _ _ _ _ _ H).
  - left. apply Hsame. destruct (deliver_s2c_step _ _ _ _ _ _ _ H) as [? [? [_ [_ [_ [_ [_ [_ [_ [_ [_ [_ [Hb _]]]]]]]]]]]]].
    exact Hb.
  - left. apply Hsame. unfold syse_step in H. destruct (take_typed _ w _) as [picked rest]. injection H as <- _. reflexivity.
Qed.

Lemma erun_reachable c n script : forall e e' os,
  reachable c n e -> erun e script = Ok (e', os) -> reachable c n e'.
Proof.
  induction script as [|st rest IH]; intros e e' os Hr H; cbn [erun] in H.
  - injection H as <- _. exact Hr.
  - destruct (syse_step e st) as [[e1 o]| |] eqn:Hs; cbn [bind] in H; try discriminate.
    destruct (erun e1 rest) as [[e2 os']| |] eqn:Hrun; cbn [bind] in H; try discriminate.
    injection H as <- _. eapply IH; [|exact Hrun]. eapply reach_step; eassumption.
Qed.

(* ---------- the same for states reachable from the initial state ---------- *)

Theorem reachable_buffer_dependent c n e : reachable c n e -> buffer_dependent e.
Proof. intros Hr. apply (reachable_inv _ _ _ Hr). Qed.

Theorem sframe_sent_reachable c n e tick dt cleanup ops parts emit e' o :
  reachable c n e -> syse_step e (ESFrame tick dt cleanup ops parts emit) = Ok (e', o) ->
  forall slot m, In (slot, m) (eo_sent o) ->
  (sm_tick m = None /\ independent (sm_ty m) = true) \/
  (exists cl, find_client (y_server (e_sys e')) slot = Some cl /\
              sm_tick m = Some (ct_update_tick (sc_ticks cl)) /\ independent (sm_ty m) = false).
Proof. intros Hr. apply sframe_sent. apply (reachable_inv _ _ _ Hr). Qed.

Theorem cframe_got_reachable c n e slot ops emit e' o :
  reachable c n e -> syse_step e (ECFrame slot ops emit) = Ok (e', o) ->
  forall d, In d (eo_got o) ->
  exists cl m, al_get slot (y_clients (e_sys e')) = Some cl /\ deliverable cl m = Some d /\
    (sm_tick m = None \/ exists tk, sm_tick m = Some tk /\ tick_gtb tk (cl_upd_tick cl) = false) /\
    (forall se, sm_ent m = Some se -> al_get se (cl_s2c cl) <> None).
Proof. intros Hr. apply cframe_got. apply (reachable_inv _ _ _ Hr). Qed.

Theorem reachable_nothing_resent c n e :
  reachable c n e ->
  e_emitted e = [] /\ (forall slot ce, al_get slot (e_clients e) = Some ce -> ce_emitted ce = []) /\
  (forall slot uid, uid_of e slot = Some uid -> uid < e_next_uid e).
Proof.
  intros Hr. destruct (reachable_inv _ _ _ Hr) as [_ [He [Hu Hc]]]. split; [exact He|]. split; [|exact Hu].
  intros slot ce H. apply (Hc _ _ H).
Qed.

(* ---------- sending keeps the order within one type ---------- *)

Lemma classify_filter_none {A T} (cls : A -> T) (eqb : T -> T -> bool)
  (eqb_spec : forall a b, eqb a b = true <-> a = b) (ts : list T) t l :
  ~ In t ts -> filter (fun x => eqb (cls x) t) (flat_map (fun t' => filter (fun x => eqb (cls x) t') l) ts) = [].
Proof.
  induction ts as [|t' ts IH]; intros Hn; [reflexivity|]. cbn [flat_map]. rewrite filter_app, IH.
  - rewrite app_nil_r. apply filter_all_false. intros x Hx. apply filter_In in Hx. destruct Hx as [_ Hx].
    apply eqb_spec in Hx. destruct (eqb (cls x) t) eqn:E; [|reflexivity]. apply eqb_spec in E.
    exfalso. apply Hn. left. congruence.
  - intros Hin. apply Hn. right. exact Hin.
Qed.

Lemma classify_filter_same {A T} (cls : A -> T) (eqb : T -> T -> bool)
  (eqb_spec : forall a b, eqb a b = true <-> a = b) (ts : list T) t l :
  NoDup ts -> In t ts ->
  filter (fun x => eqb (cls x) t) (flat_map (fun t' => filter (fun x => eqb (cls x) t') l) ts)
  = filter (fun x => eqb (cls x) t) l.
Proof.
  induction 1 as [|t' ts Hnin Hnd IH]; intros Hin; [destruct Hin|]. cbn [flat_map]. rewrite filter_app.
  destruct Hin as [-> | Hin].
  - rewrite (classify_filter_none cls eqb eqb_spec ts t l Hnin), app_nil_r.
    apply filter_all_true. intros x Hx. apply filter_In in Hx. tauto.
  - rewrite IH by exact Hin.
    rewrite (filter_all_false _ (filter (fun x => eqb (cls x) t') l)); [reflexivity|].
    intros x Hx. apply filter_In in Hx. destruct Hx as [_ Hx]. apply eqb_spec in Hx.
    destruct (eqb (cls x) t) eqn:E; [|reflexivity]. apply eqb_spec in E. exfalso. apply Hnin. congruence.
Qed.

Theorem emitted_in_order_type e t :
  filter (fun ev => sety_eqb (sev_ty ev) t) (emitted_in_order e) = filter (fun ev => sety_eqb (sev_ty ev) t) (e_emitted e).
Proof.
  unfold emitted_in_order. apply (classify_filter_same sev_ty sety_eqb sety_eqb_eq);
    [apply sety_all_nodup|apply sety_all_complete].
Qed.

Lemma send_one_type c ev x : In x (send_one c ev) -> cev_ty x = cev_ty ev.
Proof.
  unfold send_one. destruct (cev_ent ev); [|intros [<- | []]; reflexivity].
  destruct (al_get _ (cl_s2c c)); [|intros []]. destruct (al_get _ (cl_c2s c)); [|intros []].
  intros [<- | []]. reflexivity.
Qed.

Lemma filter_flat_map_type c t l :
  filter (fun x => cety_eqb (cev_ty x) t) (flat_map (send_one c) l)
  = flat_map (send_one c) (filter (fun ev => cety_eqb (cev_ty ev) t) l).
Proof.
  induction l as [|ev l IH]; [reflexivity|]. cbn [flat_map filter]. rewrite filter_app, IH.
  destruct (cety_eqb (cev_ty ev) t) eqn:E; cbn [flat_map].
  - f_equal. apply filter_all_true. intros x Hx. rewrite (send_one_type _ _ _ Hx). exact E.
  - rewrite (filter_all_false _ (send_one c ev)); [reflexivity|].
    intros x Hx. rewrite (send_one_type _ _ _ Hx). exact E.
Qed.

(* the messages of one type leave the client in the order their events were written *)
Theorem client_send_type_order c ce t :
  filter (fun x => cety_eqb (cev_ty x) t) (client_send c ce)
  = flat_map (send_one c) (filter (fun ev => cety_eqb (cev_ty ev) t) (ce_emitted ce)).
Proof.
  rewrite client_send_eq, filter_flat_map_type. f_equal. unfold client_emitted_in_order.
  apply (classify_filter_same cev_ty cety_eqb cety_eqb_eq); [apply cety_all_nodup|apply cety_all_complete].
Qed.
