(* Whole-system runs with remote events (Events/Remote.v `syse_step` over `erun`): vocabulary for the end-to-end
   statements of C04 / C05 (definitions only; lemmas in Events/RemoteRun*_proofs.v, pinned statements in
   Properties/C04E.v and Properties/C05E.v).

     proj_script      the `Repl.Sys` script a script of `estep`s performs (Remote does not modify Sys)
     escript_ok       the premises on a script: deliveries the channel contracts allow (`legal_estep`), no replication
                      frame hidden in an `EBase` step (`ebase_ok`: a frame always runs the event systems), the premises
                      `script_okf` (legal, no `SMap`, `sessions_ok`) and `no_tick0` of the C02 / C03 families on the projection
     grun             a run threading a ghost that is computed from the states and the observation of every step
     ughost / ustep   ghost of the replication layer: per slot the update messages the server has sent in the current
                      session of the slot and those the client has applied
     lghost / lstep   ghost of the event layer (a ledger): per slot the event messages handed to the backend, handed to
                      the conversion step of the client (delivered / unresolvable), discarded by a session end, dropped
                      by the unreliable channel - for the whole run (`lt_*`) and for the current session (`lg_*`) *)
From RV Require Import Lib.Res Repl.ClientTicks Repl.World Repl.Server Repl.Client Repl.Sys Tick.RepliconTick
  Repl.ClientSys_proofs Repl.StructE2EMut_proofs Repl.StructE2ESess_proofs Repl.ValSpec.
From RV Require Import Events.Remote Events.RemoteSpec.
Open Scope N_scope.

(* ---------- the projection to `Repl.Sys` ---------- *)

Definition proj_estep (st : estep) : list step :=
  match st with
  | EBase b => [b]
  | ESFrame tick dt cleanup ops parts _ => [StSFrame tick dt cleanup ops parts]
  | ECFrame slot ops _ => [StCFrame slot ops]
  | EDeliverS2C _ _ _ _ => []
  | EDeliverC2S _ _ _ => []
  end.
Definition proj_script (script : list estep) : list step := flat_map proj_estep script.

(* ---------- premises ---------- *)

(* a server / client frame is an `ESFrame` / `ECFrame` step: the event systems run in every frame *)
Definition ebase_ok (st : estep) : bool :=
  match st with
  | EBase (StSFrame _ _ _ _ _) => false
  | EBase (StCFrame _ _) => false
  | _ => true
  end.

Definition escript_ok (script : list estep) : bool :=
  forallb legal_estep script && forallb ebase_ok script && script_okf (proj_script script) && no_tick0 (proj_script script).

(* the session mode of a slot (Repl/StructE2ESess_proofs.v) after a script of `estep`s *)
Definition emode (script : list estep) (slot : N) : StructE2ESess_proofs.smode := mode_of (proj_script script) slot.

(* every client app has its event state (true of `syse_init`, kept by every step) *)
Definition clients_dom (e : syse) : Prop :=
  forall slot, al_get slot (e_clients e) = None -> al_get slot (y_clients (e_sys e)) = None.

(* ---------- runs with a ghost ---------- *)

Section GRun.
  Variable G : Type.
  Variable gstep : syse -> G -> estep -> syse -> eout -> G.

  Fixpoint grun (e : syse) (g : G) (script : list estep) : res (syse * G * list eout) :=
    match script with
    | [] => Ok (e, g, [])
    | st :: rest =>
      let* (e1, o) := syse_step e st in
      let* (e2, g2, os) := grun e1 (gstep e g st e1 o) rest in
      Ok (e2, g2, o :: os)
    end.
End GRun.
Arguments grun {G} gstep e g script.

(* ---------- generic helpers ---------- *)

Definition is_prefix {A : Type} (p l : list A) : Prop := exists q, l = p ++ q.
Definition tag {A : Type} (slot : N) (l : list A) : list (N * A) := map (pair slot) l.
Definition for_slot {A : Type} (slot : N) (log : list (N * A)) : list A := map snd (filter (fun sm => fst sm =? slot) log).
Definition drop_slot {A : Type} (slot : N) (log : list (N * A)) : list (N * A) := filter (fun sm => negb (fst sm =? slot)) log.
Definition count_seq (q : N) (l : list smsg) : nat := length (filter (fun m => sm_seq m =? q) l).

(* ---------- the ghost of the replication layer ---------- *)

Record ughost := mkUG {
  ug_sent : list (N * list update_msg);       (* slot -> update messages sent in the current session, oldest first *)
  ug_applied : list (N * list update_msg)     (* slot -> update messages applied by the client in the current session *)
}.
Definition ug_init : ughost := mkUG [] [].
Definition usent (g : ughost) (slot : N) : list update_msg := opt_list (al_get slot (ug_sent g)).
Definition uapplied (g : ughost) (slot : N) : list update_msg := opt_list (al_get slot (ug_applied g)).

Definition push_upd (q : list (N * list update_msg)) (co : client_out) : list (N * list update_msg) :=
  match co_update co with
  | Some u => al_insert (co_slot co) (opt_list (al_get (co_slot co) q) ++ [u]) q
  | None => q
  end.

Definition ustep_base (y : sys) (g : ughost) (st : step) (o : out) : ughost :=
  match st with
  | StConnect slot _ =>
    match find_client (y_server y) slot with
    | None => mkUG (al_insert slot [] (ug_sent g)) (al_insert slot [] (ug_applied g))
    | Some _ => g
    end
  | StSFrame _ _ _ _ _ =>
    match o with
    | OSFrame fo _ => mkUG (fold_left push_upd (fo_clients fo) (ug_sent g)) (ug_applied g)
    | _ => g
    end
  | StCFrame slot _ =>
    match al_get slot (y_clients y) with
    | Some c =>
      match cl_status c with
      | Connected => mkUG (ug_sent g) (al_insert slot (uapplied g slot ++ cl_inbox_upd c) (ug_applied g))
      | Disconnected => g
      end
    | None => g
    end
  | _ => g
  end.

Definition ustep (e : syse) (g : ughost) (st : estep) (e' : syse) (o : eout) : ughost :=
  fold_left (fun g b => ustep_base (e_sys e) g b (eo_base o)) (proj_estep st) g.

Definition urun : syse -> ughost -> list estep -> res (syse * ughost * list eout) := grun ustep.

(* the tick of the last update message of a list (0: none; the default update tick of both sides) *)
Definition last_tick (l : list update_msg) : N := last (map u_tick l) 0.
(* the update messages of a list with a tick not above [tk] *)
Definition sent_upto (tk : N) (l : list update_msg) : list update_msg := filter (fun u => u_tick u <=? tk) l.

(* the stamped event messages a connection still holds: in flight, received, and queued by tick.  The queue counts
   only once the client has run a frame in this session: before, it holds what the previous session left and is
   emptied by the first frame (`client_just_connected`) *)
Definition live_queue (c : client) (ce : cevents) : list smsg :=
  if cl_last_connected c then map snd (ce_queue ce) else [].
Definition inbox_of (e : syse) (slot : N) : list smsg :=
  match al_get slot (e_clients e) with Some ce => ce_inbox ce | None => [] end.
Definition queue_of (e : syse) (slot : N) : list (sety * N * smsg) :=
  match al_get slot (e_clients e) with Some ce => ce_queue ce | None => [] end.
Definition held_msgs (e : syse) (slot : N) (c : client) : list smsg :=
  chan_s2c e slot ++ inbox_of e slot ++ (if cl_last_connected c then map snd (queue_of e slot) else []).

(* ---------- the ghost of the event layer ---------- *)

(* the messages `client_receive` hands to the conversion step, in order *)
Fixpoint receive_now (c : client) (ce : cevents) (ts : list sety) : list smsg :=
  match ts with
  | [] => []
  | t :: ts' => now_msgs c ce t ++ receive_now c (fst (client_receive_type c ce t)) ts'
  end.
Definition frame_now (c : client) (ce : cevents) : list smsg := receive_now c ce [ST; SE0; SEI; SEM; SEU].
Definition resolvable (c : client) (m : smsg) : bool := match deliverable c m with Some _ => true | None => false end.

Record lghost := mkLG {
  lg_sent : list (N * smsg);     (* current session of the slot: handed to the backend *)
  lg_now : list (N * smsg);      (* current session of the slot: handed to the conversion step *)
  lt_sent : list (N * smsg);     (* whole run: handed to the backend *)
  lt_got : list (N * smsg);      (* whole run: handed to game logic *)
  lt_unm : list (N * smsg);      (* whole run: dropped as undeliverable (entity not mapped) *)
  lt_disc : list (N * smsg);     (* whole run: discarded by a session end (link / inbox / queue emptied, client app not connected) *)
  lt_drop : list (N * smsg)      (* whole run: dropped by the unreliable channel *)
}.
Definition lg_init : lghost := mkLG [] [] [] [] [] [] [].

Definition add_disc (g : lghost) (l : list (N * smsg)) : lghost :=
  mkLG (lg_sent g) (lg_now g) (lt_sent g) (lt_got g) (lt_unm g) (lt_disc g ++ l) (lt_drop g).

Definition lstep (e : syse) (g : lghost) (st : estep) (e' : syse) (o : eout) : lghost :=
  match st with
  | EBase (StConnect slot _) =>
    match find_client (y_server (e_sys e)) slot with
    | None => mkLG (drop_slot slot (lg_sent g)) (drop_slot slot (lg_now g)) (lt_sent g) (lt_got g) (lt_unm g) (lt_disc g) (lt_drop g)
    | Some _ => g
    end
  | EBase (StDisconnect slot) => add_disc g (tag slot (chan_s2c e slot ++ inbox_of e slot))
  | EBase StStop => add_disc g (flat_map (fun k => tag k (chan_s2c e k)) (nodup N.eq_dec (map fst (e_s2c e))))
  | EBase _ => g
  | ESFrame _ _ _ _ _ _ =>
    mkLG (lg_sent g ++ eo_sent o) (lg_now g) (lt_sent g ++ eo_sent o) (lt_got g) (lt_unm g) (lt_disc g) (lt_drop g)
  | ECFrame slot _ _ =>
    match al_get slot (y_clients (e_sys e)), al_get slot (e_clients e), al_get slot (y_clients (e_sys e')) with
    | Some cb, Some ce, Some cl =>
      match cl_status cb with
      | Connected =>
        let jc := negb (cl_last_connected cb) in
        let ce0 := if jc then mkCE [] (ce_inbox ce) [] else ce in
        let now := frame_now cl ce0 in
        mkLG (lg_sent g) (lg_now g ++ tag slot now) (lt_sent g)
             (lt_got g ++ tag slot (filter (resolvable cl) now))
             (lt_unm g ++ tag slot (filter (fun m => negb (resolvable cl m)) now))
             (lt_disc g ++ (if jc then tag slot (map snd (ce_queue ce)) else [])) (lt_drop g)
      | Disconnected => g
      end
    | _, _, _ => g
    end
  | EDeliverS2C slot ty w drop =>
    let picked := fst (take_typed (fun m => sety_eqb (sm_ty m) ty) w (chan_s2c e slot)) in
    if drop then mkLG (lg_sent g) (lg_now g) (lt_sent g) (lt_got g) (lt_unm g) (lt_disc g) (lt_drop g ++ tag slot picked)
    else if client_connected e slot then g
    else add_disc g (tag slot picked)
  | EDeliverC2S _ _ _ => g
  end.

Definition lrun : syse -> lghost -> list estep -> res (syse * lghost * list eout) := grun lstep.

(* event types whose channel is ordered and reliable: all but SEU *)
Definition reliable_ty (t : sety) : bool := negb (sety_eqb t SEU).

(* the emissions of a script carry distinct sequence numbers *)
Definition emit_seqs (st : estep) : list N :=
  match st with
  | ESFrame _ _ _ _ _ emit => map (fun em => snd (fst em)) emit
  | _ => []
  end.
Definition seqs_distinct (script : list estep) : Prop := NoDup (flat_map emit_seqs script).

(* ---------- both ghosts at once ---------- *)

Definition cghost : Type := (ughost * lghost)%type.
Definition cstep (e : syse) (g : cghost) (st : estep) (e' : syse) (o : eout) : cghost :=
  (ustep e (fst g) st e' o, lstep e (snd g) st e' o).
Definition crun : syse -> cghost -> list estep -> res (syse * cghost * list eout) := grun cstep.

(* the event messages of the current session of a slot: handed to the backend / to the conversion step of the client *)
Definition ssent (g : lghost) (slot : N) : list smsg := for_slot slot (lg_sent g).
Definition snow (g : lghost) (slot : N) : list smsg := for_slot slot (lg_now g).

(* the key by which the client orders queued events: the stamp (0 for an unstamped message: never queued) *)
Definition skey (m : smsg) : N := match sm_tick m with Some tk => tk | None => 0 end.
Definition tyf (t : sety) (m : smsg) : bool := sety_eqb (sm_ty m) t.
