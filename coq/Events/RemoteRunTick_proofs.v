(* E1 (C04 end to end): the invariant of whole-system runs with remote events about update ticks and the stamps of
   dependent events.  Vocabulary: Events/RemoteRun.v; the structural invariant `f_inv` of Repl/StructE2ESess_proofs.v is
   used at every step (sessions, records, queues). *)
From Coq Require Import ZifyBool ZifyN Permutation Sorted.
From RV Require Import Lib.Res Repl.ClientTicks Repl.ClientTicks_proofs Repl.World Vis.Visibility Repl.Server Repl.ServerSpec
  Repl.Client Repl.Sys Tick.RepliconTick Tick.RepliconTick_proofs
  Repl.StructSpec Repl.StructVisSpec Repl.Client_proofs Repl.ClientSys_proofs Repl.Session_proofs
  Repl.ClientStructSpec Repl.ClientStruct_proofs
  Repl.StructE2E_proofs Repl.StructE2EMut_proofs Repl.StructE2EVis_proofs Repl.StructE2ESess_proofs Repl.ValSpec.
From RV Require Import Events.Remote Events.RemoteSpec Events.Remote_proofs Events.RemoteRun Events.RemoteRunProj_proofs.
Ltac Zify.zify_post_hook ::= Z.div_mod_to_equations.
Arguments N.add : simpl never. Arguments N.mul : simpl never. Arguments N.pow : simpl never.
Arguments N.ltb : simpl never. Arguments N.leb : simpl never. Arguments N.div : simpl never.
Arguments N.modulo : simpl never. Arguments N.sub : simpl never. Arguments N.eqb : simpl never.
Open Scope N_scope.

(* ================================================================== *)
(* 0. lists                                                           *)
(* ================================================================== *)

Lemma last_default_irrel {A} (l : list A) d d' : l <> [] -> last l d = last l d'.
Proof.
  induction l as [|x l IH]; intros H; [congruence|]. cbn [last]. destruct l as [|y l']; [reflexivity|]. apply IH. discriminate.
Qed.

Lemma last_cons_default {A} (x : A) l d : last (x :: l) d = last l x.
Proof. destruct l as [|y l']; [reflexivity|]. cbn [last]. apply (last_default_irrel (y :: l')). discriminate. Qed.

Lemma last_app_gen {A} (a b : list A) : forall d, last (a ++ b) d = last b (last a d).
Proof.
  induction a as [|x a IH]; intros d; [reflexivity|].
  change ((x :: a) ++ b) with (x :: (a ++ b)). rewrite !last_cons_default. apply IH.
Qed.

Lemma last_map_app {A} (f : A -> N) a b d : last (map f (a ++ b)) d = last (map f b) (last (map f a) d).
Proof. rewrite map_app. apply last_app_gen. Qed.

Lemma last_tick_app a b : last_tick (a ++ b) = last (map u_tick b) (last_tick a).
Proof. unfold last_tick. apply last_map_app. Qed.

Lemma last_tick_snoc a u : last_tick (a ++ [u]) = u_tick u.
Proof. rewrite last_tick_app. reflexivity. Qed.

Lemma last_tick_in l : l <> [] -> In (last_tick l) (map u_tick l).
Proof.
  intros H. unfold last_tick. destruct l as [|u l]; [congruence|]. clear H. revert u.
  induction l as [|v l IH]; intros u; cbn [map last]; [left; reflexivity|]. right. exact (IH v).
Qed.

Lemma last_default_in (l : list N) d : In (last l d) (d :: l).
Proof.
  revert d. induction l as [|x l IH]; intros d; [left; reflexivity|]. rewrite last_cons_default. right. exact (IH x).
Qed.

Lemma sorted_snoc (l : list N) x : StronglySorted N.lt l -> (forall a, In a l -> a < x) -> StronglySorted N.lt (l ++ [x]).
Proof.
  induction l as [|y l IH]; intros Hs Hlt; cbn [app]; [repeat constructor|].
  inversion Hs as [|? ? Hs' Hall]; subst. constructor.
  - apply IH; [exact Hs'|]. intros a Ha. apply Hlt. right. exact Ha.
  - apply Forall_forall. intros z Hz. apply in_app_or in Hz. destruct Hz as [Hz|[<-|[]]].
    + rewrite Forall_forall in Hall. exact (Hall z Hz).
    + apply Hlt. left. reflexivity.
Qed.

(* in a strictly increasing list the last element is the largest *)
Lemma sorted_le_last (l : list N) : forall d a, StronglySorted N.lt l -> In a l -> a <= last l d.
Proof.
  induction l as [|x l IH]; intros d a Hs Ha; [destruct Ha|]. rewrite last_cons_default.
  inversion Hs as [|? ? Hs' Hall]; subst. destruct Ha as [->|Ha].
  - destruct l as [|y l']; [cbn; lia|]. pose proof (IH a y Hs' (or_introl eq_refl)).
    rewrite Forall_forall in Hall. pose proof (Hall y (or_introl eq_refl)). lia.
  - exact (IH x a Hs' Ha).
Qed.

(* ================================================================== *)
(* 1. what a `Sys` step does to the server fields and to the clients  *)
(* ================================================================== *)

Definition is_sframe (st : step) : bool := match st with StSFrame _ _ _ _ _ => true | _ => false end.

Lemma deliver_acks_fields s slot idxs :
  sv_clients (deliver_acks s slot idxs) = sv_clients s /\ sv_running (deliver_acks s slot idxs) = sv_running s /\
  sv_tick (deliver_acks s slot idxs) = sv_tick s /\ sv_dirty (deliver_acks s slot idxs) = sv_dirty s.
Proof. unfold deliver_acks. destruct (sv_running s) eqn:E; [|auto]. destruct (find_client s slot); cbn; auto. Qed.

Lemma deliver_acks_fold_fields slot picked : forall s,
  let s' := fold_left (fun s idxs => deliver_acks s slot idxs) picked s in
  sv_clients s' = sv_clients s /\ sv_running s' = sv_running s /\ sv_tick s' = sv_tick s /\ sv_dirty s' = sv_dirty s.
Proof.
  induction picked as [|i t IH]; intros s; cbn [fold_left]; [cbv zeta; auto|].
  destruct (IH (deliver_acks s slot i)) as (A & B & C & D). destruct (deliver_acks_fields s slot i) as (A' & B' & C' & D').
  cbv zeta. rewrite A, B, C, D. auto.
Qed.

Lemma connect_client_td c s slot max :
  sv_tick (connect_client c s slot max) = sv_tick s /\ sv_dirty (connect_client c s slot max) = sv_dirty s /\
  sv_running (connect_client c s slot max) = sv_running s.
Proof. unfold connect_client. destruct (sv_running s) eqn:E; [|auto]. destruct (find_client s slot); cbn; auto. Qed.

Lemma authorize_client_td c s slot :
  sv_tick (authorize_client c s slot) = sv_tick s /\ sv_dirty (authorize_client c s slot) = sv_dirty s /\
  sv_running (authorize_client c s slot) = sv_running s.
Proof. unfold authorize_client. destruct (find_client s slot) as [cl|]; [|auto]. destruct (sc_authorized cl); cbn; auto. Qed.

(* the server after a step that is not a server frame *)
Lemma step_server y st y' o : is_sframe st = false -> sys_step y st = Ok (y', o) ->
  sv_tick (y_server y') = sv_tick (y_server y) /\ sv_dirty (y_server y') = sv_dirty (y_server y) /\
  match st with
  | StStart => y_server y' = set_running (y_server y) true
  | StStop => y_server y' = set_running (y_server y) false
  | StConnect slot max => y_server y' = y_server y \/
                          (find_client (y_server y) slot = None /\ sv_running (y_server y) = true /\
                           y_server y' = connect_client (y_cfg y) (y_server y) slot max)
  | StAuthorize slot => y_server y' = authorize_client (y_cfg y) (y_server y) slot
  | StDisconnect slot => y_server y' = y_server y \/ y_server y' = disconnect_client (y_server y) slot
  | _ => sv_clients (y_server y') = sv_clients (y_server y) /\ sv_running (y_server y') = sv_running (y_server y)
  end.
Proof.
  intros Hns H. destruct st as [| |slot max|slot|slot|tick dt cleanup ops parts|slot ops|slot s2c ch w|slot s2c ch w];
    cbn [sys_step is_sframe] in *; try discriminate.
  - inversion H; subst. cbn. auto.
  - inversion H; subst. cbn. auto.
  - destruct (find_client (y_server y) slot) eqn:Ef; [inversion H; subst; auto|].
    destruct (al_get slot (y_clients y)); [|inversion H; subst; auto].
    destruct (sv_running (y_server y)) eqn:Er; inversion H; subst; [|auto]. cbn [set_client set_server y_server y_cfg].
    destruct (connect_client_td (y_cfg y) (y_server y) slot max) as (A & B & _). split; [exact A|]. split; [exact B|]. right. auto.
  - inversion H; subst. cbn [set_server y_server].
    destruct (authorize_client_td (y_cfg y) (y_server y) slot) as (A & B & _). auto.
  - destruct (al_get slot (y_clients y)); inversion H; subst; cbn; auto.
  - destruct (al_get slot (y_clients y)) as [cl|] eqn:Ec; [|inversion H; subst; auto].
    destruct (client_frame cl ops) as [[cl' cfo]| |] eqn:Ef; cbn [bind] in H; try discriminate.
    assert (H' : sys_step y (StCFrame slot ops) = Ok (y', o)) by (cbn [sys_step]; rewrite Ec, Ef; exact H).
    destruct (cframe_sys y slot ops cl cl' cfo y' o Ec Ef H') as (_ & _ & _ & pcs & E). rewrite E. cbn. auto.
  - destruct (al_get slot (y_clients y)); [|inversion H; subst; auto]. destruct s2c.
    + destruct (ch =? 0); [destruct (take w (l_upd (get_link y slot))); inversion H; subst; cbn; auto|].
      destruct (ch =? 1); [destruct (take w (l_mut (get_link y slot))); inversion H; subst; cbn; auto|inversion H; subst; auto].
    + destruct (ch =? 0); [|inversion H; subst; auto]. destruct (take w (l_ack (get_link y slot))) as [picked rest]. inversion H; subst.
      cbn [set_server y_server set_link]. destruct (deliver_acks_fold_fields slot picked (y_server y)) as (A & B & C & D). auto.
  - destruct (al_get slot (y_clients y)); [|inversion H; subst; auto]. destruct s2c.
    + destruct (ch =? 0); [destruct (take w (l_upd (get_link y slot))); inversion H; subst; cbn; auto|].
      destruct (ch =? 1); [destruct (take w (l_mut (get_link y slot))); inversion H; subst; cbn; auto|inversion H; subst; auto].
    + destruct (ch =? 0); [|inversion H; subst; auto]. destruct (take w (l_ack (get_link y slot))) as [picked rest]. inversion H; subst.
      cbn. auto.
Qed.

(* how a client app changes in one step *)
Inductive client_evolves (c : client) : client -> Prop :=
| ce_same : client_evolves c c
| ce_frame ops c' out : client_frame c ops = Ok (c', out) -> client_evolves c c'
| ce_status st : client_evolves c (set_status c st)
| ce_upd p : client_evolves c (fold_left deliver_update p c)
| ce_mut p : client_evolves c (fold_left deliver_mutate p c).

Lemma al_get_insert_cases {V} k (v : V) l k' x :
  al_get k' (al_insert k v l) = Some x -> (k' = k /\ x = v) \/ (k' <> k /\ al_get k' l = Some x).
Proof.
  destruct (N.eq_dec k' k) as [->|Hne]; [rewrite al_get_insert_same; intros E; inversion E; auto|].
  rewrite al_get_insert_other by exact Hne. auto.
Qed.

(* ... by kind of step *)
Definition client_evolves_by (st : step) (c c' : client) : Prop :=
  match st with
  | StCFrame _ ops => c' = c \/ exists out, client_frame c ops = Ok (c', out)
  | StConnect _ _ => c' = c \/ c' = set_status c Connected
  | StDisconnect _ => c' = c \/ c' = set_status c Disconnected
  | StDeliver _ _ _ _ | StDrop _ _ _ _ =>
    c' = c \/ (exists p, c' = fold_left deliver_update p c) \/ (exists p, c' = fold_left deliver_mutate p c)
  | _ => c' = c
  end.

Lemma evolves_by_evolves st c c' : client_evolves_by st c c' -> client_evolves c c'.
Proof.
  destruct st; cbn [client_evolves_by]; intros H; try (subst c'; constructor).
  - destruct H as [-> | ->]; constructor.
  - destruct H as [-> | ->]; constructor.
  - destruct H as [->|[out H]]; [constructor|econstructor 2; exact H].
  - destruct H as [->|[[p ->]| [p ->]]]; constructor.
  - destruct H as [->|[[p ->]| [p ->]]]; constructor.
Qed.

Lemma step_client_kind y st y' o slot c' : sys_step y st = Ok (y', o) -> al_get slot (y_clients y') = Some c' ->
  exists c, al_get slot (y_clients y) = Some c /\ client_evolves_by st c c'.
Proof.
  intros H Hc'. destruct st as [| |sl max|sl|sl|tick dt cleanup ops parts|sl ops|sl s2c ch w|sl s2c ch w];
    cbn [sys_step client_evolves_by] in *.
  - inversion H; subst. exists c'. split; [exact Hc'|reflexivity].
  - inversion H; subst. exists c'. split; [exact Hc'|reflexivity].
  - destruct (find_client (y_server y) sl); [inversion H; subst; exists c'; split; [exact Hc'|left; reflexivity]|].
    destruct (al_get sl (y_clients y)) as [cl|] eqn:Ec; [|inversion H; subst; exists c'; split; [exact Hc'|left; reflexivity]].
    destruct (sv_running (y_server y)); inversion H; subst; [|exists c'; split; [exact Hc'|left; reflexivity]].
    cbn [set_client set_server y_clients] in Hc'. apply al_get_insert_cases in Hc'. destruct Hc' as [[-> ->]|[Hne Hc']].
    + exists cl. split; [exact Ec|right; reflexivity].
    + exists c'. split; [exact Hc'|left; reflexivity].
  - inversion H; subst. exists c'. split; [exact Hc'|reflexivity].
  - destruct (al_get sl (y_clients y)) as [cl|] eqn:Ec; inversion H; subst; [|exists c'; split; [exact Hc'|left; reflexivity]].
    cbn [clear_link set_link set_client set_server y_clients] in Hc'. apply al_get_insert_cases in Hc'. destruct Hc' as [[-> ->]|[Hne Hc']].
    + exists cl. split; [exact Ec|right; reflexivity].
    + exists c'. split; [exact Hc'|left; reflexivity].
  - destruct (server_frame (y_cfg y) (y_server y) tick dt cleanup ops parts) as [[s' fo]| |]; cbn [bind] in H; try discriminate.
    inversion H; subst. rewrite (proj2 (proj2 (enqueue_fields _ _))) in Hc'. exists c'. split; [exact Hc'|reflexivity].
  - destruct (al_get sl (y_clients y)) as [cl|] eqn:Ec; [|inversion H; subst; exists c'; split; [exact Hc'|left; reflexivity]].
    destruct (client_frame cl ops) as [[cl' cfo]| |] eqn:Ef; cbn [bind] in H; try discriminate.
    assert (H' : sys_step y (StCFrame sl ops) = Ok (y', o)) by (cbn [sys_step]; rewrite Ec, Ef; exact H).
    destruct (cframe_sys y sl ops cl cl' cfo y' o Ec Ef H') as (_ & E & _). rewrite E in Hc'.
    apply al_get_insert_cases in Hc'. destruct Hc' as [[-> ->]|[Hne Hc']].
    + exists cl. split; [exact Ec|]. right. exists cfo. exact Ef.
    + exists c'. split; [exact Hc'|left; reflexivity].
  - destruct (al_get sl (y_clients y)) as [cl|] eqn:Ec; [|inversion H; subst; exists c'; split; [exact Hc'|left; reflexivity]]. destruct s2c.
    + destruct (ch =? 0).
      { destruct (take w (l_upd (get_link y sl))) as [picked rest]. inversion H; subst.
        cbn [set_client set_link y_clients] in Hc'. apply al_get_insert_cases in Hc'. destruct Hc' as [[-> ->]|[Hne Hc']].
        - exists cl. split; [exact Ec|]. right. left. exists picked. reflexivity.
        - exists c'. split; [exact Hc'|left; reflexivity]. }
      destruct (ch =? 1); [|inversion H; subst; exists c'; split; [exact Hc'|left; reflexivity]].
      destruct (take w (l_mut (get_link y sl))) as [picked rest]. inversion H; subst.
      cbn [set_client set_link y_clients] in Hc'. apply al_get_insert_cases in Hc'. destruct Hc' as [[-> ->]|[Hne Hc']].
      * exists cl. split; [exact Ec|]. right. right. exists picked. reflexivity.
      * exists c'. split; [exact Hc'|left; reflexivity].
    + destruct (ch =? 0); [destruct (take w (l_ack (get_link y sl)))|]; inversion H; subst; exists c'; (split; [exact Hc'|left; reflexivity]).
  - destruct (al_get sl (y_clients y)) as [cl|] eqn:Ec; [|inversion H; subst; exists c'; split; [exact Hc'|left; reflexivity]]. destruct s2c.
    + destruct (ch =? 0).
      { destruct (take w (l_upd (get_link y sl))) as [picked rest]. inversion H; subst.
        cbn [set_client set_link y_clients] in Hc'. apply al_get_insert_cases in Hc'. destruct Hc' as [[-> ->]|[Hne Hc']].
        - exists cl. split; [exact Ec|left; reflexivity].
        - exists c'. split; [exact Hc'|left; reflexivity]. }
      destruct (ch =? 1); [|inversion H; subst; exists c'; split; [exact Hc'|left; reflexivity]].
      destruct (take w (l_mut (get_link y sl))) as [picked rest]. inversion H; subst.
      cbn [set_client set_link y_clients] in Hc'. apply al_get_insert_cases in Hc'. destruct Hc' as [[-> ->]|[Hne Hc']].
      * exists cl. split; [exact Ec|left; reflexivity].
      * exists c'. split; [exact Hc'|left; reflexivity].
    + destruct (ch =? 0); [destruct (take w (l_ack (get_link y sl)))|]; inversion H; subst; exists c'; (split; [exact Hc'|left; reflexivity]).
Qed.

Lemma step_client y st y' o slot c' : sys_step y st = Ok (y', o) -> al_get slot (y_clients y') = Some c' ->
  exists c, al_get slot (y_clients y) = Some c /\ client_evolves c c'.
Proof.
  intros H Hc'. destruct (step_client_kind _ _ _ _ _ _ H Hc') as (c & Hc & Hev). exists c. split; [exact Hc|].
  exact (evolves_by_evolves _ _ _ Hev).
Qed.

(* ---------- client-local facts ---------- *)

(* the two `Local`s of the run conditions agree; a client that did not see itself connected in its last frame has
   update tick 0 (`reset`, or never connected) *)
Definition cloc (c : client) : Prop :=
  cl_last_connected c = cl_last_not_disconnected c /\ (cl_last_connected c = false -> cl_upd_tick c = 0).

Lemma deliver_updates_lc p : forall cl, cl_last_connected (fold_left deliver_update p cl) = cl_last_connected cl /\
  cl_last_not_disconnected (fold_left deliver_update p cl) = cl_last_not_disconnected cl /\
  cl_upd_tick (fold_left deliver_update p cl) = cl_upd_tick cl /\ cl_status (fold_left deliver_update p cl) = cl_status cl.
Proof.
  induction p as [|u t IH]; intros cl; cbn [fold_left]; [auto|]. destruct (IH (deliver_update cl u)) as (A & B & C & D).
  rewrite A, B, C, D. unfold deliver_update. destruct (cl_status cl) eqn:E; cbn; rewrite ?E; auto.
Qed.

Lemma deliver_mutates_lc p : forall cl, cl_last_connected (fold_left deliver_mutate p cl) = cl_last_connected cl /\
  cl_last_not_disconnected (fold_left deliver_mutate p cl) = cl_last_not_disconnected cl /\
  cl_upd_tick (fold_left deliver_mutate p cl) = cl_upd_tick cl /\ cl_status (fold_left deliver_mutate p cl) = cl_status cl /\
  cl_inbox_upd (fold_left deliver_mutate p cl) = cl_inbox_upd cl.
Proof.
  induction p as [|u t IH]; intros cl; cbn [fold_left]; [auto 6|]. destruct (IH (deliver_mutate cl u)) as (A & B & C & D & E).
  rewrite A, B, C, D, E. unfold deliver_mutate. destruct (cl_status cl) eqn:E1; cbn; rewrite ?E1; auto 6.
Qed.

(* a client frame: status kept, locals set, update tick *)
Lemma client_frame_fields c ops c' out : client_frame c ops = Ok (c', out) ->
  cl_status c' = cl_status c /\
  cl_last_connected c' = (match cl_status c with Connected => true | Disconnected => false end) /\
  cl_last_not_disconnected c' = (match cl_status c with Connected => true | Disconnected => false end) /\
  cl_upd_tick c' = match cl_status c with
                   | Connected => last (map u_tick (cl_inbox_upd c)) (cl_upd_tick c)
                   | Disconnected => if cl_last_not_disconnected c then 0 else cl_upd_tick c
                   end.
Proof.
  intros H. unfold client_frame in H. apply bind_ok in H. destruct H as [[c2 out2] [E H]]. inversion H; subst c' out. clear H.
  cbn [set_locals cl_status cl_last_connected cl_last_not_disconnected cl_upd_tick].
  assert (Hst : forall ops c, cl_status (fold_left apply_cop ops c) = cl_status c).
  { intros ops0. induction ops0 as [|op t IH]; intros c0; cbn [fold_left]; [reflexivity|]. rewrite IH.
    destruct op; cbn [apply_cop].
    - destruct (existsb _ _); [reflexivity|]. reflexivity.
    - destruct (find _ _) as [[cid x]|]; [|reflexivity]. destruct (ce_alive x); reflexivity. }
  rewrite Hst, cops_keep_tick. destruct (cl_status c) eqn:Es.
  - inversion E; subst c2 out2. rewrite andb_true_r. destruct (cl_last_not_disconnected c); cbn; rewrite Es; auto.
  - rewrite andb_false_r in E.
    assert (Hs2 : cl_status c2 = Connected).
    { destruct (frame_clears_inbox c ops (set_locals (fold_left apply_cop ops c2)) out2 Es) as [_ Hs].
      - unfold client_frame. rewrite Es, andb_false_r, E. reflexivity.
      - cbn [set_locals cl_status] in Hs. rewrite Hst in Hs. exact Hs. }
    rewrite Hs2. split; [reflexivity|]. split; [reflexivity|]. split; [reflexivity|].
    exact (replication_tick_is_last c c2 out2 E).
Qed.

Lemma cloc_evolves c c' : cloc c -> client_evolves c c' -> cloc c'.
Proof.
  intros [A B] H. destruct H as [|ops c' out Hf|st|p|p].
  - split; assumption.
  - destruct (client_frame_fields _ _ _ _ Hf) as (_ & F1 & F2 & F3). unfold cloc. rewrite F1, F2, F3. split; [reflexivity|].
    destruct (cl_status c); [|discriminate]. intros _. destruct (cl_last_not_disconnected c) eqn:E; [reflexivity|]. apply B. congruence.
  - split; [exact A|exact B].
  - destruct (deliver_updates_lc p c) as (F1 & F2 & F3 & _). unfold cloc. rewrite F1, F2, F3. auto.
  - destruct (deliver_mutates_lc p c) as (F1 & F2 & F3 & _). unfold cloc. rewrite F1, F2, F3. auto.
Qed.

Lemma cloc_init track : cloc (client_init track).
Proof. split; reflexivity. Qed.

(* ================================================================== *)
(* 2. `no_tick0`: what the scan knows about the server                *)
(* ================================================================== *)

Definition t0_ok (script : list step) (s : server) : Prop :=
  match fold_left t0_step script (T0A false false) with
  | T0A started connected => (sv_running s = true -> started = true) /\ (connected = false -> sv_clients s = [])
  | T0ok => sv_dirty s = false
  | T0bad => True
  end.

Lemma t0_ok_step script y st y' o : t0_ok script (y_server y) -> sys_step y st = Ok (y', o) -> t0_ok (script ++ [st]) (y_server y').
Proof.
  unfold t0_ok. rewrite fold_left_app. cbn [fold_left]. intros H0 H.
  destruct (is_sframe st) eqn:Esf.
  - destruct st; try discriminate. cbn [sys_step] in H.
    destruct (server_frame (y_cfg y) (y_server y) tick dt cleanup ops parts) as [[s' fo]| |] eqn:Ef; cbn [bind] in H; try discriminate.
    inversion H; subst y' o. rewrite (proj1 (proj2 (enqueue_fields _ _))). cbn [set_server y_server].
    destruct (server_frame_ticks_v _ _ _ _ _ _ _ _ _ Ef) as (K1 & _).
    destruct (fold_left t0_step script (T0A false false)) as [started connected| |]; cbn [t0_step]; [|exact K1|exact I].
    destruct tick; [exact K1|]. destruct (started && connected); [exact I|exact K1].
  - destruct (step_server y st y' o Esf H) as (Ht & Hd & Hs).
    destruct (fold_left t0_step script (T0A false false)) as [started connected| |]; [|destruct st; cbn [t0_step]; congruence|destruct st; exact I].
    destruct H0 as [A B].
    destruct st as [| |slot max|slot|slot|tick dt cleanup ops parts|slot ops|slot s2c ch w|slot s2c ch w]; cbn [t0_step]; try discriminate.
    + rewrite Hs. cbn. split; [reflexivity|exact B].
    + rewrite Hs. cbn. split; [discriminate|exact B].
    + destruct Hs as [Hs|(Hf & Hr & Hs)]; rewrite Hs.
      * split; [exact A|]. intros E. apply B. destruct connected; [discriminate|reflexivity].
      * destruct (connect_client_td (y_cfg y) (y_server y) slot max) as (_ & _ & Er). rewrite Er. split; [exact A|].
        rewrite (A Hr). rewrite orb_true_r. discriminate.
    + rewrite Hs. destruct (authorize_client_td (y_cfg y) (y_server y) slot) as (_ & _ & Er). rewrite Er. split; [exact A|].
      intros E. specialize (B E). unfold authorize_client, find_client. rewrite B. cbn [find]. exact B.
    + destruct Hs as [Hs|Hs]; rewrite Hs; [split; assumption|].
      split; [exact A|]. intros E. specialize (B E). unfold disconnect_client. cbn [sv_clients]. rewrite B. reflexivity.
    + destruct Hs as [Hc Hr]. rewrite Hc, Hr. split; assumption.
    + destruct Hs as [Hc Hr]. rewrite Hc, Hr. split; assumption.
    + destruct Hs as [Hc Hr]. rewrite Hc, Hr. split; assumption.
Qed.

Lemma t0_ok_init : t0_ok [] server_init.
Proof. cbn. split; [discriminate|reflexivity]. Qed.

Lemma no_tick0_prefix_ok a b : no_tick0 (a ++ b) = true -> fold_left t0_step a (T0A false false) <> T0bad.
Proof.
  unfold no_tick0. rewrite fold_left_app. intros H E. rewrite E in H.
  assert (Hb : forall l, fold_left t0_step l T0bad = T0bad) by (induction l as [|x l IH]; [reflexivity|exact IH]).
  rewrite Hb in H. discriminate.
Qed.

(* a server frame of a running server that has a client record does not replicate at tick 0: when it sends anything it
   has incremented the tick *)
Lemma t0_frame_ticks script y tick dt cleanup ops parts s' fo :
  t0_ok script (y_server y) -> no_tick0 (script ++ [StSFrame tick dt cleanup ops parts]) = true ->
  server_frame (y_cfg y) (y_server y) tick dt cleanup ops parts = Ok (s', fo) ->
  sv_clients (y_server y) <> [] -> fo_clients fo <> [] -> tick = true.
Proof.
  intros H0 Hn Ef Hcl Hne. destruct (server_frame_ticks_v _ _ _ _ _ _ _ _ _ Ef) as (_ & _ & _ & _ & K5).
  destruct (K5 Hne) as [Hr [Ht|Hd]]; [exact Ht|]. destruct tick; [reflexivity|]. exfalso.
  unfold t0_ok in H0. unfold no_tick0 in Hn. rewrite fold_left_app in Hn. cbn [fold_left] in Hn.
  destruct (fold_left t0_step script (T0A false false)) as [started connected| |]; [|congruence|discriminate].
  destruct H0 as [A B]. cbn [t0_step] in Hn. rewrite (A Hr) in Hn. destruct connected; [discriminate|]. apply Hcl. apply B. reflexivity.
Qed.

(* ================================================================== *)
(* 3. what a server frame / a client frame does to the event layer    *)
(* ================================================================== *)

(* the emissions of a server frame, resolved against the connections that exist *)
Definition resolved_emits (e : syse) (emit : list (sety * (N * bool * bool) * N * option N)) : list sev :=
  fold_right (fun em acc =>
                let '(ty, m, seq, ent) := em in
                match resolve_mode e m with
                | Some mode => mkSev ty mode seq ent :: acc
                | None => acc
                end) [] emit.

Definition out_ran (ob : out) : bool := match ob with OSFrame fo _ => fo_ran fo | _ => false end.

(* the state in which `send_or_buffer` runs *)
Definition sframe_mid (e : syse) (y' : sys) (emit : list (sety * (N * bool * bool) * N * option N)) : syse :=
  mkSysE y' (e_uids e) (e_next_uid e) (resolved_emits e emit) (e_buffer e) [] (e_clients e) (e_s2c e) (e_c2s e).

Lemma sframe_unfold e tick dt cleanup ops parts emit e' o :
  syse_step e (ESFrame tick dt cleanup ops parts emit) = Ok (e', o) ->
  exists y' ob,
    sys_step (e_sys e) (StSFrame tick dt cleanup ops parts) = Ok (y', ob) /\ e_sys e' = y' /\ eo_base o = ob /\
    e_clients e' = e_clients e /\ e_c2s e' = e_c2s e /\ e_next_uid e' = e_next_uid e /\
    if sv_running (y_server (e_sys e)) then
      let e1 := sframe_mid e y' emit in
      let e2 := fst (send_or_buffer e1) in
      eo_from o = snd (server_receive e) /\
      if out_ran ob
      then eo_sent o = snd (send_or_buffer e1) ++ snd (send_buffered e2) /\
           e_s2c e' = e_s2c (fst (send_buffered e2)) /\ e_buffer e' = []
      else eo_sent o = snd (send_or_buffer e1) /\ e_s2c e' = e_s2c e2 /\ e_buffer e' = e_buffer e2
    else eo_sent o = [] /\ eo_from o = [] /\ e_s2c e' = e_s2c e /\
         e_buffer e' = (if sv_last_running (y_server (e_sys e)) then [] else e_buffer e).
Proof.
  unfold syse_step.
  destruct (sv_running (y_server (e_sys e))) eqn:Hrb.
  - destruct (server_receive e) as [e0 from] eqn:Hsr.
    assert (Hsys : e_sys e0 = e_sys e) by (unfold server_receive in Hsr; injection Hsr as <- _; reflexivity).
    rewrite Hsys.
    destruct (sys_step (e_sys e) (StSFrame tick dt cleanup ops parts)) as [[y' o']| |]; cbn [bind]; try discriminate.
    assert (He1 : mkSysE y' (e_uids e0) (e_next_uid e0)
                    (fold_right (fun em acc => let '(ty, m, seq, ent) := em in
                                   match resolve_mode e0 m with Some mode => mkSev ty mode seq ent :: acc | None => acc end) [] emit)
                    (e_buffer e0) (e_inbox e0) (e_clients e0) (e_s2c e0) (e_c2s e0) = sframe_mid e y' emit).
    { unfold server_receive in Hsr. injection Hsr as <- _. reflexivity. }
    rewrite He1. set (e1 := sframe_mid e y' emit).
    destruct (send_or_buffer e1) as [e2 sent1] eqn:Hsob.
    pose proof (send_or_buffer_state e1) as Ho. cbv zeta in Ho. rewrite Hsob in Ho. cbn [fst snd] in Ho.
    destruct Ho as (He2 & Hb2 & Hs2 & Hu2 & Hn2 & Hi2 & Hc2 & Hcs2 & Hq2).
    cbn [negb andb fst snd].
    destruct (match o' with OSFrame fo _ => fo_ran fo | _ => false end) eqn:Eran.
    + destruct (send_buffered e2) as [e3 sent2] eqn:Hsb.
      pose proof (send_buffered_state e2) as Ho. cbv zeta in Ho. rewrite Hsb in Ho. cbn [fst] in Ho.
      destruct Ho as (Hb3 & He3 & Hs3 & Hu3 & Hn3 & Hi3 & Hc3 & Hcs3).
      intros H. injection H as <- <-. exists y', o'. unfold out_ran. rewrite Eran.
      unfold prune_uids. cbn [e_sys eo_base eo_sent eo_from e_clients e_c2s e_s2c e_buffer e_next_uid].
      split; [reflexivity|]. split; [rewrite Hs3, Hs2; reflexivity|]. split; [reflexivity|]. split; [rewrite Hc3, Hc2; reflexivity|].
      split; [rewrite Hcs3, Hcs2; reflexivity|]. split; [rewrite Hn3, Hn2; reflexivity|].
      fold e1. rewrite Hsob. cbn [fst snd]. rewrite Hsb. cbn [fst snd]. auto.
    + intros H. injection H as <- <-. exists y', o'. unfold out_ran. rewrite Eran.
      unfold prune_uids. cbn [e_sys eo_base eo_sent eo_from e_clients e_c2s e_s2c e_buffer e_next_uid].
      split; [reflexivity|]. split; [rewrite Hs2; reflexivity|]. split; [reflexivity|]. split; [rewrite Hc2; reflexivity|].
      split; [rewrite Hcs2; reflexivity|]. split; [rewrite Hn2; reflexivity|]. rewrite app_nil_r.
      fold e1. rewrite Hsob. cbn [fst snd]. auto.
  - destruct (sys_step (e_sys e) (StSFrame tick dt cleanup ops parts)) as [[y' o']| |]; cbn [bind]; try discriminate.
    cbn [negb andb].
    destruct (sv_last_running (y_server (e_sys e))); intros H; injection H as <- <-; exists y', o'; unfold prune_uids;
      cbn [e_sys eo_base eo_sent eo_from e_clients e_c2s e_s2c e_buffer e_next_uid]; auto 10.
Qed.

Lemma msgs_for_app slot (a b : list (N * smsg)) : msgs_for slot (a ++ b) = msgs_for slot a ++ msgs_for slot b.
Proof. unfold msgs_for. rewrite filter_app, map_app. reflexivity. Qed.

Lemma in_msgs_for slot (l : list (N * smsg)) m : In m (msgs_for slot l) <-> In (slot, m) l.
Proof.
  unfold msgs_for. rewrite in_map_iff. split.
  - intros [[s m'] [E H]]. cbn [snd] in E. subst m'. apply filter_In in H. destruct H as [H Hs]. cbn [fst] in Hs.
    apply N.eqb_eq in Hs. subst s. exact H.
  - intros H. exists (slot, m). split; [reflexivity|]. apply filter_In. split; [exact H|]. cbn [fst]. apply N.eqb_refl.
Qed.

(* channels and recipients of a server frame: every message goes to a slot that has a record; a stamped message
   carries the update tick of the authorized record of its slot AFTER the frame's replication *)
Lemma sframe_full e tick dt cleanup ops parts emit e' o :
  syse_step e (ESFrame tick dt cleanup ops parts emit) = Ok (e', o) ->
  e_clients e' = e_clients e /\
  (forall slot, chan_s2c e' slot = chan_s2c e slot ++ msgs_for slot (eo_sent o)) /\
  (forall slot m, In (slot, m) (eo_sent o) ->
     exists cl, find_client (y_server (e_sys e')) slot = Some cl /\
       (sm_tick m = None \/ (sc_authorized cl = true /\ sm_tick m = Some (ct_update_tick (sc_ticks cl))))).
Proof.
  intros H. destruct (sframe_unfold _ _ _ _ _ _ _ _ _ H) as (y' & ob & Hs & Hy & Hob & Hc & _ & _ & Hrest).
  split; [exact Hc|]. destruct (sv_running (y_server (e_sys e))).
  2:{ destruct Hrest as (Hsent & _ & Hq & _). rewrite Hsent. split.
      - intros slot. unfold chan_s2c. rewrite Hq. cbn [msgs_for filter map]. rewrite app_nil_r. reflexivity.
      - intros slot m []. }
  cbv zeta in Hrest. set (e1 := sframe_mid e y' emit) in *. destruct Hrest as [_ Hrest].
  assert (Hindep : forall slot m, In (slot, m) (snd (send_or_buffer e1)) ->
            exists cl, find_client (y_server y') slot = Some cl /\ sm_tick m = None).
  { intros slot m Hin. apply in_send_or_buffer in Hin. destruct Hin as (ev & _ & _ & Hr & ->).
    apply recipients_spec in Hr. destruct Hr as (uid & cl & _ & Hf & _). exists cl. split; [exact Hf|reflexivity]. }
  assert (Hs2 : e_sys (fst (send_or_buffer e1)) = y').
  { destruct (send_or_buffer_state e1) as (_ & _ & E & _). exact E. }
  assert (Hdep : forall slot m, In (slot, m) (snd (send_buffered (fst (send_or_buffer e1)))) ->
            exists cl, find_client (y_server y') slot = Some cl /\ sc_authorized cl = true /\
                       sm_tick m = Some (ct_update_tick (sc_ticks cl))).
  { intros slot m Hin. apply in_send_buffered in Hin. destruct Hin as (set & ev & cl & _ & _ & Hr & Hf & ->).
    apply recipients_spec in Hr. destruct Hr as (uid & cl2 & _ & Hf2 & _ & Ha & _). rewrite Hs2 in *.
    assert (cl2 = cl) by congruence. subst cl2. exists cl. split; [exact Hf|]. split; [apply Ha; reflexivity|reflexivity]. }
  rewrite Hy. destruct (out_ran ob).
  - destruct Hrest as (Hsent & Hq & _). rewrite Hsent. split.
    + intros slot. unfold chan_s2c. rewrite Hq. fold (chan_s2c (fst (send_buffered (fst (send_or_buffer e1)))) slot).
      rewrite send_buffered_chan, send_or_buffer_chan, msgs_for_app, app_assoc. reflexivity.
    + intros slot m Hin. apply in_app_or in Hin. destruct Hin as [Hin|Hin].
      * destruct (Hindep slot m Hin) as (cl & A & B). exists cl. auto.
      * destruct (Hdep slot m Hin) as (cl & A & B & C). exists cl. auto.
  - destruct Hrest as (Hsent & Hq & _). rewrite Hsent. split.
    + intros slot. unfold chan_s2c. rewrite Hq. fold (chan_s2c (fst (send_or_buffer e1)) slot).
      rewrite send_or_buffer_chan. reflexivity.
    + intros slot m Hin. destruct (Hindep slot m Hin) as (cl & A & B). exists cl. auto.
Qed.

Lemma cframe_unfold e slot ops emit e' o : clients_dom e ->
  syse_step e (ECFrame slot ops emit) = Ok (e', o) ->
  sys_step (e_sys e) (StCFrame slot ops) = Ok (e_sys e', eo_base o) /\
  e_s2c e' = e_s2c e /\ e_uids e' = e_uids e /\ e_buffer e' = e_buffer e /\ e_inbox e' = e_inbox e /\
  e_next_uid e' = e_next_uid e /\ eo_sent o = [] /\ eo_from o = [] /\
  (forall s, s <> slot -> al_get s (e_clients e') = al_get s (e_clients e)) /\
  (forall s, s <> slot -> chan_c2s e' s = chan_c2s e s) /\
  match al_get slot (y_clients (e_sys e)) with
  | None => e' = e /\ eo_got o = [] /\ eo_csent o = []
  | Some cb =>
    exists ce cl, al_get slot (e_clients e) = Some ce /\ al_get slot (y_clients (e_sys e')) = Some cl /\
      (exists out, client_frame cb ops = Ok (cl, out)) /\
      match cl_status cb with
      | Connected =>
        let ce0 := if negb (cl_last_connected cb) then mkCE [] (ce_inbox ce) [] else ce in
        let r := client_receive cl ce0 in
        al_get slot (e_clients e') = Some (mkCE (ce_queue (fst r)) (ce_inbox (fst r)) []) /\ eo_got o = snd r /\
        eo_csent o = client_send cl (mkCE (ce_queue (fst r)) (ce_inbox (fst r)) emit) /\
        chan_c2s e' slot = chan_c2s e slot ++ eo_csent o
      | Disconnected =>
        al_get slot (e_clients e') = Some (mkCE (ce_queue ce) (ce_inbox ce) []) /\ eo_got o = [] /\ eo_csent o = [] /\
        chan_c2s e' slot = chan_c2s e slot
      end
  end.
Proof.
  intros Hdom H. pose proof (cframe_sys_e _ _ _ _ _ _ Hdom H) as Hsys. split; [exact Hsys|]. revert H. unfold syse_step.
  destruct (al_get slot (y_clients (e_sys e))) as [cb|] eqn:Hcb.
  2:{ intros H. injection H as <- <-. cbn [eo_sent eo_from eo_got eo_csent]. repeat split; auto. }
  destruct (al_get slot (e_clients e)) as [ce|] eqn:Hce.
  2:{ rewrite (Hdom slot Hce) in Hcb. discriminate. }
  cbn [sys_step] in Hsys. rewrite Hcb in Hsys.
  destruct (client_frame cb ops) as [[cl' cfo]| |] eqn:Ef; cbn [bind] in Hsys; try discriminate.
  assert (Hs' : sys_step (e_sys e) (StCFrame slot ops) = Ok (e_sys e', eo_base o)) by (cbn [sys_step]; rewrite Hcb, Ef; exact Hsys).
  destruct (cframe_sys (e_sys e) slot ops cb cl' cfo _ _ Hcb Ef Hs') as (_ & Ecl & _).
  rewrite Hs'. cbn [bind]. rewrite Ecl, al_get_insert_same.
  assert (Hq : forall q, al_get slot (al_insert slot q (e_c2s e)) = Some q) by (intros; apply al_get_insert_same).
  destruct (cl_status cb) eqn:Est; cbn [andb].
  - intros H. injection H as <- <-. cbn [e_s2c e_uids e_buffer e_inbox e_next_uid e_clients e_c2s eo_sent eo_from eo_got eo_csent ce_queue ce_inbox].
    repeat (split; [reflexivity|]). split; [intros s Hne; apply al_get_insert_other; exact Hne|].
    split; [intros s Hne; unfold chan_c2s; cbn [e_c2s]; rewrite al_get_insert_other by exact Hne; reflexivity|].
    exists ce, cl'. split; [reflexivity|]. split; [reflexivity|]. split; [exists cfo; reflexivity|].
    split; [apply al_get_insert_same|]. split; [reflexivity|]. split; [reflexivity|].
    unfold chan_c2s. cbn [e_c2s]. rewrite al_get_insert_same. cbn [opt_list]. rewrite app_nil_r.
    destruct (al_get slot (e_c2s e)); reflexivity.
  - destruct (client_receive cl' (if negb (cl_last_connected cb) then mkCE [] (ce_inbox ce) [] else ce)) as [ce1 got] eqn:Hr.
    intros H. injection H as <- <-. cbn [e_s2c e_uids e_buffer e_inbox e_next_uid e_clients e_c2s eo_sent eo_from eo_got eo_csent ce_queue ce_inbox].
    repeat (split; [reflexivity|]). split; [intros s Hne; apply al_get_insert_other; exact Hne|].
    split; [intros s Hne; unfold chan_c2s; cbn [e_c2s]; rewrite al_get_insert_other by exact Hne; reflexivity|].
    exists ce, cl'. split; [reflexivity|]. split; [reflexivity|]. split; [exists cfo; reflexivity|].
    cbv zeta. rewrite Hr. cbn [fst snd].
    split; [apply al_get_insert_same|]. split; [reflexivity|]. split; [reflexivity|].
    unfold chan_c2s. cbn [e_c2s]. rewrite al_get_insert_same. cbn [opt_list].
    destruct (al_get slot (e_c2s e)); reflexivity.
Qed.

Lemma ebase_unfold e b e' o : syse_step e (EBase b) = Ok (e', o) ->
  sys_step (e_sys e) b = Ok (e_sys e', eo_base o) /\
  eo_sent o = [] /\ eo_got o = [] /\ eo_from o = [] /\ eo_csent o = [] /\ e_emitted e' = e_emitted e /\
  match b with
  | StDisconnect slot =>
    e_s2c e' = al_insert slot [] (e_s2c e) /\
    e_clients e' = al_insert slot (match al_get slot (e_clients e) with
                                   | Some ce => mkCE (ce_queue ce) [] (ce_emitted ce)
                                   | None => cevents_init end) (e_clients e) /\
    e_c2s e' = al_insert slot [] (e_c2s e) /\ e_uids e' = al_remove slot (e_uids e) /\
    e_inbox e' = filter (fun m => negb (fst m =? slot)) (e_inbox e) /\ e_buffer e' = e_buffer e /\ e_next_uid e' = e_next_uid e
  | StStop =>
    e_s2c e' = map (fun kv => (fst kv, [])) (e_s2c e) /\ e_clients e' = e_clients e /\
    e_c2s e' = map (fun kv => (fst kv, [])) (e_c2s e) /\ e_uids e' = e_uids e /\ e_inbox e' = [] /\
    e_buffer e' = e_buffer e /\ e_next_uid e' = e_next_uid e
  | StConnect slot _ =>
    e_s2c e' = e_s2c e /\ e_clients e' = e_clients e /\ e_c2s e' = e_c2s e /\ e_inbox e' = e_inbox e /\
    match find_client (y_server (e_sys e)) slot, find_client (y_server (e_sys e')) slot with
    | None, Some _ =>
      e_uids e' = al_insert slot (e_next_uid e) (e_uids e) /\ e_next_uid e' = e_next_uid e + 1 /\
      e_buffer e' = map (fun set => mkBSet (bs_events set) (bs_excluded set ++ [e_next_uid e])) (e_buffer e)
    | _, _ => e_uids e' = e_uids e /\ e_next_uid e' = e_next_uid e /\ e_buffer e' = e_buffer e
    end
  | _ =>
    e_s2c e' = e_s2c e /\ e_clients e' = e_clients e /\ e_c2s e' = e_c2s e /\ e_uids e' = e_uids e /\
    e_inbox e' = e_inbox e /\ e_buffer e' = e_buffer e /\ e_next_uid e' = e_next_uid e
  end.
Proof.
  intros H. split; [exact (proj1 (ebase_sys _ _ _ _ H))|]. revert H. unfold syse_step.
  destruct (sys_step (e_sys e) b) as [[y' ob]| |] eqn:E; cbn [bind]; try discriminate.
  destruct b as [| |slot max|slot|slot|tick dt cleanup ops parts|slot ops|slot s2c ch w|slot s2c ch w];
    try (intros H; injection H as <- <-; cbn [set_sys e_s2c e_clients e_c2s e_uids e_inbox e_buffer e_next_uid e_emitted e_sys eo_sent eo_got eo_from eo_csent]; repeat split; reflexivity).
  destruct (find_client (y_server (e_sys e)) slot) eqn:F1; [intros H; injection H as <- <-; cbn [set_sys e_s2c e_clients e_c2s e_uids e_inbox e_buffer e_next_uid e_emitted e_sys eo_sent eo_got eo_from eo_csent]; repeat split; reflexivity|].
  destruct (find_client (y_server y') slot) eqn:F2; intros H; injection H as <- <-; cbn [set_sys e_s2c e_clients e_c2s e_uids e_inbox e_buffer e_next_uid e_emitted e_sys eo_sent eo_got eo_from eo_csent]; rewrite F2; repeat split; reflexivity.
Qed.

(* ================================================================== *)
(* 4. the invariant                                                   *)
(* ================================================================== *)

Lemma usent_push outs : forall q slot,
  opt_list (al_get slot (fold_left push_upd outs q)) = opt_list (al_get slot q) ++ updates_for slot outs.
Proof.
  unfold updates_for. induction outs as [|o outs IH]; intros q slot; cbn [fold_left flat_map]; [rewrite app_nil_r; reflexivity|].
  rewrite IH. unfold push_upd. destruct (co_update o) as [u|].
  - destruct (co_slot o =? slot) eqn:E.
    + apply N.eqb_eq in E. subst slot. rewrite al_get_insert_same. cbn [opt_list]. rewrite <- app_assoc. reflexivity.
    + rewrite al_get_insert_other; [reflexivity|]. intros ->. rewrite N.eqb_refl in E. discriminate.
  - destruct (co_slot o =? slot); reflexivity.
Qed.

(* a slot without a session: never connected, reset since the last session, left (session ended by `StDisconnect`,
   the client app has not run a frame since), or `StConnect` without effect *)
Definition idle (m : StructE2ESess_proofs.smode) (c : client) : Prop :=
  m = MClean \/ m = MLeft \/ (m = MLive /\ cl_status c = Disconnected).

(* a connection: [sent] / [applied] are the ghost lists of the slot, [lupd] the update messages in flight, [held] the
   event messages the connection holds (in flight, received, queued) *)
Record live_conn (s : server) (slot : N) (lupd : list update_msg) (held : list smsg)
       (sent applied : list update_msg) (c : client) : Prop := mkLiveConn {
  lc_fifo : sent = applied ++ cl_inbox_upd c ++ lupd;
  lc_sorted : StronglySorted N.lt (map u_tick sent);
  lc_bound : forall u, In u sent -> 1 <= u_tick u <= sv_tick s;
  lc_srv : forall cl, find_client s slot = Some cl ->
           if sc_authorized cl then ct_update_tick (sc_ticks cl) = last_tick sent else sent = [];
  lc_cli : cl_upd_tick c = last_tick applied;
  lc_stamps : forall m tk, In m held -> sm_tick m = Some tk -> tk = 0 \/ In tk (map u_tick sent)
}.

Definition slot_part (script : list estep) (e : syse) (g : ughost) (slot : N) : Prop :=
  forall c, al_get slot (y_clients (e_sys e)) = Some c ->
    (idle (emode script slot) c ->
       chan_s2c e slot = [] /\ inbox_of e slot = [] /\ (emode script slot <> MLeft -> cl_last_connected c = false)) /\
    (emode script slot = MLive -> cl_status c = Connected ->
       live_conn (y_server (e_sys e)) slot (l_upd (get_link (e_sys e) slot)) (held_msgs e slot c)
                 (usent g slot) (uapplied g slot) c).

Record tinv (script : list estep) (e : syse) (g : ughost) : Prop := mkTInv {
  ti_t0 : t0_ok (proj_script script) (y_server (e_sys e));
  ti_loc : forall slot c, al_get slot (y_clients (e_sys e)) = Some c -> cloc c;
  ti_slots : forall slot, slot_part script e g slot
}.

(* the general form: the client app may change in what the invariant does not look at, update messages may move from the
   queue to the inbox, the record may be replaced by a fresh authorized one *)
Lemma slot_part_gen script st e g e' g' slot :
  slot_part script e g slot ->
  emode (script ++ [st]) slot = emode script slot ->
  (forall c', al_get slot (y_clients (e_sys e')) = Some c' ->
     exists c, al_get slot (y_clients (e_sys e)) = Some c /\ cl_status c' = cl_status c /\
       cl_last_connected c' = cl_last_connected c /\ cl_upd_tick c' = cl_upd_tick c /\
       (cl_status c = Connected ->
        cl_inbox_upd c' ++ l_upd (get_link (e_sys e') slot) = cl_inbox_upd c ++ l_upd (get_link (e_sys e) slot))) ->
  (forall cl', find_client (y_server (e_sys e')) slot = Some cl' ->
     exists cl, find_client (y_server (e_sys e)) slot = Some cl /\
       (if sc_authorized cl'
        then (if sc_authorized cl then ct_update_tick (sc_ticks cl') = ct_update_tick (sc_ticks cl)
              else ct_update_tick (sc_ticks cl') = 0)
        else sc_authorized cl = false)) ->
  sv_tick (y_server (e_sys e)) <= sv_tick (y_server (e_sys e')) ->
  (chan_s2c e slot = [] -> inbox_of e slot = [] -> chan_s2c e' slot = [] /\ inbox_of e' slot = []) ->
  (forall c c' m, cl_last_connected c' = cl_last_connected c -> In m (held_msgs e' slot c') -> In m (held_msgs e slot c)) ->
  usent g' slot = usent g slot -> uapplied g' slot = uapplied g slot ->
  slot_part (script ++ [st]) e' g' slot.
Proof.
  intros H Hm Hcl Hrec Ht Hidle Hheld Hus Hua c' Hc'. destruct (Hcl c' Hc') as (c & Hc & Es & Elc & Eut & Efifo).
  destruct (H c Hc) as [H1 H2]. rewrite Hm. split.
  - intros Hi. assert (Hi0 : idle (emode script slot) c).
    { destruct Hi as [X|[X|[X Y]]]; [left; exact X|right; left; exact X|right; right; split; [exact X|congruence]]. }
    destruct (H1 Hi0) as (A & B & C). destruct (Hidle A B) as [A' B']. split; [exact A'|]. split; [exact B'|]. rewrite Elc. exact C.
  - intros Hmode Hst. rewrite Es in Hst. destruct (H2 Hmode Hst) as [L1 L2 L3 L4 L5 L6]. rewrite Hus, Hua. constructor.
    + rewrite (Efifo Hst). exact L1.
    + exact L2.
    + intros u Hu. specialize (L3 u Hu). lia.
    + intros cl' Hf'. destruct (Hrec cl' Hf') as (cl & Hf & Hrel). specialize (L4 cl Hf).
      destruct (sc_authorized cl'), (sc_authorized cl); try congruence.
      rewrite L4, Hrel. reflexivity.
    + rewrite Eut. exact L5.
    + intros m tk Hm'. apply L6. exact (Hheld c c' m Elc Hm').
Qed.

(* the slot is not touched by the step (same client, same update queue, same record, same ghost, same mode), or only
   its event messages move: nothing new is held *)
Lemma slot_part_mono script st e g e' g' slot :
  slot_part script e g slot ->
  emode (script ++ [st]) slot = emode script slot ->
  al_get slot (y_clients (e_sys e')) = al_get slot (y_clients (e_sys e)) ->
  l_upd (get_link (e_sys e') slot) = l_upd (get_link (e_sys e) slot) ->
  find_client (y_server (e_sys e')) slot = find_client (y_server (e_sys e)) slot ->
  sv_tick (y_server (e_sys e)) <= sv_tick (y_server (e_sys e')) ->
  (chan_s2c e slot = [] -> inbox_of e slot = [] -> chan_s2c e' slot = [] /\ inbox_of e' slot = []) ->
  (forall c m, In m (held_msgs e' slot c) -> In m (held_msgs e slot c)) ->
  usent g' slot = usent g slot -> uapplied g' slot = uapplied g slot ->
  slot_part (script ++ [st]) e' g' slot.
Proof.
  intros H Hm Hc Hl Hf Ht Hidle Hheld Hus Hua c Hc'. rewrite Hc in Hc'. destruct (H c Hc') as [H1 H2]. rewrite Hm.
  split.
  - intros Hi. destruct (H1 Hi) as (A & B & C). destruct (Hidle A B) as [A' B']. auto.
  - intros Hmode Hst. destruct (H2 Hmode Hst) as [L1 L2 L3 L4 L5 L6]. rewrite Hl, Hus, Hua. constructor; auto.
    + intros u Hu. specialize (L3 u Hu). lia.
    + rewrite Hf. exact L4.
    + intros m tk Hm'. apply L6. apply Hheld. exact Hm'.
Qed.

Lemma slot_part_same script st e g e' g' slot :
  slot_part script e g slot ->
  emode (script ++ [st]) slot = emode script slot ->
  al_get slot (y_clients (e_sys e')) = al_get slot (y_clients (e_sys e)) ->
  l_upd (get_link (e_sys e') slot) = l_upd (get_link (e_sys e) slot) ->
  find_client (y_server (e_sys e')) slot = find_client (y_server (e_sys e)) slot ->
  sv_tick (y_server (e_sys e)) <= sv_tick (y_server (e_sys e')) ->
  chan_s2c e' slot = chan_s2c e slot -> al_get slot (e_clients e') = al_get slot (e_clients e) ->
  usent g' slot = usent g slot -> uapplied g' slot = uapplied g slot ->
  slot_part (script ++ [st]) e' g' slot.
Proof.
  intros H Hm Hc Hl Hf Ht Hch Hce Hus Hua.
  assert (Hin : inbox_of e' slot = inbox_of e slot) by (unfold inbox_of; rewrite Hce; reflexivity).
  assert (Hq : queue_of e' slot = queue_of e slot) by (unfold queue_of; rewrite Hce; reflexivity).
  apply (slot_part_mono script st e g e' g' slot H Hm Hc Hl Hf Ht); auto.
  - rewrite Hch, Hin. auto.
  - intros c m. unfold held_msgs. rewrite Hch, Hin, Hq. auto.
Qed.

Section TICK.
  Variables (cfg0 : cfg) (nclients : N).

  (* what the structural invariant says about a slot without a session / with one *)
  Lemma f_idle_facts script y gs slot c :
    f_inv cfg0 nclients script y gs -> al_get slot (y_clients y) = Some c -> idle (mode_of script slot) c ->
    cl_status c = Disconnected /\ ~ has_rec (y_server y) slot /\ cl_inbox_upd c = [] /\ l_upd (get_link y slot) = [].
  Proof.
    intros [_ _ _ _ Hslots] Hc Hi. destruct (Hslots slot c Hc) as [_ _ _ O4].
    destruct Hi as [Hm|[Hm|[Hm Hs]]]; rewrite Hm in O4; cbn [mode_inv] in O4.
    - destruct O4 as (A & (_ & _ & B & _) & C & D & _). auto.
    - destruct O4 as (A & (B & _) & C & D & _). auto.
    - destruct O4 as (A & B & _). destruct (B Hs) as ((_ & _ & I & _) & L & _). split; [exact Hs|]. split; [|auto].
      intros Hr. apply A in Hr. congruence.
  Qed.

  Lemma f_live_facts script y gs slot c :
    f_inv cfg0 nclients script y gs -> al_get slot (y_clients y) = Some c -> mode_of script slot = MLive -> cl_status c = Connected ->
    has_rec (y_server y) slot /\ sv_running (y_server y) = true.
  Proof.
    intros [_ _ _ _ Hslots] Hc Hm Hs. destruct (Hslots slot c Hc) as [_ _ _ O4]. rewrite Hm in O4. cbn [mode_inv] in O4.
    destruct O4 as (A & _ & C). split; [apply A; exact Hs|exact (proj1 (C Hs))].
  Qed.

  Lemma f_clean_status script y gs slot c :
    f_inv cfg0 nclients script y gs -> al_get slot (y_clients y) = Some c -> mode_of script slot = MClean -> cl_status c = Disconnected.
  Proof. intros Hf Hc Hm. exact (proj1 (f_idle_facts script y gs slot c Hf Hc (or_introl Hm))). Qed.
End TICK.

(* ================================================================== *)
(* 5. steps and the slots they do not touch                           *)
(* ================================================================== *)

Definition step_slot (st : step) : option N :=
  match st with
  | StConnect s _ | StAuthorize s | StDisconnect s | StCFrame s _ | StDeliver s _ _ _ | StDrop s _ _ _ => Some s
  | _ => None
  end.

Lemma mode_step_other sl m st : step_slot st <> Some sl -> st <> StStop -> mode_step sl m st = m.
Proof.
  intros H Hs. destruct st; cbn [mode_step step_slot] in *; try reflexivity; try congruence;
    (destruct (N.eqb_spec slot sl) as [->|Hne]; [congruence|reflexivity]).
Qed.

Lemma find_client_update_other s cnew slot sl : sc_slot cnew = slot -> sl <> slot ->
  find_client (update_client s cnew) sl = find_client s sl.
Proof. intros H1 H2. unfold find_client, update_client, set_clients. cbn [sv_clients]. rewrite H1. apply find_update_other; auto. Qed.

Lemma find_client_connect_other c s slot max sl : sl <> slot ->
  find_client (connect_client c s slot max) sl = find_client s sl.
Proof.
  intros Hne. unfold connect_client. destruct (sv_running s); [|reflexivity]. destruct (find_client s slot); [reflexivity|].
  unfold find_client, set_clients. cbn [sv_clients].
  induction (sv_clients s) as [|a t IH]; cbn [app find].
  - destruct (cfg_auth c); cbn [sc_slot authorized_client]; destruct (N.eqb_spec slot sl); congruence.
  - destruct (sc_slot a =? sl); [reflexivity|exact IH].
Qed.

Lemma find_client_authorize_other c s slot sl : sl <> slot ->
  find_client (authorize_client c s slot) sl = find_client s sl.
Proof.
  intros Hne. unfold authorize_client. destruct (find_client s slot) as [cl|]; [|reflexivity].
  destruct (sc_authorized cl); [reflexivity|]. apply (find_client_update_other s _ slot sl); [reflexivity|exact Hne].
Qed.

Lemma step_other y st y' o sl : sys_step y st = Ok (y', o) -> is_sframe st = false -> st <> StStop ->
  step_slot st <> Some sl ->
  al_get sl (y_clients y') = al_get sl (y_clients y) /\ l_upd (get_link y' sl) = l_upd (get_link y sl) /\
  find_client (y_server y') sl = find_client (y_server y) sl.
Proof.
  intros H Hns Hstop Hsl.
  destruct st as [| |slot max|slot|slot|tick dt cleanup ops parts|slot ops|slot s2c ch w|slot s2c ch w];
    cbn [sys_step is_sframe step_slot] in *; try discriminate; try congruence.
  - inversion H; subst. auto.
  - assert (Hne : sl <> slot) by congruence.
    destruct (find_client (y_server y) slot) eqn:Ef; [inversion H; subst; auto|].
    destruct (al_get slot (y_clients y)) eqn:Ec; [|inversion H; subst; auto].
    destruct (sv_running (y_server y)); inversion H; subst; [|auto].
    cbn [set_client set_server y_clients y_server]. split; [apply al_get_insert_other; exact Hne|]. split; [reflexivity|].
    apply find_client_connect_other. exact Hne.
  - assert (Hne : sl <> slot) by congruence. inversion H; subst. cbn [set_server y_clients y_server].
    split; [reflexivity|]. split; [reflexivity|]. apply find_client_authorize_other. exact Hne.
  - assert (Hne : sl <> slot) by congruence.
    destruct (al_get slot (y_clients y)) eqn:Ec; inversion H; subst; [|auto].
    split; [cbn [clear_link set_link set_client set_server y_clients]; apply al_get_insert_other; exact Hne|].
    split; [unfold clear_link; rewrite get_link_set_link_other by exact Hne; reflexivity|].
    cbn [clear_link set_link set_client set_server y_server].
    destruct (disconnect_forgets_client (y_server y) slot) as (_ & _ & F & _). apply F. exact Hne.
  - assert (Hne : sl <> slot) by congruence.
    destruct (al_get slot (y_clients y)) as [cl|] eqn:Ec; [|inversion H; subst; auto].
    destruct (client_frame cl ops) as [[cl' cfo]| |] eqn:Ef; cbn [bind] in H; try discriminate.
    assert (H' : sys_step y (StCFrame slot ops) = Ok (y', o)) by (cbn [sys_step]; rewrite Ec, Ef; exact H).
    destruct (cframe_sys y slot ops cl cl' cfo y' o Ec Ef H') as (_ & E & L & pcs & S). rewrite E, S.
    split; [apply al_get_insert_other; exact Hne|]. split; [apply L|reflexivity].
  - assert (Hne : sl <> slot) by congruence.
    destruct (al_get slot (y_clients y)) eqn:Ec; [|inversion H; subst; auto]. destruct s2c.
    + destruct (ch =? 0).
      { destruct (take w (l_upd (get_link y slot))); inversion H; subst. cbn [set_client y_clients y_server].
        split; [apply al_get_insert_other; exact Hne|]. split; [|reflexivity].
        change (get_link (set_client (set_link y slot _) slot _) sl) with (get_link (set_link y slot (mkLink l0 (l_mut (get_link y slot)) (l_ack (get_link y slot)))) sl).
        rewrite get_link_set_link_other by exact Hne. reflexivity. }
      destruct (ch =? 1); [|inversion H; subst; auto].
      destruct (take w (l_mut (get_link y slot))); inversion H; subst. cbn [set_client y_clients y_server].
      split; [apply al_get_insert_other; exact Hne|]. split; [|reflexivity].
      change (get_link (set_client (set_link y slot _) slot _) sl) with (get_link (set_link y slot (mkLink (l_upd (get_link y slot)) l0 (l_ack (get_link y slot)))) sl).
      rewrite get_link_set_link_other by exact Hne. reflexivity.
    + destruct (ch =? 0); [|inversion H; subst; auto]. destruct (take w (l_ack (get_link y slot))) as [picked rest]. inversion H; subst.
      cbn [set_server y_clients y_server set_link]. split; [reflexivity|].
      split; [change (get_link (set_server ?a ?b) sl) with (get_link a sl); rewrite get_link_set_link_other by exact Hne; reflexivity|].
      unfold find_client. rewrite (proj1 (deliver_acks_fold_fields slot picked (y_server y))). reflexivity.
  - assert (Hne : sl <> slot) by congruence.
    destruct (al_get slot (y_clients y)) eqn:Ec; [|inversion H; subst; auto]. destruct s2c.
    + destruct (ch =? 0).
      { destruct (take w (l_upd (get_link y slot))); inversion H; subst. cbn [set_client y_clients y_server].
        split; [apply al_get_insert_other; exact Hne|]. split; [|reflexivity].
        change (get_link (set_client (set_link y slot _) slot _) sl) with (get_link (set_link y slot (mkLink l0 (l_mut (get_link y slot)) (l_ack (get_link y slot)))) sl).
        rewrite get_link_set_link_other by exact Hne. reflexivity. }
      destruct (ch =? 1); [|inversion H; subst; auto].
      destruct (take w (l_mut (get_link y slot))); inversion H; subst. cbn [set_client y_clients y_server].
      split; [apply al_get_insert_other; exact Hne|]. split; [|reflexivity].
      change (get_link (set_client (set_link y slot _) slot _) sl) with (get_link (set_link y slot (mkLink (l_upd (get_link y slot)) l0 (l_ack (get_link y slot)))) sl).
      rewrite get_link_set_link_other by exact Hne. reflexivity.
    + destruct (ch =? 0); [|inversion H; subst; auto]. destruct (take w (l_ack (get_link y slot))) as [picked rest]. inversion H; subst.
      cbn [set_server y_clients y_server set_link]. split; [reflexivity|]. split; [|reflexivity].
      change (get_link (set_server ?a ?b) sl) with (get_link a sl). rewrite get_link_set_link_other by exact Hne. reflexivity.
Qed.

(* ================================================================== *)
(* 6. the steps of the event layer proper: channel deliveries         *)
(* ================================================================== *)

Lemma emode_snoc_none script st slot : proj_estep st = [] -> emode (script ++ [st]) slot = emode script slot.
Proof. intros H. unfold emode. rewrite proj_script_snoc, H, app_nil_r. reflexivity. Qed.

Lemma emode_snoc_one script st b slot : proj_estep st = [b] -> emode (script ++ [st]) slot = mode_step slot (emode script slot) b.
Proof. intros H. unfold emode. rewrite proj_script_snoc, H. apply mode_of_snoc. Qed.

Lemma tinv_deliver_s2c script e g slot ty w drop e' o :
  tinv script e g -> syse_step e (EDeliverS2C slot ty w drop) = Ok (e', o) ->
  tinv (script ++ [EDeliverS2C slot ty w drop]) e' (ustep e g (EDeliverS2C slot ty w drop) e' o).
Proof.
  intros [T1 T2 T3] H. destruct (deliver_s2c_step _ _ _ _ _ _ _ H) as (picked & rest & Htk & Hch & Hcho & Hceo & Hce & Hnone & Hsys & _).
  change (ustep e g (EDeliverS2C slot ty w drop) e' o) with g.
  destruct (take_typed_perm _ _ _ _ _ Htk) as [Hperm _].
  constructor.
  - rewrite proj_script_snoc. cbn [proj_estep]. rewrite app_nil_r, Hsys. exact T1.
  - rewrite Hsys. exact T2.
  - intros sl. destruct (N.eq_dec sl slot) as [->|Hne].
    + apply (slot_part_mono script _ e g e' g slot (T3 slot)); try (rewrite Hsys; reflexivity); try reflexivity.
      * apply emode_snoc_none. reflexivity.
      * intros A B. rewrite A in Hperm. apply Permutation_nil in Hperm. apply app_eq_nil in Hperm. destruct Hperm as [-> ->].
        split; [exact Hch|]. unfold inbox_of in *. destruct (al_get slot (e_clients e)) as [ce|] eqn:Ec.
        -- rewrite (Hce ce eq_refl). destruct (drop || negb (client_connected e slot)); cbn [ce_inbox]; [exact B|].
           rewrite B. reflexivity.
        -- rewrite (Hnone eq_refl), Ec. reflexivity.
      * intros c m. unfold held_msgs. rewrite Hch. unfold inbox_of, queue_of.
        destruct (al_get slot (e_clients e)) as [ce|] eqn:Ec.
        -- rewrite (Hce ce eq_refl).
           assert (Hsub : forall x, In x (rest ++ ce_inbox (if drop || negb (client_connected e slot) then ce
                                          else mkCE (ce_queue ce) (ce_inbox ce ++ picked) (ce_emitted ce))) ->
                                    In x (chan_s2c e slot ++ ce_inbox ce)).
           { intros x Hx. apply in_app_or in Hx. apply in_or_app. destruct Hx as [Hx|Hx].
             - left. apply (Permutation_in _ (Permutation_sym Hperm)). apply in_or_app. right. exact Hx.
             - destruct (drop || negb (client_connected e slot)); [right; exact Hx|]. cbn [ce_inbox] in Hx.
               apply in_app_or in Hx. destruct Hx as [Hx|Hx]; [right; exact Hx|].
               left. apply (Permutation_in _ (Permutation_sym Hperm)). apply in_or_app. left. exact Hx. }
           assert (Hq : ce_queue (if drop || negb (client_connected e slot) then ce
                                  else mkCE (ce_queue ce) (ce_inbox ce ++ picked) (ce_emitted ce)) = ce_queue ce)
             by (destruct (drop || negb (client_connected e slot)); reflexivity).
           rewrite Hq. intros Hm. rewrite app_assoc in Hm. rewrite app_assoc. apply in_app_or in Hm. apply in_or_app.
           destruct Hm as [Hm|Hm]; [left; apply Hsub; exact Hm|right; exact Hm].
        -- rewrite (Hnone eq_refl), Ec. cbn [app]. intros Hm. apply in_app_or in Hm. apply in_or_app.
           destruct Hm as [Hm|Hm]; [left|right; exact Hm].
           apply (Permutation_in _ (Permutation_sym Hperm)). apply in_or_app. right. exact Hm.
    + apply (slot_part_same script _ e g e' g sl (T3 sl)); try (rewrite Hsys; reflexivity); try reflexivity.
      * apply emode_snoc_none. reflexivity.
      * apply Hcho. exact Hne.
      * apply Hceo. exact Hne.
Qed.

Lemma tinv_deliver_c2s script e g slot ty w e' o :
  tinv script e g -> syse_step e (EDeliverC2S slot ty w) = Ok (e', o) ->
  tinv (script ++ [EDeliverC2S slot ty w]) e' (ustep e g (EDeliverC2S slot ty w) e' o).
Proof.
  intros [T1 T2 T3] H. change (ustep e g (EDeliverC2S slot ty w) e' o) with g.
  unfold syse_step in H. destruct (take_typed _ w _) as [picked rest]. injection H as <- _.
  constructor; cbn [e_sys].
  - rewrite proj_script_snoc. cbn [proj_estep]. rewrite app_nil_r. exact T1.
  - exact T2.
  - intros sl. apply (slot_part_same script _ e g _ g sl (T3 sl)); try reflexivity.
    + apply emode_snoc_none. reflexivity.
Qed.

(* ================================================================== *)
(* 7. a client frame                                                  *)
(* ================================================================== *)

(* whatever the client queues was in its queue or its inbox *)
Lemma receive_types_queue_from c ts : forall ce q,
  In q (ce_queue (fst (client_receive_types c ce ts))) -> In q (ce_queue ce) \/ In (snd q) (ce_inbox ce).
Proof.
  induction ts as [|t ts IH]; intros ce q Hq; cbn [client_receive_types] in Hq; [left; exact Hq|].
  destruct (client_receive_type c ce t) as [ce1 g1] eqn:H1. specialize (IH ce1 q).
  destruct (client_receive_types c ce1 ts) as [ce2 g2]. cbn [fst] in *.
  destruct (withheld_not_lost _ _ _ _ _ H1) as (_ & _ & Hback & Hinb).
  destruct (IH Hq) as [Hq1|Hq1].
  - destruct (Hback q Hq1) as [Hq0|(m & tk & -> & Hm & _)]; [left; exact Hq0|right; exact Hm].
  - right. rewrite Hinb in Hq1. apply filter_In in Hq1. exact (proj1 Hq1).
Qed.

Lemma client_receive_queue_from c ce q :
  In q (ce_queue (fst (client_receive c ce))) -> In q (ce_queue ce) \/ In (snd q) (ce_inbox ce).
Proof. rewrite client_receive_eq. apply receive_types_queue_from. Qed.

Lemma client_receive_inbox_nil c ce : ce_inbox (fst (client_receive c ce)) = [].
Proof.
  destruct (client_receive c ce) as [ce' got] eqn:E. destruct (client_receive_withheld _ _ _ _ E) as (_ & _ & H & _). exact H.
Qed.

Section TICKSTEPS.
  Variables (cfg0 : cfg) (nclients : N).

  Lemma tinv_cframe script e g slot ops emit e' o gs :
    tinv script e g -> clients_dom e ->
    f_inv cfg0 nclients (proj_script script) (e_sys e) gs ->
    syse_step e (ECFrame slot ops emit) = Ok (e', o) ->
    tinv (script ++ [ECFrame slot ops emit]) e' (ustep e g (ECFrame slot ops emit) e' o).
  Proof.
    intros [T1 T2 T3] Hdom Hf H.
    destruct (cframe_unfold _ _ _ _ _ _ Hdom H) as (Hsys & Hq & _ & _ & _ & _ & _ & _ & Hceo & _ & Hcase).
    change (ustep e g (ECFrame slot ops emit) e' o) with (ustep_base (e_sys e) g (StCFrame slot ops) (eo_base o)).
    destruct (step_server (e_sys e) (StCFrame slot ops) _ _ eq_refl Hsys) as (Htick & _ & Hcl & _).
    assert (Hfind : forall sl, find_client (y_server (e_sys e')) sl = find_client (y_server (e_sys e)) sl)
      by (intros sl; unfold find_client; rewrite Hcl; reflexivity).
    constructor.
    - rewrite proj_script_snoc. cbn [proj_estep]. exact (t0_ok_step _ _ _ _ _ T1 Hsys).
    - intros sl c' Hc'. destruct (step_client _ _ _ _ _ _ Hsys Hc') as (c & Hc & Hev). exact (cloc_evolves _ _ (T2 sl c Hc) Hev).
    - intros sl. destruct (N.eq_dec sl slot) as [->|Hne].
      2:{ destruct (step_other _ _ _ _ sl Hsys eq_refl) as (A & B & C); [discriminate|cbn; congruence|].
          apply (slot_part_same script _ e g e' _ sl (T3 sl)); auto.
          - rewrite (emode_snoc_one _ _ (StCFrame slot ops)) by reflexivity. apply mode_step_other; [cbn; congruence|discriminate].
          - lia.
          - unfold chan_s2c. rewrite Hq. reflexivity.
          - cbn [ustep_base]. destruct (al_get slot (y_clients (e_sys e))) as [c0|]; [|reflexivity]. destruct (cl_status c0); reflexivity.
          - cbn [ustep_base]. destruct (al_get slot (y_clients (e_sys e))) as [c0|]; [|reflexivity]. destruct (cl_status c0); [reflexivity|].
            unfold uapplied. cbn [ug_applied]. rewrite al_get_insert_other by exact Hne. reflexivity. }
      destruct (al_get slot (y_clients (e_sys e))) as [cb|] eqn:Hcb.
      2:{ destruct Hcase as (-> & _). intros c Hc. congruence. }
      destruct Hcase as (ce & cl & Hce & Hcl' & (out & Hfr) & Hcase).
      destruct (client_frame_fields _ _ _ _ Hfr) as (Fst & Flc & _ & Fup).
      intros c Hc. rewrite Hcl' in Hc. injection Hc as <-.
      rewrite (emode_snoc_one _ _ (StCFrame slot ops)) by reflexivity. cbn [mode_step]. rewrite N.eqb_refl.
      destruct (T3 slot cb Hcb) as [I1 I2]. split.
      + intros Hi.
        assert (Hib : idle (emode script slot) cb).
        { destruct Hi as [Hm|[Hm|[Hm Hs]]].
          - destruct (emode script slot); try discriminate; [left; reflexivity|right; left; reflexivity].
          - destruct (emode script slot); discriminate.
          - right. right. split; [destruct (emode script slot); try discriminate; reflexivity|congruence]. }
        destruct (I1 Hib) as (A & B & _). destruct (f_idle_facts cfg0 nclients _ _ _ slot cb Hf Hcb Hib) as (Hd & _).
        rewrite Hd in Hcase, Flc. destruct Hcase as (Hce' & _). unfold chan_s2c. rewrite Hq. split; [exact A|].
        unfold inbox_of in *. rewrite Hce', Hce in *. cbn [ce_inbox]. split; [exact B|]. intros _. exact Flc.
      + intros Hm Hs. assert (Hmb : emode script slot = MLive) by (destruct (emode script slot); try discriminate; reflexivity).
        assert (Hsb : cl_status cb = Connected) by congruence.
        destruct (I2 Hmb Hsb) as [L1 L2 L3 L4 L5 L6]. rewrite Hsb in Hcase, Flc, Fup. cbv zeta in Hcase.
        destruct Hcase as (Hce' & _).
        assert (Hin : cl_inbox_upd cl = []).
        { exact (proj1 (frame_clears_inbox cb ops cl out Hsb Hfr)). }
        assert (Hl : l_upd (get_link (e_sys e') slot) = l_upd (get_link (e_sys e) slot)).
        { cbn [sys_step] in Hsys. rewrite Hcb, Hfr in Hsys. cbn [bind] in Hsys.
          assert (H' : sys_step (e_sys e) (StCFrame slot ops) = Ok (e_sys e', eo_base o)) by (cbn [sys_step]; rewrite Hcb, Hfr; exact Hsys).
          destruct (cframe_sys (e_sys e) slot ops cb cl out _ _ Hcb Hfr H') as (_ & _ & L & _). apply L. }
        assert (Hus : usent (ustep_base (e_sys e) g (StCFrame slot ops) (eo_base o)) slot = usent g slot).
        { cbn [ustep_base]. rewrite Hcb, Hsb. reflexivity. }
        assert (Hua : uapplied (ustep_base (e_sys e) g (StCFrame slot ops) (eo_base o)) slot = uapplied g slot ++ cl_inbox_upd cb).
        { cbn [ustep_base]. rewrite Hcb, Hsb. unfold uapplied at 1. cbn [ug_applied]. rewrite al_get_insert_same. reflexivity. }
        rewrite Hus, Hua, Hl. constructor.
        * rewrite Hin. cbn [app]. rewrite <- app_assoc. exact L1.
        * exact L2.
        * intros u Hu. specialize (L3 u Hu). lia.
        * rewrite Hfind. exact L4.
        * rewrite Fup, last_tick_app, L5. reflexivity.
        * intros m tk Hm'. apply L6. revert Hm'. unfold held_msgs, chan_s2c, inbox_of, queue_of. rewrite Hq, Hce', Hce, Flc.
          cbn [ce_inbox ce_queue]. rewrite client_receive_inbox_nil. cbn [app].
          intros Hm'. apply in_app_or in Hm'. apply in_or_app. destruct Hm' as [Hm'|Hm']; [left; exact Hm'|right].
          apply in_map_iff in Hm'. destruct Hm' as (q & <- & Hq').
          apply client_receive_queue_from in Hq'. apply in_or_app.
          destruct (cl_last_connected cb); cbn [negb] in Hq'.
          -- destruct Hq' as [Hq'|Hq']; [right; apply in_map; exact Hq'|left; exact Hq'].
          -- cbn [ce_queue ce_inbox] in Hq'. destruct Hq' as [[]|Hq']. left. exact Hq'.
  Qed.

  (* ================================================================ *)
  (* 8. a server frame                                                *)
  (* ================================================================ *)

  Lemma auth_unique s slot cl : NoDup (map sc_slot (sv_clients s)) -> find_client s slot = Some cl ->
    (has_auth s slot <-> sc_authorized cl = true).
  Proof.
    intros Hnd Hf. split.
    - intros (cl2 & Hin & Hs & Ha). pose proof (find_client_of_in s cl2 Hnd Hin) as E. rewrite Hs, Hf in E. congruence.
    - intros Ha. destruct (find_client_in _ _ _ Hf) as [Hin Hs]. exists cl. auto.
  Qed.

  Lemma tinv_sframe script e g tick dt cleanup ops parts emit e' o gs gs' :
    let st := ESFrame tick dt cleanup ops parts emit in
    tinv script e g ->
    f_inv cfg0 nclients (proj_script script) (e_sys e) gs ->
    f_inv cfg0 nclients (proj_script (script ++ [st])) (e_sys e') gs' ->
    forallb sop_ok ops = true ->
    no_tick0 (proj_script (script ++ [st])) = true -> tick_frames (proj_script (script ++ [st])) < 2 ^ 31 ->
    syse_step e st = Ok (e', o) -> tinv (script ++ [st]) e' (ustep e g st e' o).
  Proof.
    intros st [T1 T2 T3] Hf Hf' Hops Hn0 Hb H. subst st.
    destruct (sframe_unfold _ _ _ _ _ _ _ _ _ H) as (y' & ob & Hsys & Hy & Hob & _).
    destruct (sframe_full _ _ _ _ _ _ _ _ _ H) as (Hce & Hchan & Hstamp).
    change (ustep e g (ESFrame tick dt cleanup ops parts emit) e' o) with (ustep_base (e_sys e) g (StSFrame tick dt cleanup ops parts) (eo_base o)).
    rewrite proj_script_snoc in Hn0, Hb, Hf'. cbn [proj_estep] in Hn0, Hb, Hf'.
    pose proof Hf as [Hcfg Hg Hnm Htk _]. set (y := e_sys e) in *. set (s := y_server y) in *.
    pose proof Hsys as Hsys0. cbn [sys_step] in Hsys. rewrite Hcfg in Hsys. fold s in Hsys.
    destruct (server_frame cfg0 s tick dt cleanup ops parts) as [[s' fo]| |] eqn:Ef; cbn [bind] in Hsys; try discriminate.
    cbv zeta in Hsys. injection Hsys as Ey Eo. rewrite <- Ey in Hy. rewrite <- Eo in Hob. subst y' ob. rewrite Hob. set (outs := fo_clients fo) in *.
    destruct (enqueue_fields outs (set_server y s')) as (Q1 & Q2 & Q3). cbn [set_server y_server y_clients] in Q2, Q3.
    destruct (server_frame_clients_v cfg0 (mkG s gs) tick dt cleanup ops parts s' fo Hg Hnm Hops Ef)
      as (_ & N2 & _ & N4 & N5 & N6 & N7 & _). cbn [g_srv] in *. fold outs in N5, N6, N7.
    destruct (server_frame_ticks_v cfg0 s tick dt cleanup ops parts s' fo Ef) as (_ & _ & K3 & _).
    assert (Hnd : NoDup (map sc_slot (sv_clients s))) by exact (gv_slots _ Hg).
    assert (Hnd' : NoDup (map sc_slot (sv_clients s'))).
    { pose proof (gv_slots _ (fi_ginv _ _ _ _ _ Hf')) as X. cbn [g_srv] in X. rewrite Hy, Q2 in X. exact X. }
    set (lt := fun sl : N => match find_client s sl with Some cl => Some (ct_update_tick (sc_ticks cl)) | None => None end).
    assert (Hut : upd_ticks_ok lt s).
    { intros cl Hin _ t Hl. unfold lt in Hl. rewrite (find_client_of_in s cl Hnd Hin) in Hl. congruence. }
    destruct (server_frame_muts_v cfg0 (mkG s gs) tick dt cleanup ops parts s' fo lt Hg Hut Hops Ef) as [_ M2].
    fold outs in M2. cbn [g_srv] in M2.
    assert (Hus : forall sl, usent (ustep_base y g (StSFrame tick dt cleanup ops parts) (OSFrame fo (if fo_ran fo then server_views s' else []))) sl
                             = usent g sl ++ updates_for sl outs).
    { intros sl. unfold usent. cbn [ustep_base ug_sent]. apply usent_push. }
    assert (Hua : forall sl, uapplied (ustep_base y g (StSFrame tick dt cleanup ops parts) (OSFrame fo (if fo_ran fo then server_views s' else []))) sl
                             = uapplied g sl) by reflexivity.
    pose proof Npow31 as P31. pose proof Npow32 as P32.
    rewrite tick_frames_snoc in Hb. cbn [is_tick_frame] in Hb.
    constructor.
    - rewrite proj_script_snoc. cbn [proj_estep]. rewrite Hy. exact (t0_ok_step _ _ _ _ _ T1 Hsys0).
    - rewrite Hy, Q3. exact T2.
    - intros sl c Hc. rewrite Hy, Q3 in Hc. rewrite (emode_snoc_one _ _ (StSFrame tick dt cleanup ops parts)) by reflexivity.
      cbn [mode_step]. destruct (T3 sl c Hc) as [I1 I2]. split.
      + intros Hi. destruct (I1 Hi) as (A & B & C).
        assert (Hno : ~ has_rec (y_server (e_sys e')) sl).
        { assert (Hc' : al_get sl (y_clients (e_sys e')) = Some c) by (rewrite Hy, Q3; exact Hc).
          refine (proj1 (proj2 (f_idle_facts cfg0 nclients _ _ _ sl c Hf' Hc' _))).
          unfold emode in Hi. rewrite mode_of_snoc. exact Hi. }
        rewrite Hchan, A. cbn [app]. split; [|split; [unfold inbox_of; rewrite Hce; exact B|exact C]].
        destruct (msgs_for sl (eo_sent o)) as [|m r] eqn:Em; [reflexivity|]. exfalso.
        assert (Hin : In (sl, m) (eo_sent o)) by (apply in_msgs_for; rewrite Em; left; reflexivity).
        destruct (Hstamp sl m Hin) as (cl & Hfc & _). apply Hno. apply has_rec_find. congruence.
      + intros Hm Hs. destruct (I2 Hm Hs) as [L1 L2 L3 L4 L5 L6].
        change (y_server (e_sys e)) with s in L3, L4. change (e_sys e) with y in L1.
        destruct (f_live_facts cfg0 nclients _ _ _ sl c Hf Hc Hm Hs) as [Hrec Hrun]. fold y s in Hrec, Hrun.
        assert (Hfind : exists cl, find_client s sl = Some cl).
        { apply has_rec_find in Hrec. destruct (find_client s sl) as [cl|]; [exists cl; reflexivity|congruence]. }
        destruct Hfind as [cl Hfc].
        assert (Hcls : sv_clients s <> []) by (destruct (find_client_in _ _ _ Hfc) as [X _]; intros E; rewrite E in X; destruct X).
        specialize (N4 Hrun). specialize (K3 Hrun).
        assert (Hle : sv_tick s <= sv_tick s').
        { rewrite K3. destruct tick; [|lia]. rewrite tick_add_one; lia. }
        assert (Hauth_iff : has_auth s' sl <-> has_auth s sl) by (rewrite !has_auth_sig, N4; reflexivity).
        pose proof (Hus sl) as Hus'. rewrite (updates_for_upd_for sl outs N5) in Hus'.
        rewrite Hus', Hua, Hy, Q2. cbn [set_server y_server].
        replace (l_upd (get_link (enqueue_outputs (set_server y s') outs) sl)) with (l_upd (get_link y sl) ++ updates_for sl outs)
          by (rewrite enqueue_lupd; reflexivity).
        rewrite (updates_for_upd_for sl outs N5).
        (* the record of the slot after the frame *)
        assert (Hsrv' : forall cl', find_client s' sl = Some cl' ->
                  if sc_authorized cl' then ct_update_tick (sc_ticks cl') =
                       last_tick (usent g sl ++ match upd_for sl outs with Some u => [u] | None => [] end)
                  else usent g sl ++ match upd_for sl outs with Some u => [u] | None => [] end = []).
        { intros cl' Hfc'. destruct (find_client_in _ _ _ Hfc') as [Hin' Hsl'].
          pose proof (auth_unique s' sl cl' Hnd' Hfc') as Hu'. pose proof (auth_unique s sl cl Hnd Hfc) as Hu.
          destruct (sc_authorized cl') eqn:Ea'.
          - pose proof (M2 cl' Hin' Ea' Hrun) as G. rewrite Hsl' in G.
            destruct (upd_for sl outs) as [u|] eqn:Eu; [rewrite last_tick_snoc; exact G|]. rewrite app_nil_r.
            assert (Ha : sc_authorized cl = true) by (apply Hu, Hauth_iff, Hu'; reflexivity).
            specialize (L4 cl Hfc). rewrite Ha in L4. rewrite <- L4. apply G. unfold lt. rewrite Hfc. reflexivity.
          - assert (Ha : sc_authorized cl = false).
            { destruct (sc_authorized cl) eqn:Ea; [|reflexivity]. assert (X : false = true) by (apply Hu', Hauth_iff, Hu; reflexivity). discriminate. }
            specialize (L4 cl Hfc). rewrite Ha in L4. rewrite L4. cbn [app].
            destruct (upd_for sl outs) as [u|] eqn:Eu; [|reflexivity]. exfalso.
            destruct (upd_for_in sl outs u Eu) as (o1 & Ho1 & Hso & _). pose proof (N6 o1 Ho1) as X. rewrite Hso in X.
            apply Hu' in X. congruence. }
        assert (Hstamps' : forall m tk, In m (held_msgs e' sl c) -> sm_tick m = Some tk ->
                  tk = 0 \/ In tk (map u_tick (usent g sl ++ match upd_for sl outs with Some u => [u] | None => [] end))).
        { intros m tk Hm' Hstk. unfold held_msgs in Hm'. rewrite Hchan in Hm'.
          assert (Hcases : In m (held_msgs e sl c) \/ In m (msgs_for sl (eo_sent o))).
          { unfold held_msgs. unfold inbox_of, queue_of in *. rewrite Hce in Hm'. rewrite <- app_assoc in Hm'.
            apply in_app_or in Hm'. destruct Hm' as [X|X]; [left; apply in_or_app; left; exact X|].
            apply in_app_or in X. destruct X as [X|X]; [right; exact X|left; apply in_or_app; right; exact X]. }
          destruct Hcases as [X|X].
          - destruct (L6 m tk X Hstk) as [Z|Z]; [left; exact Z|right]. rewrite map_app. apply in_or_app. left. exact Z.
          - apply in_msgs_for in X. destruct (Hstamp sl m X) as (cl' & Hfc' & [Z|[Za Zt]]); [congruence|].
            rewrite Hy, Q2 in Hfc'. cbn [set_server y_server] in Hfc'. pose proof (Hsrv' cl' Hfc') as G. rewrite Za in G.
            assert (tk = ct_update_tick (sc_ticks cl')) by congruence. subst tk. rewrite G.
            destruct (usent g sl ++ match upd_for sl outs with Some u => [u] | None => [] end) as [|u0 r0] eqn:El; [left; reflexivity|].
            right. apply last_tick_in. discriminate. }
        destruct (upd_for sl outs) as [u|] eqn:Eu.
        * destruct (upd_for_in sl outs u Eu) as (o1 & Ho1 & Hso & Huo).
          destruct (N7 o1 u Ho1 Huo) as [_ Ht].
          assert (Hne : outs <> []) by (intros E0; rewrite E0 in Ho1; destruct Ho1).
          assert (Htrue : tick = true).
          { apply (t0_frame_ticks (proj_script script) y tick dt cleanup ops parts s' fo T1 Hn0); [rewrite Hcfg; exact Ef|exact Hcls|exact Hne]. }
          subst tick. rewrite tick_add_one in K3 by lia.
          constructor.
          -- rewrite L1, <- !app_assoc. reflexivity.
          -- rewrite map_app. cbn [map]. apply sorted_snoc; [exact L2|]. intros a Ha. apply in_map_iff in Ha.
             destruct Ha as (u0 & <- & Hu0). specialize (L3 u0 Hu0). lia.
          -- intros u0 Hu0. apply in_app_or in Hu0. destruct Hu0 as [Hu0|[<-|[]]]; [specialize (L3 u0 Hu0); lia|lia].
          -- exact Hsrv'.
          -- exact L5.
          -- exact Hstamps'.
        * rewrite !app_nil_r in *. constructor.
          -- exact L1.
          -- exact L2.
          -- intros u0 Hu0. specialize (L3 u0 Hu0). lia.
          -- exact Hsrv'.
          -- exact L5.
          -- exact Hstamps'.
  Qed.
End TICKSTEPS.

(* ================================================================== *)
(* 9. the steps of `Sys` that are not frames                          *)
(* ================================================================== *)

Lemma chan_map_empty (q : list (N * list smsg)) slot :
  opt_list (al_get slot (map (fun kv : N * list smsg => (fst kv, @nil smsg)) q)) = [].
Proof. induction q as [|[k v] q IH]; cbn [map al_get fst]; [reflexivity|]. destruct (k =? slot); [reflexivity|exact IH]. Qed.

Lemma find_client_update_same s cnew : find_client s (sc_slot cnew) <> None ->
  find_client (update_client s cnew) (sc_slot cnew) = Some cnew.
Proof.
  unfold find_client, update_client, set_clients. cbn [sv_clients]. induction (sv_clients s) as [|a t IH]; cbn [map find]; [congruence|].
  destruct (sc_slot a =? sc_slot cnew) eqn:E; [rewrite N.eqb_refl; reflexivity|]. rewrite E. exact IH.
Qed.

(* what `StConnect` does: nothing, or a new record and a connected client app *)
Lemma connect_step_cases y slot max y' o : sys_step y (StConnect slot max) = Ok (y', o) ->
  y' = y \/
  exists cl, find_client (y_server y) slot = None /\ sv_running (y_server y) = true /\ al_get slot (y_clients y) = Some cl /\
    y' = set_client (set_server y (connect_client (y_cfg y) (y_server y) slot max)) slot (set_status cl Connected).
Proof.
  cbn [sys_step]. destruct (find_client (y_server y) slot) eqn:Ef; [intros H; inversion H; auto|].
  destruct (al_get slot (y_clients y)) as [cl|] eqn:Ec; [|intros H; inversion H; auto].
  destruct (sv_running (y_server y)) eqn:Er; intros H; inversion H; [|auto]. right. exists cl. auto.
Qed.

Section TICKBASE.
  Variables (cfg0 : cfg) (nclients : N).

  Lemma tinv_base script e g b e' o gs :
    tinv script e g ->
    f_inv cfg0 nclients (proj_script script) (e_sys e) gs ->
    legal_step b = true -> ebase_ok (EBase b) = true -> sess_step_ok (proj_script script) b = true ->
    syse_step e (EBase b) = Ok (e', o) -> tinv (script ++ [EBase b]) e' (ustep e g (EBase b) e' o).
  Proof.
    intros [T1 T2 T3] Hf Hleg Hbase Hsess H.
    destruct (ebase_unfold _ _ _ _ H) as (Hsys & _ & _ & _ & _ & _ & Hlayer).
    change (ustep e g (EBase b) e' o) with (ustep_base (e_sys e) g b (eo_base o)).
    assert (Hns : is_sframe b = false) by (destruct b; try reflexivity; discriminate).
    destruct (step_server _ _ _ _ Hns Hsys) as (Htick & _ & Hsrv).
    assert (Hmode : forall sl, emode (script ++ [EBase b]) sl = mode_step sl (emode script sl) b)
      by (intros sl; apply emode_snoc_one; reflexivity).
    constructor.
    - rewrite proj_script_snoc. cbn [proj_estep]. exact (t0_ok_step _ _ _ _ _ T1 Hsys).
    - intros sl c' Hc'. destruct (step_client _ _ _ _ _ _ Hsys Hc') as (c & Hc & Hev). exact (cloc_evolves _ _ (T2 sl c Hc) Hev).
    - intros sl.
      destruct b as [| |s0 max|s0|s0|tick dt cleanup ops parts|s0 ops|s0 s2c ch w|s0 s2c ch w]; try discriminate.
      + (* StStart *)
        destruct Hlayer as (Eq & Ec & _). destruct (step_other _ _ _ _ sl Hsys eq_refl) as (A & B & C); [discriminate|discriminate|].
        apply (slot_part_same script _ e g e' _ sl (T3 sl)); auto; try lia.
        * rewrite Hmode. reflexivity.
        * unfold chan_s2c. rewrite Eq. reflexivity.
        * rewrite Ec. reflexivity.
      + (* StStop *)
        destruct Hlayer as (Eq & Ec & _). intros c' Hc'.
        destruct (step_client_kind _ _ _ _ _ _ Hsys Hc') as (c & Hc & Hev). cbn [client_evolves_by] in Hev. subst c'.
        rewrite Hmode. cbn [mode_step]. destruct (T3 sl c Hc) as [I1 _].
        destruct (emode script sl) eqn:Em; (split; [intros Hi|intros Hm; discriminate]).
        * destruct (I1 (or_introl eq_refl)) as (A & B & C).
          unfold chan_s2c. rewrite Eq, chan_map_empty. unfold inbox_of in *. rewrite Ec. auto.
        * destruct Hi as [X|[X|[X _]]]; discriminate.
        * destruct (I1 (or_intror (or_introl eq_refl))) as (A & B & C).
          unfold chan_s2c. rewrite Eq, chan_map_empty. unfold inbox_of in *. rewrite Ec. auto.
        * destruct Hi as [X|[X|[X _]]]; discriminate.
      + (* StConnect *)
        destruct Hlayer as (Eq & Ec & _).
        destruct (N.eq_dec sl s0) as [->|Hne].
        2:{ destruct (step_other _ _ _ _ sl Hsys eq_refl) as (A & B & C); [discriminate|cbn; congruence|].
            apply (slot_part_same script _ e g e' _ sl (T3 sl)); auto; try lia.
            - rewrite Hmode. apply mode_step_other; [cbn; congruence|discriminate].
            - unfold chan_s2c. rewrite Eq. reflexivity.
            - rewrite Ec. reflexivity.
            - cbn [ustep_base]. destruct (find_client (y_server (e_sys e)) s0); [reflexivity|].
              unfold usent. cbn [ug_sent]. rewrite al_get_insert_other by exact Hne. reflexivity.
            - cbn [ustep_base]. destruct (find_client (y_server (e_sys e)) s0); [reflexivity|].
              unfold uapplied. cbn [ug_applied]. rewrite al_get_insert_other by exact Hne. reflexivity. }
        destruct (mode_connect (proj_script script) s0 max s0 Hsess) as [_ Hbefore]. specialize (Hbefore eq_refl).
        assert (Hafter : emode (script ++ [EBase (StConnect s0 max)]) s0 = MLive).
        { rewrite Hmode. cbn [mode_step]. rewrite N.eqb_refl. unfold emode. destruct Hbefore as [-> | ->]; reflexivity. }
        destruct (connect_step_cases _ _ _ _ _ Hsys) as [Hy|(cl & Hfn & Hrun & Hcl & Hy)].
        * (* no effect *)
          intros c Hc. rewrite Hy in Hc. destruct (T3 s0 c Hc) as [I1 I2]. rewrite Hafter. split.
          -- intros [X|[X|[_ Hd]]]; try discriminate.
             assert (Hi0 : idle (emode script s0) c) by (unfold emode; destruct Hbefore as [-> | ->]; [left; reflexivity|right; right; auto]).
             destruct (I1 Hi0) as (A & B & C). unfold chan_s2c, inbox_of in *. rewrite Eq, Ec. split; [exact A|]. split; [exact B|].
             intros _. apply C. unfold emode. destruct Hbefore as [-> | ->]; discriminate.
          -- intros _ Hs.
             assert (Hmb : emode script s0 = MLive).
             { unfold emode. destruct Hbefore as [Hb|Hb]; [|exact Hb]. pose proof (f_clean_status cfg0 nclients _ _ _ s0 c Hf Hc Hb). congruence. }
             destruct (f_live_facts cfg0 nclients _ _ _ s0 c Hf Hc Hmb Hs) as [Hrec _]. apply has_rec_find in Hrec.
             cbn [ustep_base]. destruct (find_client (y_server (e_sys e)) s0) eqn:Efc; [|congruence].
             rewrite Hy. unfold held_msgs, chan_s2c, inbox_of, queue_of. rewrite Eq, Ec. exact (I2 Hmb Hs).
        * (* a new connection *)
          intros c Hc. rewrite Hy in Hc. cbn [set_client set_server y_clients] in Hc. rewrite al_get_insert_same in Hc. injection Hc as <-.
          rewrite Hafter. split; [intros [X|[X|[_ Hd]]]; discriminate|]. intros _ _.
          assert (Hi0 : idle (emode script s0) cl).
          { unfold emode. destruct Hbefore as [Hb|Hb]; rewrite Hb; [left; reflexivity|]. right. right. split; [reflexivity|].
            destruct (cl_status cl) eqn:Es; [reflexivity|]. exfalso.
            destruct (f_live_facts cfg0 nclients _ _ _ s0 cl Hf Hcl Hb Es) as [Hrec _]. apply has_rec_find in Hrec. congruence. }
          destruct (T3 s0 cl Hcl) as [I1 _]. destruct (I1 Hi0) as (A & B & C).
          assert (Hlc : cl_last_connected cl = false).
          { apply C. unfold emode. destruct Hbefore as [-> | ->]; discriminate. }
          destruct (f_idle_facts cfg0 nclients _ _ _ s0 cl Hf Hcl Hi0) as (Hd & _ & Hin & Hl).
          assert (Hus : usent (ustep_base (e_sys e) g (StConnect s0 max) (eo_base o)) s0 = []).
          { cbn [ustep_base]. rewrite Hfn. unfold usent. cbn [ug_sent]. rewrite al_get_insert_same. reflexivity. }
          assert (Hua : uapplied (ustep_base (e_sys e) g (StConnect s0 max) (eo_base o)) s0 = []).
          { cbn [ustep_base]. rewrite Hfn. unfold uapplied. cbn [ug_applied]. rewrite al_get_insert_same. reflexivity. }
          rewrite Hus, Hua, Hy. cbn [set_client set_server y_server]. constructor.
          -- change (get_link (set_client ?a ?b ?c) s0) with (get_link a s0). change (get_link (set_server ?a ?b) s0) with (get_link a s0).
             rewrite Hl. unfold set_status. rewrite Hd. cbn [cl_inbox_upd]. rewrite Hin. reflexivity.
          -- constructor.
          -- intros u [].
          -- intros cl' Hf'. destruct (connect_first (y_cfg (e_sys e)) _ s0 max Hrun Hfn) as [Hff _]. rewrite Hff in Hf'. injection Hf' as <-.
             unfold fresh_client. destruct (cfg_auth (y_cfg (e_sys e))); reflexivity.
          -- unfold set_status. cbn [cl_upd_tick]. exact (proj2 (T2 s0 cl Hcl) Hlc).
          -- intros m tk Hm. exfalso. unfold held_msgs, chan_s2c, inbox_of, queue_of in Hm. rewrite Eq, Ec in Hm.
             unfold chan_s2c, inbox_of in A, B. rewrite A, B in Hm. unfold set_status in Hm. cbn [cl_last_connected] in Hm.
             rewrite Hlc in Hm. destruct Hm.
      + (* StAuthorize *)
        destruct Hlayer as (Eq & Ec & _).
        destruct (N.eq_dec sl s0) as [->|Hne].
        2:{ destruct (step_other _ _ _ _ sl Hsys eq_refl) as (A & B & C); [discriminate|cbn; congruence|].
            apply (slot_part_same script _ e g e' _ sl (T3 sl)); auto; try lia.
            - rewrite Hmode. reflexivity.
            - unfold chan_s2c. rewrite Eq. reflexivity.
            - rewrite Ec. reflexivity. }
        apply (slot_part_gen script _ e g e' _ s0 (T3 s0)); try reflexivity; try lia.
        * rewrite Hmode. reflexivity.
        * intros c' Hc'. destruct (step_client_kind _ _ _ _ _ _ Hsys Hc') as (c & Hc & Hev). cbn [client_evolves_by] in Hev. subst c'.
          exists c. split; [exact Hc|]. repeat (split; [reflexivity|]). intros _. f_equal.
          cbn [sys_step] in Hsys. injection Hsys as <- _. reflexivity.
        * intros cl' Hf'. rewrite Hsrv in Hf'. unfold authorize_client in Hf'.
          destruct (find_client (y_server (e_sys e)) s0) as [cl|] eqn:Efc; [|congruence].
          exists cl. split; [reflexivity|]. destruct (sc_authorized cl) eqn:Ea.
          -- rewrite Efc in Hf'. injection Hf' as <-. rewrite Ea. reflexivity.
          -- change s0 with (sc_slot (authorized_client (y_cfg (e_sys e)) s0 (sc_max_size cl))) in Hf' at 2.
             rewrite find_client_update_same in Hf' by (cbn [authorized_client sc_slot]; congruence). injection Hf' as <-. reflexivity.
        * unfold chan_s2c, inbox_of. rewrite Eq, Ec. auto.
        * intros c c' m Elc. unfold held_msgs, chan_s2c, inbox_of, queue_of. rewrite Eq, Ec, Elc. auto.
      + (* StDisconnect *)
        destruct Hlayer as (Eq & Ec & _).
        destruct (N.eq_dec sl s0) as [->|Hne].
        2:{ destruct (step_other _ _ _ _ sl Hsys eq_refl) as (A & B & C); [discriminate|cbn; congruence|].
            apply (slot_part_same script _ e g e' _ sl (T3 sl)); auto; try lia.
            - rewrite Hmode. apply mode_step_other; [cbn; congruence|discriminate].
            - unfold chan_s2c. rewrite Eq, al_get_insert_other by exact Hne. reflexivity.
            - rewrite Ec, al_get_insert_other by exact Hne. reflexivity. }
        intros c' Hc'. destruct (step_client_kind _ _ _ _ _ _ Hsys Hc') as (c & Hc & Hev). cbn [client_evolves_by] in Hev.
        rewrite Hmode. cbn [mode_step]. rewrite N.eqb_refl. destruct (T3 s0 c Hc) as [I1 _].
        assert (Hlc : cl_last_connected c' = cl_last_connected c) by (destruct Hev as [-> | ->]; reflexivity).
        split.
        * intros _. unfold chan_s2c, inbox_of. rewrite Eq, Ec, !al_get_insert_same. split; [reflexivity|].
          split; [destruct (al_get s0 (e_clients e)); reflexivity|].
          intros Hm. rewrite Hlc. destruct (emode script s0) eqn:Em; try (exfalso; apply Hm; reflexivity).
          apply (I1 (or_introl eq_refl)). discriminate.
        * intros Hm. destruct (emode script s0); discriminate.
      + (* StDeliver *)
        destruct Hlayer as (Eq & Ec & _).
        destruct (N.eq_dec sl s0) as [->|Hne].
        2:{ destruct (step_other _ _ _ _ sl Hsys eq_refl) as (A & B & C); [discriminate|cbn; congruence|].
            apply (slot_part_same script _ e g e' _ sl (T3 sl)); auto; try lia.
            - rewrite Hmode. reflexivity.
            - unfold chan_s2c. rewrite Eq. reflexivity.
            - rewrite Ec. reflexivity. }
        apply (slot_part_gen script _ e g e' _ s0 (T3 s0)); try reflexivity; try lia.
        * rewrite Hmode. reflexivity.
        * intros c' Hc'. destruct (step_client_kind _ _ _ _ _ _ Hsys Hc') as (c & Hc & Hev). cbn [client_evolves_by] in Hev.
          exists c. split; [exact Hc|].
          assert (Hfields : cl_status c' = cl_status c /\ cl_last_connected c' = cl_last_connected c /\ cl_upd_tick c' = cl_upd_tick c).
          { destruct Hev as [-> |[[p ->]|[p ->]]]; [auto| |].
            - destruct (deliver_updates_lc p c) as (X1 & _ & X3 & X4). auto.
            - destruct (deliver_mutates_lc p c) as (X1 & _ & X3 & X4 & _). auto. }
          destruct Hfields as (F1 & F2 & F3). repeat (split; [assumption|]). intros Hs.
          destruct (transport_keeps_pending (e_sys e) (StDeliver s0 s2c ch w) _ _ s0 eq_refl Hleg Hsys) as [P _]; [exists c; auto|].
          unfold pending, ClientSys_proofs.inbox_of in P. rewrite Hc, Hc' in P. exact P.
        * intros cl' Hf'. exists cl'. destruct Hsrv as [Hcl _]. unfold find_client in *. rewrite Hcl in Hf'. split; [exact Hf'|].
          destruct (sc_authorized cl'); reflexivity.
        * unfold chan_s2c, inbox_of. rewrite Eq, Ec. auto.
        * intros c c' m Elc. unfold held_msgs, chan_s2c, inbox_of, queue_of. rewrite Eq, Ec, Elc. auto.
      + (* StDrop *)
        destruct Hlayer as (Eq & Ec & _).
        destruct (N.eq_dec sl s0) as [->|Hne].
        2:{ destruct (step_other _ _ _ _ sl Hsys eq_refl) as (A & B & C); [discriminate|cbn; congruence|].
            apply (slot_part_same script _ e g e' _ sl (T3 sl)); auto; try lia.
            - rewrite Hmode. reflexivity.
            - unfold chan_s2c. rewrite Eq. reflexivity.
            - rewrite Ec. reflexivity. }
        apply (slot_part_gen script _ e g e' _ s0 (T3 s0)); try reflexivity; try lia.
        * rewrite Hmode. reflexivity.
        * intros c' Hc'. destruct (step_client_kind _ _ _ _ _ _ Hsys Hc') as (c & Hc & Hev). cbn [client_evolves_by] in Hev.
          exists c. split; [exact Hc|].
          assert (Hfields : cl_status c' = cl_status c /\ cl_last_connected c' = cl_last_connected c /\ cl_upd_tick c' = cl_upd_tick c).
          { destruct Hev as [-> |[[p ->]|[p ->]]]; [auto| |].
            - destruct (deliver_updates_lc p c) as (X1 & _ & X3 & X4). auto.
            - destruct (deliver_mutates_lc p c) as (X1 & _ & X3 & X4 & _). auto. }
          destruct Hfields as (F1 & F2 & F3). repeat (split; [assumption|]). intros Hs.
          destruct (transport_keeps_pending (e_sys e) (StDrop s0 s2c ch w) _ _ s0 eq_refl Hleg Hsys) as [P _]; [exists c; auto|].
          unfold pending, ClientSys_proofs.inbox_of in P. rewrite Hc, Hc' in P. exact P.
        * intros cl' Hf'. exists cl'. destruct Hsrv as [Hcl _]. unfold find_client in *. rewrite Hcl in Hf'. split; [exact Hf'|].
          destruct (sc_authorized cl'); reflexivity.
        * unfold chan_s2c, inbox_of. rewrite Eq, Ec. auto.
        * intros c c' m Elc. unfold held_msgs, chan_s2c, inbox_of, queue_of. rewrite Eq, Ec, Elc. auto.
  Qed.
End TICKBASE.

(* ================================================================== *)
(* 10. the run                                                        *)
(* ================================================================== *)

Lemma no_tick0_prefix_true a b : no_tick0 (a ++ b) = true -> no_tick0 a = true.
Proof. intros H. pose proof (no_tick0_prefix_ok a b H) as Hn. unfold no_tick0. destruct (fold_left t0_step a (T0A false false)); congruence. Qed.

Lemma script_okf_snoc a x : script_okf (a ++ [x]) = true ->
  script_okf a = true /\ legal_step x = true /\ no_smap_step x = true /\ sess_step_ok a x = true.
Proof.
  unfold script_okf, legal, no_smap. rewrite !forallb_app, sessions_ok_snoc. cbn [forallb]. rewrite !andb_true_r. intros H.
  apply andb_prop in H. destruct H as [H S]. apply andb_prop in H. destruct H as [L M].
  apply andb_prop in L. destruct L as [L1 L2]. apply andb_prop in M. destruct M as [M1 M2]. apply andb_prop in S. destruct S as [S1 S2].
  rewrite L1, M1, S1. auto.
Qed.

Lemma script_okf_app a b : script_okf (a ++ b) = true -> script_okf a = true.
Proof.
  induction b as [|x b IH] using rev_ind; [rewrite app_nil_r; auto|]. rewrite app_assoc. intros H. apply IH.
  exact (proj1 (script_okf_snoc _ _ H)).
Qed.

(* the premises on a script are premises on its prefixes and on its last step *)
Lemma escript_ok_snoc t st : escript_ok (t ++ [st]) = true ->
  escript_ok t = true /\ legal_estep st = true /\ ebase_ok st = true /\
  script_okf (proj_script (t ++ [st])) = true /\ no_tick0 (proj_script (t ++ [st])) = true /\
  (forall b, proj_estep st = [b] ->
     legal_step b = true /\ no_smap_step b = true /\ sess_step_ok (proj_script t) b = true).
Proof.
  unfold escript_ok. rewrite !forallb_app. cbn [forallb]. rewrite !andb_true_r. intros H.
  apply andb_prop in H. destruct H as [H N0]. apply andb_prop in H. destruct H as [H F]. apply andb_prop in H. destruct H as [L B].
  apply andb_prop in L. destruct L as [L1 L2]. apply andb_prop in B. destruct B as [B1 B2].
  rewrite proj_script_snoc in *. rewrite L1, B1, (script_okf_app _ _ F), (no_tick0_prefix_true _ _ N0).
  split; [reflexivity|]. split; [exact L2|]. split; [exact B2|]. split; [exact F|]. split; [exact N0|].
  intros b Hb. rewrite Hb in F. destruct (script_okf_snoc _ _ F) as (_ & X1 & X2 & X3). auto.
Qed.

Lemma tick_frames_app_le a b : tick_frames a <= tick_frames (a ++ b).
Proof.
  induction b as [|x b IH] using rev_ind; [rewrite app_nil_r; lia|]. rewrite app_assoc.
  pose proof (tick_frames_mono (a ++ b) x). lia.
Qed.

Section TICKRUN.
  Variables (cfg0 : cfg) (nclients : N).

  (* the structural invariant holds along every run with remote events *)
  Lemma finv_of_erun script e os :
    escript_ok script = true -> tick_frames (proj_script script) < 2 ^ 31 ->
    RemoteSpec.erun (syse_init cfg0 nclients) script = Ok (e, os) ->
    exists gs, erun_s (sys_init cfg0 nclients) [] (proj_script script) = Ok (e_sys e, gs) /\
               f_inv cfg0 nclients (proj_script script) (e_sys e) gs.
  Proof.
    intros Hok Hb H. pose proof (erun_init_sys _ _ _ _ _ H) as Hrun.
    destruct (run_erun_s _ _ [] _ Hrun) as [gs Hgs]. exists gs. split; [exact Hgs|].
    apply (f_run cfg0 nclients _ _ _); [|exact Hb|exact Hgs].
    unfold escript_ok in Hok. apply andb_prop in Hok. destruct Hok as [Hok _]. apply andb_prop in Hok. exact (proj2 Hok).
  Qed.

  Lemma tinv_init : tinv [] (syse_init cfg0 nclients) ug_init.
  Proof.
    constructor.
    - exact t0_ok_init.
    - intros slot c Hc. cbn [syse_init e_sys sys_init y_clients] in Hc. apply al_get_map_const in Hc. subst c. apply cloc_init.
    - intros slot c Hc. cbn [syse_init e_sys sys_init y_clients] in Hc. apply al_get_map_const in Hc. subst c. split.
      + intros _. split; [|split; [|reflexivity]].
        * unfold chan_s2c, syse_init. cbn [e_s2c]. generalize (y_clients (sys_init cfg0 nclients)). intros l.
          induction l as [|[k v] l IH]; cbn [map al_get fst]; [reflexivity|]. destruct (k =? slot); [reflexivity|exact IH].
        * unfold inbox_of, syse_init. cbn [e_clients]. generalize (y_clients (sys_init cfg0 nclients)). intros l.
          induction l as [|[k v] l IH]; cbn [map al_get fst]; [reflexivity|]. destruct (k =? slot); [reflexivity|exact IH].
      + intros Hm. discriminate.
  Qed.

  Theorem tinv_run script : forall e g os,
    escript_ok script = true -> tick_frames (proj_script script) < 2 ^ 31 ->
    urun (syse_init cfg0 nclients) ug_init script = Ok (e, g, os) -> tinv script e g.
  Proof.
    induction script as [|st t IH] using rev_ind; intros e g os Hok Hb H.
    - cbn in H. inversion H; subst. exact tinv_init.
    - destruct (escript_ok_snoc _ _ Hok) as (Hokt & Hleg & Hbase & Hokf & Hn0 & Hstep).
      destruct (grun_snoc _ _ _ _ _ _ _ _ _ H) as (e1 & g1 & os1 & o & H1 & Hs & -> & ->).
      assert (Hbt : tick_frames (proj_script t) < 2 ^ 31).
      { pose proof (tick_frames_app_le (proj_script t) (proj_estep st)). rewrite proj_script_snoc in Hb. lia. }
      pose proof (IH _ _ _ Hokt Hbt H1) as Ht.
      pose proof (grun_erun _ _ _ _ _ _ _ _ H1) as He1.
      destruct (finv_of_erun _ _ _ Hokt Hbt He1) as (gs & _ & Hf).
      pose proof (erun_init_dom _ _ _ _ _ He1) as Hdom.
      destruct st as [b|tick dt cleanup ops parts emit|slot ops emit|slot ty w drop|slot ty w].
      + destruct (Hstep b eq_refl) as (A & B & C). exact (tinv_base cfg0 nclients t e1 g1 b e o gs Ht Hf A Hbase C Hs).
      + destruct (Hstep _ eq_refl) as (A & B & C).
        pose proof (grun_erun _ _ _ _ _ _ _ _ H) as He. destruct (finv_of_erun _ _ _ Hok Hb He) as (gs' & _ & Hf').
        exact (tinv_sframe cfg0 nclients t e1 g1 tick dt cleanup ops parts emit e o gs gs' Ht Hf Hf' B Hn0 Hb Hs).
      + exact (tinv_cframe cfg0 nclients t e1 g1 slot ops emit e o gs Ht Hdom Hf Hs).
      + exact (tinv_deliver_s2c t e1 g1 slot ty w drop e o Ht Hs).
      + exact (tinv_deliver_c2s t e1 g1 slot ty w e o Ht Hs).
  Qed.
End TICKRUN.

(* ================================================================== *)
(* 11. E1: the stamp at the flush, the update tick at the delivery    *)
(* ================================================================== *)

Lemma sent_upto_all l : StronglySorted N.lt (map u_tick l) -> sent_upto (last_tick l) l = l.
Proof.
  intros Hs. unfold sent_upto. apply filter_all_true. intros u Hu. apply N.leb_le. unfold last_tick.
  apply sorted_le_last; [exact Hs|]. apply in_map. exact Hu.
Qed.

Lemma sorted_app_lt (a b : list N) : StronglySorted N.lt (a ++ b) -> forall x y, In x a -> In y b -> x < y.
Proof.
  induction a as [|z a IH]; intros Hs x y Hx Hy; [destruct Hx|]. cbn [app] in Hs. inversion Hs as [|? ? Hs' Hall]; subst.
  destruct Hx as [->|Hx]; [|exact (IH Hs' x y Hx Hy)]. rewrite Forall_forall in Hall. apply Hall. apply in_or_app. right. exact Hy.
Qed.

Lemma sorted_app_l (a b : list N) : StronglySorted N.lt (a ++ b) -> StronglySorted N.lt a.
Proof.
  induction a as [|z a IH]; intros Hs; [constructor|]. cbn [app] in Hs. inversion Hs as [|? ? Hs' Hall]; subst.
  constructor; [exact (IH Hs')|]. rewrite Forall_forall in *. intros x Hx. apply Hall. apply in_or_app. left. exact Hx.
Qed.

Lemma filter_le_prefix l tk : StronglySorted N.lt (map u_tick l) -> is_prefix (filter (fun u => u_tick u <=? tk) l) l.
Proof.
  induction l as [|x l IH]; intros Hs; [exists []; reflexivity|]. cbn [map] in Hs. inversion Hs as [|? ? Hs' Hall]; subst.
  cbn [filter]. destruct (u_tick x <=? tk) eqn:E.
  - destruct (IH Hs') as [q Hq]. exists q. cbn [app]. f_equal. exact Hq.
  - assert (Hnil : filter (fun u => u_tick u <=? tk) l = []).
    { apply filter_all_false. intros u Hu. apply N.leb_gt. apply N.leb_gt in E. rewrite Forall_forall in Hall.
      pose proof (Hall (u_tick u) (in_map u_tick _ _ Hu)). lia. }
    rewrite Hnil. exists (x :: l). reflexivity.
Qed.

(* in a strictly increasing list of positive ticks, the messages with a tick up to the tick of a prefix's last message
   belong to that prefix *)
Lemma sent_upto_prefix a b tk : StronglySorted N.lt (map u_tick (a ++ b)) -> (forall u, In u (a ++ b) -> 1 <= u_tick u) ->
  tk <= last_tick a -> is_prefix (sent_upto tk (a ++ b)) a.
Proof.
  intros Hs Hpos Htk. unfold sent_upto. rewrite filter_app. rewrite map_app in Hs.
  assert (Hb : filter (fun u => u_tick u <=? tk) b = []).
  { apply filter_all_false. intros u Hu. apply N.leb_gt. destruct a as [|x a'] eqn:Ea.
    - cbn in Htk. pose proof (Hpos u (in_or_app _ _ _ (or_intror Hu))). lia.
    - rewrite <- Ea in *. assert (Hne : a <> []) by (rewrite Ea; discriminate).
      pose proof (sorted_app_lt _ _ Hs (last_tick a) (u_tick u) (last_tick_in a Hne) (in_map u_tick _ _ Hu)). lia. }
  rewrite Hb, app_nil_r. apply filter_le_prefix. exact (sorted_app_l _ _ Hs).
Qed.
