(* C09F for the event layer: `erun (syse_init cfg n) script` does not panic when the projected script is within
   the premises of Repl/NoPanicAll_proofs.v (`script_okf`, `parts_small`, fewer than 2^31 tick frames).  A `Panic` of `erun` can only be the `client_frame` of a connected client
   (Events/SessRunEv_proofs.v `erun_panic_source`); the state before it is reached by `run` on the projected prefix
   (Events/RemoteRunProj_proofs.v), and all premises are closed under prefixes. *)
From RV Require Import Lib.Res Repl.ClientTicks Repl.World Repl.Server Repl.Client Repl.Sys
  Repl.StructE2E_proofs Repl.StructE2EMut_proofs Repl.StructE2ESess_proofs Repl.MtRunSpec Repl.SessRun_proofs Repl.NoPanicRun_proofs Repl.NoPanicAll_proofs.
From RV Require Import Events.Remote Events.RemoteSpec Events.RemoteRun Events.RemoteRunProj_proofs Events.SessRunEv_proofs.
From Coq Require Import ZifyBool ZifyN Lia.
Open Scope N_scope.

Lemma okf_prefix a b : script_okf (a ++ b) = true -> script_okf a = true.
Proof.
  induction b as [|x b IH] using rev_ind; [rewrite app_nil_r; auto|]. rewrite app_assoc. intros H. apply IH.
  exact (proj1 (okf_snoc _ _ H)).
Qed.

Lemma parts_small_prefix a b : parts_small (a ++ b) = true -> parts_small a = true.
Proof. unfold parts_small. rewrite forallb_app. intros H. apply andb_prop in H. exact (proj1 H). Qed.

Lemma tick_frames_prefix a b : tick_frames a <= tick_frames (a ++ b).
Proof.
  induction b as [|x b IH] using rev_ind; [rewrite app_nil_r; lia|]. rewrite app_assoc.
  pose proof (tick_frames_mono (a ++ b) x). lia.
Qed.

(* the theorem of Repl/NoPanicAll_proofs.v for every prefix *)
Theorem run_prefix_nopanic cfg0 n script pre post : script = pre ++ post ->
  script_okf script = true -> parts_small script = true -> tick_frames script < 2 ^ 31 ->
  run (sys_init cfg0 n) pre <> Panic.
Proof.
  intros -> H1 H2 H3. apply run_nopanic_all.
  - exact (okf_prefix _ _ H1).
  - exact (parts_small_prefix _ _ H2).
  - pose proof (tick_frames_prefix pre post). lia.
Qed.

Theorem erun_nopanic cfg0 n script :
  script_okf (proj_script script) = true -> parts_small (proj_script script) = true ->
  tick_frames (proj_script script) < 2 ^ 31 ->
  RemoteSpec.erun (syse_init cfg0 n) script <> Panic.
Proof.
  intros H1 H2 H3 Hp.
  destruct (erun_panic_source script _ Hp) as (pre & st & post & e1 & os1 & slot & ops & cl & -> & R & Hcf & Ec & Hs & Hpan).
  pose proof (erun_init_sys cfg0 n pre e1 os1 R) as Hrun.
  assert (Est : proj_estep st = [StCFrame slot ops]).
  { destruct st as [b|tick dt cleanup ops0 parts emit|sl ops0 emit|sl ty w drop|sl ty w]; cbn [cframe_of] in Hcf; try discriminate.
    - destruct b; try discriminate. inversion Hcf; subst. reflexivity.
    - inversion Hcf; subst. reflexivity. }
  assert (Eproj : proj_script (pre ++ st :: post) = (proj_script pre ++ [StCFrame slot ops]) ++ proj_script post).
  { rewrite proj_script_app. change (proj_script (st :: post)) with (proj_estep st ++ proj_script post). rewrite Est, <- app_assoc. reflexivity. }
  apply (run_prefix_nopanic cfg0 n _ _ _ Eproj H1 H2 H3).
  rewrite run_app, Hrun. cbn [bind run sys_step]. rewrite Ec, Hpan. reflexivity.
Qed.
