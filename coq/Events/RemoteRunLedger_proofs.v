(* E2 (C05 end to end), part 1: the ledger of event messages (ghost `lghost`, Events/RemoteRun.v) balances in every run:
   per slot, what the client side holds + what was handed to game logic + what was dropped as unresolvable + what a
   session end discarded + what the unreliable channel dropped = what was handed to the backend - for every way of
   counting (every predicate on messages), hence as multisets. *)
From Coq Require Import ZifyBool ZifyN Permutation Sorted.
From RV Require Import Lib.Res Repl.ClientTicks Repl.World Repl.Server Repl.Client Repl.Sys Tick.RepliconTick
  Repl.ClientSys_proofs Repl.StructE2E_proofs Repl.StructE2EMut_proofs Repl.StructE2ESess_proofs Repl.ValSpec.
From RV Require Import Events.Remote Events.RemoteSpec Events.Remote_proofs Events.RemoteRun Events.RemoteRunProj_proofs
  Events.RemoteRunTick_proofs Events.RemoteRunE1_proofs.
Ltac Zify.zify_post_hook ::= Z.div_mod_to_equations.
Arguments N.add : simpl never. Arguments N.mul : simpl never. Arguments N.pow : simpl never.
Arguments N.ltb : simpl never. Arguments N.leb : simpl never. Arguments N.div : simpl never.
Arguments N.modulo : simpl never. Arguments N.sub : simpl never. Arguments N.eqb : simpl never.
Open Scope N_scope.

(* ---------- counting ---------- *)

Definition cnt (p : smsg -> bool) (l : list smsg) : nat := length (filter p l).

Lemma cnt_app p a b : cnt p (a ++ b) = (cnt p a + cnt p b)%nat.
Proof. unfold cnt. rewrite filter_app, app_length. reflexivity. Qed.

Lemma cnt_perm p a b : Permutation a b -> cnt p a = cnt p b.
Proof.
  intros H. unfold cnt. induction H as [|x l l' H IH|x y l|l l' l'' H1 IH1 H2 IH2]; cbn [filter].
  - reflexivity.
  - destruct (p x); cbn [length]; rewrite IH; reflexivity.
  - destruct (p x), (p y); reflexivity.
  - congruence.
Qed.

Lemma cnt_split p r l : cnt p l = (cnt p (filter r l) + cnt p (filter (fun m => negb (r m)) l))%nat.
Proof. rewrite <- cnt_app. apply cnt_perm. apply Permutation_sym. apply filter_split_perm. Qed.

(* ---------- logs ---------- *)

Lemma for_slot_app {A} slot (a b : list (N * A)) : for_slot slot (a ++ b) = for_slot slot a ++ for_slot slot b.
Proof. unfold for_slot. rewrite filter_app, map_app. reflexivity. Qed.

Lemma for_slot_tag {A} slot s (l : list A) : for_slot slot (tag s l) = if s =? slot then l else [].
Proof.
  unfold for_slot, tag. induction l as [|x l IH]; cbn [map filter fst]; [destruct (s =? slot); reflexivity|].
  destruct (s =? slot) eqn:E; cbn [map snd]; rewrite IH; reflexivity.
Qed.

Lemma for_slot_msgs slot (l : list (N * smsg)) : for_slot slot l = msgs_for slot l.
Proof. reflexivity. Qed.

Lemma for_slot_flat_tag {A} slot (f : N -> list A) ks : NoDup ks ->
  for_slot slot (flat_map (fun k => tag k (f k)) ks) = if in_dec N.eq_dec slot ks then f slot else [].
Proof.
  induction ks as [|k ks IH]; intros Hnd; cbn [flat_map]; [reflexivity|]. inversion Hnd as [|? ? Hnin Hnd']; subst.
  rewrite for_slot_app, for_slot_tag, (IH Hnd'). destruct (N.eqb_spec k slot) as [->|Hne].
  - destruct (in_dec N.eq_dec slot (slot :: ks)) as [_|Hn]; [|exfalso; apply Hn; left; reflexivity].
    destruct (in_dec N.eq_dec slot ks) as [Hi|_]; [contradiction|]. apply app_nil_r.
  - cbn [app]. destruct (in_dec N.eq_dec slot ks) as [Hi|Hn]; destruct (in_dec N.eq_dec slot (k :: ks)) as [Hi'|Hn']; try reflexivity.
    + exfalso. apply Hn'. right. exact Hi.
    + exfalso. destruct Hi' as [E|Hi']; [congruence|contradiction].
Qed.

Lemma for_slot_drop_same {A} slot (l : list (N * A)) : for_slot slot (drop_slot slot l) = [].
Proof.
  unfold for_slot, drop_slot. induction l as [|[k v] l IH]; cbn [filter fst]; [reflexivity|].
  destruct (k =? slot) eqn:E; cbn [negb filter fst]; [exact IH|]. rewrite E. exact IH.
Qed.

Lemma for_slot_drop_other {A} slot s (l : list (N * A)) : slot <> s -> for_slot slot (drop_slot s l) = for_slot slot l.
Proof.
  intros Hne. unfold for_slot, drop_slot. induction l as [|[k v] l IH]; cbn [filter fst]; [reflexivity|].
  destruct (k =? s) eqn:E; cbn [negb filter fst].
  - destruct (N.eqb_spec k slot) as [->|Hk]; [apply N.eqb_eq in E; congruence|]. exact IH.
  - destruct (k =? slot); cbn [map snd]; rewrite IH; reflexivity.
Qed.

(* ---------- the balance ---------- *)

Definition balance (p : smsg -> bool) (e : syse) (g : lghost) (slot : N) : Prop :=
  (cnt p (held_all e slot) + cnt p (for_slot slot (lt_got g)) + cnt p (for_slot slot (lt_unm g))
   + cnt p (for_slot slot (lt_disc g)) + cnt p (for_slot slot (lt_drop g)))%nat = cnt p (for_slot slot (lt_sent g)).

Definition ledger_ok (e : syse) (g : lghost) : Prop := forall p slot, balance p e g slot.

(* the messages of one frame: the conversion step sees exactly what leaves queue and inbox *)
Lemma receive_now_spec c ts : forall ce,
  snd (client_receive_types c ce ts) = omap (deliverable c) (receive_now c ce ts) /\
  Permutation (map snd (ce_queue ce) ++ ce_inbox ce)
              (receive_now c ce ts ++ map snd (ce_queue (fst (client_receive_types c ce ts))) ++ ce_inbox (fst (client_receive_types c ce ts))).
Proof.
  induction ts as [|t ts IH]; intros ce; cbn [client_receive_types receive_now].
  - cbn [fst snd omap app]. split; [reflexivity|apply Permutation_refl].
  - destruct (client_receive_type c ce t) as [ce1 g1] eqn:H1. cbn [fst]. specialize (IH ce1).
    destruct (client_receive_types c ce1 ts) as [ce2 g2]. cbn [fst snd] in *. destruct IH as [IHg IHp].
    destruct (client_receive_type_conservation _ _ _ _ _ H1) as (Hg1 & HP1 & _). split.
    + rewrite omap_app. congruence.
    + eapply Permutation_trans; [exact HP1|]. rewrite <- app_assoc. apply Permutation_app_head. exact IHp.
Qed.

Lemma frame_now_spec c ce :
  snd (client_receive c ce) = omap (deliverable c) (frame_now c ce) /\
  Permutation (map snd (ce_queue ce) ++ ce_inbox ce) (frame_now c ce ++ map snd (ce_queue (fst (client_receive c ce)))).
Proof.
  unfold frame_now. rewrite client_receive_eq. destruct (receive_now_spec c [ST; SE0; SEI; SEM; SEU] ce) as [A B]. split; [exact A|].
  rewrite <- client_receive_eq in B. rewrite client_receive_inbox_nil, app_nil_r in B. rewrite <- client_receive_eq. exact B.
Qed.

Lemma al_get_not_in {V} k (l : list (N * V)) : ~ In k (map fst l) -> al_get k l = None.
Proof.
  induction l as [|[k' v] l IH]; cbn [map fst al_get In]; [reflexivity|]. intros H. destruct (N.eqb_spec k' k) as [->|Hne]; [exfalso; apply H; left; reflexivity|].
  apply IH. intros Hin. apply H. right. exact Hin.
Qed.

Lemma held_all_same e e' slot : chan_s2c e' slot = chan_s2c e slot -> al_get slot (e_clients e') = al_get slot (e_clients e) ->
  held_all e' slot = held_all e slot.
Proof. intros A B. unfold held_all, inbox_of, queue_of. rewrite A, B. reflexivity. Qed.

Lemma balance_same p e g e' g' slot : held_all e' slot = held_all e slot ->
  for_slot slot (lt_got g') = for_slot slot (lt_got g) -> for_slot slot (lt_unm g') = for_slot slot (lt_unm g) ->
  for_slot slot (lt_disc g') = for_slot slot (lt_disc g) -> for_slot slot (lt_drop g') = for_slot slot (lt_drop g) ->
  for_slot slot (lt_sent g') = for_slot slot (lt_sent g) -> balance p e g slot -> balance p e' g' slot.
Proof. unfold balance. intros -> -> -> -> -> ->. auto. Qed.

Theorem ledger_step e g st e' o : clients_dom e -> ledger_ok e g -> syse_step e st = Ok (e', o) -> ledger_ok e' (lstep e g st e' o).
Proof.
  intros Hdom Hl H p slot. specialize (Hl p slot).
  destruct st as [b|tick dt cleanup ops parts emit|sl ops emit|sl ty w drop|sl ty w].
  - destruct (ebase_unfold _ _ _ _ H) as (_ & _ & _ & _ & _ & _ & Hlayer).
    destruct b as [| |s0 max|s0|s0|tick dt cleanup ops parts|s0 ops|s0 s2c ch w|s0 s2c ch w];
      try (destruct Hlayer as (Eq & Ec & _); apply (balance_same p e g); try reflexivity; [|exact Hl];
           apply held_all_same; [unfold chan_s2c; rewrite Eq|rewrite Ec]; reflexivity).
    + (* StStop *)
      destruct Hlayer as (Eq & Ec & _). cbn [lstep]. unfold balance, add_disc in *. cbn [lt_got lt_unm lt_disc lt_drop lt_sent].
      rewrite for_slot_app, cnt_app, (for_slot_flat_tag slot (fun k => chan_s2c e k)) by (apply NoDup_nodup).
      assert (Hh : held_all e' slot = inbox_of e slot ++ map snd (queue_of e slot)).
      { unfold held_all, chan_s2c, inbox_of, queue_of. rewrite Eq, Ec, chan_map_empty. reflexivity. }
      rewrite Hh. unfold held_all in Hl. rewrite !cnt_app in *.
      destruct (in_dec N.eq_dec slot (nodup N.eq_dec (map fst (e_s2c e)))) as [Hi|Hn]; [lia|].
      assert (Hc : chan_s2c e slot = []).
      { unfold chan_s2c. rewrite al_get_not_in; [reflexivity|]. intros Hin. apply Hn. apply nodup_In. exact Hin. }
      rewrite Hc in Hl. cbn in *. lia.
    + (* StConnect *)
      destruct Hlayer as (Eq & Ec & _). cbn [lstep]. destruct (find_client (y_server (e_sys e)) s0);
        (apply (balance_same p e g); try reflexivity; [|exact Hl]; apply held_all_same; [unfold chan_s2c; rewrite Eq|rewrite Ec]; reflexivity).
    + (* StDisconnect *)
      destruct Hlayer as (Eq & Ec & _). cbn [lstep]. unfold balance, add_disc in *. cbn [lt_got lt_unm lt_disc lt_drop lt_sent].
      rewrite for_slot_app, for_slot_tag, cnt_app. destruct (N.eqb_spec s0 slot) as [->|Hne].
      * assert (Hh : held_all e' slot = map snd (queue_of e slot)).
        { unfold held_all, chan_s2c, inbox_of, queue_of. rewrite Eq, Ec, !al_get_insert_same. cbn [opt_list app].
          destruct (al_get slot (e_clients e)); reflexivity. }
        rewrite Hh. unfold held_all in Hl. rewrite !cnt_app in *. lia.
      * assert (Hh : held_all e' slot = held_all e slot).
        { apply held_all_same; [unfold chan_s2c; rewrite Eq|rewrite Ec]; rewrite al_get_insert_other by congruence; reflexivity. }
        rewrite Hh. cbn [cnt filter length]. lia.
  - (* ESFrame *)
    destruct (sframe_full _ _ _ _ _ _ _ _ _ H) as (Hce & Hch & _). cbn [lstep]. unfold balance in *. cbn [lt_got lt_unm lt_disc lt_drop lt_sent].
    rewrite for_slot_app, (for_slot_msgs slot (eo_sent o)).
    assert (Hh : held_all e' slot = chan_s2c e slot ++ msgs_for slot (eo_sent o) ++ inbox_of e slot ++ map snd (queue_of e slot)).
    { unfold held_all, inbox_of, queue_of. rewrite Hch, Hce, <- app_assoc. reflexivity. }
    rewrite Hh. unfold held_all in Hl. rewrite !cnt_app in *. lia.
  - (* ECFrame *)
    destruct (cframe_unfold _ _ _ _ _ _ Hdom H) as (_ & Hq & _ & _ & _ & _ & _ & _ & Hceo & _ & Hcase).
    assert (Hchan : chan_s2c e' slot = chan_s2c e slot) by (unfold chan_s2c; rewrite Hq; reflexivity).
    cbn [lstep]. destruct (al_get sl (y_clients (e_sys e))) as [cb|] eqn:Hcb.
    2:{ destruct Hcase as (-> & _). exact Hl. }
    destruct Hcase as (ce & cl & Hce & Hcl & _ & Hcase). rewrite Hce, Hcl.
    destruct (cl_status cb).
    + (* not connected *)
      destruct Hcase as (Hce' & _). apply (balance_same p e g); try reflexivity; [|exact Hl].
      unfold held_all, inbox_of, queue_of. rewrite Hchan. destruct (N.eq_dec slot sl) as [->|Hne]; [rewrite Hce', Hce; reflexivity|rewrite (Hceo slot Hne); reflexivity].
    + cbv zeta in Hcase. destruct Hcase as (Hce' & _).
      unfold balance in *. cbn [lt_got lt_unm lt_disc lt_drop lt_sent].
      assert (Hdisc : for_slot slot (if negb (cl_last_connected cb) then tag sl (map snd (ce_queue ce)) else [])
                      = if negb (cl_last_connected cb) then (if sl =? slot then map snd (ce_queue ce) else []) else []).
      { destruct (negb (cl_last_connected cb)); [apply for_slot_tag|reflexivity]. }
      rewrite !for_slot_app, Hdisc, !for_slot_tag. clear Hdisc.
      destruct (N.eqb_spec sl slot) as [->|Hne].
      2:{ assert (Hh : held_all e' slot = held_all e slot) by (apply held_all_same; [exact Hchan|apply Hceo; congruence]).
          rewrite Hh, !app_nil_r. destruct (negb (cl_last_connected cb)); rewrite ?app_nil_r; exact Hl. }
      assert (Hh0 : held_all e slot = chan_s2c e slot ++ ce_inbox ce ++ map snd (ce_queue ce)).
      { unfold held_all, inbox_of, queue_of. rewrite Hce. reflexivity. }
      rewrite Hh0 in Hl. destruct (negb (cl_last_connected cb)).
      * destruct (frame_now_spec cl (mkCE [] (ce_inbox ce) [])) as [_ Hperm].
        assert (Hh : held_all e' slot = chan_s2c e slot ++ map snd (ce_queue (fst (client_receive cl (mkCE [] (ce_inbox ce) []))))).
        { unfold held_all, inbox_of, queue_of. rewrite Hchan, Hce'. cbn [ce_inbox ce_queue]. rewrite client_receive_inbox_nil. reflexivity. }
        rewrite Hh. pose proof (cnt_perm p _ _ Hperm) as Hc.
        pose proof (cnt_split p (resolvable cl) (frame_now cl (mkCE [] (ce_inbox ce) []))) as Hsp.
        cbn [ce_queue ce_inbox map] in Hc. rewrite ?app_nil_r. rewrite !cnt_app in *. cbn [cnt filter length] in *. lia.
      * destruct (frame_now_spec cl ce) as [_ Hperm].
        assert (Hh : held_all e' slot = chan_s2c e slot ++ map snd (ce_queue (fst (client_receive cl ce)))).
        { unfold held_all, inbox_of, queue_of. rewrite Hchan, Hce'. cbn [ce_inbox ce_queue]. rewrite client_receive_inbox_nil. reflexivity. }
        rewrite Hh. pose proof (cnt_perm p _ _ Hperm) as Hc.
        pose proof (cnt_split p (resolvable cl) (frame_now cl ce)) as Hsp.
        cbn [ce_queue ce_inbox map] in Hc. rewrite ?app_nil_r. rewrite !cnt_app in *. cbn [cnt filter length] in *. lia.
  - (* EDeliverS2C *)
    destruct (deliver_s2c_step _ _ _ _ _ _ _ H) as (picked & rest & Htk & Hch & Hcho & Hceo & Hce & Hnone & _).
    destruct (take_typed_perm _ _ _ _ _ Htk) as [Hperm _]. pose proof (cnt_perm p _ _ Hperm) as Hc. rewrite cnt_app in Hc.
    cbn [lstep]. rewrite Htk. cbn [fst].
    destruct (N.eq_dec slot sl) as [->|Hne].
    2:{ assert (Hh : held_all e' slot = held_all e slot) by (apply held_all_same; [apply Hcho; exact Hne|apply Hceo; exact Hne]).
        unfold balance in *. rewrite Hh. destruct drop; [|destruct (client_connected e sl)]; unfold add_disc; cbn [lt_got lt_unm lt_disc lt_drop lt_sent];
          rewrite ?for_slot_app, ?for_slot_tag; (destruct (N.eqb_spec sl slot) as [->|_]; [congruence|]); rewrite ?app_nil_r; exact Hl. }
    unfold balance, held_all, inbox_of, queue_of in *. rewrite Hch.
    destruct (al_get sl (e_clients e)) as [ce|] eqn:Ec.
    + rewrite (Hce ce eq_refl). destruct drop; cbn [orb].
      * cbn [lt_got lt_unm lt_disc lt_drop lt_sent]. rewrite for_slot_app, for_slot_tag, N.eqb_refl, !cnt_app in *. lia.
      * destruct (client_connected e sl); cbn [negb]; unfold add_disc; cbn [lt_got lt_unm lt_disc lt_drop lt_sent ce_inbox ce_queue].
        -- rewrite !cnt_app in *. lia.
        -- rewrite for_slot_app, for_slot_tag, N.eqb_refl, !cnt_app in *. lia.
    + rewrite (Hnone eq_refl), Ec. cbn [app map] in *. rewrite !app_nil_r in *.
      assert (Hnc : client_connected e sl = false) by (unfold client_connected; rewrite (Hdom sl Ec); reflexivity).
      rewrite Hnc. destruct drop; unfold add_disc; cbn [lt_got lt_unm lt_disc lt_drop lt_sent];
        rewrite for_slot_app, for_slot_tag, N.eqb_refl, !cnt_app in *; lia.
  - unfold syse_step in H. destruct (take_typed _ w _) as [picked rest]. injection H as <- _. exact Hl.
Qed.

Lemma ledger_init c n : ledger_ok (syse_init c n) lg_init.
Proof.
  intros p slot. unfold balance. cbn [lg_init lt_got lt_unm lt_disc lt_drop lt_sent for_slot filter map cnt length].
  assert (Hh : held_all (syse_init c n) slot = []).
  { destruct (held_all (syse_init c n) slot) as [|m r] eqn:E; [reflexivity|]. exfalso.
    assert (Hin : In m (held_all (syse_init c n) slot)) by (rewrite E; left; reflexivity). clear E.
    revert Hin. unfold held_all, chan_s2c, inbox_of, queue_of, syse_init. cbn [e_s2c e_clients].
    generalize (y_clients (sys_init c n)). intros l.
    assert (A : opt_list (al_get slot (map (fun kv : N * client => (fst kv, @nil smsg)) l)) = []).
    { induction l as [|[k v] l IH]; cbn [map al_get fst]; [reflexivity|]. destruct (k =? slot); [reflexivity|exact IH]. }
    assert (B : al_get slot (map (fun kv : N * client => (fst kv, cevents_init)) l) = None \/
                al_get slot (map (fun kv : N * client => (fst kv, cevents_init)) l) = Some cevents_init).
    { clear A. induction l as [|[k v] l IH]; cbn [map al_get fst]; [left; reflexivity|]. destruct (k =? slot); [right; reflexivity|exact IH]. }
    rewrite A. destruct B as [-> | ->]; intros []. }
  rewrite Hh. reflexivity.
Qed.

(* E2, conservation: in every run from the initial state the ledger balances, for every slot and every predicate *)
Theorem ledger_run c n script : forall e g os,
  lrun (syse_init c n) lg_init script = Ok (e, g, os) -> ledger_ok e g /\ clients_dom e.
Proof.
  induction script as [|st t IH] using rev_ind; intros e g os H.
  - cbn in H. inversion H; subst. split; [apply ledger_init|apply clients_dom_init].
  - destruct (grun_snoc _ _ _ _ _ _ _ _ _ H) as (e1 & g1 & os1 & o & H1 & Hs & -> & ->).
    destruct (IH _ _ _ H1) as [L D]. split; [exact (ledger_step _ _ _ _ _ D L Hs)|exact (clients_dom_step _ _ _ _ D Hs)].
Qed.
