(* Extraction of every executable model entry point used by the correspondence check.
   Only ExtrOcamlBasic (bool/option/list/prod/unit to native OCaml data types);
   no Extract Constant / Extract Inductive of our own; N, Z, positive stay inductive. *)
From Coq Require Import Extraction ExtrOcamlBasic.
From RV Require Import Lib.Res Wire.Varint Wire.EntityCodec Tick.RepliconTick Tick.ConfirmHistory Tick.MutateTicks Pack.Packing Backend.Framing Backend.Conditioner Hash.Fnv Hash.Protocol Vis.Visibility Repl.World Repl.Server Repl.Client Repl.Sys Rules.Rules Rules.Scene Events.Remote Wire.HarnessPayload Wire.AckCodec Events.Local Graph.Related.

Extraction Language OCaml.
Extraction "../ocaml/model.ml"
  deserialize_entity serialize_entity valid_entityb
  tick_cmp hist_new hist_contains hist_contains_any hist_confirm
  mt_default mt_mask mt_contains mt_contains_any mt_confirm mt_clear
  can_pack mutations_split
  frame read_message parse_all conditioner_batches protocol_hash_of check_protocol
  vis_new set_visibility remove_despawned drain_lost update state is_visible vstate_code
  sys_init sys_step legal syse_init syse_step decode_ce0 decode_cem decode_ct ack_indices lapp_init lstep_run supported graph_run
  rules_insert_all rule_new replicate_into_res select_components
  vdec_u16 vdec_u32 vdec_u64 venc_u16 venc_u32 venc_u64 fix16_dec fix16_enc.
