From RV Require Import Lib.Res Generated.Params Tick.RepliconTick.
From Coq Require Import ZifyBool ZifyN.
Open Scope N_scope.
Ltac Zify.zify_post_hook ::= Z.div_mod_to_equations.
Arguments N.add : simpl never. Arguments N.mul : simpl never. Arguments N.pow : simpl never.
Arguments N.ltb : simpl never. Arguments N.leb : simpl never. Arguments N.div : simpl never.
Arguments N.modulo : simpl never. Arguments N.sub : simpl never. Arguments N.eqb : simpl never.
Arguments Z.pow : simpl never. Arguments Z.modulo : simpl never.

(* Proof obligation on the regenerated constant: `u32::MAX / 2`.  If the source changes
   the divisor, this lemma (and everything below) stops compiling -- intended. *)
Lemma tick_half_range_is_2 : tick_half_range = 2.
Proof. reflexivity. Qed.

Lemma Npow32 : 2 ^ 32 = 4294967296. Proof. reflexivity. Qed.
Lemma Zpow32 : (2 ^ 32 = 4294967296)%Z. Proof. reflexivity. Qed.
Lemma Zpow31 : (2 ^ 31 = 2147483648)%Z. Proof. reflexivity. Qed.

Lemma tick_threshold : (2 ^ 32 - 1) / tick_half_range = 2147483647.
Proof. rewrite tick_half_range_is_2. reflexivity. Qed.

Lemma wrap_lt z : wrap z < 2 ^ 32.
Proof. unfold wrap. rewrite Npow32, Zpow32. lia. Qed.

Lemma wrap_small z : (0 <= z < 2 ^ 32)%Z -> wrap z = Z.to_N z.
Proof. unfold wrap. rewrite Zpow32. intros H. f_equal. lia. Qed.

Lemma wrap_of_N n : n < 2 ^ 32 -> wrap (Z.of_N n) = n.
Proof. unfold wrap. rewrite Npow32, Zpow32. lia. Qed.

Lemma wrap_period z k : wrap (z + k * 2 ^ 32) = wrap z.
Proof. unfold wrap. now rewrite Z.mod_add by (rewrite Zpow32; lia). Qed.

Lemma tick_sub_wrap a b : tick_sub (wrap a) (wrap b) = wrap (a - b).
Proof. unfold tick_sub, wrap. rewrite Npow32, Zpow32. lia. Qed.

Lemma tick_sub_wrap_n a n : n < 2 ^ 32 -> tick_sub (wrap a) n = wrap (a - Z.of_N n).
Proof. unfold tick_sub, wrap. rewrite Npow32, Zpow32. lia. Qed.

Lemma tick_add_wrap a n : tick_add (wrap a) n = wrap (a + Z.of_N n).
Proof. unfold tick_add, wrap. rewrite Npow32, Zpow32. lia. Qed.

(* wrapping distance of two ticks that are less than the counter range apart *)
Lemma tick_sub_wrap_ge a b : (0 <= a - b < 2 ^ 32)%Z -> tick_sub (wrap a) (wrap b) = Z.to_N (a - b).
Proof. intros H. rewrite tick_sub_wrap. now apply wrap_small. Qed.

(* C12, tick order: two ticks less than half the counter range apart are ordered by
   their wrapping distance *)
Theorem tick_cmp_spec : forall a b : Z, (Z.abs (a - b) < 2 ^ 31)%Z ->
  tick_cmp (wrap a) (wrap b) = Z.compare a b.
Proof.
  intros a b H. unfold tick_cmp. rewrite tick_threshold, tick_sub_wrap.
  unfold wrap. rewrite Zpow31 in H. rewrite Zpow32.
  destruct (Z.compare_spec a b) as [E | E | E].
  - subst b. replace (a - a)%Z with 0%Z by lia. reflexivity.
  - destruct (Z.to_N ((a - b) mod 4294967296) =? 0) eqn:E0; [lia|].
    destruct (2147483647 <? Z.to_N ((a - b) mod 4294967296)) eqn:E1; [reflexivity|lia].
  - destruct (Z.to_N ((a - b) mod 4294967296) =? 0) eqn:E0; [lia|].
    destruct (2147483647 <? Z.to_N ((a - b) mod 4294967296)) eqn:E1; [lia|reflexivity].
Qed.

Lemma tick_ltb_spec a b : (Z.abs (a - b) < 2 ^ 31)%Z -> tick_ltb (wrap a) (wrap b) = (a <? b)%Z.
Proof. intros H. unfold tick_ltb. rewrite (tick_cmp_spec a b H). unfold Z.ltb. now destruct (a ?= b)%Z. Qed.
Lemma tick_leb_spec a b : (Z.abs (a - b) < 2 ^ 31)%Z -> tick_leb (wrap a) (wrap b) = (a <=? b)%Z.
Proof. intros H. unfold tick_leb. rewrite (tick_cmp_spec a b H). unfold Z.leb. now destruct (a ?= b)%Z. Qed.
Lemma tick_gtb_spec a b : (Z.abs (a - b) < 2 ^ 31)%Z -> tick_gtb (wrap a) (wrap b) = (b <? a)%Z.
Proof. intros H. unfold tick_gtb. rewrite (tick_cmp_spec a b H). rewrite Z.ltb_antisym. unfold Z.leb. now destruct (a ?= b)%Z. Qed.
Lemma tick_geb_spec a b : (Z.abs (a - b) < 2 ^ 31)%Z -> tick_geb (wrap a) (wrap b) = (b <=? a)%Z.
Proof. intros H. unfold tick_geb. rewrite (tick_cmp_spec a b H). rewrite Z.leb_antisym. unfold Z.ltb. now destruct (a ?= b)%Z. Qed.

(* the order is not a total order on all of u32: at distance exactly half the range
   each tick is "less" than the other (outside the hypothesis of tick_cmp_spec) *)
Example tick_cmp_half_range : tick_cmp 0 (2 ^ 31) = Lt /\ tick_cmp (2 ^ 31) 0 = Lt.
Proof. split; reflexivity. Qed.

Example tick_cmp_wrap : tick_cmp (wrap (2 ^ 32 + 3)) (wrap (2 ^ 32 - 5)) = Gt /\ wrap (2 ^ 32 + 3) = 3 /\ wrap (2 ^ 32 - 5) = 4294967291.
Proof. repeat split; reflexivity. Qed.

(* integer widths hard-wired in Tick/*: re-read from the source on every run *)
Lemma widths_pinned : tick_width = 32 /\ hist_mask_width = 64 /\ mt_window_width = 64.
Proof. repeat split; reflexivity. Qed.
