From RV Require Import Lib.Res Tick.RepliconTick Tick.RepliconTick_proofs Tick.ConfirmHistory
  Tick.MutateTicks Tick.TickSpec.
From Coq Require Import ZifyBool ZifyN.
Open Scope N_scope.
Ltac Zify.zify_post_hook ::= Z.div_mod_to_equations.
Arguments N.add : simpl never. Arguments N.mul : simpl never. Arguments N.pow : simpl never.
Arguments N.ltb : simpl never. Arguments N.leb : simpl never. Arguments N.div : simpl never.
Arguments N.modulo : simpl never. Arguments N.sub : simpl never. Arguments N.eqb : simpl never.
Arguments Z.pow : simpl never. Arguments Z.modulo : simpl never.
Arguments N.shiftl : simpl never. Arguments N.shiftr : simpl never.
Arguments N.lor : simpl never. Arguments N.land : simpl never. Arguments N.testbit : simpl never.

Lemma Npow64 : 2 ^ 64 = 18446744073709551616. Proof. reflexivity. Qed.
Lemma ones64 : 2 ^ 64 - 1 = N.ones 64. Proof. reflexivity. Qed.

(* ---------- bit level lemmas ---------- *)
Lemma testbit_1 n : N.testbit 1 n = (n =? 0).
Proof. destruct n as [|p]; [reflexivity|]. destruct p; reflexivity. Qed.

Lemma lor_lt_pow2 a b n : a < 2 ^ n -> b < 2 ^ n -> N.lor a b < 2 ^ n.
Proof.
  intros Ha Hb.
  destruct (N.eq_dec a 0) as [-> | Na]; [now rewrite N.lor_0_l|].
  destruct (N.eq_dec b 0) as [-> | Nb]; [now rewrite N.lor_0_r|].
  destruct (N.eq_dec (N.lor a b) 0) as [E | Nl]; [rewrite E; lia|].
  apply N.log2_lt_pow2; [lia|]. rewrite N.log2_lor.
  apply N.log2_lt_pow2 in Ha; [|lia]. apply N.log2_lt_pow2 in Hb; [|lia]. lia.
Qed.

Lemma nonzero_bit x : x <> 0 <-> exists i, N.testbit x i = true.
Proof.
  split.
  - intros H. exists (N.log2 x). now apply N.bit_log2.
  - intros [i Hi] ->. rewrite N.bits_0 in Hi. discriminate.
Qed.

Lemma land_shr_1 m ago : (N.land (N.shiftr m ago) 1 =? 1) = N.testbit m ago.
Proof.
  change 1 with (N.ones 1) at 1. rewrite N.land_ones, N.shiftr_div_pow2.
  change (2 ^ 1) with 2. rewrite <- N.testbit_spec'.
  destruct (N.testbit m ago); reflexivity.
Qed.

(* mask after `set_last_tick` *)
Lemma shifted_mask_bits m d i : i < 64 ->
  N.testbit (N.lor (if d <? 64 then (N.shiftl m d) mod 2 ^ 64 else 0) 1) i =
  (i =? 0) || ((d <=? i) && N.testbit m (i - d)).
Proof.
  intros Hi. rewrite N.lor_spec, testbit_1, orb_comm. f_equal.
  destruct (d <? 64) eqn:Ed.
  - rewrite N.mod_pow2_bits_low by exact Hi.
    destruct (d <=? i) eqn:Edi.
    + rewrite N.shiftl_spec_high' by lia. reflexivity.
    + rewrite N.shiftl_spec_low by lia. reflexivity.
  - rewrite N.bits_0. destruct (d <=? i) eqn:Edi; [lia|reflexivity].
Qed.

(* mask after `set` *)
Lemma set_mask_bits m ago i : i < 64 ->
  N.testbit (N.lor m ((N.shiftl 1 ago) mod 2 ^ 64)) i = N.testbit m i || (ago =? i).
Proof.
  intros Hi. rewrite N.lor_spec. f_equal.
  rewrite N.mod_pow2_bits_low by exact Hi. rewrite N.shiftl_1_l. apply N.pow2_bits_eqb.
Qed.

(* the range mask of `contains_any` *)
Lemma range_mask_bits m len off i : 1 <= len <= 64 -> off < 64 ->
  N.testbit (N.land m ((N.shiftl (N.shiftr (2 ^ 64 - 1) (64 - len)) off) mod 2 ^ 64)) i =
  N.testbit m i && ((off <=? i) && (i <? off + len) && (i <? 64)).
Proof.
  intros Hlen Hoff. rewrite N.land_spec. f_equal.
  destruct (i <? 64) eqn:Ei.
  - rewrite N.mod_pow2_bits_low by lia.
    destruct (off <=? i) eqn:Eo.
    + rewrite N.shiftl_spec_high' by lia. rewrite N.shiftr_spec', ones64.
      destruct (i <? off + len) eqn:El.
      * rewrite N.ones_spec_low by lia. reflexivity.
      * rewrite N.ones_spec_high by lia. reflexivity.
    + rewrite N.shiftl_spec_low by lia. reflexivity.
  - rewrite N.mod_pow2_bits_high by lia. now rewrite andb_false_r.
Qed.

(* ---------- plain sets ---------- *)
Lemma mem_cons t x S : mem t (x :: S) = (t =? x)%Z || mem t S.
Proof. reflexivity. Qed.

Lemma existsb_range_spec a b f :
  existsb_range a b f = true <-> exists t, (a <= t <= b)%Z /\ f t = true.
Proof.
  unfold existsb_range, zrange. rewrite existsb_exists. split.
  - intros [t [Hin Hf]]. exists t. split; [|exact Hf].
    apply in_map_iff in Hin. destruct Hin as [k [<- Hk]]. apply in_seq in Hk. lia.
  - intros [t [Ht Hf]]. exists t. split; [|exact Hf].
    apply in_map_iff. exists (Z.to_nat (t - a)). split; [lia|]. apply in_seq. lia.
Qed.

(* ---------- ConfirmHistory refines the plain set ---------- *)
Lemma hist_new_R t : hist_R (hist_new (wrap t)) t [t].
Proof.
  unfold hist_R, hist_new; cbn [h_mask h_last]. split; [|split; [|split]].
  - reflexivity.
  - rewrite Npow64. lia.
  - intros i Hi. rewrite testbit_1, mem_cons. cbn [mem existsb]. lia.
  - intros x. rewrite mem_cons. cbn [mem existsb]. lia.
Qed.

Lemma hist_confirm_no_panic h t : hist_confirm h t <> Panic.
Proof.
  unfold hist_confirm, hist_set_last_tick, hist_set, tick_gtb, tick_geb.
  destruct (tick_cmp t (h_last h)); cbn [negb]; try discriminate;
    destruct (tick_sub (h_last h) t <? 64); cbn [negb]; discriminate.
Qed.

(* the key step: one confirmation, any gap *)
Lemma hist_confirm_R h L S t : hist_R h L S -> (Z.abs (t - L) < 2 ^ 31)%Z ->
  exists h', hist_confirm h (wrap t) = Ok h' /\ hist_R h' (Z.max L t) (t :: S).
Proof.
  intros (Hl & Hm & Hb & Hmax) Hn. unfold hist_confirm. rewrite Hl.
  rewrite (tick_gtb_spec t L Hn). rewrite Zpow31 in Hn.
  destruct (L <? t)%Z eqn:Elt.
  - (* newer than the latest: shift *)
    unfold hist_set_last_tick. rewrite Hl, (tick_geb_spec t L) by (rewrite Zpow31; exact Hn).
    replace (L <=? t)%Z with true by lia. cbn [negb].
    rewrite tick_sub_wrap_ge by (rewrite Zpow32; lia).
    eexists; split; [reflexivity|].
    replace (Z.max L t) with t by lia.
    unfold hist_R; cbn [h_mask h_last]. split; [|split; [|split]].
    + reflexivity.
    + apply lor_lt_pow2; [|rewrite Npow64; lia].
      destruct (Z.to_N (t - L) <? 64); [apply N.mod_lt; rewrite Npow64; lia|rewrite Npow64; lia].
    + intros i Hi. rewrite shifted_mask_bits by lia. rewrite mem_cons.
      destruct (Z.to_N i =? 0) eqn:E0.
      * replace (t - i =? t)%Z with true by lia. reflexivity.
      * replace (t - i =? t)%Z with false by lia. cbn [orb].
        destruct (Z.to_N (t - L) <=? Z.to_N i) eqn:Ed.
        -- cbn [andb]. replace (Z.to_N i - Z.to_N (t - L)) with (Z.to_N (i - (t - L))) by lia.
           rewrite Hb by lia. f_equal. lia.
        -- cbn [andb]. destruct (mem (t - i) S) eqn:Em; [|reflexivity].
           apply Hmax in Em. lia.
    + intros x. rewrite mem_cons. intros Hx. apply orb_true_iff in Hx.
      destruct Hx as [Hx | Hx]; [lia|]. apply Hmax in Hx. lia.
  - (* not newer: set a bit if inside the window *)
    rewrite tick_sub_wrap_ge by (rewrite Zpow32; lia).
    replace (Z.max L t) with L by lia.
    destruct (Z.to_N (L - t) <? 64) eqn:Eago.
    + unfold hist_set. rewrite Eago. cbn [negb].
      eexists; split; [reflexivity|].
      unfold hist_R; cbn [h_mask h_last]. split; [|split; [|split]].
      * exact Hl.
      * apply lor_lt_pow2; [exact Hm|]. apply N.mod_lt. rewrite Npow64. lia.
      * intros i Hi. rewrite set_mask_bits by lia. rewrite mem_cons, Hb by lia.
        rewrite orb_comm. f_equal. lia.
      * intros x. rewrite mem_cons. intros Hx. apply orb_true_iff in Hx.
        destruct Hx as [Hx | Hx]; [lia|]. now apply Hmax.
    + eexists; split; [reflexivity|].
      unfold hist_R. split; [|split; [|split]]; [exact Hl|exact Hm| |].
      * intros i Hi. rewrite mem_cons, Hb by lia.
        replace (L - i =? t)%Z with false by lia. reflexivity.
      * intros x. rewrite mem_cons. intros Hx. apply orb_true_iff in Hx.
        destruct Hx as [Hx | Hx]; [lia|]. now apply Hmax.
Qed.

(* any sequence of confirmations *)
Theorem hist_confirm_all_R : forall ts h L S, hist_R h L S -> within_half_range L ts ->
  exists h', hist_confirm_all h (map wrap ts) = Ok h' /\
             hist_R h' (fst (spec_confirm_all (L, S) ts)) (snd (spec_confirm_all (L, S) ts)).
Proof.
  induction ts as [|t r IH]; intros h L S HR Hw.
  - exists h. split; [reflexivity|exact HR].
  - destruct Hw as [Hn Hw]. cbn [map hist_confirm_all].
    destruct (hist_confirm_R h L S t HR Hn) as [h1 [E1 HR1]].
    rewrite E1. cbn [bind].
    destruct (IH h1 _ _ HR1 Hw) as [h' [E' HR']].
    exists h'. split; [exact E'|exact HR'].
Qed.

Theorem hist_refines_from_new : forall t0 ts, within_half_range t0 ts ->
  exists h', hist_confirm_all (hist_new (wrap t0)) (map wrap ts) = Ok h' /\
             hist_R h' (fst (spec_confirm_all (t0, [t0]) ts)) (snd (spec_confirm_all (t0, [t0]) ts)).
Proof. intros t0 ts. apply hist_confirm_all_R, hist_new_R. Qed.

(* membership query *)
Theorem hist_contains_spec h L S t : hist_R h L S -> (Z.abs (t - L) < 2 ^ 31)%Z ->
  hist_contains h (wrap t) = spec_contains L S t.
Proof.
  intros (Hl & Hm & Hb & Hmax) Hn. unfold hist_contains, spec_contains. rewrite Hl.
  rewrite (tick_gtb_spec t L Hn). rewrite Zpow31 in Hn.
  destruct (L <? t)%Z eqn:Elt.
  - replace (t <=? L)%Z with false by lia. reflexivity.
  - replace (t <=? L)%Z with true by lia. cbn [andb].
    rewrite tick_sub_wrap_ge by (rewrite Zpow32; lia).
    destruct (64 <=? Z.to_N (L - t)) eqn:Eago.
    + replace (64 <=? L - t)%Z with true by lia. reflexivity.
    + replace (64 <=? L - t)%Z with false by lia. cbn [orb].
      rewrite land_shr_1, Hb by lia. f_equal. lia.
Qed.

(* range query: never panics and answers "some tick in [a,b] is confirmed" *)
Theorem hist_contains_any_iff h L S a b : hist_R h L S ->
  (a <= b)%Z -> (b - a < 2 ^ 31)%Z -> (Z.abs (a - L) < 2 ^ 31)%Z ->
  exists r, hist_contains_any h (wrap a) (wrap b) = Ok r /\
            (r = true <-> exists t, (a <= t <= b)%Z /\ spec_contains L S t = true).
Proof.
  intros (Hl & Hm & Hb & Hmax) Hab Hab' Ha. unfold hist_contains_any. rewrite Hl.
  rewrite (tick_leb_spec a b) by lia. replace (a <=? b)%Z with true by lia. cbn [negb].
  rewrite (tick_gtb_spec a L Ha).
  rewrite Zpow31 in *.
  destruct (L <? a)%Z eqn:ELa.
  { exists false. split; [reflexivity|]. split; [discriminate|].
    intros [t [Ht Hs]]. unfold spec_contains in Hs. lia. }
  rewrite tick_sub_wrap_n by (rewrite Npow32; lia).
  rewrite (tick_leb_spec a (L - Z.of_N 64)) by (rewrite Zpow31; lia).
  destruct (a <=? L - Z.of_N 64)%Z eqn:Eold.
  { exists true. split; [reflexivity|]. split; [|reflexivity]. intros _.
    exists a. unfold spec_contains. split; [lia|].
    replace (a <=? L)%Z with true by lia. replace (64 <=? L - a)%Z with true by lia. reflexivity. }
  rewrite (tick_ltb_spec b L) by (rewrite Zpow31; lia).
  set (e := if (b <? L)%Z then b else L).
  replace (if (b <? L)%Z then wrap b else wrap L) with (wrap e) by (unfold e; now destruct (b <? L)%Z).
  assert (a <= e /\ e <= b /\ e <= L /\ (b <= e \/ e = L))%Z as He by (unfold e; destruct (b <? L)%Z eqn:EbL; lia).
  clearbody e.
  rewrite (tick_sub_wrap_ge e a) by (rewrite Zpow32; lia).
  rewrite (tick_sub_wrap_ge L e) by (rewrite Zpow32; lia).
  destruct (2 ^ 32 <=? Z.to_N (e - a) + 1) eqn:E1; [rewrite Npow32 in E1; lia|].
  destruct (64 <? Z.to_N (e - a) + 1) eqn:E2; [lia|].
  destruct (64 <=? 64 - (Z.to_N (e - a) + 1)) eqn:E3; [lia|].
  destruct (64 <=? Z.to_N (L - e)) eqn:E4; [lia|].
  eexists; split; [reflexivity|].
  rewrite negb_true_iff, N.eqb_neq, nonzero_bit. split.
  - intros [i Hi]. rewrite range_mask_bits in Hi by lia.
    apply andb_true_iff in Hi. destruct Hi as [Hi1 Hi2].
    exists (L - Z.of_N i)%Z. split; [lia|]. unfold spec_contains.
    replace (L - Z.of_N i <=? L)%Z with true by lia. cbn [andb].
    rewrite <- Hb by lia. rewrite N2Z.id, Hi1. apply orb_true_r.
  - intros [t [Ht Hs]]. unfold spec_contains in Hs.
    apply andb_true_iff in Hs. destruct Hs as [Hs1 Hs2].
    replace (64 <=? L - t)%Z with false in Hs2 by lia. cbn [orb] in Hs2.
    exists (Z.to_N (L - t)). rewrite range_mask_bits by lia.
    rewrite Hb by lia. replace (L - (L - t))%Z with t by lia. rewrite Hs2. cbn [andb]. lia.
Qed.

Theorem hist_contains_any_spec h L S a b : hist_R h L S ->
  (a <= b)%Z -> (b - a < 2 ^ 31)%Z -> (Z.abs (a - L) < 2 ^ 31)%Z ->
  hist_contains_any h (wrap a) (wrap b) = Ok (existsb_range a b (spec_contains L S)).
Proof.
  intros HR H1 H2 H3.
  destruct (hist_contains_any_iff h L S a b HR H1 H2 H3) as [r [E Hr]].
  rewrite E. f_equal. apply eq_true_iff_eq. rewrite Hr. symmetry. apply existsb_range_spec.
Qed.

Corollary hist_contains_any_no_panic h L S a b : hist_R h L S ->
  (a <= b)%Z -> (b - a < 2 ^ 31)%Z -> (Z.abs (a - L) < 2 ^ 31)%Z ->
  hist_contains_any h (wrap a) (wrap b) <> Panic.
Proof. intros HR H1 H2 H3. rewrite (hist_contains_any_spec h L S a b) by assumption. discriminate. Qed.

(* ---------- summary statement ---------- *)
Definition hist_near (L x : Z) : Prop := (Z.abs (x - L) < 2 ^ 31)%Z.

Theorem hist_refines : forall t0 ts, within_half_range t0 ts ->
  let L := fst (spec_confirm_all (t0, [t0]) ts) in
  let S := snd (spec_confirm_all (t0, [t0]) ts) in
  exists h, hist_confirm_all (hist_new (wrap t0)) (map wrap ts) = Ok h /\
    hist_R h L S /\
    (forall t, hist_near L t -> hist_contains h (wrap t) = spec_contains L S t) /\
    (forall a b, (a <= b)%Z -> (b - a < 2 ^ 31)%Z -> hist_near L a ->
       hist_contains_any h (wrap a) (wrap b) = Ok (existsb_range a b (spec_contains L S))).
Proof.
  intros t0 ts Hw L S.
  destruct (hist_refines_from_new t0 ts Hw) as [h [E HR]].
  exists h. split; [exact E|]. split; [exact HR|]. split.
  - intros t Ht. now apply hist_contains_spec.
  - intros a b H1 H2 H3. now apply hist_contains_any_spec.
Qed.

(* the specification state really is "the latest tick and the set of all confirmed ticks" *)
Lemma spec_confirm_all_mem ts : forall L S t,
  mem t (snd (spec_confirm_all (L, S) ts)) = mem t ts || mem t S.
Proof.
  induction ts as [|x r IH]; intros L S t; [reflexivity|].
  unfold spec_confirm_all in *. cbn [fold_left]. unfold spec_confirm at 2. cbn [fst snd].
  rewrite IH, !mem_cons. destruct (t =? x)%Z, (mem t r), (mem t S); reflexivity.
Qed.

Lemma spec_confirm_all_max ts : forall L S,
  fst (spec_confirm_all (L, S) ts) = fold_left Z.max ts L.
Proof.
  induction ts as [|x r IH]; intros L S; [reflexivity|].
  unfold spec_confirm_all in *. cbn [fold_left]. unfold spec_confirm at 2. cbn [fst snd]. apply IH.
Qed.
