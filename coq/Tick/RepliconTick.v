(* src/shared/replicon_tick.rs -- RepliconTick(u32), all operations wrapping.
   A tick is an N below 2^32.  [tick_cmp] mirrors `Ord::cmp` operation by operation;
   the derived operators `<`, `<=`, `>`, `>=` of PartialOrd go through `cmp`.
   The divisor of `u32::MAX / 2` is the regenerated constant [tick_half_range]. *)
From RV Require Import Lib.Res Generated.Params.
Open Scope N_scope.

Definition tick_ok (a : N) : Prop := a < 2 ^ 32.

(* u32 value of an unbounded (specification level) tick *)
Definition wrap (z : Z) : N := Z.to_N (z mod 2 ^ 32)%Z.

(* `Add<u32>`: self.0.wrapping_add(rhs) *)
Definition tick_add (a n : N) : N := (a + n) mod 2 ^ 32.

(* `Sub for RepliconTick` (-> u32) and `Sub<u32>` (-> RepliconTick): self.0.wrapping_sub(rhs) *)
Definition tick_sub (a b : N) : N := (a + 2 ^ 32 - b) mod 2 ^ 32.

(* `Ord::cmp` *)
Definition tick_cmp (a b : N) : comparison :=
  let difference := tick_sub a b in
  if difference =? 0 then Eq
  else if (2 ^ 32 - 1) / tick_half_range <? difference then Lt
  else Gt.

(* PartialOrd defaults: lt = (cmp == Less), le = (cmp != Greater), ... *)
Definition tick_ltb (a b : N) : bool := match tick_cmp a b with Lt => true | _ => false end.
Definition tick_leb (a b : N) : bool := match tick_cmp a b with Gt => false | _ => true end.
Definition tick_gtb (a b : N) : bool := match tick_cmp a b with Gt => true | _ => false end.
Definition tick_geb (a b : N) : bool := match tick_cmp a b with Lt => false | _ => true end.
