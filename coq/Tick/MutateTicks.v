(* src/client/server_mutate_ticks.rs -- ServerMutateTicks { ticks: VecDeque<TickMessages>, last_tick }.
   Entry i of the ring = messages of tick last_tick - i (index 0 = last tick).
   Debug-build semantics: debug_assert, index out of bounds, `VecDeque::range` bounds,
   shift / add overflow are [Panic] branches.  usize is 64 bit.
   Indices are converted to nat only after they have been compared with the length. *)
From RV Require Import Lib.Res Tick.RepliconTick.
Open Scope N_scope.

(* TickMessages { messages_count: usize, received: usize } *)
Record tmsg := { tm_count : N; tm_received : N }.
Definition tm_default : tmsg := {| tm_count := 0; tm_received := 0 |}.

(* TickMessages::all_received *)
Definition tm_all_received (m : tmsg) : bool :=
  negb (tm_count m =? 0) && (tm_count m =? tm_received m).

(* TickMessages::confirm *)
Definition tm_confirm (m : tmsg) (messages_count : N) : res (tmsg * bool) :=
  if messages_count =? 0 then Panic                                    (* debug_assert_ne!(messages_count, 0) *)
  else if negb ((tm_count m =? 0) || (tm_count m =? messages_count)) then Panic  (* count changed *)
  else if 2 ^ 64 <=? tm_received m + 1 then Panic                      (* `received += 1` overflows usize *)
  else
    let m' := {| tm_count := messages_count; tm_received := tm_received m + 1 |} in
    if negb (tm_received m' <=? tm_count m') then Panic                (* debug_assert!(received <= messages_count) *)
    else Ok (m', tm_all_received m').

Record mt := { mt_ticks : list tmsg; mt_last : N }.

(* Default for ServerMutateTicks *)
Definition mt_default : mt := {| mt_ticks := repeat tm_default 64; mt_last := 0 |}.

(* ServerMutateTicks::mask : `bitmask |= 1 << i` (u64 << usize, overflow for i >= 64) *)
Fixpoint mt_mask_from (i : N) (l : list tmsg) (bitmask : N) : res N :=
  match l with
  | [] => Ok bitmask
  | e :: r =>
    if tm_all_received e then
      if 64 <=? i then Panic
      else mt_mask_from (i + 1) r (N.lor bitmask ((N.shiftl 1 i) mod 2 ^ 64))
    else mt_mask_from (i + 1) r bitmask
  end.
Definition mt_mask (m : mt) : res N := mt_mask_from 0 (mt_ticks m) 0.

(* ServerMutateTicks::contains *)
Definition mt_contains (m : mt) (tick : N) : bool :=
  if tick_gtb tick (mt_last m) then false
  else
    let ago := tick_sub (mt_last m) tick in
    (* self.ticks.get(ago as usize) *)
    if ago <? N.of_nat (length (mt_ticks m)) then
      match nth_error (mt_ticks m) (N.to_nat ago) with
      | Some e => tm_all_received e
      | None => true
      end
    else true.

(* ServerMutateTicks::contains_any *)
Definition mt_contains_any (m : mt) (start_tick end_tick : N) : res bool :=
  if negb (tick_leb start_tick end_tick) then Panic       (* debug_assert!(start_tick <= end_tick) *)
  else if tick_gtb start_tick (mt_last m) then Ok false
  else
    let len := N.of_nat (length (mt_ticks m)) in
    (* `self.ticks.len() as u32` truncates *)
    if tick_leb start_tick (tick_sub (mt_last m) (len mod 2 ^ 32)) then Ok true
    else
      let end_tick := if tick_ltb end_tick (mt_last m) then end_tick else mt_last m in
      let e := tick_sub (mt_last m) start_tick in          (* `end`   *)
      let s := tick_sub (mt_last m) end_tick in            (* `start` *)
      (* VecDeque::range(s..=e) -> slice::range(s .. e+1, ..len):
         panics if s > e + 1 or e + 1 > len *)
      if e + 1 <? s then Panic
      else if len <? e + 1 then Panic
      else Ok (existsb tm_all_received
                 (firstn (N.to_nat (e + 1 - s)) (skipn (N.to_nat s) (mt_ticks m)))).

(* l[i] = x *)
Fixpoint list_upd {A} (l : list A) (i : nat) (x : A) : list A :=
  match l, i with
  | [], _ => []
  | _ :: r, O => x :: r
  | y :: r, S i' => y :: list_upd r i' x
  end.

(* self.ticks[i].confirm(messages_count) *)
Definition mt_confirm_at (ticks : list tmsg) (i : nat) (messages_count : N) : res (list tmsg * bool) :=
  match nth_error ticks i with
  | None => Panic                                                     (* index out of bounds *)
  | Some e => let* (e', b) := tm_confirm e messages_count in Ok (list_upd ticks i e', b)
  end.

(* one iteration of `for _ in 0..delta { pop_back(); push_front(Default::default()) }`
   (pop_back on an empty deque is a no-op) *)
Definition mt_rot_step (l : list tmsg) : list tmsg := tm_default :: removelast l.
(* the loop itself; only used to justify [mt_shift] (MutateTicks_proofs.mt_shift_loop) *)
Definition mt_shift_loop (delta : nat) (l : list tmsg) : list tmsg := Nat.iter delta mt_rot_step l.

(* closed form of the loop for a deque of length 64 and delta < 64:
   prepend delta default entries, keep the first 64 *)
Definition mt_shift (delta : N) (l : list tmsg) : list tmsg :=
  firstn 64 (repeat tm_default (N.to_nat delta) ++ l).

(* ServerMutateTicks::confirm *)
Definition mt_confirm (m : mt) (tick messages_count : N) : res (mt * bool) :=
  let len := N.of_nat (length (mt_ticks m)) in
  if negb (len =? 64) then Panic                          (* debug_assert_eq!(len, u64::BITS as usize) *)
  else if tick_gtb tick (mt_last m) then
    let delta := tick_sub tick (mt_last m) in
    let ticks :=
      if len <=? delta then repeat tm_default 64         (* clear(); resize(64, default) *)
      else mt_shift delta (mt_ticks m) in
    let* (ticks', b) := mt_confirm_at ticks 0 messages_count in
    Ok ({| mt_ticks := ticks'; mt_last := tick |}, b)
  else
    let delta := tick_sub (mt_last m) tick in
    if delta <? len then
      let* (ticks', b) := mt_confirm_at (mt_ticks m) (N.to_nat delta) messages_count in
      Ok ({| mt_ticks := ticks'; mt_last := mt_last m |}, b)
    else Ok (m, false).

(* ServerMutateTicks::clear *)
Definition mt_clear (m : mt) : mt :=
  {| mt_ticks := map (fun _ => tm_default) (mt_ticks m); mt_last := 0 |}.

(* a sequence of `confirm` calls, collecting the returned flags *)
Fixpoint mt_confirm_all (m : mt) (calls : list (N * N)) : res (mt * list bool) :=
  match calls with
  | [] => Ok (m, [])
  | (t, c) :: r =>
    let* (m', b) := mt_confirm m t c in
    let* (m'', bs) := mt_confirm_all m' r in
    Ok (m'', b :: bs)
  end.
