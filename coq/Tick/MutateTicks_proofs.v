From RV Require Import Lib.Res Tick.RepliconTick Tick.RepliconTick_proofs Tick.ConfirmHistory
  Tick.MutateTicks Tick.TickSpec Tick.ConfirmHistory_proofs.
From Coq Require Import ZifyBool ZifyN.
Open Scope N_scope.
Ltac Zify.zify_post_hook ::= Z.div_mod_to_equations.
Arguments N.add : simpl never. Arguments N.mul : simpl never. Arguments N.pow : simpl never.
Arguments N.ltb : simpl never. Arguments N.leb : simpl never. Arguments N.div : simpl never.
Arguments N.modulo : simpl never. Arguments N.sub : simpl never. Arguments N.eqb : simpl never.
Arguments Z.pow : simpl never. Arguments Z.modulo : simpl never.

(* ---------- list lemmas ---------- *)
Lemma nth_error_firstn' {A} n (l : list A) i :
  nth_error (firstn n l) i = if (i <? n)%nat then nth_error l i else None.
Proof.
  revert l i; induction n as [|n IH]; intros l i.
  - cbn [firstn]. destruct i; reflexivity.
  - destruct l as [|x l]; cbn [firstn].
    + destruct i; cbn [nth_error]; destruct (_ <? _)%nat; reflexivity.
    + destruct i as [|i]; [reflexivity|]. cbn [nth_error]. rewrite IH. reflexivity.
Qed.

Lemma nth_error_repeat' {A} (x : A) n i :
  nth_error (repeat x n) i = if (i <? n)%nat then Some x else None.
Proof.
  revert i; induction n as [|n IH]; intros i; cbn [repeat].
  - destruct i; reflexivity.
  - destruct i as [|i]; [reflexivity|]. cbn [nth_error]. rewrite IH. reflexivity.
Qed.

Lemma nth_error_skipn' {A} s (l : list A) j : nth_error (skipn s l) j = nth_error l (s + j).
Proof.
  revert l; induction s as [|s IH]; intros l; [reflexivity|].
  destruct l as [|x l]; cbn [skipn plus]; [destruct j; reflexivity|]. cbn [nth_error]. apply IH.
Qed.

Lemma list_upd_length {A} (l : list A) i x : length (list_upd l i x) = length l.
Proof.
  revert i; induction l as [|y l IH]; intros i; [reflexivity|].
  destruct i; cbn [list_upd length]; [reflexivity|]. now rewrite IH.
Qed.

Lemma nth_error_list_upd {A} (l : list A) i x j : (i < length l)%nat ->
  nth_error (list_upd l i x) j = if (j =? i)%nat then Some x else nth_error l j.
Proof.
  revert i j; induction l as [|y l IH]; intros i j Hi; [cbn [length] in Hi; lia|].
  destruct i as [|i]; cbn [list_upd].
  - destruct j; reflexivity.
  - destruct j as [|j]; [reflexivity|]. cbn [nth_error length] in *. rewrite IH by lia. reflexivity.
Qed.

Lemma existsb_slice {A} (f : A -> bool) (l : list A) s k :
  existsb f (firstn k (skipn s l)) = true <->
  exists j x, (s <= j < s + k)%nat /\ nth_error l j = Some x /\ f x = true.
Proof.
  rewrite existsb_exists. split.
  - intros [x [Hin Hf]]. apply In_nth_error in Hin. destruct Hin as [j Hj].
    rewrite nth_error_firstn', nth_error_skipn' in Hj.
    destruct (j <? k)%nat eqn:Ej; [|discriminate].
    exists (s + j)%nat, x. split; [lia|]. split; assumption.
  - intros [j [x [Hj [Hn Hf]]]]. exists x. split; [|exact Hf].
    apply (nth_error_In _ (j - s)). rewrite nth_error_firstn', nth_error_skipn'.
    replace (j - s <? k)%nat with true by lia. replace (s + (j - s))%nat with j by lia. exact Hn.
Qed.

(* ---------- the pop_back / push_front loop is [mt_shift] ---------- *)
Lemma mt_shift_loop_closed d l : l <> [] ->
  mt_shift_loop d l = firstn (length l) (repeat tm_default d ++ l).
Proof.
  intros Hl. unfold mt_shift_loop. induction d as [|d IH].
  - change (Nat.iter 0 mt_rot_step l) with l. cbn [repeat app]. now rewrite firstn_all.
  - change (Nat.iter (S d) mt_rot_step l) with (mt_rot_step (Nat.iter d mt_rot_step l)).
    rewrite IH. unfold mt_rot_step.
    destruct l as [|x l]; [congruence|]. cbn [length].
    rewrite removelast_firstn by (rewrite app_length, repeat_length; cbn [length]; lia).
    reflexivity.
Qed.

Lemma mt_shift_loop_eq delta l : length l = 64%nat -> delta < 64 ->
  mt_shift_loop (N.to_nat delta) l = mt_shift delta l.
Proof.
  intros Hl _. unfold mt_shift. rewrite mt_shift_loop_closed, Hl; [reflexivity|].
  intros ->. discriminate.
Qed.

(* ---------- TickMessages ---------- *)
Lemma tm_confirm_proto M t c : proto_ok M t c = true ->
  tm_confirm (M t) c = Ok (mlog_add M t c t, (tm_received (M t) + 1 =? c)).
Proof.
  unfold proto_ok, tm_confirm. intros H.
  apply andb_true_iff in H; destruct H as [H H4].
  apply andb_true_iff in H; destruct H as [H H3].
  apply andb_true_iff in H; destruct H as [H1 H2].
  destruct (c =? 0) eqn:E0; [discriminate|].
  rewrite H3. cbn [negb]. rewrite Npow64 in *.
  destruct (18446744073709551616 <=? tm_received (M t) + 1) eqn:E1; [lia|].
  cbn [tm_count tm_received].
  destruct (tm_received (M t) + 1 <=? c) eqn:E2; [|lia]. cbn [negb].
  unfold mlog_add. rewrite Z.eqb_refl. f_equal. f_equal.
  unfold tm_all_received; cbn [tm_count tm_received]. rewrite E0. cbn [negb andb]. apply N.eqb_sym.
Qed.

(* ---------- the ring refines the plain log ---------- *)
Definition win (ticks : list tmsg) (L : Z) (M : mlog) : Prop :=
  length ticks = 64%nat /\
  forall i, (0 <= i < 64)%Z -> nth_error ticks (Z.to_nat i) = Some (M (L - i)%Z).

Lemma mt_R_win m L M : mt_R m L M <->
  mt_last m = wrap L /\ win (mt_ticks m) L M /\ (forall t, (L < t)%Z -> M t = tm_default).
Proof. unfold mt_R, win. tauto. Qed.

Lemma mt_default_R : mt_R mt_default 0 mlog_empty.
Proof.
  apply mt_R_win. cbn [mt_default mt_last mt_ticks]. split; [reflexivity|]. split; [|reflexivity].
  split; [apply repeat_length|].
  intros i Hi. rewrite nth_error_repeat'. replace (Z.to_nat i <? 64)%nat with true by lia. reflexivity.
Qed.

Lemma mt_clear_R m : length (mt_ticks m) = 64%nat -> mt_R (mt_clear m) 0 mlog_empty.
Proof.
  intros Hlen. unfold mt_clear.
  replace (map (fun _ => tm_default) (mt_ticks m)) with (repeat tm_default 64); [exact mt_default_R|].
  rewrite <- Hlen. generalize (mt_ticks m). induction l as [|x l IH]; [reflexivity|].
  cbn [length repeat map]. now rewrite IH.
Qed.

(* moving the window forward to a newer tick (both branches: clear, rotate) *)
Lemma win_shift ticks L M t : win ticks L M -> (forall x, (L < x)%Z -> M x = tm_default) ->
  (L < t)%Z ->
  win (if 64 <=? Z.to_N (t - L) then repeat tm_default 64 else mt_shift (Z.to_N (t - L)) ticks) t M.
Proof.
  intros [Hlen Hw] Hf Ht.
  destruct (64 <=? Z.to_N (t - L)) eqn:Ed.
  - split; [apply repeat_length|]. intros i Hi. rewrite nth_error_repeat'.
    replace (Z.to_nat i <? 64)%nat with true by lia. rewrite Hf by lia. reflexivity.
  - unfold mt_shift. rewrite Z_N_nat. split.
    + rewrite firstn_length, app_length, repeat_length, Hlen. lia.
    + intros i Hi. rewrite nth_error_firstn'. replace (Z.to_nat i <? 64)%nat with true by lia.
      destruct (Z.to_nat i <? Z.to_nat (t - L))%nat eqn:Ei.
      * rewrite nth_error_app1 by (rewrite repeat_length; lia). rewrite nth_error_repeat', Ei.
        rewrite Hf by lia. reflexivity.
      * rewrite nth_error_app2 by (rewrite repeat_length; lia). rewrite repeat_length.
        replace (Z.to_nat i - Z.to_nat (t - L))%nat with (Z.to_nat (i - (t - L))) by lia.
        rewrite Hw by lia. f_equal. f_equal. lia.
Qed.

(* `self.ticks[L - t].confirm(c)` for a tick inside the window *)
Lemma win_confirm_at ticks L M t c : win ticks L M -> (L - 64 < t <= L)%Z -> proto_ok M t c = true ->
  exists ticks', mt_confirm_at ticks (Z.to_nat (L - t)) c = Ok (ticks', (tm_received (M t) + 1 =? c)) /\
                 win ticks' L (mlog_add M t c).
Proof.
  intros [Hlen Hw] Ht Hp. unfold mt_confirm_at.
  rewrite Hw by lia. replace (L - (L - t))%Z with t by lia.
  rewrite (tm_confirm_proto M t c Hp). cbn [bind].
  eexists; split; [reflexivity|]. split.
  - now rewrite list_upd_length.
  - intros i Hi. rewrite nth_error_list_upd by lia.
    destruct (Z.to_nat i =? Z.to_nat (L - t))%nat eqn:Ei.
    + replace (L - i)%Z with t by lia. reflexivity.
    + rewrite Hw by lia. unfold mlog_add. replace (L - i =? t)%Z with false by lia. reflexivity.
Qed.

(* one `confirm` call *)
Lemma mt_confirm_R m L M t c : mt_R m L M -> (Z.abs (t - L) < 2 ^ 31)%Z -> proto_ok M t c = true ->
  exists m', mt_confirm m (wrap t) c = Ok (m', mspec_completes L M t c) /\
             mt_R m' (Z.max L t) (mlog_add M t c).
Proof.
  intros HR Hn Hp. apply mt_R_win in HR. destruct HR as (Hl & Hw & Hf).
  pose proof Hw as [Hlen _].
  unfold mt_confirm, mspec_completes. rewrite Hlen, Hl. change (N.of_nat 64) with 64.
  cbn [N.eqb negb]. replace (64 =? 64) with true by reflexivity. cbn [negb].
  rewrite (tick_gtb_spec t L Hn). rewrite Zpow31 in Hn.
  destruct (L <? t)%Z eqn:Elt.
  - rewrite tick_sub_wrap_ge by (rewrite Zpow32; lia).
    pose proof (win_shift _ L M t Hw Hf ltac:(lia)) as Hw'.
    destruct (win_confirm_at _ t M t c Hw' ltac:(lia) Hp) as [ticks' [E Hw'']].
    replace (t - t)%Z with 0%Z in E by lia. change (Z.to_nat 0) with O in E.
    rewrite E. cbn [bind].
    eexists; split.
    + f_equal. f_equal. replace (L - 64 <? t)%Z with true by lia. reflexivity.
    + apply mt_R_win. cbn [mt_ticks mt_last]. replace (Z.max L t) with t by lia.
      split; [reflexivity|]. split; [exact Hw''|].
      intros x Hx. unfold mlog_add. replace (x =? t)%Z with false by lia. apply Hf. lia.
  - rewrite tick_sub_wrap_ge by (rewrite Zpow32; lia).
    replace (Z.max L t) with L by lia.
    destruct (Z.to_N (L - t) <? 64) eqn:Eago.
    + rewrite Z_N_nat.
      destruct (win_confirm_at _ L M t c Hw ltac:(lia) Hp) as [ticks' [E Hw'']].
      rewrite E. cbn [bind].
      eexists; split.
      * f_equal. f_equal. replace (L - 64 <? t)%Z with true by lia. reflexivity.
      * apply mt_R_win. cbn [mt_ticks mt_last]. split; [reflexivity|]. split; [exact Hw''|].
        intros x Hx. unfold mlog_add. replace (x =? t)%Z with false by lia. now apply Hf.
    + exists m. split.
      * f_equal. f_equal. replace (L - 64 <? t)%Z with false by lia. reflexivity.
      * apply mt_R_win. split; [exact Hl|]. split.
        -- destruct Hw as [_ Hw]. split; [exact Hlen|]. intros i Hi. rewrite Hw by lia.
           unfold mlog_add. replace (L - i =? t)%Z with false by lia. reflexivity.
        -- intros x Hx. unfold mlog_add. replace (x =? t)%Z with false by lia. now apply Hf.
Qed.

Lemma mt_confirm_no_panic m L M t c : mt_R m L M -> (Z.abs (t - L) < 2 ^ 31)%Z -> proto_ok M t c = true ->
  mt_confirm m (wrap t) c <> Panic.
Proof. intros HR Hn Hp. destruct (mt_confirm_R m L M t c HR Hn Hp) as [m' [E _]]. rewrite E. discriminate. Qed.

(* any sequence of calls that follows the protocol *)
Definition wrap_calls (calls : list (Z * N)) : list (N * N) := map (fun tc => (wrap (fst tc), snd tc)) calls.

Theorem mt_confirm_all_R : forall calls m L M, mt_R m L M -> mcalls_ok L M calls ->
  exists m', mt_confirm_all m (wrap_calls calls) = Ok (m', snd (mspec_confirm_all L M calls)) /\
             mt_R m' (fst (fst (mspec_confirm_all L M calls))) (snd (fst (mspec_confirm_all L M calls))).
Proof.
  induction calls as [|[t c] r IH]; intros m L M HR Hok.
  - exists m. split; [reflexivity|exact HR].
  - destruct Hok as (Hn & Hp & Hok). cbn [wrap_calls map mt_confirm_all fst snd].
    destruct (mt_confirm_R m L M t c HR Hn Hp) as [m1 [E1 HR1]].
    rewrite E1. cbn [bind].
    destruct (IH m1 _ _ HR1 Hok) as [m' [E' HR']].
    fold (wrap_calls r). rewrite E'. cbn [bind mspec_confirm_all].
    destruct (mspec_confirm_all (Z.max L t) (mlog_add M t c) r) as [LM bs] eqn:Es.
    cbn [fst snd] in *. exists m'. split; [reflexivity|exact HR'].
Qed.

Theorem mt_refines_from_default : forall calls, mcalls_ok 0 mlog_empty calls ->
  exists m', mt_confirm_all mt_default (wrap_calls calls) = Ok (m', snd (mspec_confirm_all 0 mlog_empty calls)) /\
             mt_R m' (fst (fst (mspec_confirm_all 0 mlog_empty calls))) (snd (fst (mspec_confirm_all 0 mlog_empty calls))).
Proof. intros calls. apply mt_confirm_all_R, mt_default_R. Qed.

(* membership query *)
Theorem mt_contains_spec m L M t : mt_R m L M -> (Z.abs (t - L) < 2 ^ 31)%Z ->
  mt_contains m (wrap t) = mspec_contains L M t.
Proof.
  intros HR Hn. apply mt_R_win in HR. destruct HR as (Hl & [Hlen Hw] & Hf).
  unfold mt_contains, mspec_contains. rewrite Hl, Hlen. change (N.of_nat 64) with 64.
  rewrite (tick_gtb_spec t L Hn). rewrite Zpow31 in Hn.
  destruct (L <? t)%Z eqn:Elt.
  - replace (t <=? L)%Z with false by lia. reflexivity.
  - replace (t <=? L)%Z with true by lia. cbn [andb].
    rewrite tick_sub_wrap_ge by (rewrite Zpow32; lia).
    destruct (Z.to_N (L - t) <? 64) eqn:Eago.
    + replace (64 <=? L - t)%Z with false by lia. cbn [orb].
      rewrite Z_N_nat, Hw by lia. f_equal. f_equal. lia.
    + replace (64 <=? L - t)%Z with true by lia. reflexivity.
Qed.

(* range query *)
Theorem mt_contains_any_iff m L M a b : mt_R m L M ->
  (a <= b)%Z -> (b - a < 2 ^ 31)%Z -> (Z.abs (a - L) < 2 ^ 31)%Z ->
  exists r, mt_contains_any m (wrap a) (wrap b) = Ok r /\
            (r = true <-> exists t, (a <= t <= b)%Z /\ mspec_contains L M t = true).
Proof.
  intros HR Hab Hab' Ha. apply mt_R_win in HR. destruct HR as (Hl & [Hlen Hw] & Hf).
  unfold mt_contains_any. rewrite Hl, Hlen. change (N.of_nat 64) with 64.
  replace (64 mod 2 ^ 32) with 64 by reflexivity.
  rewrite (tick_leb_spec a b) by lia. replace (a <=? b)%Z with true by lia. cbn [negb].
  rewrite (tick_gtb_spec a L Ha).
  rewrite Zpow31 in *.
  destruct (L <? a)%Z eqn:ELa.
  { exists false. split; [reflexivity|]. split; [discriminate|].
    intros [t [Ht Hs]]. unfold mspec_contains in Hs. lia. }
  rewrite tick_sub_wrap_n by (rewrite Npow32; lia).
  rewrite (tick_leb_spec a (L - Z.of_N 64)) by (rewrite Zpow31; lia).
  destruct (a <=? L - Z.of_N 64)%Z eqn:Eold.
  { exists true. split; [reflexivity|]. split; [|reflexivity]. intros _.
    exists a. unfold mspec_contains. split; [lia|].
    replace (a <=? L)%Z with true by lia. replace (64 <=? L - a)%Z with true by lia. reflexivity. }
  rewrite (tick_ltb_spec b L) by (rewrite Zpow31; lia).
  set (e := if (b <? L)%Z then b else L).
  replace (if (b <? L)%Z then wrap b else wrap L) with (wrap e) by (unfold e; now destruct (b <? L)%Z).
  assert (a <= e /\ e <= b /\ e <= L /\ (b <= e \/ e = L))%Z as He by (unfold e; destruct (b <? L)%Z eqn:EbL; lia).
  clearbody e.
  rewrite (tick_sub_wrap_ge L a) by (rewrite Zpow32; lia).
  rewrite (tick_sub_wrap_ge L e) by (rewrite Zpow32; lia).
  destruct (Z.to_N (L - a) + 1 <? Z.to_N (L - e)) eqn:E1; [lia|].
  destruct (64 <? Z.to_N (L - a) + 1) eqn:E2; [lia|].
  eexists; split; [reflexivity|].
  rewrite existsb_slice. split.
  - intros [j [x [Hj [Hx Hr]]]].
    exists (L - Z.of_nat j)%Z. split; [lia|]. unfold mspec_contains.
    replace (L - Z.of_nat j <=? L)%Z with true by lia. cbn [andb].
    rewrite <- (Nat2Z.id j), Hw in Hx by lia. injection Hx as <-. rewrite Hr. apply orb_true_r.
  - intros [t [Ht Hs]]. unfold mspec_contains in Hs.
    apply andb_true_iff in Hs. destruct Hs as [Hs1 Hs2].
    replace (64 <=? L - t)%Z with false in Hs2 by lia. cbn [orb] in Hs2.
    exists (Z.to_nat (L - t)), (M t). split; [lia|]. split; [|exact Hs2].
    rewrite Hw by lia. f_equal. f_equal. lia.
Qed.

Theorem mt_contains_any_spec m L M a b : mt_R m L M ->
  (a <= b)%Z -> (b - a < 2 ^ 31)%Z -> (Z.abs (a - L) < 2 ^ 31)%Z ->
  mt_contains_any m (wrap a) (wrap b) = Ok (existsb_range a b (mspec_contains L M)).
Proof.
  intros HR H1 H2 H3.
  destruct (mt_contains_any_iff m L M a b HR H1 H2 H3) as [r [E Hr]].
  rewrite E. f_equal. apply eq_true_iff_eq. rewrite Hr. symmetry. apply existsb_range_spec.
Qed.

Corollary mt_contains_any_no_panic m L M a b : mt_R m L M ->
  (a <= b)%Z -> (b - a < 2 ^ 31)%Z -> (Z.abs (a - L) < 2 ^ 31)%Z ->
  mt_contains_any m (wrap a) (wrap b) <> Panic.
Proof. intros HR H1 H2 H3. rewrite (mt_contains_any_spec m L M a b) by assumption. discriminate. Qed.

(* ---------- `mask` ---------- *)
Lemma shl1_mod i : i < 64 -> (N.shiftl 1 i) mod 2 ^ 64 = 2 ^ i.
Proof. intros Hi. rewrite N.shiftl_1_l. apply N.mod_small. apply N.pow_lt_mono_r; lia. Qed.

Definition bit_of (l : list tmsg) (i j : N) : bool :=
  if i <=? j then
    match nth_error l (N.to_nat (j - i)) with Some e => tm_all_received e | None => false end
  else false.

Lemma mt_mask_from_spec : forall l i acc, i + N.of_nat (length l) <= 64 -> acc < 2 ^ 64 ->
  exists k, mt_mask_from i l acc = Ok k /\ k < 2 ^ 64 /\
            forall j, N.testbit k j = N.testbit acc j || bit_of l i j.
Proof.
  induction l as [|e r IH]; intros i acc Hi Hacc.
  - exists acc. split; [reflexivity|]. split; [exact Hacc|].
    intros j. unfold bit_of. destruct (i <=? j); [|now rewrite orb_false_r].
    destruct (N.to_nat (j - i)); now rewrite orb_false_r.
  - cbn [length] in Hi. cbn [mt_mask_from].
    assert (forall j, bit_of (e :: r) i j = (tm_all_received e && (i =? j)) || bit_of r (i + 1) j) as Hbit.
    { intros j. unfold bit_of. destruct (i <=? j) eqn:E1.
      - destruct (i =? j) eqn:E2.
        + replace (N.to_nat (j - i)) with O by lia. cbn [nth_error].
          replace (i + 1 <=? j) with false by lia. now rewrite andb_true_r, orb_false_r.
        + replace (N.to_nat (j - i)) with (S (N.to_nat (j - (i + 1)))) by lia. cbn [nth_error].
          replace (i + 1 <=? j) with true by lia. now rewrite andb_false_r.
      - replace (i + 1 <=? j) with false by lia. replace (i =? j) with false by lia.
        now rewrite andb_false_r. }
    destruct (tm_all_received e) eqn:Ee.
    + destruct (64 <=? i) eqn:E64; [lia|].
      rewrite shl1_mod by lia.
      destruct (IH (i + 1) (N.lor acc (2 ^ i))) as [k [Ek [Hk Hb]]]; [lia| |].
      { apply lor_lt_pow2; [exact Hacc|]. apply N.pow_lt_mono_r; lia. }
      exists k. split; [exact Ek|]. split; [exact Hk|].
      intros j. rewrite Hb, Hbit, N.lor_spec, N.pow2_bits_eqb. cbn [andb]. now rewrite orb_assoc.
    + destruct (IH (i + 1) acc) as [k [Ek [Hk Hb]]]; [lia|exact Hacc|].
      exists k. split; [exact Ek|]. split; [exact Hk|].
      intros j. rewrite Hb, Hbit. reflexivity.
Qed.

(* the ring's mask has the same shape as the history mask: bit i = "tick L - i complete" *)
Theorem mt_mask_spec m L M : mt_R m L M ->
  exists k, mt_mask m = Ok k /\ k < 2 ^ 64 /\
            forall i, (0 <= i < 64)%Z -> N.testbit k (Z.to_N i) = tm_all_received (M (L - i)%Z).
Proof.
  intros HR. apply mt_R_win in HR. destruct HR as (Hl & [Hlen Hw] & Hf).
  destruct (mt_mask_from_spec (mt_ticks m) 0 0) as [k [Ek [Hk Hb]]].
  - rewrite Hlen. change (N.of_nat 64) with 64. lia.
  - rewrite Npow64. lia.
  - exists k. split; [exact Ek|]. split; [exact Hk|].
    intros i Hi. rewrite Hb, N.bits_0. cbn [orb]. unfold bit_of.
    replace (0 <=? Z.to_N i) with true by lia.
    replace (N.to_nat (Z.to_N i - 0)) with (Z.to_nat i) by lia. now rewrite Hw by lia.
Qed.

(* ---------- summary statement ---------- *)
Definition mt_near (L x : Z) : Prop := (Z.abs (x - L) < 2 ^ 31)%Z.

Theorem mt_refines : forall calls, mcalls_ok 0 mlog_empty calls ->
  let L := fst (fst (mspec_confirm_all 0 mlog_empty calls)) in
  let M := snd (fst (mspec_confirm_all 0 mlog_empty calls)) in
  exists m, mt_confirm_all mt_default (wrap_calls calls) = Ok (m, snd (mspec_confirm_all 0 mlog_empty calls)) /\
    mt_R m L M /\
    (forall t, mt_near L t -> mt_contains m (wrap t) = mspec_contains L M t) /\
    (forall a b, (a <= b)%Z -> (b - a < 2 ^ 31)%Z -> mt_near L a ->
       mt_contains_any m (wrap a) (wrap b) = Ok (existsb_range a b (mspec_contains L M))).
Proof.
  intros calls Hok L M.
  destruct (mt_refines_from_default calls Hok) as [m [E HR]].
  exists m. split; [exact E|]. split; [exact HR|]. split.
  - intros t Ht. now apply mt_contains_spec.
  - intros a b H1 H2 H3. now apply mt_contains_any_spec.
Qed.

(* ---------- the step-wise premise [mcalls_ok] follows from the protocol on the whole list ---------- *)
Definition log_of (pre : list (Z * N)) (M : mlog) : Prop :=
  forall t, tm_received (M t) = N.of_nat (length (calls_for t pre)) /\
            (tm_count (M t) = 0 \/ In (t, tm_count (M t)) pre).

Lemma calls_for_app t l1 l2 : calls_for t (l1 ++ l2) = calls_for t l1 ++ calls_for t l2.
Proof. apply filter_app. Qed.

Lemma mcalls_ok_of_protocol : forall calls pre L M, log_of pre M ->
  sender_protocol (pre ++ calls) -> within_half_range L (map fst calls) -> mcalls_ok L M calls.
Proof.
  induction calls as [|[t c] r IH]; intros pre L M Hlog Hp Hw; [exact I|].
  cbn [map fst within_half_range] in Hw. destruct Hw as [Hn Hw].
  assert (In (t, c) (pre ++ (t, c) :: r)) as Hin by (apply in_or_app; right; left; reflexivity).
  destruct (Hp t c Hin) as (Hc0 & Hc64 & Hsame & Hcnt).
  destruct (Hlog t) as [Hrcv Hcount].
  rewrite calls_for_app, app_length in Hcnt. unfold calls_for at 2 in Hcnt.
  cbn [filter fst] in Hcnt. rewrite Z.eqb_refl in Hcnt. cbn [length] in Hcnt.
  cbn [mcalls_ok]. split; [exact Hn|]. split.
  - unfold proto_ok. rewrite Npow64 in *.
    assert (tm_count (M t) = 0 \/ tm_count (M t) = c) as Hcc.
    { destruct Hcount as [H0 | Hi]; [left; exact H0|right].
      apply Hsame. apply in_or_app. left. exact Hi. }
    lia.
  - apply (IH (pre ++ [(t, c)])); [| rewrite <- app_assoc; exact Hp | exact Hw].
    intros x. unfold mlog_add. rewrite calls_for_app, app_length.
    unfold calls_for at 2. cbn [filter fst]. rewrite (Z.eqb_sym t x).
    destruct (x =? t)%Z eqn:Ex.
    + apply Z.eqb_eq in Ex. subst x. cbn [tm_received tm_count length]. split; [lia|].
      right. apply in_or_app. right. left. reflexivity.
    + destruct (Hlog x) as [Hr Hc]. cbn [length]. split; [lia|].
      destruct Hc as [H0 | Hi]; [left; exact H0|right; apply in_or_app; left; exact Hi].
Qed.

Theorem mcalls_ok_from_protocol calls :
  sender_protocol calls -> within_half_range 0 (map fst calls) -> mcalls_ok 0 mlog_empty calls.
Proof.
  intros Hp Hw. apply (mcalls_ok_of_protocol calls [] 0 mlog_empty); [|exact Hp|exact Hw].
  intros t. split; [reflexivity|left; reflexivity].
Qed.
