(* Specification side of C12: unwrapped ticks are integers (Z), the confirmed ticks
   are a plain list used as a set, the mutate-tick log is a plain function
   tick -> (messages_count, calls seen).  Definitions only (not extracted). *)
From RV Require Import Lib.Res Tick.RepliconTick Tick.ConfirmHistory Tick.MutateTicks.

Open Scope Z_scope.

(* ---------- plain set of confirmed ticks ---------- *)
Definition mem (t : Z) (S : list Z) : bool := existsb (Z.eqb t) S.

(* [a; a+1; ...; a+n-1] *)
Definition zrange (a : Z) (n : nat) : list Z := map (fun k => a + Z.of_nat k) (seq 0 n).
(* exists t in [a, b], f t *)
Definition existsb_range (a b : Z) (f : Z -> bool) : bool := existsb f (zrange a (Z.to_nat (b - a + 1))).

(* "tick t is confirmed": it is in the set, or it is 64 or more ticks older than the latest *)
Definition spec_contains (L : Z) (S : list Z) (t : Z) : bool :=
  (t <=? L) && ((64 <=? L - t) || mem t S).

(* confirming t *)
Definition spec_confirm (LS : Z * list Z) (t : Z) : Z * list Z := (Z.max (fst LS) t, t :: snd LS).
Definition spec_confirm_all (LS : Z * list Z) (ts : list Z) : Z * list Z := fold_left spec_confirm ts LS.

(* every confirmation is less than half the counter range away from the running maximum *)
Fixpoint within_half_range (L : Z) (ts : list Z) : Prop :=
  match ts with
  | [] => True
  | t :: r => Z.abs (t - L) < 2 ^ 31 /\ within_half_range (Z.max L t) r
  end.

(* refinement relation: history h represents latest tick L and confirmed set S *)
Definition hist_R (h : hist) (L : Z) (S : list Z) : Prop :=
  h_last h = wrap L /\
  (h_mask h < 2 ^ 64)%N /\
  (forall i, 0 <= i < 64 -> N.testbit (h_mask h) (Z.to_N i) = mem (L - i) S) /\
  (forall t, mem t S = true -> t <= L).

(* ---------- plain log of mutate messages ---------- *)
(* M t = {| tm_count := count announced for t (0: never seen); tm_received := calls seen for t |} *)
Definition mlog := Z -> tmsg.
Definition mlog_empty : mlog := fun _ => tm_default.
Definition mlog_add (M : mlog) (t : Z) (c : N) : mlog :=
  fun x => if x =? t then {| tm_count := c; tm_received := (tm_received (M t) + 1)%N |} else M x.

(* the sender's protocol for one call (t, c) against the log so far:
   a nonzero count that fits a usize, the same count as on earlier calls for t,
   and fewer than c earlier calls for t *)
Definition proto_ok (M : mlog) (t : Z) (c : N) : bool :=
  (negb (c =? 0)%N && (c <? 2 ^ 64)%N &&
   ((tm_count (M t) =? 0)%N || (tm_count (M t) =? c)%N) &&
   (tm_received (M t) <? c)%N)%bool.

(* what `confirm` must return: this call completes tick t and t is still inside the window *)
Definition mspec_completes (L : Z) (M : mlog) (t : Z) (c : N) : bool :=
  (L - 64 <? t) && (tm_received (M t) + 1 =? c)%N.

Definition mspec_confirm (LM : Z * mlog) (tc : Z * N) : Z * mlog :=
  (Z.max (fst LM) (fst tc), mlog_add (snd LM) (fst tc) (snd tc)).

(* the whole sequence of calls: protocol respected, each within half range of the running maximum *)
Fixpoint mcalls_ok (L : Z) (M : mlog) (calls : list (Z * N)) : Prop :=
  match calls with
  | [] => True
  | (t, c) :: r =>
    Z.abs (t - L) < 2 ^ 31 /\ proto_ok M t c = true /\
    mcalls_ok (Z.max L t) (mlog_add M t c) r
  end.

Fixpoint mspec_confirm_all (L : Z) (M : mlog) (calls : list (Z * N)) : (Z * mlog) * list bool :=
  match calls with
  | [] => ((L, M), [])
  | (t, c) :: r =>
    let '(LM, bs) := mspec_confirm_all (Z.max L t) (mlog_add M t c) r in
    (LM, mspec_completes L M t c :: bs)
  end.

(* "all mutate messages of tick t were received, or t is 64 or more ticks older than the latest" *)
Definition mspec_contains (L : Z) (M : mlog) (t : Z) : bool :=
  (t <=? L) && ((64 <=? L - t) || tm_all_received (M t)).

(* refinement relation: ring m represents latest tick L and log M *)
Definition mt_R (m : mt) (L : Z) (M : mlog) : Prop :=
  mt_last m = wrap L /\
  length (mt_ticks m) = 64%nat /\
  (forall i, 0 <= i < 64 -> nth_error (mt_ticks m) (Z.to_nat i) = Some (M (L - i))) /\
  (forall t, L < t -> M t = tm_default).

(* The sender's protocol stated on the whole list of calls: for each tick the same
   nonzero count (fitting a usize) on every call, and at most `count` calls. *)
Definition calls_for (t : Z) (calls : list (Z * N)) : list (Z * N) :=
  filter (fun tc => fst tc =? t) calls.
Definition sender_protocol (calls : list (Z * N)) : Prop :=
  forall t c, In (t, c) calls ->
    c <> 0%N /\ (c < 2 ^ 64)%N /\
    (forall c', In (t, c') calls -> c' = c) /\
    (N.of_nat (length (calls_for t calls)) <= c)%N.
