(* src/client/confirm_history.rs -- ConfirmHistory { mask: u64, last_tick: RepliconTick }.
   Bit i of the mask = "tick last_tick - i was confirmed".
   Debug-build semantics: every debug_assert, arithmetic overflow and shift by >= 64
   is a [Panic] branch.  `x << n` on u64 with n < 64 drops the high bits: [mod 2^64]. *)
From RV Require Import Lib.Res Tick.RepliconTick.
Open Scope N_scope.

Record hist := { h_mask : N; h_last : N }.

(* ConfirmHistory::new *)
Definition hist_new (last_tick : N) : hist := {| h_mask := 1; h_last := last_tick |}.

(* ConfirmHistory::contains *)
Definition hist_contains (h : hist) (tick : N) : bool :=
  if tick_gtb tick (h_last h) then false
  else
    let ago := tick_sub (h_last h) tick in
    (* `ago >= u64::BITS || ((self.mask >> ago) & 1) == 1`, short circuit: the shift
       is only evaluated for ago < 64 *)
    if 64 <=? ago then true
    else N.land (N.shiftr (h_mask h) ago) 1 =? 1.

(* ConfirmHistory::contains_any *)
Definition hist_contains_any (h : hist) (start_tick end_tick : N) : res bool :=
  if negb (tick_leb start_tick end_tick) then Panic       (* debug_assert!(start_tick <= end_tick) *)
  else if tick_gtb start_tick (h_last h) then Ok false
  else if tick_leb start_tick (tick_sub (h_last h) 64) then Ok true
  else
    let end_tick := if tick_ltb end_tick (h_last h) then end_tick else h_last h in
    let d := tick_sub end_tick start_tick in               (* u32, wrapping *)
    if 2 ^ 32 <=? d + 1 then Panic else                    (* `+ 1` on u32 overflows *)
    let len := d + 1 in
    if 64 <? len then Panic else                           (* `u64::BITS - len` underflows *)
    let sh := 64 - len in
    if 64 <=? sh then Panic else                           (* `u64::MAX >> sh`, sh >= 64 (len = 0) *)
    let range := N.shiftr (2 ^ 64 - 1) sh in
    let offset := tick_sub (h_last h) end_tick in          (* u32, wrapping *)
    if 64 <=? offset then Panic else                       (* `range << offset`, offset >= 64 *)
    let mask := (N.shiftl range offset) mod 2 ^ 64 in
    Ok (negb (N.land (h_mask h) mask =? 0)).

(* ConfirmHistory::set *)
Definition hist_set (h : hist) (ago : N) : res hist :=
  if negb (ago <? 64) then Panic                           (* debug_assert!(ago < u64::BITS) *)
  else Ok {| h_mask := N.lor (h_mask h) ((N.shiftl 1 ago) mod 2 ^ 64); h_last := h_last h |}.

(* ConfirmHistory::set_last_tick *)
Definition hist_set_last_tick (h : hist) (tick : N) : res hist :=
  if negb (tick_geb tick (h_last h)) then Panic            (* debug_assert!(tick >= self.last_tick) *)
  else
    let diff := tick_sub tick (h_last h) in
    (* self.mask.checked_shl(diff).unwrap_or(0) *)
    let m := if diff <? 64 then (N.shiftl (h_mask h) diff) mod 2 ^ 64 else 0 in
    Ok {| h_mask := N.lor m 1; h_last := tick |}.

(* ConfirmHistory::confirm *)
Definition hist_confirm (h : hist) (tick : N) : res hist :=
  if tick_gtb tick (h_last h) then hist_set_last_tick h tick
  else
    let ago := tick_sub (h_last h) tick in
    if ago <? 64 then hist_set h ago else Ok h.

(* a sequence of `confirm` calls *)
Fixpoint hist_confirm_all (h : hist) (ticks : list N) : res hist :=
  match ticks with
  | [] => Ok h
  | t :: r => let* h' := hist_confirm h t in hist_confirm_all h' r
  end.
