(* bevy_replicon_example_backend/src/tcp.rs: send_message / read_message, and the read
   `loop` at the top of `receive_packets` (client.rs / server.rs) as far as it depends on
   the bytes only.

   A byte stream is a `list N` (bytes are N below 256).  The socket is abstracted to
   "the bytes that are available now" (`avail`, what `peek`/`read` can return without
   blocking) plus one flag `closed` (the peer has shut the connection down, so a read
   at the end of the data returns Ok(0) instead of Err(WouldBlock)).

   Trusted / outside this model: the kernel delivers the bytes written, in order, exactly
   once (TCP); `write_vectored` writes the whole packet or reports a length that the code
   turns into an error; `peek` fills the 3 byte header whenever at least 3 bytes are
   available.  The correspondence check exercises these over loopback sockets. *)
From RV Require Import Lib.Res.
Open Scope N_scope.

(* ---- send_message ------------------------------------------------------------- *)

(* the packet: [channel_id] ++ message_size.to_le_bytes() ++ message *)
Definition frame_bytes (channel : N) (payload : list N) : list N :=
  let len := N.of_nat (length payload) in
  channel :: len mod 256 :: (len / 256) mod 256 :: payload.

(* `message.len().try_into()?` (u16) comes first, then `channel_id.try_into()?` (u8);
   both are plain `Err`s.  No panic site. *)
Definition frame (channel : N) (payload : list N) : res (list N) :=
  if 65536 <=? N.of_nat (length payload) then Err
  else if 256 <=? channel then Err
  else Ok (frame_bytes channel payload).

(* client.rs send_packets: the first failing message stops the loop (`return`, the client
   resource is removed); what was written before stays written.
   Result: bytes written, and whether every message was written. *)
Fixpoint send_packets_client (ms : list (N * list N)) : list N * bool :=
  match ms with
  | [] => ([], true)
  | (c, p) :: r =>
    match frame c p with
    | Ok bs => let '(w, ok) := send_packets_client r in (bs ++ w, ok)
    | _ => ([], false)
    end
  end.

(* server.rs send_packets (one connection): a failing message is skipped, the despawn of
   the client is deferred, so the later messages of the same frame are still written. *)
Fixpoint send_packets_server (ms : list (N * list N)) : list N * bool :=
  match ms with
  | [] => ([], true)
  | (c, p) :: r =>
    let '(w, ok) := send_packets_server r in
    match frame c p with
    | Ok bs => (bs ++ w, ok)
    | _ => (w, false)
    end
  end.

(* the bytes on the wire for a list of (channel, payload) messages *)
Definition wire_of (ms : list (N * list N)) : list N :=
  concat (map (fun m => frame_bytes (fst m) (snd m)) ms).

(* "message of ordinary size": what send_message accepts *)
Definition msg_ok (m : N * list N) : Prop :=
  fst m < 256 /\ N.of_nat (length (snd m)) < 65536.
Definition msg_okb (m : N * list N) : bool :=
  (fst m <? 256) && (N.of_nat (length (snd m)) <? 65536).

(* ---- read_message ------------------------------------------------------------- *)

(* Outcomes of one call.
   Eof         peek returned 0: the connection is closed and drained  -> Err(UnexpectedEof)
   WouldBlock  no byte (connection open: peek itself fails with WouldBlock) or only 1..2
               header bytes available; nothing consumed                -> Err(WouldBlock)
   Frame c p rest   header and the whole body available; consumed, `rest` stays
   ShortRead   the 3 header bytes are available but the body is not complete.  The code
               calls `read_exact` for header + body on the non-blocking socket: the
               default `read_exact` loop reads what is there, then gets WouldBlock (open)
               or Ok(0) -> UnexpectedEof (closed) and returns that error; the bytes read so
               far sit in the local buffer and are dropped.  So ALL available bytes are
               consumed and lost, and the stream is desynchronised: the next call
               interprets the remainder of the body as a header.  With the connection
               open the receive loop sees the kind WouldBlock and carries on.
               This outcome is what the premise "ordinary size over loopback" of C17
               excludes (a frame written by one write_vectored arrives in one piece);
               it is modelled but no C17 theorem covers it.
   No panic site: the header array has 3 elements, `advance(3)` is applied to a buffer
   of 3 + size bytes. *)
Inductive read_result : Type :=
| Eof
| WouldBlock
| ShortRead
| Frame (channel : N) (payload : list N) (rest : list N).

Definition read_message (closed : bool) (avail : list N) : read_result :=
  match avail with
  | [] => if closed then Eof else WouldBlock
  | [_] => WouldBlock
  | [_; _] => WouldBlock
  | channel_id :: b0 :: b1 :: body =>
    let message_size := b0 + 256 * b1 in      (* u16::from_le_bytes *)
    if N.of_nat (length body) <? message_size then ShortRead
    else Frame channel_id (firstn (N.to_nat message_size) body)
                          (skipn (N.to_nat message_size) body)
  end.

(* ---- the `loop { match tcp::read_message(..) }` of receive_packets -------------- *)

(* why the loop ended.  StopFuel never happens with the fuel of [parse_all]. *)
Inductive read_stop : Type :=
| StopWouldBlock      (* break; try again next frame *)
| StopEof             (* peer closed: remove the client resource / despawn the client *)
| StopShortRead       (* data lost, see above; open: treated as WouldBlock, closed: disconnect *)
| StopFuel.

(* result: messages read in order, why the loop stopped, bytes left in the socket *)
Fixpoint parse_all_fuel (fuel : nat) (closed : bool) (avail : list N)
  : list (N * list N) * read_stop * list N :=
  match fuel with
  | O => ([], StopFuel, avail)
  | S f =>
    match read_message closed avail with
    | Frame c p rest =>
      let '(ms, stop, lft) := parse_all_fuel f closed rest in ((c, p) :: ms, stop, lft)
    | WouldBlock => ([], StopWouldBlock, avail)
    | Eof => ([], StopEof, avail)
    | ShortRead => ([], StopShortRead, [])
    end
  end.

(* every successful read consumes at least 3 bytes *)
Definition parse_all (closed : bool) (avail : list N) : list (N * list N) * read_stop * list N :=
  parse_all_fuel (S (length avail)) closed avail.

(* the receiver over several frames on an open connection: what is left in the socket
   stays there, [chunk] arrives before the next receiver frame.  Output: messages read per
   receiver frame. *)
Fixpoint parse_rounds (pending : list N) (chunks : list (list N)) : list (list (N * list N)) :=
  match chunks with
  | [] => []
  | chunk :: cs =>
    let '(ms, _, pending') := parse_all false (pending ++ chunk) in ms :: parse_rounds pending' cs
  end.
