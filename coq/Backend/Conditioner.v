(* bevy_replicon_example_backend/src/link_conditioner.rs with NO ConditionerConfig
   (`config = None`: no loss, no latency, no jitter; the rng is not touched), and the
   `while let Some(..) = conditioner.pop(now)` loop of receive_packets.

   Time: `Instant` is an N (any monotone unit); only comparisons are used.

   The heap: `BinaryHeap<TimedMessage>` is modelled as a plain list (order of the list
   is meaningless; `insert` pushes in front so that no proof can accidentally lean on
   the list order).  TRUSTED ASSUMPTION about std: `peek`/`pop` return an element that is
   greatest w.r.t. `Ord`, and `pop` removes exactly that element.  `Ord for TimedMessage`
   is the REVERSED lexicographic order on (timestamp, sequence), so "greatest" = smallest
   (timestamp, sequence).  Sequence numbers are unique (a counter), hence keys are
   pairwise distinct, the order is a strict total order on the heap's contents and the
   trusted assumption determines the popped element uniquely: it is [extract_min_by key_ltb].
   (Among elements with equal keys - impossible here - the model takes the first in the
   list; std leaves that unspecified.)

   Before the fix the order compared timestamps only; then all messages read in one frame
   are equal for `Ord` and the trusted assumption does not determine the popped element:
   see [ts_ltb]/[ts_leb] below, two choices that both satisfy it and give different
   orders (lemma `old_order_not_determined` in Conditioner_proofs.v). *)
From RV Require Import Lib.Res.
Open Scope N_scope.

Record timed_message : Type := mkTimed {
  timestamp : N;
  sequence : N;        (* u64 *)
  channel_id : N;      (* u8 *)
  message : list N
}.

Record link_conditioner : Type := mkCond {
  heap : list timed_message;
  next_sequence : N    (* u64 *)
}.

Definition default_conditioner : link_conditioner := mkCond [] 0.

(* LinkConditioner::insert(None, timestamp, channel_id, message).
   `self.next_sequence += 1` on a u64: overflow panics (debug build) before the push. *)
Definition insert (st : link_conditioner) (ts : N) (channel : N) (msg : list N)
  : res link_conditioner :=
  let sequence := next_sequence st in
  if 2 ^ 64 <=? sequence + 1 then Panic
  else Ok (mkCond (mkTimed ts sequence channel msg :: heap st) (sequence + 1)).

(* strict "a is popped before b" for the fixed `Ord`: smaller (timestamp, sequence) first *)
Definition key_ltb (a b : timed_message) : bool :=
  (timestamp a <? timestamp b) || ((timestamp a =? timestamp b) && (sequence a <? sequence b)).

(* the `Ord` before the fix (timestamp only) leaves ties open; two admissible choices *)
Definition ts_ltb (a b : timed_message) : bool := timestamp a <? timestamp b.   (* ties: first in the list = inserted last *)
Definition ts_leb (a b : timed_message) : bool := timestamp a <=? timestamp b.  (* ties: last in the list = inserted first *)

Section By.
  (* [ltb m x = true]: m is preferred over x *)
  Variable ltb : timed_message -> timed_message -> bool.

  (* a most-preferred element and the others (in their original relative order) *)
  Fixpoint extract_min_by (l : list timed_message) : option (timed_message * list timed_message) :=
    match l with
    | [] => None
    | x :: r =>
      match extract_min_by r with
      | None => Some (x, [])
      | Some (m, r') => if ltb m x then Some (m, x :: r') else Some (x, r)
      end
    end.

  (* LinkConditioner::pop: `heap.peek().is_some_and(|m| now >= m.timestamp)` then `heap.pop()` *)
  Definition pop_by (now : N) (st : link_conditioner) : option ((N * list N) * link_conditioner) :=
    match extract_min_by (heap st) with
    | Some (m, r) =>
      if timestamp m <=? now
      then Some ((channel_id m, message m), mkCond r (next_sequence st))
      else None
    | None => None
    end.

  (* `while let Some((channel_id, message)) = conditioner.pop(now) { forward }` *)
  Fixpoint drain_fuel_by (fuel : nat) (now : N) (st : link_conditioner)
    : list (N * list N) * link_conditioner :=
    match fuel with
    | O => ([], st)
    | S f =>
      match pop_by now st with
      | Some (m, st') => let '(out, st'') := drain_fuel_by f now st' in (m :: out, st'')
      | None => ([], st)
      end
    end.

  (* every pop removes one element, so |heap| iterations suffice
     (`drain_stops` in the proofs: pop returns None afterwards) *)
  Definition drain_by (now : N) (st : link_conditioner) : list (N * list N) * link_conditioner :=
    drain_fuel_by (length (heap st)) now st.
End By.

Definition extract_min := extract_min_by key_ltb.
Definition pop := pop_by key_ltb.
Definition drain_fuel := drain_fuel_by key_ltb.
Definition drain := drain_by key_ltb.

(* the messages read in one receiver frame are all inserted with that frame's `now` *)
Fixpoint insert_all (st : link_conditioner) (now : N) (batch : list (N * list N))
  : res link_conditioner :=
  match batch with
  | [] => Ok st
  | (c, p) :: r => let* st' := insert st now c p in insert_all st' now r
  end.

(* conditioner part of one receive_packets call: insert the batch, then pop until None *)
Definition receive_frame_by ltb (st : link_conditioner) (now : N) (batch : list (N * list N))
  : res (list (N * list N) * link_conditioner) :=
  let* st' := insert_all st now batch in Ok (drain_by ltb now st').
Definition receive_frame := receive_frame_by key_ltb.

(* a sequence of receiver frames (now, batch); result: per frame what was forwarded to
   replicon and the conditioner after that frame *)
Fixpoint run_frames_by ltb (st : link_conditioner) (frames : list (N * list (N * list N)))
  : res (list (list (N * list N) * link_conditioner)) :=
  match frames with
  | [] => Ok []
  | (now, batch) :: r =>
    let* (out, st') := receive_frame_by ltb st now batch in
    let* trace := run_frames_by ltb st' r in
    Ok ((out, st') :: trace)
  end.
Definition run_frames := run_frames_by key_ltb.

Fixpoint index_from {A} (i : N) (l : list A) : list (N * A) :=
  match l with
  | [] => []
  | x :: r => (i, x) :: index_from (i + 1) r
  end.

(* same shape as the Rust hook verif_hooks::conditioner_batches: a fresh conditioner,
   batch number i is inserted and drained at time start + i ms *)
Definition conditioner_batches_by ltb (batches : list (list (N * list N))) : res (list (N * list N)) :=
  let* trace := run_frames_by ltb default_conditioner (index_from 0 batches) in
  Ok (concat (map fst trace)).
Definition conditioner_batches := conditioner_batches_by key_ltb.

(* total number of messages in a run (for the u64 counter bound) *)
Definition total_messages (frames : list (N * list (N * list N))) : N :=
  N.of_nat (length (concat (map snd frames))).
