From RV Require Import Lib.Res Backend.Framing Backend.Framing_proofs
  Backend.Conditioner Backend.Conditioner_proofs Backend.Receive.
From Coq Require Import ZifyBool ZifyN.
Open Scope N_scope.
Ltac Zify.zify_post_hook ::= Z.div_mod_to_equations.
Arguments N.add : simpl never. Arguments N.mul : simpl never. Arguments N.pow : simpl never.
Arguments N.ltb : simpl never. Arguments N.leb : simpl never. Arguments N.div : simpl never.
Arguments N.modulo : simpl never. Arguments N.sub : simpl never. Arguments N.eqb : simpl never.

(* one receiver frame: socket drained, conditioner empty, the group delivered as sent *)
Lemma receive_packets_whole s now ms :
  Forall msg_ok ms -> s + N.of_nat (length ms) < 2 ^ 64 ->
  receive_packets false (mkConn (wire_of ms) (mkCond [] s)) now =
  Ok (ms, StopWouldBlock, mkConn [] (mkCond [] (s + N.of_nat (length ms)))).
Proof.
  intros Hok Hs. unfold receive_packets. cbn [socket conditioner].
  rewrite (parse_all_wire false ms Hok).
  rewrite (receive_frame_spec (mkCond [] s) now ms eq_refl Hs). reflexivity.
Qed.

(* sender and receiver together: whatever the grouping of the sent messages into
   receiver frames, every frame hands over exactly the messages of its group *)
Lemma backend_run_spec groups : forall s,
  Forall (fun g => Forall msg_ok (snd g)) groups ->
  s + total_messages groups < 2 ^ 64 ->
  backend_run (mkConn [] (mkCond [] s)) (map sent_bytes groups) = Ok (map snd groups).
Proof.
  induction groups as [|[now ms] groups IH]; intros s Hok Hs; [reflexivity|].
  inversion Hok as [|? ? H1 H2]; subst. cbn [snd] in H1.
  rewrite total_messages_cons in Hs.
  cbn [map backend_run sent_bytes fst snd socket conditioner app].
  rewrite (send_packets_client_ok ms H1). cbn [fst].
  rewrite (receive_packets_whole s now ms H1) by lia. cbn [bind].
  rewrite (IH _ H2) by lia. reflexivity.
Qed.

Lemma backend_exactly_once_in_order groups :
  Forall (fun g => Forall msg_ok (snd g)) groups ->
  total_messages groups < 2 ^ 64 ->
  exists outs, backend_run new_connection (map sent_bytes groups) = Ok outs /\
    concat outs = concat (map snd groups).
Proof.
  intros Hok Hs. exists (map snd groups). split; [|reflexivity].
  apply (backend_run_spec groups 0 Hok). lia.
Qed.
