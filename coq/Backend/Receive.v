(* client.rs / server.rs `receive_packets` for one connection: the read loop (Framing)
   feeding the conditioner (Conditioner), then the pop loop forwarding to replicon.
   In Rust reading and inserting alternate message by message; the socket and the
   conditioner do not influence each other, so "read all, insert all" is the same function.
   (If the sequence counter overflowed the panic would come before the remaining reads;
   the result is Panic either way.) *)
From RV Require Import Lib.Res Backend.Framing Backend.Conditioner.
Open Scope N_scope.

Record connection : Type := mkConn {
  socket : list N;                   (* bytes that have arrived and were not read yet *)
  conditioner : link_conditioner
}.

Definition new_connection : connection := mkConn [] default_conditioner.

(* result: what is handed to replicon (insert_received) in this frame, in order; why the
   read loop stopped (StopEof / StopShortRead on a closed connection: the caller removes
   the client resource / despawns the client entity, after this frame's pops); the
   connection afterwards *)
Definition receive_packets (closed : bool) (conn : connection) (now : N)
  : res (list (N * list N) * read_stop * connection) :=
  let '(ms, stop, lft) := parse_all closed (socket conn) in
  let* (out, c') := receive_frame (conditioner conn) now ms in
  Ok (out, stop, mkConn lft c').

(* an open connection over time: before each receiver frame (at time `now`) the bytes
   [chunk] arrive (any number of messages written by the peer since the last frame) *)
Fixpoint backend_run (conn : connection) (steps : list (N * list N))
  : res (list (list (N * list N))) :=
  match steps with
  | [] => Ok []
  | (now, chunk) :: r =>
    let* (out, _, conn') :=
      receive_packets false (mkConn (socket conn ++ chunk) (conditioner conn)) now in
    let* outs := backend_run conn' r in
    Ok (out :: outs)
  end.

(* sender side of one step: the bytes the client writes for the messages of one group *)
Definition sent_bytes (group : N * list (N * list N)) : N * list N :=
  (fst group, fst (send_packets_client (snd group))).
