From RV Require Import Lib.Res Backend.Conditioner.
From Coq Require Import ZifyBool ZifyN Permutation Sorted.
Open Scope N_scope.
Ltac Zify.zify_post_hook ::= Z.div_mod_to_equations.
Arguments N.add : simpl never. Arguments N.mul : simpl never. Arguments N.pow : simpl never.
Arguments N.ltb : simpl never. Arguments N.leb : simpl never. Arguments N.div : simpl never.
Arguments N.modulo : simpl never. Arguments N.sub : simpl never. Arguments N.eqb : simpl never.

Lemma pow64 : 2 ^ 64 = 18446744073709551616.
Proof. reflexivity. Qed.

(* ---- the order ---- *)
Definition key_lt (a b : timed_message) : Prop :=
  timestamp a < timestamp b \/ (timestamp a = timestamp b /\ sequence a < sequence b).

Lemma key_ltb_spec a b : key_ltb a b = true <-> key_lt a b.
Proof. unfold key_ltb, key_lt. lia. Qed.

Lemma key_ltb_asym a b : key_ltb a b = true -> key_ltb b a = false.
Proof. unfold key_ltb. lia. Qed.

(* "not before" is transitive because the order on keys is total *)
Lemma key_ltb_negtrans a b c : key_ltb a b = false -> key_ltb b c = false -> key_ltb a c = false.
Proof. unfold key_ltb. lia. Qed.

(* ---- extract_min: a least element and the others ---- *)
Lemma extract_min_by_none ltb l : extract_min_by ltb l = None -> l = [].
Proof.
  destruct l as [|x r]; [reflexivity|]. cbn [extract_min_by].
  destruct (extract_min_by ltb r) as [[m r']|]; [destruct (ltb m x)|]; discriminate.
Qed.

Lemma extract_min_by_perm ltb l m r : extract_min_by ltb l = Some (m, r) -> Permutation l (m :: r).
Proof.
  revert m r; induction l as [|x l IH]; intros m r; cbn [extract_min_by]; [discriminate|].
  destruct (extract_min_by ltb l) as [[m' r']|] eqn:E.
  - specialize (IH _ _ eq_refl). destruct (ltb m' x).
    + intros H; injection H as <- <-.
      apply (perm_trans (l' := x :: m' :: r')); [apply perm_skip, IH|apply perm_swap].
    + intros H; injection H as <- <-. apply Permutation_refl.
  - apply extract_min_by_none in E; subst l. intros H; injection H as <- <-. apply Permutation_refl.
Qed.

Lemma extract_min_least l m r : extract_min l = Some (m, r) ->
  forall y, In y r -> key_ltb y m = false.
Proof.
  unfold extract_min. revert m r; induction l as [|x l IH]; intros m r; cbn [extract_min_by]; [discriminate|].
  destruct (extract_min_by key_ltb l) as [[m' r']|] eqn:E.
  - specialize (IH _ _ eq_refl). destruct (key_ltb m' x) eqn:El.
    + intros H; injection H as <- <-. intros y [<- | Hy]; [apply key_ltb_asym, El|apply IH, Hy].
    + intros H; injection H as <- <-. intros y Hy.
      apply (Permutation_in _ (extract_min_by_perm _ _ _ _ E)) in Hy. destruct Hy as [<- | Hy]; [exact El|].
      apply (key_ltb_negtrans y m' x); [apply IH, Hy|exact El].
  - intros H; injection H as <- <-. intros y [].
Qed.

(* ---- drain: a heap whose content is [exp] (strictly sorted by key, all due) is
   emptied in the order of [exp], whatever the arrangement inside the heap ---- *)
Definition out_of (m : timed_message) : N * list N := (channel_id m, message m).

Lemma drain_fuel_sorted now s exp : StronglySorted key_lt exp ->
  Forall (fun m => timestamp m <= now) exp ->
  forall h, Permutation h exp ->
  drain_fuel (length h) now (mkCond h s) = (map out_of exp, mkCond [] s).
Proof.
  unfold drain_fuel. induction exp as [|e exp IH]; intros Hs Hd h Hp.
  - apply Permutation_sym, Permutation_nil in Hp. subst h. reflexivity.
  - inversion Hs as [|? ? Hs' Hlt]; subst. inversion Hd as [|? ? He Hd']; subst.
    destruct (extract_min h) as [[m r]|] eqn:E.
    2:{ apply extract_min_by_none in E. subst h. apply Permutation_nil in Hp. discriminate. }
    pose proof (extract_min_by_perm _ _ _ _ E) as Hp1.
    pose proof (extract_min_least _ _ _ E) as Hleast.
    assert (m = e) as ->.
    { assert (In e (m :: r)) as Hin1
        by (apply (Permutation_in _ Hp1), (Permutation_in _ (Permutation_sym Hp)); left; reflexivity).
      assert (In m (e :: exp)) as Hin2
        by (apply (Permutation_in _ Hp), (Permutation_in _ (Permutation_sym Hp1)); left; reflexivity).
      destruct Hin1 as [-> | Hin1]; [reflexivity|].
      destruct Hin2 as [-> | Hin2]; [reflexivity|].
      specialize (Hleast _ Hin1). rewrite Forall_forall in Hlt.
      apply Hlt, key_ltb_spec in Hin2. congruence. }
    assert (Permutation r exp) as Hp2
      by (apply (Permutation_cons_inv (a := e)), (perm_trans (Permutation_sym Hp1) Hp)).
    rewrite (Permutation_length Hp1). cbn [length drain_fuel_by].
    unfold pop_by. cbn [heap next_sequence]. unfold extract_min in E. rewrite E.
    destruct (timestamp e <=? now) eqn:Ed; [|lia].
    rewrite (IH Hs' Hd' r Hp2). reflexivity.
Qed.

(* the while-let loop really ended: one more pop gives None *)
Lemma drain_fuel_by_stops ltb now fuel st : (length (heap st) <= fuel)%nat ->
  pop_by ltb now (snd (drain_fuel_by ltb fuel now st)) = None.
Proof.
  revert st; induction fuel as [|f IH]; intros st Hf.
  - destruct st as [h s]; cbn [heap] in Hf. destruct h; [reflexivity|cbn in Hf; lia].
  - cbn [drain_fuel_by]. destruct (pop_by ltb now st) as [[m st']|] eqn:E; [|exact E].
    assert (length (heap st') <= f)%nat as Hl.
    { unfold pop_by in E. destruct (extract_min_by ltb (heap st)) as [[m' r]|] eqn:Em; [|discriminate].
      destruct (timestamp m' <=? now); [|discriminate]. injection E as _ <-. cbn [heap].
      apply extract_min_by_perm, Permutation_length in Em. cbn [length] in Em. lia. }
    specialize (IH st' Hl). destruct (drain_fuel_by ltb f now st') as [out st'']. exact IH.
Qed.

Lemma drain_stops ltb now st : pop_by ltb now (snd (drain_by ltb now st)) = None.
Proof. apply drain_fuel_by_stops. lia. Qed.

(* ---- insert ---- *)
Lemma insert_never_panics st ts c p : next_sequence st + 1 < 2 ^ 64 -> insert st ts c p <> Panic.
Proof. unfold insert. intros H. destruct (2 ^ 64 <=? next_sequence st + 1) eqn:E; [lia|discriminate]. Qed.

(* the batch as it sits in the heap: same timestamp, consecutive sequence numbers *)
Fixpoint tag (now s : N) (batch : list (N * list N)) : list timed_message :=
  match batch with
  | [] => []
  | (c, p) :: r => mkTimed now s c p :: tag now (s + 1) r
  end.

Lemma insert_all_spec now batch : forall h s, s + N.of_nat (length batch) < 2 ^ 64 ->
  insert_all (mkCond h s) now batch =
  Ok (mkCond (rev (tag now s batch) ++ h) (s + N.of_nat (length batch))).
Proof.
  induction batch as [|[c p] r IH]; intros h s Hs.
  - cbn [insert_all tag rev app length]. do 2 f_equal. lia.
  - cbn [length] in Hs. cbn [insert_all tag rev]. unfold insert. cbn [next_sequence heap bind].
    destruct (2 ^ 64 <=? s + 1) eqn:E; [lia|]. cbn [bind].
    rewrite IH by lia. rewrite <- app_assoc. cbn [app length]. do 2 f_equal. lia.
Qed.

Lemma tag_out now s batch : map out_of (tag now s batch) = batch.
Proof. revert s; induction batch as [|[c p] r IH]; intros s; [reflexivity|]. cbn [tag map]. now rewrite IH. Qed.

Lemma tag_keys now s batch : Forall (fun m => timestamp m = now /\ s <= sequence m) (tag now s batch).
Proof.
  revert s; induction batch as [|[c p] r IH]; intros s; [constructor|]. cbn [tag].
  constructor; [cbn; lia|]. eapply Forall_impl; [|apply (IH (s + 1))]. cbn beta. intros m [H1 H2]. lia.
Qed.

Lemma tag_sorted now s batch : StronglySorted key_lt (tag now s batch).
Proof.
  revert s; induction batch as [|[c p] r IH]; intros s; [constructor|]. cbn [tag].
  constructor; [apply IH|]. eapply Forall_impl; [|apply (tag_keys now (s + 1) r)].
  cbn beta. intros m [H1 H2]. unfold key_lt. cbn [timestamp sequence]. lia.
Qed.

Lemma tag_due now s batch : Forall (fun m => timestamp m <= now) (tag now s batch).
Proof. eapply Forall_impl; [|apply (tag_keys now s batch)]. cbn beta. intros m [H1 H2]. lia. Qed.

(* ---- one receiver frame on an empty conditioner: the batch comes out as it went in ---- *)
Lemma receive_frame_spec st now batch : heap st = [] ->
  next_sequence st + N.of_nat (length batch) < 2 ^ 64 ->
  receive_frame st now batch = Ok (batch, mkCond [] (next_sequence st + N.of_nat (length batch))).
Proof.
  destruct st as [h s]; cbn [heap next_sequence]; intros -> Hs.
  unfold receive_frame, receive_frame_by. rewrite (insert_all_spec now batch [] s Hs). cbn [bind].
  rewrite app_nil_r. unfold drain_by. cbn [heap]. f_equal.
  change (drain_fuel_by key_ltb) with drain_fuel.
  rewrite (drain_fuel_sorted now _ (tag now s batch)).
  - now rewrite tag_out.
  - apply tag_sorted.
  - apply tag_due.
  - apply Permutation_sym, Permutation_rev.
Qed.

(* ---- a run of receiver frames ---- *)
Lemma total_messages_cons now batch frames :
  total_messages ((now, batch) :: frames) = N.of_nat (length batch) + total_messages frames.
Proof. unfold total_messages. cbn [map snd concat]. rewrite app_length. lia. Qed.

(* Per frame the output is exactly that frame's batch and the heap is empty afterwards.
   (No assumption on the `now` values is needed: without configuration every message
   is due in the frame that inserted it.) *)
Lemma run_frames_spec frames : forall st, heap st = [] ->
  next_sequence st + total_messages frames < 2 ^ 64 ->
  exists trace, run_frames st frames = Ok trace /\
    map fst trace = map snd frames /\
    Forall (fun st' => heap st' = []) (map snd trace).
Proof.
  unfold run_frames. induction frames as [|[now batch] frames IH]; intros st Hh Hs.
  - exists []. repeat split. constructor.
  - rewrite total_messages_cons in Hs. cbn [run_frames_by].
    change (receive_frame_by key_ltb) with receive_frame.
    rewrite (receive_frame_spec st now batch Hh) by lia. cbn [bind].
    destruct (IH (mkCond [] (next_sequence st + N.of_nat (length batch))) eq_refl) as [trace [E [H1 H2]]];
      [cbn [next_sequence]; lia|].
    rewrite E. cbn [bind]. eexists; split; [reflexivity|]. cbn [map fst snd]. split; [now rewrite H1|].
    constructor; [reflexivity|exact H2].
Qed.

(* (b) concatenated output = concatenated input, for any grouping into frames *)
Lemma conditioner_fifo frames st : heap st = [] ->
  next_sequence st + total_messages frames < 2 ^ 64 ->
  exists trace, run_frames st frames = Ok trace /\
    map fst trace = map snd frames /\
    concat (map fst trace) = concat (map snd frames).
Proof.
  intros Hh Hs. destruct (run_frames_spec frames st Hh Hs) as [trace [E [H1 _]]].
  exists trace. split; [exact E|]. split; [exact H1|now rewrite H1].
Qed.

Lemma conditioner_empty_after_frame frames st trace : heap st = [] ->
  next_sequence st + total_messages frames < 2 ^ 64 ->
  run_frames st frames = Ok trace ->
  Forall (fun st' => heap st' = []) (map snd trace).
Proof.
  intros Hh Hs E. destruct (run_frames_spec frames st Hh Hs) as [trace' [E' [_ H2]]].
  rewrite E in E'. injection E' as ->. exact H2.
Qed.

(* per channel in sending order is a consequence of list equality *)
Lemma conditioner_per_channel frames st ch : heap st = [] ->
  next_sequence st + total_messages frames < 2 ^ 64 ->
  exists trace, run_frames st frames = Ok trace /\
    filter (fun m => fst m =? ch) (concat (map fst trace)) =
    filter (fun m => fst m =? ch) (concat (map snd frames)).
Proof.
  intros Hh Hs. destruct (run_frames_spec frames st Hh Hs) as [trace [E [H1 _]]].
  exists trace. split; [exact E|now rewrite H1].
Qed.

(* the hook-shaped entry point *)
Lemma index_from_snd {A} i (l : list A) : map snd (index_from i l) = l.
Proof. revert i; induction l as [|x l IH]; intros i; [reflexivity|]. cbn [index_from map snd]. now rewrite IH. Qed.

Lemma conditioner_batches_spec batches :
  N.of_nat (length (concat batches)) < 2 ^ 64 ->
  conditioner_batches batches = Ok (concat batches).
Proof.
  intros Hs. unfold conditioner_batches, conditioner_batches_by.
  destruct (run_frames_spec (index_from 0 batches) default_conditioner eq_refl) as [trace [E [H1 _]]].
  - unfold total_messages. rewrite index_from_snd. cbn [default_conditioner next_sequence]. lia.
  - change (run_frames_by key_ltb) with run_frames. rewrite E. cbn [bind].
    now rewrite H1, index_from_snd.
Qed.

(* ---- before the fix: timestamp-only order.  Both [ts_ltb] and [ts_leb] pop an element
   with the smallest timestamp, i.e. both are admissible behaviours of a max-heap under
   the old `Ord`; they disagree on the order of two messages read in the same frame, and
   [ts_ltb] reverses them.  So without the sequence tie-break the output order
   is not determined by the heap contract, and the property can fail. ---- *)
Lemma old_order_admissible ltb l m r : ltb = ts_ltb \/ ltb = ts_leb ->
  extract_min_by ltb l = Some (m, r) ->
  Permutation l (m :: r) /\ forall y, In y r -> timestamp m <= timestamp y.
Proof.
  intros Hl E. split; [apply (extract_min_by_perm _ _ _ _ E)|].
  revert m r E; induction l as [|x l IH]; intros m r; cbn [extract_min_by]; [discriminate|].
  destruct (extract_min_by ltb l) as [[m' r']|] eqn:E'.
  - specialize (IH _ _ eq_refl). pose proof (extract_min_by_perm _ _ _ _ E') as Hp.
    destruct (ltb m' x) eqn:El.
    + intros H; injection H as <- <-. intros y [<- | Hy]; [|apply IH, Hy].
      destruct Hl as [-> | ->]; unfold ts_ltb, ts_leb in El; lia.
    + intros H; injection H as <- <-. intros y Hy.
      assert (timestamp x <= timestamp m') as Hm
        by (destruct Hl as [-> | ->]; unfold ts_ltb, ts_leb in El; lia).
      apply (Permutation_in _ Hp) in Hy. destruct Hy as [<- | Hy]; [exact Hm|].
      specialize (IH _ Hy). lia.
  - intros H; injection H as <- <-. intros y [].
Qed.

Lemma old_order_not_determined :
  conditioner_batches_by ts_leb [[(0, [1]); (0, [2])]] = Ok [(0, [1]); (0, [2])] /\
  conditioner_batches_by ts_ltb [[(0, [1]); (0, [2])]] = Ok [(0, [2]); (0, [1])].
Proof. split; reflexivity. Qed.
