From RV Require Import Lib.Res Backend.Framing.
From RV Require Generated.Params.
From Coq Require Import ZifyBool ZifyN.
Open Scope N_scope.
Ltac Zify.zify_post_hook ::= Z.div_mod_to_equations.
Arguments N.add : simpl never. Arguments N.mul : simpl never. Arguments N.pow : simpl never.
Arguments N.ltb : simpl never. Arguments N.leb : simpl never. Arguments N.div : simpl never.
Arguments N.modulo : simpl never. Arguments N.sub : simpl never. Arguments N.eqb : simpl never.

(* ---- list helpers ---- *)
Lemma firstn_length_app {A} (p r : list A) : firstn (length p) (p ++ r) = p.
Proof. induction p as [|x p IH]; cbn [length app firstn]; [destruct r; reflexivity|]. now rewrite IH. Qed.

Lemma skipn_length_app {A} (p r : list A) : skipn (length p) (p ++ r) = r.
Proof. induction p as [|x p IH]; cbn [length app skipn]; [reflexivity|exact IH]. Qed.

(* ---- send side ---- *)
Lemma msg_okb_spec m : msg_okb m = true <-> msg_ok m.
Proof. unfold msg_okb, msg_ok. lia. Qed.

Lemma frame_never_panics c p : frame c p <> Panic.
Proof.
  unfold frame. destruct (65536 <=? N.of_nat (length p)); [discriminate|].
  destruct (256 <=? c); discriminate.
Qed.

Lemma frame_ok c p : msg_ok (c, p) -> frame c p = Ok (frame_bytes c p).
Proof.
  unfold msg_ok, frame; cbn [fst snd]; intros [Hc Hp].
  destruct (65536 <=? N.of_nat (length p)) eqn:E1; [lia|].
  destruct (256 <=? c) eqn:E2; [lia|reflexivity].
Qed.

(* send_message accepts exactly the messages of ordinary size *)
Lemma frame_ok_iff c p : (exists bs, frame c p = Ok bs) <-> msg_ok (c, p).
Proof.
  split.
  - intros [bs H]. unfold frame in H. unfold msg_ok; cbn [fst snd].
    destruct (65536 <=? N.of_nat (length p)) eqn:E1; [discriminate|].
    destruct (256 <=? c) eqn:E2; [discriminate|]. lia.
  - intros H. eexists. apply frame_ok, H.
Qed.

Lemma frame_bytes_ok c p : c < 256 -> bytes_ok p -> bytes_ok (frame_bytes c p).
Proof.
  intros Hc Hp. unfold frame_bytes, bytes_ok.
  repeat constructor; unfold byte_ok; try lia. exact Hp.
Qed.

Lemma frame_bytes_length c p : length (frame_bytes c p) = (3 + length p)%nat.
Proof. reflexivity. Qed.

Lemma wire_of_cons m ms : wire_of (m :: ms) = frame_bytes (fst m) (snd m) ++ wire_of ms.
Proof. reflexivity. Qed.

Lemma wire_of_app a b : wire_of (a ++ b) = wire_of a ++ wire_of b.
Proof. unfold wire_of. now rewrite map_app, concat_app. Qed.

Lemma wire_of_bytes_ok ms : Forall msg_ok ms -> Forall (fun m => bytes_ok (snd m)) ms -> bytes_ok (wire_of ms).
Proof.
  induction ms as [|m ms IH]; intros H1 H2; [constructor|].
  inversion H1 as [|? ? [Hc _] H1']; inversion H2; subst.
  rewrite wire_of_cons. apply Forall_app; split; [apply frame_bytes_ok; assumption|apply IH; assumption].
Qed.

Lemma send_packets_client_ok ms : Forall msg_ok ms -> send_packets_client ms = (wire_of ms, true).
Proof.
  induction ms as [|[c p] ms IH]; intros H; [reflexivity|].
  inversion H as [|? ? Hm H']; subst.
  cbn [send_packets_client]. rewrite (frame_ok _ _ Hm), (IH H'). reflexivity.
Qed.

Lemma send_packets_server_ok ms : Forall msg_ok ms -> send_packets_server ms = (wire_of ms, true).
Proof.
  induction ms as [|[c p] ms IH]; intros H; [reflexivity|].
  inversion H as [|? ? Hm H']; subst.
  cbn [send_packets_server]. rewrite (frame_ok _ _ Hm), (IH H'). reflexivity.
Qed.

(* ---- one read ---- *)
Lemma header_value (p : list N) : N.of_nat (length p) < 65536 ->
  N.of_nat (length p) mod 256 + 256 * ((N.of_nat (length p) / 256) mod 256) = N.of_nat (length p).
Proof. intros H. lia. Qed.

(* a whole frame at the head of the available bytes is handed over unchanged, on its
   channel, and exactly its bytes are consumed *)
Lemma read_message_frame closed c p rest : N.of_nat (length p) < 65536 ->
  read_message closed (frame_bytes c p ++ rest) = Frame c p rest.
Proof.
  intros Hp. unfold frame_bytes. cbn [app read_message].
  rewrite (header_value p Hp).
  destruct (N.of_nat (length (p ++ rest)) <? N.of_nat (length p)) eqn:E.
  - rewrite app_length in E. lia.
  - rewrite Nat2N.id, firstn_length_app, skipn_length_app. reflexivity.
Qed.

(* whatever read_message returns as a frame is literally a prefix of the stream *)
Lemma read_message_inv closed avail c p rest : read_message closed avail = Frame c p rest ->
  exists b0 b1, avail = c :: b0 :: b1 :: p ++ rest /\ N.of_nat (length p) = b0 + 256 * b1.
Proof.
  destruct avail as [|c' [|b0 [|b1 body]]]; cbn [read_message];
    try (destruct closed; discriminate); try discriminate.
  destruct (N.of_nat (length body) <? b0 + 256 * b1) eqn:E; [discriminate|].
  intros H; injection H as -> <- <-. exists b0, b1. rewrite firstn_skipn. split; [reflexivity|].
  rewrite firstn_length. lia.
Qed.

Lemma read_message_valid closed avail c p rest : bytes_ok avail ->
  read_message closed avail = Frame c p rest -> msg_ok (c, p) /\ bytes_ok p /\ bytes_ok rest.
Proof.
  intros Hb H. destruct (read_message_inv _ _ _ _ _ H) as [b0 [b1 [-> Hl]]].
  unfold bytes_ok in *. inversion Hb as [|? ? Hc Hb1]; subst. inversion Hb1 as [|? ? H0 Hb2]; subst.
  inversion Hb2 as [|? ? H1 Hb3]; subst. apply Forall_app in Hb3 as [Hp Hr].
  unfold msg_ok, byte_ok in *; cbn [fst snd]. repeat split; try assumption; lia.
Qed.

Lemma read_message_shorter closed avail c p rest : read_message closed avail = Frame c p rest ->
  (length rest + 3 <= length avail)%nat.
Proof.
  intros H. destruct (read_message_inv _ _ _ _ _ H) as [b0 [b1 [-> _]]].
  cbn [length]. rewrite app_length. lia.
Qed.

(* ---- the read loop ---- *)
Lemma parse_all_fuel_enough fuel closed avail : (length avail < fuel)%nat ->
  snd (fst (parse_all_fuel fuel closed avail)) <> StopFuel.
Proof.
  revert avail; induction fuel as [|f IH]; intros avail Hf; [lia|].
  cbn [parse_all_fuel]. destruct (read_message closed avail) as [| | |c p rest] eqn:E;
    cbn [fst snd]; try discriminate.
  pose proof (read_message_shorter _ _ _ _ _ E) as Hs.
  specialize (IH rest ltac:(lia)).
  destruct (parse_all_fuel f closed rest) as [[ms stop] lft]. exact IH.
Qed.

Lemma parse_all_fuel_mono f closed avail ms stop lft :
  parse_all_fuel f closed avail = (ms, stop, lft) -> stop <> StopFuel ->
  forall f', (f <= f')%nat -> parse_all_fuel f' closed avail = (ms, stop, lft).
Proof.
  revert avail ms stop lft; induction f as [|f IH]; intros avail ms stop lft H Hs f' Hf.
  - cbn in H. injection H as _ <- _. congruence.
  - destruct f' as [|f']; [lia|]. cbn [parse_all_fuel] in *.
    destruct (read_message closed avail) as [| | |c p rest]; try exact H.
    destruct (parse_all_fuel f closed rest) as [[ms1 stop1] lft1] eqn:E.
    injection H as <- <- <-. rewrite (IH _ _ _ _ E Hs f' ltac:(lia)). reflexivity.
Qed.

Lemma parse_all_fuel_stable f closed avail : (length avail < f)%nat ->
  parse_all_fuel f closed avail = parse_all closed avail.
Proof.
  intros Hf. unfold parse_all.
  destruct (parse_all_fuel (S (length avail)) closed avail) as [[ms stop] lft] eqn:E.
  apply (parse_all_fuel_mono _ _ _ _ _ _ E); [|lia].
  pose proof (parse_all_fuel_enough (S (length avail)) closed avail ltac:(lia)) as H.
  rewrite E in H. exact H.
Qed.

(* the fuel of parse_all is never the reason to stop *)
Lemma parse_all_no_fuel_stop closed avail : snd (fst (parse_all closed avail)) <> StopFuel.
Proof. apply parse_all_fuel_enough. lia. Qed.

Lemma parse_all_nil closed : parse_all closed [] = ([], if closed then StopEof else StopWouldBlock, []).
Proof. destruct closed; reflexivity. Qed.

Lemma parse_all_frame closed c p rest : N.of_nat (length p) < 65536 ->
  parse_all closed (frame_bytes c p ++ rest) =
  let '(ms, stop, lft) := parse_all closed rest in ((c, p) :: ms, stop, lft).
Proof.
  intros Hp. unfold parse_all at 1. cbn [parse_all_fuel].
  rewrite (read_message_frame closed c p rest Hp).
  rewrite parse_all_fuel_stable; [reflexivity|].
  rewrite app_length, frame_bytes_length. lia.
Qed.

(* whole frames in front of anything: they are all read, then the loop goes on with what follows *)
Lemma parse_all_app closed ms b : Forall msg_ok ms ->
  parse_all closed (wire_of ms ++ b) =
  let '(ms', stop, lft) := parse_all closed b in (ms ++ ms', stop, lft).
Proof.
  induction ms as [|[c p] ms IH]; intros H.
  - cbn [wire_of map concat app]. destruct (parse_all closed b) as [[ms' stop] lft]. reflexivity.
  - inversion H as [|? ? [_ Hp] H']; subst. cbn [fst snd] in Hp.
    rewrite wire_of_cons, <- app_assoc. cbn [fst snd].
    rewrite (parse_all_frame closed c p _ Hp), (IH H').
    destruct (parse_all closed b) as [[ms' stop] lft]. reflexivity.
Qed.

(* (a) everything that was sent and has arrived is read, unchanged, in order, and the
   socket is left empty; the loop ends with WouldBlock (connection open) *)
Lemma parse_all_wire closed ms : Forall msg_ok ms ->
  parse_all closed (wire_of ms) = (ms, if closed then StopEof else StopWouldBlock, []).
Proof.
  intros H. rewrite <- (app_nil_r (wire_of ms)), (parse_all_app closed ms [] H), parse_all_nil.
  now rewrite app_nil_r.
Qed.

Lemma framing_roundtrip ms : Forall msg_ok ms ->
  send_packets_client ms = (wire_of ms, true) /\
  send_packets_server ms = (wire_of ms, true) /\
  parse_all false (wire_of ms) = (ms, StopWouldBlock, []).
Proof.
  intros H. split; [apply send_packets_client_ok, H|].
  split; [apply send_packets_server_ok, H|]. apply (parse_all_wire false ms H).
Qed.

(* (a') consumed in several receiver frames; each chunk is the bytes of any number of
   whole messages: every receiver frame reads exactly the messages of its chunk *)
Lemma parse_rounds_whole mss : Forall (Forall msg_ok) mss ->
  parse_rounds [] (map wire_of mss) = mss.
Proof.
  induction mss as [|ms mss IH]; intros H; [reflexivity|].
  inversion H as [|? ? H1 H2]; subst.
  cbn [map parse_rounds app]. rewrite (parse_all_wire false ms H1), (IH H2). reflexivity.
Qed.

(* a partial header (1 or 2 bytes) is NOT lost: it waits in the socket *)
Lemma parse_all_partial_header closed ms tail : Forall msg_ok ms ->
  (0 < length tail < 3)%nat ->
  parse_all closed (wire_of ms ++ tail) = (ms, StopWouldBlock, tail).
Proof.
  intros H Ht. rewrite (parse_all_app closed ms tail H).
  destruct tail as [|a [|b [|c t]]]; cbn [length] in Ht; try lia;
    cbn; now rewrite app_nil_r.
Qed.

(* width of the length prefix: re-read from the source on every run *)
Lemma tcp_size_width_pinned : RV.Generated.Params.tcp_size_width = 16.
Proof. reflexivity. Qed.

(* width of the conditioner's insertion counter: the model's counter is unbounded; 2^64 insertions are out of reach,
   a narrower counter is not *)
Lemma cond_sequence_width_pinned : RV.Generated.Params.cond_sequence_width = 64.
Proof. reflexivity. Qed.
