//! `backend <nclients> <round>/<round>/...`: a real server app and real client apps wired with the example backend
//! (`RepliconExampleBackendPlugins`, loopback TCP sockets, no link conditioner).  Every round queues events
//! (`s<c>:<k>:<size>` server -> client c, `b:<k>:<size>` broadcast, `c<c>:<k>:<size>` client c -> server; k = 0 ordered channel,
//! 1 unordered channel), runs the frames and reports what arrived where: `R<recipient>=k.seq.ok,...` per round.
use std::time::Duration;

use bevy::prelude::*;
use bevy_replicon::prelude::*;
use bevy_replicon::server::server_tick::ServerTick;
use bevy_replicon_example_backend::{ExampleClient, ExampleServer, RepliconExampleBackendPlugins};
use serde::{Deserialize, Serialize};

#[derive(Event, Serialize, Deserialize, Clone)]
struct DownO(u32, Vec<u8>);
#[derive(Event, Serialize, Deserialize, Clone)]
struct DownU(u32, Vec<u8>);
#[derive(Event, Serialize, Deserialize, Clone)]
struct UpO(u32, Vec<u8>);
#[derive(Event, Serialize, Deserialize, Clone)]
struct UpU(u32, Vec<u8>);

/// further client events (kinds 2, 3, 4): the client side of the protocol has MORE channels than the server side
#[derive(Event, Serialize, Deserialize, Clone)]
struct Up<const N: u8>(u32, Vec<u8>);

#[derive(Resource, Default)]
struct Got(Vec<String>);

fn server_log_n<const N: u8>(mut got: ResMut<Got>, slots: Res<Slots>, mut a: EventReader<FromClient<Up<N>>>) {
    for e in a.read() {
        let who = if e.client == SERVER { "L".to_string() } else { slots.0.iter().position(|s| *s == e.client).map(|i| i.to_string()).unwrap_or("R".into()) };
        got.0.push(format!("{who}:{N}.{}.{}.{}", e.event.0, e.event.1.len(), ok(e.event.0, &e.event.1)));
    }
}

fn send_up(app: &mut App, k: &str, seq: u32, data: Vec<u8>) {
    match k {
        "0" => { app.world_mut().send_event(UpO(seq, data)); }
        "1" => { app.world_mut().send_event(UpU(seq, data)); }
        "2" => { app.world_mut().send_event(Up::<2>(seq, data)); }
        "3" => { app.world_mut().send_event(Up::<3>(seq, data)); }
        _ => { app.world_mut().send_event(Up::<4>(seq, data)); }
    }
}

fn payload(seq: u32, size: usize) -> Vec<u8> {
    (0..size).map(|i| (i as u32).wrapping_mul(31).wrapping_add(seq) as u8).collect()
}
fn ok(seq: u32, data: &[u8]) -> u8 {
    (payload(seq, data.len()) == data) as u8
}

fn client_log(mut got: ResMut<Got>, mut a: EventReader<DownO>, mut b: EventReader<DownU>) {
    for e in a.read() {
        got.0.push(format!("0.{}.{}.{}", e.0, e.1.len(), ok(e.0, &e.1)));
    }
    for e in b.read() {
        got.0.push(format!("1.{}.{}.{}", e.0, e.1.len(), ok(e.0, &e.1)));
    }
}

#[derive(Resource, Default)]
struct Slots(Vec<Entity>);

fn server_log(mut got: ResMut<Got>, slots: Res<Slots>, mut a: EventReader<FromClient<UpO>>, mut b: EventReader<FromClient<UpU>>) {
    let who = |e: Entity| slots.0.iter().position(|s| *s == e).map(|i| i.to_string()).unwrap_or("?".into());
    for e in a.read() {
        got.0.push(format!("{}:0.{}.{}.{}", who(e.client), e.event.0, e.event.1.len(), ok(e.event.0, &e.event.1)));
    }
    for e in b.read() {
        got.0.push(format!("{}:1.{}.{}.{}", who(e.client), e.event.0, e.event.1.len(), ok(e.event.0, &e.event.1)));
    }
}

#[derive(Event, Serialize, Deserialize, Clone)]
struct UpT(u32);

/// one log per app for `backendx`: `D:` an event from the server, `R:` an event from a remote client, `L:` a local re-emission
fn x_log(
    mut got: ResMut<Got>,
    mut a: EventReader<DownO>,
    mut b: EventReader<DownU>,
    mut c: EventReader<FromClient<UpO>>,
    mut d: EventReader<FromClient<UpU>>,
) {
    for e in a.read() {
        got.0.push(format!("D:0.{}.{}.{}", e.0, e.1.len(), ok(e.0, &e.1)));
    }
    for e in b.read() {
        got.0.push(format!("D:1.{}.{}.{}", e.0, e.1.len(), ok(e.0, &e.1)));
    }
    for e in c.read() {
        got.0.push(format!("{}:0.{}.{}.{}", if e.client == SERVER { "L" } else { "R" }, e.event.0, e.event.1.len(), ok(e.event.0, &e.event.1)));
    }
    for e in d.read() {
        got.0.push(format!("{}:1.{}.{}.{}", if e.client == SERVER { "L" } else { "R" }, e.event.0, e.event.1.len(), ok(e.event.0, &e.event.1)));
    }
}

fn x_observe(t: Trigger<FromClient<UpT>>, mut got: ResMut<Got>) {
    got.0.push(format!("{}:2.{}.0.1", if t.client == SERVER { "L" } else { "R" }, t.event.0));
}

#[derive(Event, Serialize, Deserialize, Clone)]
struct Extra(u32);

fn x_mismatch(_t: Trigger<ProtocolMismatch>, mut got: ResMut<Got>) {
    got.0.push("M:9.0.0.1".into());
}

fn build_x() -> App {
    build_xc(false, false, false, false)
}

/// `extra`: one more registration than the other apps (a differing protocol); `dt20`: every frame advances time by 20 ms, so
/// that Bevy's event buffers rotate every frame
fn build_xc(proto: bool, manual: bool, dt20: bool, extra: bool) -> App {
    let mut app = build_with(proto, manual);
    app.add_client_trigger::<UpT>(Channel::Ordered).add_observer(x_observe).add_systems(Update, x_log);
    if proto {
        app.add_observer(x_mismatch);
    }
    if extra {
        app.add_server_event::<Extra>(Channel::Ordered);
    }
    if dt20 {
        app.insert_resource(bevy::time::TimeUpdateStrategy::ManualDuration(Duration::from_millis(20)));
    }
    app.finish();
    app
}

/// `backendx <step>/<step>/...`: one real server app and any number of real client apps over the example backend, driven step by
/// step: `Su` server frame, `C<i>u` frame of client i, `sl` sleep, `C<i>new` a new client app with a socket (no frame yet),
/// `C<i>drop` / `C<i>conn` remove / insert the client's socket resource, `Sstop` / `Sstart` remove / insert the server socket,
/// `b:<k>:<size>` broadcast from the server, `c<i>:<k>:<size>` event of client i, `t<i>` trigger of client i.  Items are numbered
/// in script order.  Output: the log of every app.
pub fn backendx(args: &[&str]) -> String {
    let script = args.first().copied().unwrap_or("");
    let (proto, manual, dt20) = (script.contains("cfg:proto"), script.contains("cfg:manual"), script.contains("cfg:dt20"));
    let mut server = build_xc(proto, manual, dt20, false);
    let sock = ExampleServer::new(0).unwrap();
    let mut port = sock.local_addr().unwrap().port();
    server.insert_resource(sock);
    server.update();
    let mut clients: Vec<App> = Vec::new();
    let mut seq = 0u32;
    for step in args.first().copied().unwrap_or("").split('/').filter(|s| !s.is_empty()) {
        if std::env::var("BX_DEBUG").is_ok() {
            if let Some(c) = clients.first() {
                eprintln!("before {step}: status={:?} up={} from={}", c.world().resource::<RepliconClient>().status(), c.world().resource::<Events<UpO>>().len(), c.world().resource::<Events<FromClient<UpO>>>().len());
            }
        }
        if step.starts_with("cfg:") {
            continue;
        } else if step == "Su" {
            server.update();
        } else if step == "T" {
            server.world_mut().resource_mut::<ServerTick>().increment();
        } else if step == "sl" {
            std::thread::sleep(Duration::from_millis(3));
        } else if step == "Sstop" {
            server.world_mut().remove_resource::<ExampleServer>();
        } else if step == "Sstart" {
            let sock = ExampleServer::new(0).unwrap();
            port = sock.local_addr().unwrap().port();
            server.insert_resource(sock);
        } else if let Some(rest) = step.strip_prefix('C') {
            let digits: String = rest.chars().take_while(|c| c.is_ascii_digit()).collect();
            let i: usize = digits.parse().unwrap();
            match &rest[digits.len()..] {
                "new" | "newx" => {
                    let mut c = build_xc(proto, manual, dt20, &rest[digits.len()..] == "newx");
                    c.insert_resource(ExampleClient::new(port).unwrap());
                    clients.push(c);
                }
                "u" => clients[i].update(),
                "drop" => {
                    clients[i].world_mut().remove_resource::<ExampleClient>();
                }
                "conn" => {
                    let s = ExampleClient::new(port).unwrap();
                    clients[i].insert_resource(s);
                }
                "solo" => clients.push(build_xc(proto, manual, dt20, false)),
                _ => return "bad-step".into(),
            }
        } else if let Some(i) = step.strip_prefix('t') {
            seq += 1;
            let i: usize = i.parse().unwrap();
            clients[i].world_mut().commands().client_trigger(UpT(seq));
            clients[i].world_mut().flush();
        } else {
            let f: Vec<&str> = step.split(':').collect();
            let size: usize = f[2].parse().unwrap();
            seq += 1;
            let data = payload(seq, size);
            if f[0] == "b" {
                if f[1] == "0" {
                    server.world_mut().send_event(ToClients { mode: SendMode::Broadcast, event: DownO(seq, data) });
                } else {
                    server.world_mut().send_event(ToClients { mode: SendMode::Broadcast, event: DownU(seq, data) });
                }
            } else {
                let c: usize = f[0][1..].parse().unwrap();
                send_up(&mut clients[c], f[1], seq, data);
            }
        }
    }
    let mut parts = Vec::new();
    let s = std::mem::take(&mut server.world_mut().resource_mut::<Got>().0);
    parts.push(format!("S={}", if s.is_empty() { "-".into() } else { s.join(",") }));
    for (i, c) in clients.iter_mut().enumerate() {
        let g = std::mem::take(&mut c.world_mut().resource_mut::<Got>().0);
        parts.push(format!("C{i}={}", if g.is_empty() { "-".into() } else { g.join(",") }));
    }
    // after `|`: connections the server still has / has authorized, then the status of every client app
    let mut q = server.world_mut().query::<(Entity, Has<AuthorizedClient>)>();
    let mut q2 = server.world_mut().query_filtered::<Entity, With<ConnectedClient>>();
    let conn = q2.iter(server.world()).count();
    let auth = q.iter(server.world()).filter(|(_, a)| *a).count();
    let mut extra = vec![format!("N={conn}/{auth}")];
    for (i, c) in clients.iter().enumerate() {
        let st = match c.world().resource::<RepliconClient>().status() {
            RepliconClientStatus::Connected => "connected",
            RepliconClientStatus::Connecting => "connecting",
            RepliconClientStatus::Disconnected => "disconnected",
        };
        extra.push(format!("C{i}st={st}"));
    }
    format!("{}|{}", parts.join(";"), extra.join(";"))
}

fn build() -> App {
    build_with(false, false)
}

fn build_with(proto: bool, manual: bool) -> App {
    let mut app = App::new();
    app.add_plugins((
        MinimalPlugins,
        RepliconPlugins
            .set(RepliconSharedPlugin { auth_method: if proto { AuthMethod::ProtocolCheck } else { AuthMethod::None } })
            .set(ServerPlugin { tick_policy: if manual { TickPolicy::Manual } else { TickPolicy::EveryFrame }, ..Default::default() }),
        RepliconExampleBackendPlugins,
    ))
    .add_server_event::<DownO>(Channel::Ordered)
    .add_server_event::<DownU>(Channel::Unordered)
    .add_client_event::<UpO>(Channel::Ordered)
    .add_client_event::<UpU>(Channel::Unordered)
    .add_client_event::<Up<2>>(Channel::Ordered)
    .add_client_event::<Up<3>>(Channel::Unordered)
    .add_client_event::<Up<4>>(Channel::Ordered)
    .init_resource::<Got>()
    .init_resource::<Slots>()
    .add_systems(Update, (server_log_n::<2>, server_log_n::<3>, server_log_n::<4>));
    app
}

pub fn backend(args: &[&str]) -> String {
    let n: usize = args[0].parse().unwrap();
    let mut server = build();
    server.add_systems(Update, server_log);
    server.finish();
    let sock = ExampleServer::new(0).unwrap();
    let port = sock.local_addr().unwrap().port();
    server.insert_resource(sock);
    server.update();
    let mut clients: Vec<App> = Vec::new();
    for _ in 0..n {
        let mut c = build();
        c.add_systems(Update, client_log);
        c.finish();
        c.insert_resource(ExampleClient::new(port).unwrap());
        // connect one by one so that slot i is the i-th connected client entity
        for _ in 0..3 {
            std::thread::sleep(Duration::from_millis(2));
            server.update();
            c.update();
        }
        let mut q = server.world_mut().query_filtered::<Entity, With<ConnectedClient>>();
        let all: Vec<Entity> = q.iter(server.world()).collect();
        let known = server.world().resource::<Slots>().0.clone();
        if let Some(e) = all.into_iter().find(|e| !known.contains(e)) {
            server.world_mut().resource_mut::<Slots>().0.push(e);
        }
        clients.push(c);
    }
    if server.world().resource::<Slots>().0.len() != n {
        return "setup-failed".into();
    }
    let mut seq = 0u32;
    let mut out = Vec::new();
    for round in args.get(1).copied().unwrap_or("-").split('/') {
        for item in round.split(',').filter(|i| !i.is_empty() && *i != "-") {
            let f: Vec<&str> = item.split(':').collect();
            let k = f[1];
            let size: usize = f[2].parse().unwrap();
            seq += 1;
            let data = payload(seq, size);
            if f[0] == "b" || f[0].starts_with('s') {
                let mode = if f[0] == "b" {
                    SendMode::Broadcast
                } else {
                    let c: usize = f[0][1..].parse().unwrap();
                    SendMode::Direct(server.world().resource::<Slots>().0[c])
                };
                if k == "0" {
                    server.world_mut().send_event(ToClients { mode, event: DownO(seq, data) });
                } else {
                    server.world_mut().send_event(ToClients { mode, event: DownU(seq, data) });
                }
            } else {
                let c: usize = f[0][1..].parse().unwrap();
                send_up(&mut clients[c], k, seq, data);
            }
        }
        // one frame of every app, then a second pass so that what was written in this round has been read
        for c in clients.iter_mut() {
            c.update();
        }
        server.update();
        std::thread::sleep(Duration::from_millis(3));
        for c in clients.iter_mut() {
            c.update();
        }
        server.update();
        let mut parts = Vec::new();
        let s = std::mem::take(&mut server.world_mut().resource_mut::<Got>().0);
        parts.push(format!("RS={}", if s.is_empty() { "-".into() } else { s.join(",") }));
        for (i, c) in clients.iter_mut().enumerate() {
            let g = std::mem::take(&mut c.world_mut().resource_mut::<Got>().0);
            parts.push(format!("R{i}={}", if g.is_empty() { "-".into() } else { g.join(",") }));
        }
        out.push(parts.join(";"));
    }
    out.join("/")
}
