//! `backend <nclients> <round>/<round>/...`: a real server app and real client apps wired with the example backend
//! (`RepliconExampleBackendPlugins`, loopback TCP sockets, no link conditioner).  Every round queues events
//! (`s<c>:<k>:<size>` server -> client c, `b:<k>:<size>` broadcast, `c<c>:<k>:<size>` client c -> server; k = 0 ordered channel,
//! 1 unordered channel), runs the frames and reports what arrived where: `R<recipient>=k.seq.ok,...` per round.
use std::time::Duration;

use bevy::prelude::*;
use bevy_replicon::prelude::*;
use bevy_replicon_example_backend::{ExampleClient, ExampleServer, RepliconExampleBackendPlugins};
use serde::{Deserialize, Serialize};

#[derive(Event, Serialize, Deserialize, Clone)]
struct DownO(u32, Vec<u8>);
#[derive(Event, Serialize, Deserialize, Clone)]
struct DownU(u32, Vec<u8>);
#[derive(Event, Serialize, Deserialize, Clone)]
struct UpO(u32, Vec<u8>);
#[derive(Event, Serialize, Deserialize, Clone)]
struct UpU(u32, Vec<u8>);

#[derive(Resource, Default)]
struct Got(Vec<String>);

fn payload(seq: u32, size: usize) -> Vec<u8> {
    (0..size).map(|i| (i as u32).wrapping_mul(31).wrapping_add(seq) as u8).collect()
}
fn ok(seq: u32, data: &[u8]) -> u8 {
    (payload(seq, data.len()) == data) as u8
}

fn client_log(mut got: ResMut<Got>, mut a: EventReader<DownO>, mut b: EventReader<DownU>) {
    for e in a.read() {
        got.0.push(format!("0.{}.{}.{}", e.0, e.1.len(), ok(e.0, &e.1)));
    }
    for e in b.read() {
        got.0.push(format!("1.{}.{}.{}", e.0, e.1.len(), ok(e.0, &e.1)));
    }
}

#[derive(Resource, Default)]
struct Slots(Vec<Entity>);

fn server_log(mut got: ResMut<Got>, slots: Res<Slots>, mut a: EventReader<FromClient<UpO>>, mut b: EventReader<FromClient<UpU>>) {
    let who = |e: Entity| slots.0.iter().position(|s| *s == e).map(|i| i.to_string()).unwrap_or("?".into());
    for e in a.read() {
        got.0.push(format!("{}:0.{}.{}.{}", who(e.client), e.event.0, e.event.1.len(), ok(e.event.0, &e.event.1)));
    }
    for e in b.read() {
        got.0.push(format!("{}:1.{}.{}.{}", who(e.client), e.event.0, e.event.1.len(), ok(e.event.0, &e.event.1)));
    }
}

fn build() -> App {
    let mut app = App::new();
    app.add_plugins((
        MinimalPlugins,
        RepliconPlugins.set(RepliconSharedPlugin { auth_method: AuthMethod::None }).set(ServerPlugin { tick_policy: TickPolicy::EveryFrame, ..Default::default() }),
        RepliconExampleBackendPlugins,
    ))
    .add_server_event::<DownO>(Channel::Ordered)
    .add_server_event::<DownU>(Channel::Unordered)
    .add_client_event::<UpO>(Channel::Ordered)
    .add_client_event::<UpU>(Channel::Unordered)
    .init_resource::<Got>()
    .init_resource::<Slots>();
    app
}

pub fn backend(args: &[&str]) -> String {
    let n: usize = args[0].parse().unwrap();
    let mut server = build();
    server.add_systems(Update, server_log);
    server.finish();
    let sock = ExampleServer::new(0).unwrap();
    let port = sock.local_addr().unwrap().port();
    server.insert_resource(sock);
    server.update();
    let mut clients: Vec<App> = Vec::new();
    for _ in 0..n {
        let mut c = build();
        c.add_systems(Update, client_log);
        c.finish();
        c.insert_resource(ExampleClient::new(port).unwrap());
        // connect one by one so that slot i is the i-th connected client entity
        for _ in 0..3 {
            std::thread::sleep(Duration::from_millis(2));
            server.update();
            c.update();
        }
        let mut q = server.world_mut().query_filtered::<Entity, With<ConnectedClient>>();
        let all: Vec<Entity> = q.iter(server.world()).collect();
        let known = server.world().resource::<Slots>().0.clone();
        if let Some(e) = all.into_iter().find(|e| !known.contains(e)) {
            server.world_mut().resource_mut::<Slots>().0.push(e);
        }
        clients.push(c);
    }
    if server.world().resource::<Slots>().0.len() != n {
        return "setup-failed".into();
    }
    let mut seq = 0u32;
    let mut out = Vec::new();
    for round in args.get(1).copied().unwrap_or("-").split('/') {
        for item in round.split(',').filter(|i| !i.is_empty() && *i != "-") {
            let f: Vec<&str> = item.split(':').collect();
            let k = f[1];
            let size: usize = f[2].parse().unwrap();
            seq += 1;
            let data = payload(seq, size);
            if f[0] == "b" || f[0].starts_with('s') {
                let mode = if f[0] == "b" {
                    SendMode::Broadcast
                } else {
                    let c: usize = f[0][1..].parse().unwrap();
                    SendMode::Direct(server.world().resource::<Slots>().0[c])
                };
                if k == "0" {
                    server.world_mut().send_event(ToClients { mode, event: DownO(seq, data) });
                } else {
                    server.world_mut().send_event(ToClients { mode, event: DownU(seq, data) });
                }
            } else {
                let c: usize = f[0][1..].parse().unwrap();
                if k == "0" {
                    clients[c].world_mut().send_event(UpO(seq, data));
                } else {
                    clients[c].world_mut().send_event(UpU(seq, data));
                }
            }
        }
        // one frame of every app, then a second pass so that what was written in this round has been read
        for c in clients.iter_mut() {
            c.update();
        }
        server.update();
        std::thread::sleep(Duration::from_millis(3));
        for c in clients.iter_mut() {
            c.update();
        }
        server.update();
        let mut parts = Vec::new();
        let s = std::mem::take(&mut server.world_mut().resource_mut::<Got>().0);
        parts.push(format!("RS={}", if s.is_empty() { "-".into() } else { s.join(",") }));
        for (i, c) in clients.iter_mut().enumerate() {
            let g = std::mem::take(&mut c.world_mut().resource_mut::<Got>().0);
            parts.push(format!("R{i}={}", if g.is_empty() { "-".into() } else { g.join(",") }));
        }
        out.push(parts.join(";"));
    }
    out.join("/")
}
