//! C13 harness: ONE app in every supported configuration (singleplayer, listen server, dedicated server, client)
//! and the transitions between them. Local game logic writes client events / server events; the harness reports what
//! server-side logic and client-side logic of the same app observe each frame and what goes to the network.
use std::io::{BufRead, Write};
use std::panic::{AssertUnwindSafe, catch_unwind};
use std::time::Duration;

use bevy::prelude::*;
use bevy::time::TimeUpdateStrategy;
use bevy_replicon::bytes::Bytes;
use bevy_replicon::client::ClientPlugin;
use bevy_replicon::client::event::ClientEventPlugin;
use bevy_replicon::prelude::*;
use bevy_replicon::shared::postcard_utils;
use rv_harness::*;
use serde::{Deserialize, Serialize};

#[derive(Event, Serialize, Deserialize, Clone, Copy)]
struct CE0(u32);
#[derive(Event, Serialize, Deserialize, Clone, Copy)]
struct CT(u32);
#[derive(Event, Serialize, Deserialize, Clone, Copy)]
struct SE0(u32);
#[derive(Event, Serialize, Deserialize, Clone, Copy)]
struct ST(u32);
/// registered as independent
#[derive(Event, Serialize, Deserialize, Clone, Copy)]
struct SEI(u32);
#[derive(Event, Serialize, Deserialize, Clone, Copy)]
struct STI(u32);

#[derive(Clone)]
enum Emit {
    Ce(u32),
    Ct(u32),
    Se(String, u32),
    St(String, u32),
    Sei(String, u32),
    Sti(String, u32),
}

#[derive(Resource, Default)]
struct Pending(Vec<Emit>);
#[derive(Resource, Default)]
struct Log(Vec<String>);
#[derive(Resource, Default)]
struct Remote(Option<Entity>);
#[derive(Resource, Default)]
struct FixedRuns(u32);

fn mode_of(s: &str, remote: Option<Entity>) -> Option<SendMode> {
    Some(match s {
        "b" => SendMode::Broadcast,
        "xs" => SendMode::BroadcastExcept(SERVER),
        "ds" => SendMode::Direct(SERVER),
        "xr" => SendMode::BroadcastExcept(remote?),
        "dr" => SendMode::Direct(remote?),
        _ => return None,
    })
}

fn emit(world: &mut World) {
    let ops = std::mem::take(&mut world.resource_mut::<Pending>().0);
    let remote = world.resource::<Remote>().0;
    for op in ops {
        match op {
            Emit::Ce(s) => {
                world.send_event(CE0(s));
            }
            Emit::Ct(s) => {
                world.commands().client_trigger(CT(s));
                world.flush();
            }
            Emit::Se(m, s) => {
                if let Some(mode) = mode_of(&m, remote) {
                    world.send_event(ToClients { mode, event: SE0(s) });
                }
            }
            Emit::St(m, s) => {
                if let Some(mode) = mode_of(&m, remote) {
                    world.commands().server_trigger(ToClients { mode, event: ST(s) });
                    world.flush();
                }
            }
            Emit::Sei(m, s) => {
                if let Some(mode) = mode_of(&m, remote) {
                    world.send_event(ToClients { mode, event: SEI(s) });
                }
            }
            Emit::Sti(m, s) => {
                if let Some(mode) = mode_of(&m, remote) {
                    world.commands().server_trigger(ToClients { mode, event: STI(s) });
                    world.flush();
                }
            }
        }
    }
}

fn who(e: Entity) -> &'static str {
    if e == SERVER { "S" } else { "R" }
}

fn observe_sei(mut log: ResMut<Log>, mut se: EventReader<SEI>) {
    for e in se.read() {
        log.0.push(format!("got SEI:{}", e.0));
    }
}

fn observe_sti(t: Trigger<STI>, mut log: ResMut<Log>) {
    log.0.push(format!("got STI:{}", t.event().0));
}

fn observe(mut log: ResMut<Log>, mut from: EventReader<FromClient<CE0>>, mut se: EventReader<SE0>) {
    for e in from.read() {
        log.0.push(format!("from CE0:{}@{}", e.event.0, who(e.client)));
    }
    for e in se.read() {
        log.0.push(format!("got SE0:{}", e.0));
    }
}

fn observe_ct(t: Trigger<FromClient<CT>>, mut log: ResMut<Log>) {
    log.0.push(format!("from CT:{}@{}", t.event().event.0, who(t.event().client)));
}

fn observe_st(t: Trigger<ST>, mut log: ResMut<Log>) {
    log.0.push(format!("got ST:{}", t.event().0));
}

fn count_fixed(mut n: ResMut<FixedRuns>) {
    n.0 += 1;
}

/// `early`: the event type is first registered as an ordinary Bevy event and one event with that number is written BEFORE
/// `add_client_event` (allowed: "can be used for regular events that were previously registered")
fn build(full: bool, early: Option<u32>) -> App {
    let mut app = App::new();
    let plugins = RepliconPlugins
        .build()
        .set(RepliconSharedPlugin { auth_method: AuthMethod::None })
        .set(ServerPlugin { tick_policy: TickPolicy::EveryFrame, ..Default::default() });
    if full {
        app.add_plugins((MinimalPlugins, plugins));
    } else {
        // a dedicated server: built without the client-side plugins
        app.add_plugins((MinimalPlugins, plugins.disable::<ClientPlugin>().disable::<ClientEventPlugin>()));
    }
    if let Some(n) = early {
        app.add_event::<CE0>();
        app.world_mut().send_event(CE0(n));
    }
    app.insert_resource(TimeUpdateStrategy::ManualDuration(Duration::ZERO))
        .add_client_event::<CE0>(Channel::Ordered)
        .add_client_trigger::<CT>(Channel::Ordered)
        .add_server_event::<SE0>(Channel::Ordered)
        .add_server_trigger::<ST>(Channel::Ordered)
        .add_server_event::<SEI>(Channel::Ordered)
        .make_event_independent::<SEI>()
        .add_server_trigger::<STI>(Channel::Ordered)
        .make_trigger_independent::<STI>()
        .init_resource::<Pending>()
        .init_resource::<Log>()
        .init_resource::<Remote>()
        .init_resource::<FixedRuns>()
        .add_systems(Update, (observe, observe_sei, emit).chain())
        .add_systems(FixedUpdate, count_fixed)
        .add_observer(observe_ct)
        .add_observer(observe_st)
        .add_observer(observe_sti);
    app.finish();
    app.cleanup();
    app
}

fn decode(ch_names: &[&str], ch: usize, base: usize, mut m: Bytes, with_tick: bool) -> String {
    let name = ch.checked_sub(base).and_then(|i| ch_names.get(i)).copied().unwrap_or("?");
    let mut go = || -> Option<String> {
        // independent events carry no tick
        let tick = if with_tick && name != "SEI" && name != "STI" { Some(postcard_utils::from_buf::<u32, _>(&mut m).ok()?) } else { None };
        let _ = tick;
        if name == "CT" || name == "ST" || name == "STI" {
            let _n: usize = postcard_utils::from_buf(&mut m).ok()?;
        }
        let seq: u32 = postcard_utils::from_buf(&mut m).ok()?;
        Some(format!("{name}:{seq}"))
    };
    go().unwrap_or_else(|| format!("{name}:undecodable:{}", hex(&m)))
}

fn main() {
    quiet_panics();
    let stdin = std::io::stdin();
    let stdout = std::io::stdout();
    let mut o = std::io::BufWriter::new(stdout.lock());
    let mut app: Option<App> = None;
    let mut full = true;
    let mut dead = false;
    for line in stdin.lock().lines() {
        let line = line.unwrap();
        let t: Vec<&str> = line.split_whitespace().collect();
        if t.is_empty() || t[0].starts_with('#') {
            continue;
        }
        let mut out: Vec<String> = Vec::new();
        match t[0] {
            "cfg" => {
                full = t.get(1).copied() != Some("plugins=noclient");
                let early = t.iter().find_map(|x| x.strip_prefix("early=")).and_then(|v| v.parse().ok());
                app = Some(build(full, early));
                dead = false;
                out.push("scenario".into());
            }
            _ if dead => out.push("dead".into()),
            "server" => {
                let a = app.as_mut().unwrap();
                let run = t[1] == "start";
                a.world_mut().resource_mut::<RepliconServer>().set_running(run);
            }
            "client" => {
                let a = app.as_mut().unwrap();
                if full {
                    let st = match t[1] {
                        "connected" => RepliconClientStatus::Connected,
                        "connecting" => RepliconClientStatus::Connecting,
                        _ => RepliconClientStatus::Disconnected,
                    };
                    a.world_mut().resource_mut::<RepliconClient>().set_status(st);
                }
            }
            "remote" => {
                // a remote client of the local server
                let a = app.as_mut().unwrap();
                if t[1] == "connect" {
                    if a.world().resource::<RepliconServer>().is_running() && a.world().resource::<Remote>().0.is_none() {
                        let e = a.world_mut().spawn(ConnectedClient { max_size: 1200 }).id();
                        a.world_mut().resource_mut::<Remote>().0 = Some(e);
                    }
                } else if let Some(e) = a.world_mut().resource_mut::<Remote>().0.take() {
                    if let Ok(em) = a.world_mut().get_entity_mut(e) {
                        em.despawn();
                    }
                }
            }
            "emitnow" => {
                // written by code that runs between two frames (or in a schedule outside Update): not through the Update system
                let a = app.as_mut().unwrap();
                let n: u32 = t[2].parse().unwrap();
                match t[1] {
                    "ce" => {
                        a.world_mut().send_event(CE0(n));
                    }
                    _ => {
                        a.world_mut().commands().client_trigger(CT(n));
                        a.world_mut().flush();
                    }
                }
            }
            "emit" => {
                let a = app.as_mut().unwrap();
                let op = match t[1] {
                    "ce" => Emit::Ce(t[2].parse().unwrap()),
                    "ct" => Emit::Ct(t[2].parse().unwrap()),
                    "se" => Emit::Se(t[2].into(), t[3].parse().unwrap()),
                    "sei" => Emit::Sei(t[2].into(), t[3].parse().unwrap()),
                    "sti" => Emit::Sti(t[2].into(), t[3].parse().unwrap()),
                    _ => Emit::St(t[2].into(), t[3].parse().unwrap()),
                };
                a.world_mut().resource_mut::<Pending>().0.push(op);
            }
            "frame" => {
                let a = app.as_mut().unwrap();
                let dt: u64 = t.get(1).map(|s| s.parse().unwrap()).unwrap_or(0);
                a.insert_resource(TimeUpdateStrategy::ManualDuration(Duration::from_millis(dt)));
                a.world_mut().resource_mut::<FixedRuns>().0 = 0;
                if catch_unwind(AssertUnwindSafe(|| a.update())).is_err() {
                    dead = true;
                    out.push("PANIC".into());
                } else {
                    out.push(format!("fixed={}", a.world().resource::<FixedRuns>().0));
                    let log = std::mem::take(&mut a.world_mut().resource_mut::<Log>().0);
                    let mut log = log;
                    log.sort();
                    out.extend(log);
                    // network: what the client part handed to its backend, what the server part handed to its backend
                    if full {
                        let sent: Vec<(usize, Bytes)> = a.world_mut().resource_mut::<RepliconClient>().drain_sent().collect();
                        let mut items: Vec<String> = sent.into_iter().map(|(ch, m)| decode(&["CE0", "CT"], ch, 1, m, false)).collect();
                        items.sort();
                        for it in items {
                            out.push(format!("net-c2s {it}"));
                        }
                    }
                    let sent: Vec<(Entity, usize, Bytes)> = a.world_mut().resource_mut::<RepliconServer>().drain_sent().collect();
                    let mut items: Vec<String> =
                        sent.into_iter().filter(|(_, ch, _)| *ch >= 2).map(|(_, ch, m)| decode(&["SE0", "ST", "SEI", "STI"], ch, 2, m, true)).collect();
                    items.sort();
                    for it in items {
                        out.push(format!("net-s2c {it}"));
                    }
                    // the server loses its remote client on stop
                    if let Some(e) = a.world().resource::<Remote>().0 {
                        if a.world().get_entity(e).is_err() {
                            a.world_mut().resource_mut::<Remote>().0 = None;
                        }
                    }
                }
            }
            _ => out.push("unknown-step".into()),
        }
        for l in out {
            writeln!(o, "{l}").unwrap();
        }
        writeln!(o, ".").unwrap();
    }
}
