//! Layer 0 kernels: one request per stdin line, one canonical answer per stdout line.
//! Numbers are lower-case hex, byte strings are hex ("-" when empty).
use std::io::{BufRead, Write};
use std::panic::{AssertUnwindSafe, catch_unwind};

use bevy::prelude::*;
use bevy_replicon::bytes::Bytes;
use bevy_replicon::shared::entity_serde;
use rv_harness::*;

fn ent_dec(args: &[&str]) -> String {
    let mut b: Bytes = unhex(args[0]).into();
    match entity_serde::deserialize_entity(&mut b) {
        Ok(e) => format!("OK {:x} {:x} {}", e.index(), e.generation(), hex(&b)),
        Err(_) => "ERR".into(),
    }
}

fn ent_enc(args: &[&str]) -> String {
    let e = Entity::from_bits((num(args[1]) << 32) | num(args[0]));
    let mut v = Vec::new();
    match entity_serde::serialize_entity(&mut v, e) {
        Ok(()) => format!("OK {}", hex(&v)),
        Err(_) => "ERR".into(),
    }
}

fn handle(cmd: &str, args: &[&str]) -> String {
    match cmd {
        "ent_dec" => ent_dec(args),
        "ent_enc" => ent_enc(args),
        _ => "UNKNOWN".into(),
    }
}

fn main() {
    quiet_panics();
    let stdin = std::io::stdin();
    let stdout = std::io::stdout();
    let mut out = std::io::BufWriter::new(stdout.lock());
    for line in stdin.lock().lines() {
        let line = line.unwrap();
        let mut it = line.split_whitespace();
        let Some(cmd) = it.next() else {
            writeln!(out).unwrap();
            continue;
        };
        let args: Vec<&str> = it.collect();
        let r = catch_unwind(AssertUnwindSafe(|| handle(cmd, &args)));
        match r {
            Ok(s) => writeln!(out, "{s}").unwrap(),
            Err(_) => writeln!(out, "PANIC").unwrap(),
        }
    }
}
