//! Layer 0 kernels: one request per stdin line, one canonical answer per stdout line.
//! Numbers are lower-case hex, byte strings are hex ("-" when empty).
use std::io::{BufRead, Write};
use std::panic::{AssertUnwindSafe, catch_unwind};

use bevy::prelude::*;
use bevy_replicon::bytes::Bytes;
use bevy_replicon::shared::entity_serde;
use bevy_replicon::client::confirm_history::ConfirmHistory;
use bevy_replicon::client::server_mutate_ticks::ServerMutateTicks;
use bevy_replicon::prelude::RepliconTick;
use rv_harness::*;

#[path = "../scene_kernel.rs"]
mod scene_kernel;
#[path = "../backend_kernel.rs"]
mod backend_kernel;

fn guard<T>(f: impl FnOnce() -> T) -> Option<T> {
    catch_unwind(AssertUnwindSafe(f)).ok()
}

fn tick(s: &str) -> RepliconTick {
    RepliconTick::new(num(s) as u32)
}

/// `tcmp a b`
fn tcmp(args: &[&str]) -> String {
    match tick(args[0]).cmp(&tick(args[1])) {
        std::cmp::Ordering::Less => "L",
        std::cmp::Ordering::Equal => "E",
        std::cmp::Ordering::Greater => "G",
    }
    .into()
}

/// `hist <t0> <op;op;...>` with ops `c:t` confirm, `q:t` contains, `r:a:b` contains_any.
fn hist(args: &[&str]) -> String {
    let mut h = ConfirmHistory::new(tick(args[0]));
    let mut out = Vec::new();
    for op in args.get(1).copied().unwrap_or("").split(';').filter(|o| !o.is_empty()) {
        let f: Vec<&str> = op.split(':').collect();
        match f[0] {
            "c" => {
                if guard(|| h.confirm(tick(f[1]))).is_none() {
                    out.push("P".to_string());
                    break;
                }
            }
            "q" => out.push(match guard(|| h.contains(tick(f[1]))) {
                Some(b) => format!("{}", b as u8),
                None => "P".into(),
            }),
            "r" => out.push(match guard(|| h.contains_any(tick(f[1]), tick(f[2]))) {
                Some(b) => format!("{}", b as u8),
                None => "P".into(),
            }),
            _ => out.push("?".into()),
        }
    }
    format!("{} | {:x} {:x}", out.join(","), h.mask(), h.last_tick().get())
}

/// `mt <op;op;...>` with ops `c:t:count` confirm, `q:t`, `r:a:b`, `m` mask.
fn mt(args: &[&str]) -> String {
    let mut m = ServerMutateTicks::default();
    let mut out = Vec::new();
    for op in args.first().copied().unwrap_or("").split(';').filter(|o| !o.is_empty()) {
        let f: Vec<&str> = op.split(':').collect();
        match f[0] {
            "c" => match guard(|| m.confirm(tick(f[1]), num(f[2]) as usize)) {
                Some(b) => out.push(format!("{}", b as u8)),
                None => {
                    out.push("P".to_string());
                    return out.join(",");
                }
            },
            "q" => out.push(match guard(|| m.contains(tick(f[1]))) {
                Some(b) => format!("{}", b as u8),
                None => "P".into(),
            }),
            "r" => out.push(match guard(|| m.contains_any(tick(f[1]), tick(f[2]))) {
                Some(b) => format!("{}", b as u8),
                None => "P".into(),
            }),
            "m" => out.push(match guard(|| m.mask()) {
                Some(b) => format!("{b:x}"),
                None => "P".into(),
            }),
            _ => out.push("?".into()),
        }
    }
    format!("{} | {:x} {:x}", out.join(","), m.mask(), m.last_tick().get())
}

fn ent_dec(args: &[&str]) -> String {
    let mut b: Bytes = unhex(args[0]).into();
    match entity_serde::deserialize_entity(&mut b) {
        Ok(e) => format!("OK {:x} {:x} {}", e.index(), e.generation(), hex(&b)),
        Err(_) => "ERR".into(),
    }
}

fn ent_enc(args: &[&str]) -> String {
    let e = Entity::from_bits((num(args[1]) << 32) | num(args[0]));
    let mut v = Vec::new();
    match entity_serde::serialize_entity(&mut v, e) {
        Ok(()) => format!("OK {}", hex(&v)),
        Err(_) => "ERR".into(),
    }
}

fn parse_ents(s: &str) -> Vec<(usize, usize)> {
    if s == "_" || s == "-" {
        return Vec::new();
    }
    s.split(',')
        .map(|e| {
            let (a, b) = e.split_once(':').unwrap();
            (num(a) as usize, num(b) as usize)
        })
        .collect()
}

/// `split <track> <max> <related g|g> <standalone>`
fn split(args: &[&str]) -> String {
    use bevy_replicon::server::verif_hooks::mutations_split;
    let related: Vec<Vec<(usize, usize)>> = if args[2] == "_" {
        Vec::new()
    } else {
        args[2].split('|').map(parse_ents).collect()
    };
    let standalone = parse_ents(args[3]);
    let out = mutations_split(&related, &standalone, args[0] == "1", num(args[1]) as usize);
    if out.is_empty() {
        return "NONE".into();
    }
    out.iter()
        .map(|(len, ids)| {
            format!(
                "{len:x}:{}",
                ids.iter().map(|i| format!("{i:x}")).collect::<Vec<_>>().join(",")
            )
        })
        .collect::<Vec<_>>()
        .join(";")
}

fn can_pack(args: &[&str]) -> String {
    let b = bevy_replicon::server::verif_hooks::can_pack(
        num(args[0]) as usize,
        num(args[1]) as usize,
        num(args[2]) as usize,
    );
    format!("{}", b as u8)
}

fn parse_msgs(s: &str) -> Vec<(usize, Vec<u8>)> {
    if s == "-" || s.is_empty() {
        return Vec::new();
    }
    s.split(',')
        .map(|m| {
            let (c, p) = m.split_once(':').unwrap();
            (num(c) as usize, unhex(p))
        })
        .collect()
}

fn fmt_msgs(ms: &[(u8, Vec<u8>)]) -> String {
    if ms.is_empty() {
        return "-".into();
    }
    ms.iter()
        .map(|(c, p)| format!("{c:x}:{}", hex(p)))
        .collect::<Vec<_>>()
        .join(",")
}

/// `cond <batch/batch/...>`: conditioner without configuration, as `receive_packets` uses it.
fn cond(args: &[&str]) -> String {
    use bevy_replicon_example_backend::verif_hooks::conditioner_batches;
    let batches: Vec<Vec<(u8, Vec<u8>)>> = args[0]
        .split('/')
        .map(|b| parse_msgs(b).into_iter().map(|(c, p)| (c as u8, p)).collect())
        .collect();
    fmt_msgs(&conditioner_batches(&batches))
}

/// `cond_long <total> <batch>`: a long-lived connection - `total` messages in batches of `batch` (one batch per receiver
/// frame, channel = index % 3, payload = the index); the answer is `ok <n>` or the first place where a channel's order breaks.
fn cond_long(args: &[&str]) -> String {
    use bevy_replicon_example_backend::verif_hooks::conditioner_batches;
    let total: u32 = args[0].parse().unwrap();
    let batch: u32 = args[1].parse().unwrap();
    let mut batches: Vec<Vec<(u8, Vec<u8>)>> = Vec::new();
    let mut i = 0u32;
    while i < total {
        let n = batch.min(total - i);
        batches.push((i..i + n).map(|k| ((k % 3) as u8, k.to_le_bytes().to_vec())).collect());
        i += n;
    }
    let out = conditioner_batches(&batches);
    let mut next = [0u32, 1, 2];
    for (pos, (ch, m)) in out.iter().enumerate() {
        let got = u32::from_le_bytes([m[0], m[1], m[2], m[3]]);
        let want = next[*ch as usize % 3];
        if got != want || *ch as u32 != got % 3 {
            return format!("broken pos={pos} channel={ch} got={got} expected={want}");
        }
        next[*ch as usize % 3] += 3;
    }
    if out.len() as u32 != total { format!("broken count={} expected={total}", out.len()) } else { format!("ok {total}") }
}

/// `tcp <round/round/...>`: every round is written with `tcp::send_message` to a real loopback socket,
/// then the receiver reads with `tcp::read_message` until it would block (after the data arrived).
fn tcp(args: &[&str]) -> String {
    use bevy_replicon_example_backend::verif_hooks::{read_message, send_message, socket_pair};
    let (mut writer, mut reader) = socket_pair().unwrap();
    let mut out = Vec::new();
    for round in args[0].split('/') {
        let msgs = parse_msgs(round);
        let mut expected = 0;
        let mut errs = Vec::new();
        for (i, (c, p)) in msgs.iter().enumerate() {
            if send_message(&mut writer, *c, p) {
                expected += 1;
            } else {
                errs.push(format!("E{i:x}"));
            }
        }
        let mut got = Vec::new();
        let start = std::time::Instant::now();
        loop {
            match read_message(&mut reader) {
                Ok(m) => got.push(m),
                Err(e) if e.kind() == std::io::ErrorKind::WouldBlock => {
                    if got.len() >= expected || start.elapsed().as_secs() >= 5 {
                        break;
                    }
                    std::thread::sleep(std::time::Duration::from_micros(200));
                }
                Err(e) => {
                    errs.push(format!("R{:?}", e.kind()));
                    break;
                }
            }
        }
        let mut r = fmt_msgs(&got);
        if !errs.is_empty() {
            r = format!("{r}!{}", errs.join("!"));
        }
        out.push(r);
    }
    out.join("/")
}

mod pool {
    pub struct P0;
    pub struct P1;
    pub struct LongerName2;
    pub struct Wrap<T>(pub T);
}

fn proto_add(hasher: &mut bevy_replicon::shared::protocol::ProtocolHasher, part: u8, prio: usize, idx: usize) -> String {
    use bevy_replicon::shared::protocol::verif::add_part;
    use pool::*;
    macro_rules! go {
        ($t:ty) => {{
            add_part::<$t>(hasher, part, prio);
            std::any::type_name::<$t>().to_string()
        }};
    }
    match idx {
        0 => go!(P0),
        1 => go!(P1),
        2 => go!(LongerName2),
        3 => go!(Wrap<P0>),
        4 => go!(Wrap<Wrap<P1>>),
        5 => go!(u8),
        6 => go!(String),
        7 => go!((P0, P1)),
        8 => go!(Vec<Option<LongerName2>>),
        _ => go!(()),
    }
}

/// `proto_names`: type names of the pool.
fn proto_names() -> String {
    (0..10)
        .map(|i| {
            let mut h = Default::default();
            hex(proto_add(&mut h, 1, 0, i).as_bytes())
        })
        .collect::<Vec<_>>()
        .join(",")
}

/// `proto part:prio:idx:namehex,...`
fn proto(args: &[&str]) -> String {
    let mut hasher = bevy_replicon::shared::protocol::ProtocolHasher::default();
    if let Some(items) = args.first() {
        for item in items.split(',').filter(|i| !i.is_empty() && *i != "-") {
            let f: Vec<&str> = item.split(':').collect();
            let name = proto_add(&mut hasher, num(f[0]) as u8, num(f[1]) as usize, num(f[2]) as usize);
            if hex(name.as_bytes()) != f[3] {
                return format!("NAME-MISMATCH {name}");
            }
        }
    }
    format!("{:x}", bevy_replicon::shared::protocol::verif::finish(hasher))
}

/// `vis <whitelist 0|1> <op;op;...>`: `s:e:b` set_visibility, `d:e` remove_despawned, `l` drain_lost,
/// `u` update, `q:e` state code, `v:e` is_visible.
fn vis(args: &[&str]) -> String {
    use bevy_replicon::server::verif_hooks::visibility as hook;
    let ent = |s: &str| Entity::from_raw(num(s) as u32);
    let mut v = hook::new(args[0] == "1");
    let mut out = Vec::new();
    for op in args.get(1).copied().unwrap_or("").split(';').filter(|o| !o.is_empty()) {
        let f: Vec<&str> = op.split(':').collect();
        match f[0] {
            "s" => v.set_visibility(ent(f[1]), f[2] == "1"),
            "d" => hook::remove_despawned(&mut v, ent(f[1])),
            "l" => {
                let mut lost: Vec<u32> = hook::drain_lost(&mut v).iter().map(|e| e.index()).collect();
                lost.sort();
                out.push(format!(
                    "l[{}]",
                    lost.iter().map(|e| format!("{e:x}")).collect::<Vec<_>>().join(" ")
                ));
            }
            "u" => hook::update(&mut v),
            "q" => out.push(format!("{}", hook::state(&v, ent(f[1])))),
            "v" => out.push(format!("{}", v.is_visible(ent(f[1])) as u8)),
            _ => out.push("?".into()),
        }
    }
    out.join(",")
}

mod app_pool {
    use bevy::prelude::*;
    use serde::{Deserialize, Serialize};
    #[derive(Component, Serialize, Deserialize)]
    pub struct CA(pub u8);
    #[derive(Component, Serialize, Deserialize)]
    pub struct CB(pub u8);
    #[derive(Component, Serialize, Deserialize)]
    pub struct CC(pub u8);
    #[derive(Event, Serialize, Deserialize)]
    pub struct EA(pub u8);
    #[derive(Event, Serialize, Deserialize)]
    pub struct EB(pub u8);
}

/// `proto_app item,item,...`: a real App (RepliconPlugins, default ProtocolCheck) performing registrations through the
/// public API. Items: r<i> replicate, p<i>:<prio> replicate_with_priority, b<ij> bundle, ce<i> client event, ct<i> client
/// trigger, se<i> server event, st<i> server trigger, ie<i> independent event, it<i> independent trigger.
/// Answer: `<hash> <model items>` where the model items spell the same registrations (incl. the plugin's own) for the Coq model.
/// `chan_kinds`: the channel kinds a default app (RepliconPlugins, default protocol check) declares to the backend:
/// `C=<kind>,<kind>,..;S=<kind>,..` (client channels: acknowledgements, the protocol hash; server channels: updates, mutations,
/// the mismatch notification)
fn chan_kinds() -> String {
    use bevy_replicon::prelude::*;
    let mut app = App::new();
    app.add_plugins((MinimalPlugins, RepliconPlugins));
    app.finish();
    let ch = app.world().resource::<RepliconChannels>();
    let f = |l: &[Channel]| l.iter().map(|c| format!("{c:?}")).collect::<Vec<_>>().join(",");
    format!("C={};S={}", f(ch.client_channels()), f(ch.server_channels()))
}

fn proto_app(args: &[&str]) -> String {
    use app_pool::*;
    use bevy_replicon::prelude::*;
    use bevy_replicon::shared::replication::replication_registry::rule_fns::RuleFns;
    let mut app = App::new();
    app.add_plugins((MinimalPlugins, RepliconPlugins));
    let mut model: Vec<String> = Vec::new();
    let name = |n: &str| hex(n.as_bytes());
    // registrations of RepliconSharedPlugin under AuthMethod::ProtocolCheck
    model.push(format!("3:0:0:{}", name(std::any::type_name::<ProtocolHash>())));
    model.push(format!("5:0:0:{}", name(std::any::type_name::<ProtocolMismatch>())));
    model.push(format!("7:0:0:{}", name(std::any::type_name::<ProtocolMismatch>())));
    /// registers one more rule in its `finish`, i.e. AFTER the shared plugin computed the protocol hash (it was added later)
    struct LatePlugin;
    impl Plugin for LatePlugin {
        fn build(&self, _app: &mut App) {}
        fn finish(&self, app: &mut App) {
            app.replicate::<CC>();
        }
    }
    let mut late = false;
    for item in args.first().copied().unwrap_or("").split(',').filter(|i| !i.is_empty() && *i != "-") {
        if item == "late" {
            // item `late`: a plugin added after RepliconPlugins that registers a replication rule in its own `finish`
            app.add_plugins(LatePlugin);
            late = true;
            continue;
        }
        macro_rules! comp {
            ($i:expr, $f:ident) => {
                match $i {
                    "0" => $f!(CA),
                    "1" => $f!(CB),
                    _ => $f!(CC),
                }
            };
        }
        macro_rules! evt {
            ($i:expr, $f:ident) => {
                match $i {
                    "0" => $f!(EA),
                    _ => $f!(EB),
                }
            };
        }
        if let Some(i) = item.strip_prefix("ce") {
            macro_rules! go { ($t:ty) => {{ app.add_client_event::<$t>(Channel::Ordered); model.push(format!("2:0:0:{}", name(std::any::type_name::<$t>()))); }}; }
            evt!(i, go);
        } else if let Some(i) = item.strip_prefix("ct") {
            macro_rules! go { ($t:ty) => {{ app.add_client_trigger::<$t>(Channel::Ordered); model.push(format!("3:0:0:{}", name(std::any::type_name::<$t>()))); }}; }
            evt!(i, go);
        } else if let Some(i) = item.strip_prefix("se") {
            macro_rules! go { ($t:ty) => {{ app.add_server_event::<$t>(Channel::Ordered); model.push(format!("4:0:0:{}", name(std::any::type_name::<$t>()))); }}; }
            evt!(i, go);
        } else if let Some(i) = item.strip_prefix("st") {
            macro_rules! go { ($t:ty) => {{ app.add_server_trigger::<$t>(Channel::Ordered); model.push(format!("5:0:0:{}", name(std::any::type_name::<$t>()))); }}; }
            evt!(i, go);
        } else if let Some(i) = item.strip_prefix("ie") {
            macro_rules! go { ($t:ty) => {{ app.add_server_event::<$t>(Channel::Ordered); app.make_event_independent::<$t>();
                model.push(format!("4:0:0:{}", name(std::any::type_name::<$t>()))); model.push(format!("6:0:0:{}", name(std::any::type_name::<$t>()))); }}; }
            evt!(i, go);
        } else if let Some(i) = item.strip_prefix("it") {
            macro_rules! go { ($t:ty) => {{ app.add_server_trigger::<$t>(Channel::Ordered); app.make_trigger_independent::<$t>();
                model.push(format!("5:0:0:{}", name(std::any::type_name::<$t>()))); model.push(format!("7:0:0:{}", name(std::any::type_name::<$t>()))); }}; }
            evt!(i, go);
        } else if let Some(i) = item.strip_prefix('r') {
            macro_rules! go { ($t:ty) => {{ app.replicate::<$t>(); model.push(format!("0:1:0:{}", name(std::any::type_name::<RuleFns<$t>>()))); }}; }
            comp!(i, go);
        } else if let Some(rest) = item.strip_prefix('p') {
            let (i, prio) = rest.split_once(':').unwrap();
            let prio = num(prio) as usize;
            macro_rules! go { ($t:ty) => {{ app.replicate_with_priority(prio, RuleFns::<$t>::default()); model.push(format!("0:{prio:x}:0:{}", name(std::any::type_name::<RuleFns<$t>>()))); }}; }
            comp!(i, go);
        } else if let Some(ij) = item.strip_prefix('b') {
            match ij {
                "01" => { app.replicate_bundle::<(CA, CB)>(); model.push(format!("1:0:0:{}", name(std::any::type_name::<(CA, CB)>()))); }
                "10" => { app.replicate_bundle::<(CB, CA)>(); model.push(format!("1:0:0:{}", name(std::any::type_name::<(CB, CA)>()))); }
                "12" => { app.replicate_bundle::<(CB, CC)>(); model.push(format!("1:0:0:{}", name(std::any::type_name::<(CB, CC)>()))); }
                _ => { app.replicate_bundle::<(CA, CB, CC)>(); model.push(format!("1:0:0:{}", name(std::any::type_name::<(CA, CB, CC)>()))); }
            }
        }
    }
    app.finish();
    let h = bevy_replicon::shared::protocol::verif::value(app.world().resource::<ProtocolHash>());
    if late {
        // reaching this point means the late registration was ACCEPTED: report how many rules the app ended up with
        let n = app.world().resource::<bevy_replicon::shared::replication::replication_rules::ReplicationRules>().len();
        return format!("{h:x} late-accepted rules={n}");
    }
    format!("{h:x} {}", model.join(","))
}

/// `graph <op;op;...> <e,e,...>`: ops `a:kind:source:target`, `r:kind:source:target`, `c`; answer: for each queried entity
/// its graph renumbered by first appearance (`-` without index) and the number of graphs.
fn graph(args: &[&str]) -> String {
    use bevy_replicon::server::verif_hooks::related::Graph;
    let ent = |s: &str| Entity::from_raw(num(s) as u32);
    let mut g = Graph::default();
    for op in args[0].split(';').filter(|o| !o.is_empty() && *o != "-") {
        let f: Vec<&str> = op.split(':').collect();
        match f[0] {
            "a" => g.add(num(f[1]) as u8, ent(f[2]), ent(f[3])),
            "r" => g.remove(num(f[1]) as u8, ent(f[2]), ent(f[3])),
            // a replication tick in between: rebuild_graphs + a lookup, result ignored
            "q" => {
                let _ = g.indices(&[ent("1")]);
            }
            _ => g.clear(),
        }
    }
    let qs: Vec<Entity> = args[1].split(',').map(ent).collect();
    let (idx, count) = g.indices(&qs);
    let mut seen: Vec<usize> = Vec::new();
    let labels: Vec<String> = idx
        .iter()
        .map(|i| match i {
            None => "-".to_string(),
            Some(i) => {
                let pos = seen.iter().position(|x| x == i).unwrap_or_else(|| {
                    seen.push(*i);
                    seen.len() - 1
                });
                pos.to_string()
            }
        })
        .collect();
    format!("{} count={count}", labels.join(","))
}

fn handle(cmd: &str, args: &[&str]) -> String {
    match cmd {
        "ent_dec" => ent_dec(args),
        "ent_enc" => ent_enc(args),
        "tcmp" => tcmp(args),
        "graph" => graph(args),
        "proto_app" => proto_app(args),
        "chan_kinds" => chan_kinds(),
        "scene" => scene_kernel::scene_cmd(args),
        "vis" => vis(args),
        "cond" => cond(args),
        "cond_long" => cond_long(args),
        "backend" => backend_kernel::backend(args),
        "backendx" => backend_kernel::backendx(args),
        "tcp" => tcp(args),
        "proto" => proto(args),
        "proto_names" => proto_names(),
        "split" => split(args),
        "can_pack" => can_pack(args),
        "hist" => hist(args),
        "mt" => mt(args),
        _ => "UNKNOWN".into(),
    }
}

fn main() {
    quiet_panics();
    let stdin = std::io::stdin();
    let stdout = std::io::stdout();
    let mut out = std::io::BufWriter::new(stdout.lock());
    for line in stdin.lock().lines() {
        let line = line.unwrap();
        let mut it = line.split_whitespace();
        let Some(cmd) = it.next() else {
            writeln!(out).unwrap();
            continue;
        };
        let args: Vec<&str> = it.collect();
        let r = catch_unwind(AssertUnwindSafe(|| handle(cmd, &args)));
        match r {
            Ok(s) => writeln!(out, "{s}").unwrap(),
            Err(_) => writeln!(out, "PANIC").unwrap(),
        }
    }
}
