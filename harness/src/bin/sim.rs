//! Layer 1 harness: one server app and up to 3 client apps built from the real plugins, driven by a script
//! (stdin, one step per line). Message delivery is fully controlled by the script: everything the apps hand to
//! the "backend" is drained into explicit per-client per-channel queues. After every step canonical observation
//! lines are printed, terminated by a line containing a single dot.
use std::collections::{HashMap, VecDeque};
use std::io::{BufRead, Write};
use std::panic::{AssertUnwindSafe, catch_unwind};
use std::time::Duration;

use bevy::ecs::entity::MapEntities;
use bevy::prelude::*;
use bevy::time::TimeUpdateStrategy;
use bevy_replicon::bytes::{Buf, Bytes};
use bevy_replicon::client::ServerUpdateTick;
use bevy_replicon::client::confirm_history::ConfirmHistory;
use bevy_replicon::client::server_mutate_ticks::{MutateTickReceived, ServerMutateTicks};
use bevy_replicon::prelude::*;
use bevy_replicon::server::server_tick::ServerTick;
use bevy_replicon::shared::entity_serde;
use bevy_replicon::shared::postcard_utils;
use bevy_replicon::shared::replication::track_mutate_messages::TrackAppExt;
use bevy_replicon::shared::server_entity_map::ServerEntityMap;
use rv_harness::*;
use serde::{Deserialize, Serialize};

#[derive(Component, Serialize, Deserialize, Clone, Copy)]
struct A(u32);
#[derive(Component, Serialize, Deserialize, Clone, Copy)]
struct B(u32, u64);
/// B carries a second field derived from the first, so that its payload has several fields of different widths and a
/// message parsed out of step shows up as a corrupt value
fn b_of(n: u32) -> B {
    B(n, (n as u64).wrapping_mul(0x1_0000_0001).wrapping_add(7))
}
fn b_str(b: &B) -> String {
    if b_of(b.0).1 == b.1 { b.0.to_string() } else { format!("{}!corrupt", b.0) }
}
// command markers (cfg markers=1): a client entity carrying `MA` keeps what the server sends for `A` in `ShadowA` (a history
// marker: it is also handed values OLDER than the entity's confirmed tick and keeps the newest), one carrying `MB` keeps `B`
// in `ShadowB`.  The client view reports the shadow where there is one, so the oracles do not need to know about markers.
#[derive(Component)]
struct MA;
#[derive(Component)]
struct MB;
#[derive(Component)]
struct ShadowA(u32, RepliconTick);
#[derive(Component)]
struct ShadowB(B);

fn write_shadow_a(
    ctx: &mut bevy_replicon::shared::replication::replication_registry::ctx::WriteCtx,
    rule_fns: &bevy_replicon::shared::replication::replication_registry::rule_fns::RuleFns<A>,
    entity: &mut bevy_replicon::shared::replication::deferred_entity::DeferredEntity,
    message: &mut Bytes,
) -> Result<()> {
    let a: A = rule_fns.deserialize(ctx, message)?;
    let tick = ctx.message_tick;
    // a history marker is also handed values older than the entity's confirmed tick; this one only keeps the newest value,
    // so anything older than what the entity has confirmed (e.g. a value from before a removal) is dropped
    if let Some(last) = entity.get_mut::<ConfirmHistory>().map(|h| h.last_tick()) {
        if tick < last {
            return Ok(());
        }
    }
    if let Some(mut sh) = entity.get_mut::<ShadowA>() {
        if tick >= sh.1 {
            sh.0 = a.0;
            sh.1 = tick;
        }
    } else {
        entity.insert(ShadowA(a.0, tick));
    }
    Ok(())
}
fn remove_shadow_a(
    _ctx: &mut bevy_replicon::shared::replication::replication_registry::ctx::RemoveCtx,
    entity: &mut bevy_replicon::shared::replication::deferred_entity::DeferredEntity,
) {
    entity.remove::<ShadowA>().remove::<A>();
}
fn write_shadow_b(
    ctx: &mut bevy_replicon::shared::replication::replication_registry::ctx::WriteCtx,
    rule_fns: &bevy_replicon::shared::replication::replication_registry::rule_fns::RuleFns<B>,
    entity: &mut bevy_replicon::shared::replication::deferred_entity::DeferredEntity,
    message: &mut Bytes,
) -> Result<()> {
    let b: B = rule_fns.deserialize(ctx, message)?;
    if let Some(mut sh) = entity.get_mut::<ShadowB>() {
        sh.0 = b;
    } else {
        entity.insert(ShadowB(b));
    }
    Ok(())
}
fn remove_shadow_b(
    _ctx: &mut bevy_replicon::shared::replication::replication_registry::ctx::RemoveCtx,
    entity: &mut bevy_replicon::shared::replication::deferred_entity::DeferredEntity,
) {
    entity.remove::<ShadowB>().remove::<B>();
}

#[derive(Component, Serialize, Deserialize, Clone, Copy)]
struct O(u32);
#[derive(Component, Serialize, Deserialize, Clone, Copy, MapEntities)]
struct R(#[entities] Entity);
#[derive(Component, Serialize, Deserialize, Clone, Copy)]
struct P(u32);

// remote events: server->client SE0 (ordered), SEI (ordered, independent), SEM (ordered, mapped entity),
// SEU (unreliable), ST (trigger with targets); client->server CE0, CEM (mapped), CT (trigger with targets)
#[derive(Event, Serialize, Deserialize, Clone, Copy)]
struct SE0(u32);
#[derive(Event, Serialize, Deserialize, Clone, Copy)]
struct SEI(u32);
#[derive(Event, Serialize, Deserialize, Clone, Copy, MapEntities)]
struct SEM(u32, #[entities] Entity);
#[derive(Event, Serialize, Deserialize, Clone, Copy)]
struct SEU(u32);
#[derive(Event, Serialize, Deserialize, Clone, Copy)]
struct ST(u32);
/// a server trigger whose PAYLOAD is mapped too (`add_mapped_server_trigger`); registered last
#[derive(Event, Serialize, Deserialize, Clone, Copy, MapEntities)]
struct STM(u32, #[entities] Entity);
/// a client trigger without payload (registered last; only injected bytes ever arrive on its channel)
#[derive(Event, Serialize, Deserialize, Clone, Copy)]
struct CTU;
#[derive(Event, Serialize, Deserialize, Clone, Copy)]
struct CE0(u32);
#[derive(Event, Serialize, Deserialize, Clone, Copy, MapEntities)]
struct CEM(u32, #[entities] Entity);
#[derive(Event, Serialize, Deserialize, Clone, Copy)]
struct CT(u32);
/// a client event whose payload is a sequence (registered last; only injected bytes ever arrive on its channel)
#[derive(Event, Serialize, Deserialize, Clone)]
struct CEV(Vec<u64>);
/// a client event with a string and a float (postcard reads both through `try_take_n`; registered last, only injected bytes
/// ever arrive on its channel)
#[derive(Event, Serialize, Deserialize, Clone)]
struct CES(String, f32);

/// What game logic observed: (type name, sequence number, entity if any, sender client entity if any).
#[derive(Resource, Default)]
struct EventLog(Vec<(&'static str, u32, Option<Entity>, Option<Entity>)>);

fn log_client_side(
    mut log: ResMut<EventLog>,
    mut a: EventReader<SE0>,
    mut b: EventReader<SEI>,
    mut c: EventReader<SEM>,
    mut d: EventReader<SEU>,
) {
    for e in a.read() {
        log.0.push(("SE0", e.0, None, None));
    }
    for e in b.read() {
        log.0.push(("SEI", e.0, None, None));
    }
    for e in c.read() {
        log.0.push(("SEM", e.0, Some(e.1), None));
    }
    for e in d.read() {
        log.0.push(("SEU", e.0, None, None));
    }
}

#[derive(Resource, Default)]
struct DisconnectLog(Vec<Entity>);

fn log_disconnect_requests(mut log: ResMut<DisconnectLog>, mut r: EventReader<DisconnectRequest>) {
    for e in r.read() {
        log.0.push(e.client);
    }
}

fn log_server_side_vec(mut log: ResMut<EventLog>, mut a: EventReader<FromClient<CEV>>) {
    for e in a.read() {
        log.0.push(("CEV", e.event.0.len() as u32, None, Some(e.client)));
    }
}

fn log_server_side(mut log: ResMut<EventLog>, mut a: EventReader<FromClient<CE0>>, mut b: EventReader<FromClient<CEM>>) {
    for e in a.read() {
        log.0.push(("CE0", e.event.0, None, Some(e.client)));
    }
    for e in b.read() {
        log.0.push(("CEM", e.event.0, Some(e.event.1), Some(e.client)));
    }
}

fn observe_st(trigger: Trigger<ST>, mut log: ResMut<EventLog>) {
    let t = trigger.target();
    log.0.push(("ST", trigger.event().0, if t == Entity::PLACEHOLDER { None } else { Some(t) }, None));
}

fn observe_stm(trigger: Trigger<STM>, mut log: ResMut<EventLog>) {
    let t = trigger.target();
    log.0.push(("STM", trigger.event().0, if t == Entity::PLACEHOLDER { None } else { Some(t) }, None));
}

fn observe_ctu(trigger: Trigger<FromClient<CTU>>, mut log: ResMut<EventLog>) {
    let t = trigger.target();
    log.0.push(("CTU", 0, if t == Entity::PLACEHOLDER { None } else { Some(t) }, Some(trigger.event().client)));
}

fn observe_ct(trigger: Trigger<FromClient<CT>>, mut log: ResMut<EventLog>) {
    let t = trigger.target();
    log.0.push(("CT", trigger.event().event.0, if t == Entity::PLACEHOLDER { None } else { Some(t) }, Some(trigger.event().client)));
}

/// A relationship registered for synchronized replication (not replicated itself).
#[derive(Component)]
#[relationship(relationship_target = FollowedBy)]
struct Follows(Entity);
#[derive(Component)]
#[relationship_target(relationship = Follows)]
struct FollowedBy(Vec<Entity>);

/// Counting allocator: remembers the largest single allocation request (C06: no allocation out of proportion).
struct CountingAlloc;
static MAX_ALLOC: std::sync::atomic::AtomicUsize = std::sync::atomic::AtomicUsize::new(0);
unsafe impl std::alloc::GlobalAlloc for CountingAlloc {
    unsafe fn alloc(&self, layout: std::alloc::Layout) -> *mut u8 {
        MAX_ALLOC.fetch_max(layout.size(), std::sync::atomic::Ordering::Relaxed);
        unsafe { std::alloc::System.alloc(layout) }
    }
    unsafe fn dealloc(&self, ptr: *mut u8, layout: std::alloc::Layout) {
        unsafe { std::alloc::System.dealloc(ptr, layout) }
    }
    unsafe fn realloc(&self, ptr: *mut u8, layout: std::alloc::Layout, new_size: usize) -> *mut u8 {
        MAX_ALLOC.fetch_max(new_size, std::sync::atomic::Ordering::Relaxed);
        unsafe { std::alloc::System.realloc(ptr, layout, new_size) }
    }
}
#[global_allocator]
static GLOBAL: CountingAlloc = CountingAlloc;
const BIG_ALLOC: usize = 256 * 1024;

const KINDS: usize = 5; // 0 A, 1 B, 2 O (once), 3 R (entity reference), 4 P (periodic 2)

#[derive(Clone, Debug)]
enum Val {
    Nat(u32),
    Ref(u32), // script id of a server entity
}

#[derive(Clone, Debug)]
enum Sop {
    Spawn(u32, bool, Vec<(usize, Val)>),
    Despawn(u32),
    Insert(u32, usize, Val),
    Remove(u32, usize),
    Mutate(u32, usize, Val),
    Mark(u32),
    /// `Replicated` inserted again on an entity that may already carry it
    Remark(u32),
    Unmark(u32),
    Vis(usize, u32, bool),
    Map(usize, u32, u32),
    /// like Map, but for a client that may not be authorized yet: the documented way to map entities before enabling replication
    /// is to insert a filled `ClientEntityMap`
    Premap(usize, u32, u32),
    /// event type, mode (b | x<slot> | d<slot> | ds), sequence number, entity (script id) for SEM / ST
    Ev(String, String, u32, Option<u32>),
    /// set (Some) or clear (None) the `Follows` relationship of an entity
    Rel(u32, Option<u32>),
}

#[derive(Clone, Debug)]
enum Cop {
    Prespawn(u32),
    /// as `Prespawn`, but the entity is spawned WITH the `Replicated` marker (a predicted entity built from the game's bundle)
    PrespawnMarked(u32),
    Despawn(u32),
    /// server entity, insert MA, insert MB: markers go on the client's entity for that server entity (if it has one)
    Mark(Entity, bool, bool),
    /// event type, sequence number, server entity (as real Entity) for CEM / CT
    Ev(String, u32, Option<Entity>),
}

#[derive(Resource, Default)]
struct Table {
    ents: HashMap<u32, Entity>,
    rev: HashMap<Entity, u32>,
}

#[derive(Resource, Default)]
struct PendingSops(Vec<Sop>);
#[derive(Resource, Default)]
struct PendingCops(Vec<Cop>);
#[derive(Resource, Default)]
struct ClientEnts(Vec<Option<Entity>>); // server side: client slot -> ConnectedClient entity
#[derive(Resource, Default)]
struct PreMap(HashMap<(usize, u32), Entity>); // (client slot, prespawn id) -> entity in that client's world (server copy)
#[derive(Resource, Default)]
struct Pre(HashMap<u32, Entity>); // client side: prespawn id -> entity
#[derive(Resource, Default)]
struct ReplicationRan(bool);
#[derive(Resource, Default)]
struct TickEvents(Vec<u32>);

struct Cfg {
    mismatch: Option<usize>,
    rel: bool,
    /// `ChildOf` is replicated (component kind 5): client-side despawns are recursive over the hierarchy
    hier: bool,
    markers: bool,
    mismatch_kind: String,
    /// initial value of `ServerTick` (a long-running server: close to the 2^32 wrap)
    tick0: u32,
    policy: String,
    auth: String,
    track: bool,
    timeout_ms: u64,
    nclients: usize,
}

#[derive(Event, Serialize, Deserialize, Clone, Copy)]
struct ExtraEvent(u32);

fn add_common(app: &mut App, cfg: &Cfg, server_side: bool) {
    let policy = match cfg.policy.as_str() {
        "black" => VisibilityPolicy::Blacklist,
        "white" => VisibilityPolicy::Whitelist,
        _ => VisibilityPolicy::All,
    };
    let auth = match cfg.auth.as_str() {
        "custom" => AuthMethod::Custom,
        "proto" => AuthMethod::ProtocolCheck,
        _ => AuthMethod::None,
    };
    app.add_plugins((
        MinimalPlugins,
        RepliconPlugins
            .build()
            .set(RepliconSharedPlugin { auth_method: auth })
            .set(ServerPlugin {
                tick_policy: TickPolicy::Manual,
                visibility_policy: policy,
                mutations_timeout: Duration::from_millis(cfg.timeout_ms),
            }),
    ));
    app.insert_resource(TimeUpdateStrategy::ManualDuration(Duration::ZERO));
    app.replicate::<A>()
        .replicate::<B>()
        .replicate_once::<O>()
        .replicate::<R>()
        .replicate_periodic::<P>(2);
    if cfg.hier {
        app.replicate::<ChildOf>();
    }
    if cfg.markers {
        use bevy_replicon::shared::replication::command_markers::{AppMarkerExt, MarkerConfig};
        app.register_marker_with::<MA>(MarkerConfig { need_history: true, ..Default::default() })
            .register_marker::<MB>()
            .set_marker_fns::<MA, A>(write_shadow_a, remove_shadow_a)
            .set_marker_fns::<MB, B>(write_shadow_b, remove_shadow_b);
    }
    app.add_server_event::<SE0>(Channel::Ordered)
        .add_server_event::<SEI>(Channel::Ordered)
        .make_event_independent::<SEI>()
        .add_mapped_server_event::<SEM>(Channel::Ordered)
        .add_server_event::<SEU>(Channel::Unreliable)
        .add_server_trigger::<ST>(Channel::Ordered)
        .add_mapped_server_trigger::<STM>(Channel::Ordered)
        .add_client_event::<CE0>(Channel::Ordered)
        .add_mapped_client_event::<CEM>(Channel::Ordered)
        .add_client_trigger::<CT>(Channel::Ordered)
        .add_client_event::<CEV>(Channel::Ordered)
        .add_client_trigger::<CTU>(Channel::Ordered)
        .add_client_event::<CES>(Channel::Ordered)
        .init_resource::<EventLog>();
    if cfg.track {
        app.track_mutate_messages();
    }
    if cfg.rel {
        use bevy_replicon::server::related_entities::SyncRelatedAppExt;
        app.sync_related_entities::<Follows>();
    }
    let _ = server_side;
}

/// A build whose registrations differ at the end (one more client event, bundle rule, prioritised rule or independence
/// mark): a different protocol hash.
fn add_mismatch(app: &mut App, kind: &str) {
    use bevy_replicon::shared::replication::replication_registry::rule_fns::RuleFns;
    match kind {
        "bundle" => {
            app.replicate_bundle::<(A, B)>();
        }
        "priority" => {
            app.replicate_with_priority(7, RuleFns::<A>::default());
        }
        "independent" => {
            app.make_event_independent::<SE0>();
        }
        _ => {
            app.add_client_event::<ExtraEvent>(Channel::Ordered);
        }
    }
}

fn val_of(world: &World, table: &Table, v: &Val) -> u32 {
    let _ = world;
    match v {
        Val::Nat(n) => *n,
        Val::Ref(id) => table.ents.get(id).map(|e| e.index()).unwrap_or(u32::MAX),
    }
}

fn insert_kind(world: &mut World, e: Entity, kind: usize, v: &Val) {
    let target = match v {
        Val::Ref(id) => world.resource::<Table>().ents.get(id).copied(),
        _ => None,
    };
    let n = match v {
        Val::Nat(n) => *n,
        _ => 0,
    };
    let Ok(mut em) = world.get_entity_mut(e) else { return };
    match kind {
        0 => {
            em.insert(A(n));
        }
        1 => {
            em.insert(b_of(n));
        }
        2 => {
            em.insert(O(n));
        }
        3 => {
            if let Some(t) = target {
                em.insert(R(t));
            }
        }
        4 => {
            em.insert(P(n));
        }
        5 => {
            if let Some(t) = target {
                if t != e {
                    em.insert(ChildOf(t));
                }
            }
        }
        _ => {}
    }
}

fn mutate_kind(world: &mut World, e: Entity, kind: usize, v: &Val) {
    let target = match v {
        Val::Ref(id) => world.resource::<Table>().ents.get(id).copied(),
        _ => None,
    };
    let n = match v {
        Val::Nat(n) => *n,
        _ => 0,
    };
    let Ok(mut em) = world.get_entity_mut(e) else { return };
    match kind {
        0 => {
            if let Some(mut c) = em.get_mut::<A>() {
                c.0 = n;
            }
        }
        1 => {
            if let Some(mut c) = em.get_mut::<B>() {
                *c = b_of(n);
            }
        }
        2 => {
            if let Some(mut c) = em.get_mut::<O>() {
                c.0 = n;
            }
        }
        3 => {
            if let (Some(mut c), Some(t)) = (em.get_mut::<R>(), target) {
                c.0 = t;
            }
        }
        4 => {
            if let Some(mut c) = em.get_mut::<P>() {
                c.0 = n;
            }
        }
        5 => {
            if let (true, Some(t)) = (em.contains::<ChildOf>(), target) {
                if t != e {
                    em.insert(ChildOf(t));
                }
            }
        }
        _ => {}
    }
}

fn remove_kind(world: &mut World, e: Entity, kind: usize) {
    let Ok(mut em) = world.get_entity_mut(e) else { return };
    match kind {
        0 => {
            em.remove::<A>();
        }
        1 => {
            em.remove::<B>();
        }
        2 => {
            em.remove::<O>();
        }
        3 => {
            em.remove::<R>();
        }
        4 => {
            em.remove::<P>();
        }
        5 => {
            em.remove::<ChildOf>();
        }
        _ => {}
    }
}

/// Runs in `Update` of the server app: game-level operations happen where game logic would run.
fn apply_sops(world: &mut World) {
    let ops = std::mem::take(&mut world.resource_mut::<PendingSops>().0);
    for op in ops {
        match op {
            Sop::Spawn(id, marker, comps) => {
                if world.resource::<Table>().ents.contains_key(&id) {
                    continue;
                }
                let e = if marker { world.spawn(Replicated).id() } else { world.spawn_empty().id() };
                {
                    let mut t = world.resource_mut::<Table>();
                    t.ents.insert(id, e);
                    t.rev.insert(e, id);
                }
                for (k, v) in &comps {
                    insert_kind(world, e, *k, v);
                }
            }
            Sop::Despawn(id) => {
                let e = world.resource::<Table>().ents.get(&id).copied();
                if let Some(e) = e {
                    if let Ok(em) = world.get_entity_mut(e) {
                        em.despawn();
                    }
                }
            }
            Sop::Insert(id, k, v) => {
                if let Some(e) = world.resource::<Table>().ents.get(&id).copied() {
                    insert_kind(world, e, k, &v);
                }
            }
            Sop::Mutate(id, k, v) => {
                if let Some(e) = world.resource::<Table>().ents.get(&id).copied() {
                    mutate_kind(world, e, k, &v);
                }
            }
            Sop::Remove(id, k) => {
                if let Some(e) = world.resource::<Table>().ents.get(&id).copied() {
                    remove_kind(world, e, k);
                }
            }
            Sop::Mark(id) => {
                if let Some(e) = world.resource::<Table>().ents.get(&id).copied() {
                    if let Ok(mut em) = world.get_entity_mut(e) {
                        if !em.contains::<Replicated>() {
                            em.insert(Replicated);
                        }
                    }
                }
            }
            Sop::Remark(id) => {
                if let Some(e) = world.resource::<Table>().ents.get(&id).copied() {
                    if let Ok(mut em) = world.get_entity_mut(e) {
                        if em.contains::<Replicated>() {
                            em.insert(Replicated);
                        }
                    }
                }
            }
            Sop::Unmark(id) => {
                if let Some(e) = world.resource::<Table>().ents.get(&id).copied() {
                    if let Ok(mut em) = world.get_entity_mut(e) {
                        em.remove::<Replicated>();
                    }
                }
            }
            Sop::Vis(c, id, visible) => {
                let ce = world.resource::<ClientEnts>().0.get(c).copied().flatten();
                let e = world.resource::<Table>().ents.get(&id).copied();
                if let (Some(ce), Some(e)) = (ce, e) {
                    if let Some(mut v) = world.get_mut::<ClientVisibility>(ce) {
                        v.set_visibility(e, visible);
                    }
                }
            }
            Sop::Ev(ty, mode, seq, ent) => {
                let slots = world.resource::<ClientEnts>().0.clone();
                let slot_ent = |s: &str| s.parse::<usize>().ok().and_then(|i| slots.get(i).copied().flatten());
                let mode = match mode.as_str() {
                    "b" => Some(SendMode::Broadcast),
                    "ds" => Some(SendMode::Direct(SERVER)),
                    m if m.starts_with('x') => slot_ent(&m[1..]).map(SendMode::BroadcastExcept),
                    m if m.starts_with('d') => slot_ent(&m[1..]).map(SendMode::Direct),
                    _ => None,
                };
                let target = ent.and_then(|id| world.resource::<Table>().ents.get(&id).copied());
                let Some(mode) = mode else { continue };
                match ty.as_str() {
                    "SE0" => {
                        world.send_event(ToClients { mode, event: SE0(seq) });
                    }
                    "SEI" => {
                        world.send_event(ToClients { mode, event: SEI(seq) });
                    }
                    "SEU" => {
                        world.send_event(ToClients { mode, event: SEU(seq) });
                    }
                    "SEM" => {
                        if let Some(t) = target {
                            world.send_event(ToClients { mode, event: SEM(seq, t) });
                        }
                    }
                    "STM" => {
                        // the payload names script entity 1 (an entity the scenario keeps visible), the target is `ent`
                        let payload = world.resource::<Table>().ents.get(&1).copied();
                        if let (Some(t), Some(p)) = (target, payload) {
                            world.commands().server_trigger_targets(ToClients { mode, event: STM(seq, p) }, t);
                            world.flush();
                        }
                    }
                    "ST" => {
                        if let Some(t) = target {
                            world.commands().server_trigger_targets(ToClients { mode, event: ST(seq) }, t);
                        } else {
                            world.commands().server_trigger(ToClients { mode, event: ST(seq) });
                        }
                        world.flush();
                    }
                    _ => {}
                }
            }
            Sop::Rel(id, target) => {
                let e = world.resource::<Table>().ents.get(&id).copied();
                let t = target.and_then(|t| world.resource::<Table>().ents.get(&t).copied());
                if let Some(e) = e {
                    if world.get_entity(e).is_ok() {
                        match (target, t) {
                            (Some(_), Some(t)) => {
                                if t != e && world.get_entity(t).is_ok() {
                                    world.entity_mut(e).insert(Follows(t));
                                }
                            }
                            (None, _) => {
                                world.entity_mut(e).remove::<Follows>();
                            }
                            _ => {}
                        }
                    }
                }
            }
            Sop::Premap(c, id, pc) => {
                let ce = world.resource::<ClientEnts>().0.get(c).copied().flatten();
                let e = world.resource::<Table>().ents.get(&id).copied();
                let pe = world.resource::<PreMap>().0.get(&(c, pc)).copied();
                if let (Some(ce), Some(e), Some(pe)) = (ce, e, pe) {
                    if world.get::<ClientEntityMap>(ce).is_none() {
                        world.entity_mut(ce).insert(ClientEntityMap::default());
                    }
                    if let Some(mut m) = world.get_mut::<ClientEntityMap>(ce) {
                        m.insert(e, pe);
                    }
                }
            }
            Sop::Map(c, id, pc) => {
                let ce = world.resource::<ClientEnts>().0.get(c).copied().flatten();
                let e = world.resource::<Table>().ents.get(&id).copied();
                let pe = world.resource::<PreMap>().0.get(&(c, pc)).copied();
                if let (Some(ce), Some(e), Some(pe)) = (ce, e, pe) {
                    if let Some(mut m) = world.get_mut::<ClientEntityMap>(ce) {
                        m.insert(e, pe);
                    }
                }
            }
        }
    }
}

fn apply_cops(world: &mut World) {
    let ops = std::mem::take(&mut world.resource_mut::<PendingCops>().0);
    for op in ops {
        match op {
            Cop::Prespawn(pc) => {
                if !world.resource::<Pre>().0.contains_key(&pc) {
                    let e = world.spawn_empty().id();
                    world.resource_mut::<Pre>().0.insert(pc, e);
                }
            }
            Cop::PrespawnMarked(pc) => {
                if !world.resource::<Pre>().0.contains_key(&pc) {
                    let e = world.spawn(Replicated).id();
                    world.resource_mut::<Pre>().0.insert(pc, e);
                }
            }
            Cop::Despawn(pc) => {
                if let Some(e) = world.resource::<Pre>().0.get(&pc).copied() {
                    if let Ok(em) = world.get_entity_mut(e) {
                        em.despawn();
                    }
                }
            }
            Cop::Mark(se, ma, mb) => {
                let local = world.resource::<ServerEntityMap>().to_client().get(&se).copied();
                if let Some(l) = local {
                    if let Ok(mut em) = world.get_entity_mut(l) {
                        // the shadow starts from what the entity holds now, stamped with its confirmed tick
                        let last = em.get::<ConfirmHistory>().map(|h| h.last_tick());
                        if ma {
                            if let (Some(a), Some(t)) = (em.get::<A>().copied(), last) {
                                em.insert(ShadowA(a.0, t));
                            }
                            em.insert(MA);
                        }
                        if mb {
                            if let Some(b) = em.get::<B>().copied() {
                                em.insert(ShadowB(b));
                            }
                            em.insert(MB);
                        }
                    }
                }
            }
            Cop::Ev(ty, seq, server_ent) => {
                // the client's own entity for that server entity; an entity the map does not know otherwise
                let local = server_ent.map(|se| {
                    world
                        .resource::<ServerEntityMap>()
                        .to_client()
                        .get(&se)
                        .copied()
                        .unwrap_or(Entity::from_raw(4_000_000))
                });
                match ty.as_str() {
                    "CE0" => {
                        world.send_event(CE0(seq));
                    }
                    "CEM" => {
                        if let Some(l) = local {
                            world.send_event(CEM(seq, l));
                        }
                    }
                    "CT" => {
                        if let Some(l) = local {
                            world.commands().client_trigger_targets(CT(seq), l);
                        } else {
                            world.commands().client_trigger(CT(seq));
                        }
                        world.flush();
                    }
                    _ => {}
                }
            }
        }
    }
}

#[derive(SystemSet, Debug, Hash, PartialEq, Eq, Clone, Copy)]
struct VerifSet;

/// Mirrors `on_timer(mutations_timeout)` of `cleanup_acks`: the same `Timer`, ticked with the same `Time` every frame
/// (system-level run conditions are evaluated every frame).
#[derive(Resource)]
struct CleanupMirror {
    timer: Timer,
    fired: bool,
}

fn mirror_cleanup_timer(time: Res<Time>, mut m: ResMut<CleanupMirror>) {
    let d = time.delta();
    m.timer.tick(d);
    m.fired = m.timer.just_finished();
}

fn mark_ran(mut ran: ResMut<ReplicationRan>) {
    ran.0 = true;
}

fn collect_tick_events(mut events: EventReader<MutateTickReceived>, mut out: ResMut<TickEvents>) {
    for e in events.read() {
        out.0.push(e.tick.get());
    }
}

struct ClientSlot {
    app: App,
    s2c: Vec<VecDeque<Bytes>>,
    c2s: Vec<VecDeque<Bytes>>,
}

struct Sim {
    known_auth: std::collections::HashSet<usize>,
    lazy_backend: bool,
    cfg: Cfg,
    server: App,
    clients: Vec<ClientSlot>,
    dead: Option<String>,
    track: bool,
}

const NCH: usize = 10;

fn vstr(v: u32) -> String {
    format!("{v}")
}

impl Sim {
    fn new(cfg: Cfg) -> Sim {
        let mut server = App::new();
        add_common(&mut server, &cfg, true);
        server
            .init_resource::<Table>()
            .init_resource::<PendingSops>()
            .init_resource::<ClientEnts>()
            .init_resource::<PreMap>()
            .init_resource::<ReplicationRan>()
            .init_resource::<DisconnectLog>()
            .insert_resource(CleanupMirror { timer: Timer::new(Duration::from_millis(cfg.timeout_ms), TimerMode::Repeating), fired: false })
            .add_systems(PreUpdate, mirror_cleanup_timer)
            .add_systems(Update, (log_server_side, log_server_side_vec, log_disconnect_requests, apply_sops).chain())
            .add_observer(observe_ct)
            .add_observer(observe_ctu)
            // same shape as `send_replication`: the change detection is only evaluated while the server runs
            .configure_sets(
                PostUpdate,
                VerifSet
                    .after(ServerSet::Send)
                    .before(ServerSet::SendPackets)
                    .run_if(server_running),
            )
            .add_systems(
                PostUpdate,
                mark_ran.run_if(resource_changed::<ServerTick>).in_set(VerifSet),
            );
        server.finish();
        server.cleanup();
        server.world_mut().resource_mut::<ClientEnts>().0 = vec![None; cfg.nclients];
        let mut clients = Vec::new();
        for _ in 0..cfg.nclients {
            let mut app = App::new();
            add_common(&mut app, &cfg, false);
            if cfg.mismatch == Some(clients.len()) {
                add_mismatch(&mut app, &cfg.mismatch_kind);
            }
            app.init_resource::<PendingCops>()
                .init_resource::<Pre>()
                .init_resource::<TickEvents>()
                .add_systems(Update, (apply_cops, collect_tick_events, log_client_side))
                .add_observer(observe_st)
                .add_observer(observe_stm);
            app.finish();
            app.cleanup();
            clients.push(ClientSlot {
                app,
                s2c: (0..NCH).map(|_| VecDeque::new()).collect(),
                c2s: (0..NCH).map(|_| VecDeque::new()).collect(),
            });
        }
        let track = cfg.track;
        Sim { lazy_backend: false, known_auth: Default::default(), cfg, server, clients, dead: None, track }
    }

    fn sid(&self, e: Entity) -> String {
        match self.server.world().resource::<Table>().rev.get(&e) {
            Some(id) => format!("{id}"),
            None => "?".into(),
        }
    }

    fn decode_val(&self, kind: usize, data: &mut Bytes) -> Option<String> {
        match kind {
            1 => {
                let n: u32 = postcard_utils::from_buf(data).ok()?;
                let m: u64 = postcard_utils::from_buf(data).ok()?;
                Some(b_str(&B(n, m)))
            }
            0 | 2 | 4 => postcard_utils::from_buf::<u32, _>(data).ok().map(vstr),
            3 | 5 => {
                let bits: u64 = postcard_utils::from_buf(data).ok()?;
                let e = Entity::try_from_bits(bits).ok()?;
                Some(format!("r{}", self.sid(e)))
            }
            _ => None,
        }
    }

    fn decode_update(&self, slot: usize, mut m: Bytes) -> String {
        let premap: HashMap<Entity, u32> = self
            .server
            .world()
            .resource::<PreMap>()
            .0
            .iter()
            .filter(|((c, _), _)| *c == slot)
            .map(|((_, pc), e)| (*e, *pc))
            .collect();
        let mut go = || -> Option<String> {
            let flags: u8 = postcard_utils::from_buf(&mut m).ok()?;
            let tick: u32 = postcard_utils::from_buf(&mut m).ok()?;
            let last = 7 - flags.leading_zeros() as u8;
            let mut maps = Vec::new();
            let mut des = Vec::new();
            let mut rem = Vec::new();
            let mut chg = Vec::new();
            for bit in 0..4u8 {
                if flags & (1 << bit) == 0 {
                    continue;
                }
                let sized = bit != last;
                let mut remaining: Option<usize> =
                    if sized { Some(postcard_utils::from_buf::<usize, _>(&mut m).ok()?) } else { None };
                loop {
                    match remaining {
                        Some(0) => break,
                        Some(ref mut n) => *n -= 1,
                        None => {
                            if !m.has_remaining() {
                                break;
                            }
                        }
                    }
                    match bit {
                        0 => {
                            let s = entity_serde::deserialize_entity(&mut m).ok()?;
                            let c = entity_serde::deserialize_entity(&mut m).ok()?;
                            maps.push((self.sid(s), premap.get(&c).map(|p| format!("p{p}")).unwrap_or("p?".into())));
                        }
                        1 => {
                            let s = entity_serde::deserialize_entity(&mut m).ok()?;
                            des.push(self.sid(s));
                        }
                        2 => {
                            let s = entity_serde::deserialize_entity(&mut m).ok()?;
                            let n: usize = postcard_utils::from_buf(&mut m).ok()?;
                            let mut ks = Vec::new();
                            for _ in 0..n {
                                let k: usize = postcard_utils::from_buf(&mut m).ok()?;
                                ks.push(k);
                            }
                            ks.sort();
                            rem.push((self.sid(s), ks));
                        }
                        _ => {
                            let s = entity_serde::deserialize_entity(&mut m).ok()?;
                            let n: usize = postcard_utils::from_buf(&mut m).ok()?;
                            let mut cs = Vec::new();
                            for _ in 0..n {
                                let k: usize = postcard_utils::from_buf(&mut m).ok()?;
                                let v = self.decode_val(k, &mut m)?;
                                cs.push((k, v));
                            }
                            cs.sort();
                            chg.push((self.sid(s), cs));
                        }
                    }
                }
            }
            let num = |s: &String| s.parse::<u64>().unwrap_or(u64::MAX);
            maps.sort_by_key(|(s, _)| num(s));
            des.sort_by_key(num);
            rem.sort_by_key(|(s, _)| num(s));
            chg.sort_by_key(|(s, _)| num(s));
            Some(format!(
                "t={tick} map={} des={} rem={} chg={}",
                join(maps.iter().map(|(s, c)| format!("{s}>{c}"))),
                join(des.iter().cloned()),
                join(rem.iter().map(|(s, ks)| format!("{s}:{}", ks.iter().map(|k| k.to_string()).collect::<Vec<_>>().join("+")))),
                join(chg.iter().map(|(s, cs)| format!("{s}:{}", cs.iter().map(|(k, v)| format!("{k}={v}")).collect::<Vec<_>>().join("+")))),
            ))
        };
        go().unwrap_or_else(|| "UNDECODABLE".into())
    }

    fn proto(&self) -> bool {
        self.cfg.auth == "proto"
    }

    /// server->client event channels: 2 SE0, 3 SEI, 4 SEM, 5 SEU, 6 ST (one later under the protocol check, where
    /// channel 2 carries the ProtocolMismatch trigger)
    fn decode_sevent(&self, ch: usize, mut m: Bytes) -> String {
        let names = ["SE0", "SEI", "SEM", "SEU", "ST", "STM"];
        if self.proto() && ch == 2 {
            return "PMISMATCH".into();
        }
        let base = if self.proto() { 3 } else { 2 };
        let Some(name) = ch.checked_sub(base).and_then(|i| names.get(i)) else { return format!("ch={ch} {}", hex(&m)) };
        let mut go = || -> Option<String> {
            let tick = if *name == "SEI" { "-".to_string() } else { postcard_utils::from_buf::<u32, _>(&mut m).ok()?.to_string() };
            match *name {
                "SEM" => {
                    let seq: u32 = postcard_utils::from_buf(&mut m).ok()?;
                    let bits: u64 = postcard_utils::from_buf(&mut m).ok()?;
                    let e = Entity::try_from_bits(bits).ok()?;
                    Some(format!("{name} t={tick} {seq}:r{}", self.sid(e)))
                }
                "ST" | "STM" => {
                    let n: usize = postcard_utils::from_buf(&mut m).ok()?;
                    let mut t = None;
                    for _ in 0..n {
                        t = Some(entity_serde::deserialize_entity(&mut m).ok()?);
                    }
                    let seq: u32 = postcard_utils::from_buf(&mut m).ok()?;
                    if *name == "STM" {
                        let _payload: u64 = postcard_utils::from_buf(&mut m).ok()?;
                    }
                    Some(match t {
                        Some(e) => format!("{name} t={tick} {seq}:r{}", self.sid(e)),
                        None => format!("{name} t={tick} {seq}"),
                    })
                }
                _ => {
                    let seq: u32 = postcard_utils::from_buf(&mut m).ok()?;
                    Some(format!("{name} t={tick} {seq}"))
                }
            }
        };
        go().unwrap_or_else(|| "UNDECODABLE".into())
    }

    /// client->server event channels: 1 CE0, 2 CEM, 3 CT
    fn decode_cevent(&self, ch: usize, mut m: Bytes) -> String {
        let names = ["CE0", "CEM", "CT"];
        if self.proto() && ch == 1 {
            return "PHASH".into();
        }
        let base = if self.proto() { 2 } else { 1 };
        let Some(name) = ch.checked_sub(base).and_then(|i| names.get(i)) else { return format!("ch={ch} {}", hex(&m)) };
        let mut go = || -> Option<String> {
            match *name {
                "CEM" => {
                    let seq: u32 = postcard_utils::from_buf(&mut m).ok()?;
                    let bits: u64 = postcard_utils::from_buf(&mut m).ok()?;
                    let e = Entity::try_from_bits(bits).ok()?;
                    Some(format!("{name} {seq}:r{}", self.sid(e)))
                }
                "CT" => {
                    let n: usize = postcard_utils::from_buf(&mut m).ok()?;
                    let mut t = None;
                    for _ in 0..n {
                        t = Some(entity_serde::deserialize_entity(&mut m).ok()?);
                    }
                    let seq: u32 = postcard_utils::from_buf(&mut m).ok()?;
                    Some(match t {
                        Some(e) => format!("{name} {seq}:r{}", self.sid(e)),
                        None => format!("{name} {seq}"),
                    })
                }
                _ => {
                    let seq: u32 = postcard_utils::from_buf(&mut m).ok()?;
                    Some(format!("{name} {seq}"))
                }
            }
        };
        go().unwrap_or_else(|| "UNDECODABLE".into())
    }

    fn decode_mutate(&self, mut m: Bytes) -> String {
        let mut go = || -> Option<String> {
            let upd: u32 = postcard_utils::from_buf(&mut m).ok()?;
            let tick: u32 = postcard_utils::from_buf(&mut m).ok()?;
            let count = if self.track { format!("{}", postcard_utils::from_buf::<usize, _>(&mut m).ok()?) } else { "-".into() };
            let lo = m.try_get_u8().ok()? as u16;
            let hi = m.try_get_u8().ok()? as u16;
            let idx = lo | (hi << 8);
            let mut body = Vec::new();
            while m.has_remaining() {
                let s = entity_serde::deserialize_entity(&mut m).ok()?;
                let size: usize = postcard_utils::from_buf(&mut m).ok()?;
                let mut data = m.split_to(size);
                let mut cs = Vec::new();
                while data.has_remaining() {
                    let k: usize = postcard_utils::from_buf(&mut data).ok()?;
                    let v = self.decode_val(k, &mut data)?;
                    cs.push((k, v));
                }
                cs.sort();
                body.push(format!("{}:{}", self.sid(s), cs.iter().map(|(k, v)| format!("{k}={v}")).collect::<Vec<_>>().join("+")));
            }
            Some(format!("i={idx} u={upd} t={tick} n={count} body={}", join(body.into_iter())))
        };
        go().unwrap_or_else(|| "UNDECODABLE".into())
    }

    fn server_frame(&mut self, tick: bool, dt_ms: u64, out: &mut Vec<String>) {
        self.server.insert_resource(TimeUpdateStrategy::ManualDuration(Duration::from_millis(dt_ms)));
        self.server.world_mut().resource_mut::<ReplicationRan>().0 = false;
        if tick {
            self.server.world_mut().resource_mut::<ServerTick>().increment();
        }
        MAX_ALLOC.store(0, std::sync::atomic::Ordering::Relaxed);
        let r = catch_unwind(AssertUnwindSafe(|| self.server.update()));
        if r.is_err() {
            self.dead = Some("server".into());
            out.push("PANIC server".into());
            return;
        }
        let big = MAX_ALLOC.load(std::sync::atomic::Ordering::Relaxed);
        if big > BIG_ALLOC {
            out.push(format!("bigalloc {big}"));
        }
        let ran = self.server.world().resource::<ReplicationRan>().0;
        let t = self.server.world().resource::<ServerTick>().get();
        out.push(format!("srv tick={t} ran={}", ran as u8));
        if self.server.world().resource::<CleanupMirror>().fired {
            out.push("cleanup-timer".into());
        }
        // drain what the server handed to the backend
        let sent: Vec<(Entity, usize, Bytes)> =
            if self.lazy_backend { Vec::new() } else { self.server.world_mut().resource_mut::<RepliconServer>().drain_sent().collect() };
        let slots = self.server.world().resource::<ClientEnts>().0.clone();
        let mut lines: Vec<(usize, String)> = Vec::new();
        for (ce, ch, msg) in sent {
            let Some(c) = slots.iter().position(|s| *s == Some(ce)) else {
                out.push(format!("orphan-message ch={ch}"));
                continue;
            };
            match ch {
                0 => lines.push((c, format!("upd {c} {}", self.decode_update(c, msg.clone())))),
                1 => lines.push((c, format!("mut {c} {}", self.decode_mutate(msg.clone())))),
                _ => lines.push((c, format!("evt {c} {}", self.decode_sevent(ch, msg.clone())))),
            }
            if ch < NCH {
                self.clients[c].s2c[ch].push_back(msg);
            }
        }
        lines.sort_by_key(|(c, _)| *c); // stable: per client the sending order is kept
        out.extend(lines.into_iter().map(|(_, l)| l));
        {
            let slots = self.server.world().resource::<ClientEnts>().0.clone();
            for (i, s) in slots.iter().enumerate() {
                let authorized = s.is_some_and(|e| self.server.world().get::<AuthorizedClient>(e).is_some());
                if authorized && self.known_auth.insert(i) && self.proto() {
                    out.push(format!("authorized {i}"));
                }
                if !authorized {
                    self.known_auth.remove(&i);
                }
            }
            let reqs = std::mem::take(&mut self.server.world_mut().resource_mut::<DisconnectLog>().0);
            for e in reqs {
                let who = slots.iter().position(|s| *s == Some(e)).map(|i| i.to_string()).unwrap_or("?".into());
                out.push(format!("disconnect-request {who}"));
            }
        }
        let log = std::mem::take(&mut self.server.world_mut().resource_mut::<EventLog>().0);
        if !log.is_empty() {
            let slots = self.server.world().resource::<ClientEnts>().0.clone();
            let items: Vec<String> = log
                .iter()
                .map(|(ty, seq, ent, sender)| {
                    let who = match sender {
                        Some(e) if *e == SERVER => "S".to_string(),
                        Some(e) => slots.iter().position(|s| *s == Some(*e)).map(|i| i.to_string()).unwrap_or("?".into()),
                        None => "-".into(),
                    };
                    match ent {
                        Some(e) if self.sid(*e) == "?" => format!("{ty}:{seq}:r?{}v{}@{who}", e.index(), e.generation()),
                        Some(e) => format!("{ty}:{seq}:r{}@{who}", self.sid(*e)),
                        None => format!("{ty}:{seq}@{who}"),
                    }
                })
                .collect();
            out.push(format!("from {}", items.join(",")));
        }
        if ran {
            for c in 0..self.clients.len() {
                if let Some(v) = self.server_view(c) {
                    out.push(format!("view {c} {v}"));
                }
            }
        }
    }

    /// What the server currently replicates to client slot `c`: visible replicated entities with their replicated components.
    fn server_view(&mut self, c: usize) -> Option<String> {
        let ce = self.server.world().resource::<ClientEnts>().0[c]?;
        let world = self.server.world();
        world.get::<AuthorizedClient>(ce)?;
        let vis = world.get::<ClientVisibility>(ce);
        let table = world.resource::<Table>();
        let mut ids: Vec<(&u32, &Entity)> = table.ents.iter().collect();
        ids.sort();
        let mut items = Vec::new();
        for (id, e) in ids {
            let Ok(er) = world.get_entity(*e) else { continue };
            if !er.contains::<Replicated>() {
                continue;
            }
            if let Some(v) = vis {
                if !v.is_visible(*e) {
                    continue;
                }
            }
            let mut cs = Vec::new();
            if let Some(a) = er.get::<A>() {
                cs.push(format!("0={}", a.0));
            }
            if let Some(a) = er.get::<B>() {
                cs.push(format!("1={}", b_str(a)));
            }
            if let Some(a) = er.get::<O>() {
                cs.push(format!("2={}", a.0));
            }
            if let Some(a) = er.get::<R>() {
                cs.push(format!("3=r{}", table.rev.get(&a.0).map(|i| i.to_string()).unwrap_or("?".into())));
            }
            if let Some(a) = er.get::<P>() {
                cs.push(format!("4={}", a.0));
            }
            if let Some(a) = er.get::<ChildOf>() {
                cs.push(format!("5=r{}", table.rev.get(&a.0).map(|i| i.to_string()).unwrap_or("?".into())));
            }
            items.push(format!("{id}:{}", cs.join("+")));
        }
        Some(join(items.into_iter()))
    }

    fn client_frame(&mut self, c: usize, out: &mut Vec<String>) {
        let r = catch_unwind(AssertUnwindSafe(|| self.clients[c].app.update()));
        if r.is_err() {
            self.dead = Some(format!("client {c}"));
            out.push(format!("PANIC client {c}"));
            return;
        }
        let sent: Vec<(usize, Bytes)> = self.clients[c].app.world_mut().resource_mut::<RepliconClient>().drain_sent().collect();
        for (ch, msg) in sent {
            if ch == 0 {
                let idx: Vec<String> = msg.chunks(2).map(|p| format!("{}", p[0] as u16 | ((*p.get(1).unwrap_or(&0) as u16) << 8))).collect();
                out.push(format!("ack {c} {}", idx.join(",")));
            } else {
                out.push(format!("cevt {c} {}", self.decode_cevent(ch, msg.clone())));
            }
            if ch < NCH {
                self.clients[c].c2s[ch].push_back(msg);
            }
        }
        let ticks = std::mem::take(&mut self.clients[c].app.world_mut().resource_mut::<TickEvents>().0);
        if !ticks.is_empty() {
            out.push(format!("tickrecv {c} {}", ticks.iter().map(|t| t.to_string()).collect::<Vec<_>>().join(",")));
        }
        let log = std::mem::take(&mut self.clients[c].app.world_mut().resource_mut::<EventLog>().0);
        if !log.is_empty() {
            let rev = self.server.world().resource::<Table>().rev.clone();
            let to_server: HashMap<Entity, Entity> =
                self.clients[c].app.world().resource::<ServerEntityMap>().to_server().iter().map(|(c, s)| (*c, *s)).collect();
            let items: Vec<String> = log
                .iter()
                .map(|(ty, seq, ent, _)| match ent {
                    Some(e) => format!(
                        "{ty}:{seq}:r{}",
                        to_server.get(e).and_then(|s| rev.get(s)).map(|i| i.to_string()).unwrap_or("?".into())
                    ),
                    None => format!("{ty}:{seq}"),
                })
                .collect();
            out.push(format!("got {c} {}", items.join(",")));
        }
        out.push(self.client_view(c));
    }

    fn client_view(&mut self, c: usize) -> String {
        let rev = self.server.world().resource::<Table>().rev.clone();
        let world = self.clients[c].app.world_mut();
        let ut = world.resource::<ServerUpdateTick>().get();
        let map = world.resource::<ServerEntityMap>();
        let to_client: Vec<(Entity, Entity)> = map.to_client().iter().map(|(s, c)| (*s, *c)).collect();
        let to_server: HashMap<Entity, Entity> = map.to_server().iter().map(|(c, s)| (*c, *s)).collect();
        let pre: HashMap<Entity, u32> = world.resource::<Pre>().0.iter().map(|(k, v)| (*v, *k)).collect();
        let consistent = to_client.iter().all(|(s, c)| to_server.get(c) == Some(s)) && to_client.len() == to_server.len();
        let sid = |e: &Entity| rev.get(e).map(|i| i.to_string()).unwrap_or("?".into());
        let describe = |world: &World, ce: Entity| -> String {
            let Ok(er) = world.get_entity(ce) else { return "dead".into() };
            let mut cs = Vec::new();
            if let Some(sh) = er.get::<ShadowA>() {
                cs.push(format!("0={}", sh.0));
            } else if let Some(a) = er.get::<A>() {
                cs.push(format!("0={}", a.0));
            }
            if let Some(sh) = er.get::<ShadowB>() {
                cs.push(format!("1={}", b_str(&sh.0)));
            } else if let Some(a) = er.get::<B>() {
                cs.push(format!("1={}", b_str(a)));
            }
            if let Some(a) = er.get::<O>() {
                cs.push(format!("2={}", a.0));
            }
            if let Some(a) = er.get::<R>() {
                cs.push(format!("3=r{}", to_server.get(&a.0).map(|s| sid(s)).unwrap_or("?".into())));
            }
            if let Some(a) = er.get::<P>() {
                cs.push(format!("4={}", a.0));
            }
            if let Some(a) = er.get::<ChildOf>() {
                cs.push(format!("5=r{}", to_server.get(&a.0).map(|s| sid(s)).unwrap_or("?".into())));
            }
            let h = match er.get::<ConfirmHistory>() {
                Some(h) => format!("{}/{:x}", h.last_tick().get(), h.mask()),
                None => "-".into(),
            };
            let p = match pre.get(&ce) {
                Some(p) => format!("p{p}"),
                None => "".into(),
            };
            format!("{p}:m{}:h{h}:{}", er.contains::<Replicated>() as u8, cs.join("+"))
        };
        let mut items: Vec<(u64, String)> = Vec::new();
        for (s, ce) in &to_client {
            let id = rev.get(s).map(|i| *i as u64).unwrap_or(u64::MAX);
            items.push((id, format!("{}{}", sid(s), describe(world, *ce))));
        }
        items.sort();
        // replicated entities that no server entity maps to (zombies)
        let mut extra = Vec::new();
        let mut q = world.query_filtered::<Entity, With<Replicated>>();
        let all: Vec<Entity> = q.iter(world).collect();
        for e in all {
            if !to_server.contains_key(&e) {
                extra.push(describe(world, e));
            }
        }
        extra.sort();
        let mt = match world.get_resource::<ServerMutateTicks>() {
            Some(m) => format!("{}/{:x}", m.last_tick().get(), m.mask()),
            None => "-".into(),
        };
        format!(
            "cli {c} ut={ut} ok={} ents={} extra={} mt={mt}",
            consistent as u8,
            join(items.into_iter().map(|(_, s)| s)),
            join(extra.into_iter())
        )
    }

    fn step(&mut self, line: &str, out: &mut Vec<String>) {
        let t: Vec<&str> = line.split_whitespace().collect();
        if t.is_empty() {
            return;
        }
        if let Some(d) = &self.dead {
            out.push(format!("dead {d}"));
            return;
        }
        match t[0] {
            "start" => {
                if self.cfg.tick0 != 0 && self.server.world().resource::<ServerTick>().get() == 0 {
                    let t0 = self.cfg.tick0;
                    self.server.world_mut().resource_mut::<ServerTick>().increment_by(t0);
                }
                self.server.world_mut().resource_mut::<RepliconServer>().set_running(true)
            }
            "stop" => {
                self.server.world_mut().resource_mut::<RepliconServer>().set_running(false);
                for c in &mut self.clients {
                    for q in c.s2c.iter_mut().chain(c.c2s.iter_mut()) {
                        q.clear();
                    }
                }
            }
            "connect" => {
                let c: usize = t[1].parse().unwrap();
                let max: usize = t[2].parse().unwrap();
                if self.server.world().resource::<ClientEnts>().0[c].is_some() || !self.server.world().resource::<RepliconServer>().is_running() {
                    return;
                }
                let e = self.server.world_mut().spawn(ConnectedClient { max_size: max }).id();
                self.known_auth.remove(&c);
                self.server.world_mut().resource_mut::<ClientEnts>().0[c] = Some(e);
                // `connect c max slow`: the backend reports Connecting for one client frame first (invisible to the model:
                // a frame of a connecting client does nothing observable); only when no client-side operation is pending
                if t.get(3) == Some(&"slow") && self.clients[c].app.world().resource::<PendingCops>().0.is_empty() {
                    self.clients[c].app.world_mut().resource_mut::<RepliconClient>().set_status(RepliconClientStatus::Connecting);
                    if catch_unwind(AssertUnwindSafe(|| self.clients[c].app.update())).is_err() {
                        self.dead = Some(format!("client {c}"));
                        out.push(format!("PANIC client {c}"));
                        return;
                    }
                    let n = self.clients[c].app.world_mut().resource_mut::<RepliconClient>().drain_sent().count();
                    if n != 0 {
                        out.push(format!("sent-while-connecting {c} {n}"));
                    }
                }
                self.clients[c].app.world_mut().resource_mut::<RepliconClient>().set_status(RepliconClientStatus::Connected);
            }
            "reconnect" => {
                // Connected -> Connecting -> Connected without Disconnected; the server sees the old connection go and a new one come
                let c: usize = t[1].parse().unwrap();
                let max: usize = t[2].parse().unwrap();
                if self.server.world().resource::<ClientEnts>().0[c].is_none() || !self.server.world().resource::<RepliconServer>().is_running() {
                    return;
                }
                self.known_auth.remove(&c);
                if let Some(e) = self.server.world_mut().resource_mut::<ClientEnts>().0[c].take() {
                    if let Ok(em) = self.server.world_mut().get_entity_mut(e) {
                        em.despawn();
                    }
                }
                self.clients[c].app.world_mut().resource_mut::<RepliconClient>().set_status(RepliconClientStatus::Connecting);
                let slot = &mut self.clients[c];
                for q in slot.s2c.iter_mut().chain(slot.c2s.iter_mut()) {
                    q.clear();
                }
                let e = self.server.world_mut().spawn(ConnectedClient { max_size: max }).id();
                self.server.world_mut().resource_mut::<ClientEnts>().0[c] = Some(e);
                self.clients[c].app.world_mut().resource_mut::<RepliconClient>().set_status(RepliconClientStatus::Connected);
            }
            "authorize" => {
                let c: usize = t[1].parse().unwrap();
                if let Some(e) = self.server.world().resource::<ClientEnts>().0[c] {
                    if let Ok(mut em) = self.server.world_mut().get_entity_mut(e) {
                        if !em.contains::<AuthorizedClient>() {
                            em.insert(AuthorizedClient);
                        }
                    }
                }
            }
            "disconnect" => {
                let c: usize = t[1].parse().unwrap();
                self.known_auth.remove(&c);
                if let Some(e) = self.server.world_mut().resource_mut::<ClientEnts>().0[c].take() {
                    if let Ok(em) = self.server.world_mut().get_entity_mut(e) {
                        em.despawn();
                    }
                }
                // `disconnect c slow`: the backend first reports Connecting (it retries) for one client frame, then gives up
                // (invisible to the model); only when no client-side operation is pending
                if t.get(2) == Some(&"slow") && self.clients[c].app.world().resource::<PendingCops>().0.is_empty()
                    && self.clients[c].app.world().resource::<RepliconClient>().is_connected()
                {
                    self.clients[c].app.world_mut().resource_mut::<RepliconClient>().set_status(RepliconClientStatus::Connecting);
                    if catch_unwind(AssertUnwindSafe(|| self.clients[c].app.update())).is_err() {
                        self.dead = Some(format!("client {c}"));
                        out.push(format!("PANIC client {c}"));
                        return;
                    }
                    let _ = self.clients[c].app.world_mut().resource_mut::<RepliconClient>().drain_sent().count();
                }
                self.clients[c].app.world_mut().resource_mut::<RepliconClient>().set_status(RepliconClientStatus::Disconnected);
                let slot = &mut self.clients[c];
                for q in slot.s2c.iter_mut().chain(slot.c2s.iter_mut()) {
                    q.clear();
                }
            }
            "sop" => {
                if let Some(op) = parse_sop(&t[1..]) {
                    self.server.world_mut().resource_mut::<PendingSops>().0.push(op);
                }
            }
            "cop" => {
                let c: usize = t[1].parse().unwrap();
                let op = match t[2] {
                    "prespawn" => Cop::Prespawn(t[3].parse().unwrap()),
                    "prespawnr" => Cop::PrespawnMarked(t[3].parse().unwrap()),
                    "despawn" => Cop::Despawn(t[3].parse().unwrap()),
                    "mark" => {
                        let id: u32 = t[3].parse().unwrap();
                        let se = self.server.world().resource::<Table>().ents.get(&id).copied().unwrap_or(Entity::from_raw(4_000_001));
                        Cop::Mark(se, t[4].contains('a'), t[4].contains('b'))
                    }
                    _ => {
                        // cop <c> ev <type> <seq> [r<entity>]
                        let ent = t.get(5).and_then(|s| s.trim_start_matches('r').parse::<u32>().ok());
                        let se = ent.map(|id| {
                            self.server.world().resource::<Table>().ents.get(&id).copied().unwrap_or(Entity::from_raw(4_000_001))
                        });
                        Cop::Ev(t[3].into(), t[4].parse().unwrap(), se)
                    }
                };
                self.clients[c].app.world_mut().resource_mut::<PendingCops>().0.push(op);
            }
            "sframe" => {
                let tick = t[1] == "1";
                let dt: u64 = t.get(2).map(|s| s.parse().unwrap()).unwrap_or(0);
                // `sframe <tick> <dt> nodrain`: the backend does not collect the outgoing messages in this frame (they stay queued
                // in `RepliconServer` and go out with the next collecting frame)
                self.lazy_backend = t.get(3) == Some(&"nodrain");
                self.server_frame(tick, dt, out);
                // the server loses its client entities on reset
                let slots = self.server.world().resource::<ClientEnts>().0.clone();
                for (i, s) in slots.iter().enumerate() {
                    if let Some(e) = s {
                        if self.server.world().get_entity(*e).is_err() {
                            self.server.world_mut().resource_mut::<ClientEnts>().0[i] = None;
                        }
                    }
                }
            }
            "cframe" => {
                let c: usize = t[1].parse().unwrap();
                self.client_frame(c, out);
                // publish prespawned entities so that `sop map` can name them
                let pre: Vec<(u32, Entity)> = self.clients[c].app.world().resource::<Pre>().0.iter().map(|(k, v)| (*k, *v)).collect();
                let mut pm = self.server.world_mut().resource_mut::<PreMap>();
                for (k, v) in pre {
                    pm.0.insert((c, k), v);
                }
            }
            "deliver" | "drop" => {
                let c: usize = t[1].parse().unwrap();
                let dir = t[2];
                let ch: usize = t[3].parse().unwrap();
                let which = t[4];
                let q = if dir == "s2c" { &mut self.clients[c].s2c[ch] } else { &mut self.clients[c].c2s[ch] };
                let mut picked = Vec::new();
                match which {
                    "first" => picked.extend(q.pop_front()),
                    "last" => picked.extend(q.pop_back()),
                    _ => picked.extend(q.drain(..)),
                }
                if t[0] == "deliver" {
                    for m in picked {
                        if dir == "s2c" {
                            self.clients[c].app.world_mut().resource_mut::<RepliconClient>().insert_received(ch, m);
                        } else if let Some(e) = self.server.world().resource::<ClientEnts>().0[c] {
                            self.server.world_mut().resource_mut::<RepliconServer>().insert_received(e, ch, m);
                        }
                    }
                }
            }
            "inject" => {
                // raw bytes from client slot c on a client channel (C06)
                let c: usize = t[1].parse().unwrap();
                let ch: usize = t[2].parse().unwrap();
                if let Some(e) = self.server.world().resource::<ClientEnts>().0[c] {
                    self.server.world_mut().resource_mut::<RepliconServer>().insert_received(e, ch, unhex(t[3]));
                }
            }
            _ => out.push(format!("unknown-step {}", t[0])),
        }
    }
}

fn join(items: impl Iterator<Item = String>) -> String {
    let v: Vec<String> = items.collect();
    if v.is_empty() { "-".into() } else { v.join(";") }
}

fn parse_val(kind: usize, s: &str) -> Val {
    if kind == 3 || kind == 5 { Val::Ref(s.trim_start_matches('r').parse().unwrap()) } else { Val::Nat(s.parse().unwrap()) }
}

fn parse_kv(s: &str) -> (usize, Val) {
    let (k, v) = s.split_once('=').unwrap();
    let k: usize = k.parse().unwrap();
    (k, parse_val(k, v))
}

fn parse_sop(t: &[&str]) -> Option<Sop> {
    Some(match t[0] {
        "spawn" => Sop::Spawn(t[1].parse().ok()?, t[2] == "1", t[3..].iter().map(|s| parse_kv(s)).collect()),
        "despawn" => Sop::Despawn(t[1].parse().ok()?),
        "insert" => {
            let (k, v) = parse_kv(t[2]);
            Sop::Insert(t[1].parse().ok()?, k, v)
        }
        "mutate" => {
            let (k, v) = parse_kv(t[2]);
            Sop::Mutate(t[1].parse().ok()?, k, v)
        }
        "remove" => Sop::Remove(t[1].parse().ok()?, t[2].parse().ok()?),
        "mark" => Sop::Mark(t[1].parse().ok()?),
        "remark" => Sop::Remark(t[1].parse().ok()?),
        "unmark" => Sop::Unmark(t[1].parse().ok()?),
        "vis" => Sop::Vis(t[1].parse().ok()?, t[2].parse().ok()?, t[3] == "1"),
        "map" => Sop::Map(t[1].parse().ok()?, t[2].parse().ok()?, t[3].parse().ok()?),
        "premap" => Sop::Premap(t[1].parse().ok()?, t[2].parse().ok()?, t[3].parse().ok()?),
        "ev" => Sop::Ev(t[1].into(), t[2].into(), t[3].parse().ok()?, t.get(4).and_then(|s| s.trim_start_matches('r').parse().ok())),
        "rel" => Sop::Rel(t[1].parse().ok()?, Some(t[2].parse().ok()?)),
        "unrel" => Sop::Rel(t[1].parse().ok()?, None),
        _ => return None,
    })
}

fn parse_cfg(line: &str) -> Cfg {
    let mut cfg = Cfg { mismatch_kind: "event".into(), mismatch: None, rel: false, hier: false, markers: false, tick0: 0, policy: "all".into(), auth: "none".into(), track: false, timeout_ms: 10_000, nclients: 1 };
    for kv in line.split_whitespace().skip(1) {
        let Some((k, v)) = kv.split_once('=') else { continue };
        match k {
            "policy" => cfg.policy = v.into(),
            "auth" => cfg.auth = v.into(),
            "track" => cfg.track = v == "1",
            "timeout" => cfg.timeout_ms = v.parse().unwrap(),
            "nclients" => cfg.nclients = v.parse().unwrap(),
            "rel" => cfg.rel = v == "1",
            "hier" => cfg.hier = v == "1",
            "markers" => cfg.markers = v == "1",
            "mkind" => cfg.mismatch_kind = v.into(),
            "tick0" => cfg.tick0 = v.parse().unwrap(),
            "mismatch" => cfg.mismatch = v.parse().ok(),
            _ => {}
        }
    }
    cfg
}

fn main() {
    quiet_panics();
    let _ = (KINDS, val_of as fn(&World, &Table, &Val) -> u32);
    let stdin = std::io::stdin();
    let stdout = std::io::stdout();
    let mut o = std::io::BufWriter::new(stdout.lock());
    let mut sim: Option<Sim> = None;
    for line in stdin.lock().lines() {
        let line = line.unwrap();
        let line = line.trim();
        if line.is_empty() || line.starts_with('#') {
            continue;
        }
        let mut out = Vec::new();
        if line.starts_with("cfg") {
            // a new scenario
            sim = Some(Sim::new(parse_cfg(line)));
            writeln!(o, "scenario").unwrap();
        } else if line.starts_with("part") || line.starts_with("authz") {
            // oracle annotation for the model only
            continue;
        } else if let Some(s) = sim.as_mut() {
            s.step(line, &mut out);
        }
        for l in out {
            writeln!(o, "{l}").unwrap();
        }
        writeln!(o, ".").unwrap();
    }
    let _ = sim.map(|s| s.cfg.nclients);
}
