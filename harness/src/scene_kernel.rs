//! Layer 0 kernel for C18: runs the real `bevy_replicon::scene::replicate_into` on a scripted
//! world / rule set / initial scene and prints the resulting scene in a canonical form.
//!
//! Stand-alone module (no dependency on the rest of the harness); include it with
//! `#[path = "../scene_kernel.rs"] mod scene_kernel;` and call `scene_kernel::scene_cmd(&args)`.
//!
//! All numbers are DECIMAL.  Component pool (each holds one `u32`):
//!   K0..K3  reflected with `#[reflect(Component)]`, registered in the type registry  (exportable)
//!   K4      `Reflect` but no `#[reflect(Component)]`, registered                      (skipped)
//!   K5      `#[reflect(Component)]` but NOT registered                                (skipped)
//!
//! `args[0]` rules, `;`-separated, in registration order; `-` = none
//!             `2`        -> `app.replicate::<K2>()`              (kinds 0..5)
//!             `0+1`      -> `app.replicate_bundle::<(K0, K1)>()` (only the bundles of `add_bundle`)
//!             anything else -> the answer is `UNSUPPORTED`
//! `args[1]` world, `;`-separated `id:marked:kind=val+kind=val` (`id:marked:` or `id:marked` = no
//!             components; marked is 0/1); `-` = none.  Entities are spawned in this order.
//! `args[3]` optional `dyn`: the components of scene0 are stored as dynamic reflect values.
//! `args[2]` scene0, `;`-separated `id:kind=val+kind=val` (`id:` = no components); `-` = empty.
//!             An id that is not in the world gets a fresh empty, unmarked world entity.
//!
//! Answer: `<entities> rt=ok|rt=fail`, or `PANIC` if `replicate_into` panicked, or
//! `UNSUPPORTED` / `BAD <why>`.  `<entities>` = the scene entities sorted by script id, each
//! `id:kind=val+kind=val` with the components in the scene's order (`id:` when it has none), joined
//! by `;` (`-` for an empty scene).  `rt` = `DynamicScene::serialize` followed by
//! `SceneDeserializer` (ron) both succeed.
use std::collections::HashMap;
use std::panic::{AssertUnwindSafe, catch_unwind};

use bevy::{
    asset::ron,
    prelude::*,
    reflect::ReflectRef,
    scene::{DynamicEntity, serde::SceneDeserializer},
};
use bevy_replicon::prelude::*;
use serde::{Deserialize, Serialize, de::DeserializeSeed};

#[derive(Component, Reflect, Serialize, Deserialize, Default)]
#[reflect(Component)]
pub struct K0(pub u32);
#[derive(Component, Reflect, Serialize, Deserialize, Default)]
#[reflect(Component)]
pub struct K1(pub u32);
#[derive(Component, Reflect, Serialize, Deserialize, Default)]
#[reflect(Component)]
pub struct K2(pub u32, pub Vec<u32>);
/// K2 also carries a list whose length and contents are derived from the value, so that a stale or merged copy shows up.
pub fn k2(val: u32) -> K2 {
    K2(val, (0..val % 5).map(|i| val.wrapping_add(i)).collect())
}
/// Its reflection type path is NOT its Rust type name (what a game does to keep its scene format stable).
#[derive(Component, Reflect, Serialize, Deserialize, Default)]
#[reflect(Component)]
#[type_path = "game::stats"]
#[type_name = "K3"]
pub struct K3(pub u32);
/// Registered, but without `#[reflect(Component)]`.
#[derive(Component, Reflect, Serialize, Deserialize, Default)]
pub struct K4(pub u32);
/// `#[reflect(Component)]`, but never registered.
#[derive(Component, Reflect, Serialize, Deserialize, Default)]
#[reflect(Component)]
pub struct K5(pub u32);

const KINDS: usize = 6;

fn insert_kind(entity: &mut EntityWorldMut, kind: usize, val: u32) {
    match kind {
        0 => entity.insert(K0(val)),
        1 => entity.insert(K1(val)),
        2 => entity.insert(k2(val)),
        3 => entity.insert(K3(val)),
        4 => entity.insert(K4(val)),
        _ => entity.insert(K5(val)),
    };
}

fn boxed_kind(kind: usize, val: u32) -> Box<dyn PartialReflect> {
    match kind {
        0 => Box::new(K0(val)).into_partial_reflect(),
        1 => Box::new(K1(val)).into_partial_reflect(),
        2 => Box::new(k2(val)).into_partial_reflect(),
        3 => Box::new(K3(val)).into_partial_reflect(),
        4 => Box::new(K4(val)).into_partial_reflect(),
        _ => Box::new(K5(val)).into_partial_reflect(),
    }
}

fn add_single(app: &mut App, kind: usize) {
    match kind {
        0 => app.replicate::<K0>(),
        1 => app.replicate::<K1>(),
        2 => app.replicate::<K2>(),
        3 => app.replicate::<K3>(),
        4 => app.replicate::<K4>(),
        _ => app.replicate::<K5>(),
    };
}

/// The fixed list of supported bundles (component order matters: it is the rule's component order).
fn add_bundle(app: &mut App, kinds: &[usize]) -> bool {
    match kinds {
        [0, 1] => app.replicate_bundle::<(K0, K1)>(),
        [1, 0] => app.replicate_bundle::<(K1, K0)>(),
        [0, 2] => app.replicate_bundle::<(K0, K2)>(),
        [1, 2] => app.replicate_bundle::<(K1, K2)>(),
        [2, 3] => app.replicate_bundle::<(K2, K3)>(),
        [0, 3] => app.replicate_bundle::<(K0, K3)>(),
        [0, 1, 2] => app.replicate_bundle::<(K0, K1, K2)>(),
        [1, 2, 3] => app.replicate_bundle::<(K1, K2, K3)>(),
        _ => return false,
    };
    true
}

fn add_with_priority(app: &mut App, group: &str, p: usize) -> bool {
    use bevy_replicon::shared::replication::replication_registry::rule_fns::RuleFns;
    macro_rules! f { ($t:ty) => { RuleFns::<$t>::default() }; }
    match group {
        "0" => app.replicate_with_priority(p, f!(K0)),
        "1" => app.replicate_with_priority(p, f!(K1)),
        "2" => app.replicate_with_priority(p, f!(K2)),
        "3" => app.replicate_with_priority(p, f!(K3)),
        "4" => app.replicate_with_priority(p, f!(K4)),
        "5" => app.replicate_with_priority(p, f!(K5)),
        "0+1" => app.replicate_with_priority(p, (f!(K0), f!(K1))),
        "1+0" => app.replicate_with_priority(p, (f!(K1), f!(K0))),
        "0+2" => app.replicate_with_priority(p, (f!(K0), f!(K2))),
        "1+2" => app.replicate_with_priority(p, (f!(K1), f!(K2))),
        "2+3" => app.replicate_with_priority(p, (f!(K2), f!(K3))),
        "0+3" => app.replicate_with_priority(p, (f!(K0), f!(K3))),
        "0+1+2" => app.replicate_with_priority(p, (f!(K0), f!(K1), f!(K2))),
        "1+2+3" => app.replicate_with_priority(p, (f!(K1), f!(K2), f!(K3))),
        _ => return false,
    };
    true
}

fn parse_num<T: std::str::FromStr>(s: &str) -> Result<T, String> {
    s.trim().parse::<T>().map_err(|_| format!("number `{s}`"))
}

/// `kind=val+kind=val`, `` or `-` for none.
fn parse_comps(s: &str) -> Result<Vec<(usize, u32)>, String> {
    let s = s.trim();
    if s.is_empty() || s == "-" {
        return Ok(Vec::new());
    }
    s.split('+')
        .map(|kv| {
            let (k, v) = kv.split_once('=').ok_or_else(|| format!("component `{kv}`"))?;
            let k: usize = parse_num(k)?;
            if k >= KINDS {
                return Err(format!("kind `{k}`"));
            }
            Ok((k, parse_num::<u32>(v)?))
        })
        .collect()
}

fn groups(s: &str) -> impl Iterator<Item = &str> {
    let s = s.trim();
    s.split(';').map(str::trim).filter(move |g| !g.is_empty() && s != "-")
}

/// Kind index from the reflected type path (`...::K3` -> 3).
fn kind_of(component: &dyn PartialReflect) -> Option<usize> {
    let path = component.get_represented_type_info()?.type_path();
    let name = path.rsplit("::").next()?;
    let kind: usize = name.strip_prefix('K')?.parse().ok()?;
    (kind < KINDS).then_some(kind)
}

/// The `u32` of a `Kn(u32)` through reflection (works for concrete and dynamic values).
fn value_of(component: &dyn PartialReflect) -> Option<u32> {
    match component.reflect_ref() {
        ReflectRef::TupleStruct(ts) => ts.field(0)?.try_downcast_ref::<u32>().copied(),
        _ => None,
    }
}

/// For K2: the list must be the one derived from the value (`false` = a stale / merged list).
fn list_ok(component: &dyn PartialReflect) -> bool {
    let ReflectRef::TupleStruct(ts) = component.reflect_ref() else { return true };
    let (Some(v), Some(l)) = (ts.field(0).and_then(|f| f.try_downcast_ref::<u32>().copied()), ts.field(1)) else { return true };
    let ReflectRef::List(list) = l.reflect_ref() else { return true };
    let got: Vec<u32> = list.iter().filter_map(|x| x.try_downcast_ref::<u32>().copied()).collect();
    got == k2(v).1
}

fn canonical(scene: &DynamicScene, ids: &HashMap<Entity, u64>) -> String {
    let mut entities: Vec<(u64, &DynamicEntity)> = scene
        .entities
        .iter()
        .map(|e| (ids.get(&e.entity).copied().unwrap_or(u64::MAX), e))
        .collect();
    // Stable: entities with the same script id (only possible if scene0 repeated an id and the
    // export did not run) keep the scene's order.
    entities.sort_by_key(|(id, _)| *id);
    if entities.is_empty() {
        return "-".into();
    }
    entities
        .iter()
        .map(|(id, e)| {
            let comps: Vec<String> = e
                .components
                .iter()
                .map(|c| {
                    let kind = kind_of(c.as_ref()).map_or("?".to_string(), |k| k.to_string());
                    let mut val = value_of(c.as_ref()).map_or("?".to_string(), |v| v.to_string());
                    if !list_ok(c.as_ref()) {
                        val.push_str("!stale-list");
                    }
                    format!("{kind}={val}")
                })
                .collect();
            let id = if *id == u64::MAX { "?".to_string() } else { id.to_string() };
            format!("{id}:{}", comps.join("+"))
        })
        .collect::<Vec<_>>()
        .join(";")
}

fn round_trip(scene: &DynamicScene, registry: &AppTypeRegistry) -> bool {
    catch_unwind(AssertUnwindSafe(|| {
        let registry = registry.read();
        let Ok(serialized) = scene.serialize(&registry) else {
            return false;
        };
        let Ok(mut deserializer) = ron::Deserializer::from_str(&serialized) else {
            return false;
        };
        SceneDeserializer { type_registry: &registry }
            .deserialize(&mut deserializer)
            .is_ok()
    }))
    .unwrap_or(false)
}

fn run(args: &[&str]) -> Result<String, String> {
    let rules = args.first().copied().unwrap_or("-");
    let world_desc = args.get(1).copied().unwrap_or("-");
    let scene_desc = args.get(2).copied().unwrap_or("-");

    let mut app = App::new();
    app.add_plugins((MinimalPlugins, RepliconPlugins))
        .register_type::<K0>()
        .register_type::<K1>()
        .register_type::<K2>()
        .register_type::<K3>()
        .register_type::<K4>();

    for group in groups(rules) {
        // `k+k@P`: registered with the explicit priority P (`replicate_with_priority`)
        let (group, priority) = match group.split_once('@') {
            Some((g, p)) => (g, Some(parse_num::<usize>(p)?)),
            None => (group, None),
        };
        if let Some(p) = priority {
            if !add_with_priority(&mut app, group, p) {
                return Ok("UNSUPPORTED".into());
            }
            continue;
        }
        let kinds: Vec<usize> = group
            .split('+')
            .map(parse_num::<usize>)
            .collect::<Result<_, _>>()
            .map_err(|e| format!("rule `{group}`: {e}"))?;
        match kinds.as_slice() {
            [kind] if *kind < KINDS => add_single(&mut app, *kind),
            bundle => {
                if !add_bundle(&mut app, bundle) {
                    return Ok("UNSUPPORTED".into());
                }
            }
        }
    }
    app.finish();
    app.cleanup();

    let mut entity_of: HashMap<u64, Entity> = HashMap::new();
    let mut id_of: HashMap<Entity, u64> = HashMap::new();
    for desc in groups(world_desc) {
        let mut fields = desc.splitn(3, ':');
        let id: u64 = parse_num(fields.next().unwrap_or(""))?;
        let marked = match fields.next().map(str::trim) {
            Some("1") => true,
            Some("0") => false,
            other => return Err(format!("marked `{other:?}` in `{desc}`")),
        };
        let comps = parse_comps(fields.next().unwrap_or(""))?;
        if entity_of.contains_key(&id) {
            return Err(format!("world id {id} twice"));
        }
        let mut entity = app.world_mut().spawn_empty();
        for (kind, val) in comps {
            insert_kind(&mut entity, kind, val);
        }
        if marked {
            entity.insert(Replicated);
        }
        let entity = entity.id();
        entity_of.insert(id, entity);
        id_of.insert(entity, id);
    }

    let mut scene = DynamicScene::default();
    for desc in groups(scene_desc) {
        let (id, comps) = desc.split_once(':').unwrap_or((desc, ""));
        let id: u64 = parse_num(id)?;
        let entity = match entity_of.get(&id) {
            Some(entity) => *entity,
            None => {
                let entity = app.world_mut().spawn_empty().id();
                entity_of.insert(id, entity);
                id_of.insert(entity, id);
                entity
            }
        };
        // `dyn` as a fourth argument: what the scene already holds is stored in dynamic form (`to_dynamic()`, what a scene
        // assembled by hand or cloned reflectively looks like), not as concrete values
        let dynamic = args.get(3).copied() == Some("dyn");
        let components = parse_comps(comps)?
            .into_iter()
            .map(|(kind, val)| if dynamic { boxed_kind(kind, val).to_dynamic() } else { boxed_kind(kind, val) })
            .collect();
        scene.entities.push(DynamicEntity { entity, components });
    }

    let result = catch_unwind(AssertUnwindSafe(|| {
        bevy_replicon::scene::replicate_into(&mut scene, app.world());
    }));
    if result.is_err() {
        return Ok("PANIC".into());
    }

    let registry = app.world().resource::<AppTypeRegistry>().clone();
    let rt = if round_trip(&scene, &registry) { "ok" } else { "fail" };
    Ok(format!("{} rt={rt}", canonical(&scene, &id_of)))
}

/// `scene <rules> <world> <scene0>`, see the module documentation.
pub fn scene_cmd(args: &[&str]) -> String {
    match run(args) {
        Ok(answer) => answer,
        Err(why) => format!("BAD {why}"),
    }
}
