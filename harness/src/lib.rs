//! Shared helpers for the correspondence harness binaries.
pub fn hex(bytes: &[u8]) -> String {
    if bytes.is_empty() {
        return "-".into();
    }
    bytes.iter().map(|b| format!("{b:02x}")).collect()
}

pub fn unhex(s: &str) -> Vec<u8> {
    if s == "-" {
        return Vec::new();
    }
    (0..s.len() / 2)
        .map(|i| u8::from_str_radix(&s[2 * i..2 * i + 2], 16).unwrap())
        .collect()
}

pub fn num(s: &str) -> u64 {
    u64::from_str_radix(s, 16).unwrap()
}

/// Silences the default panic hook (panics are observations here) and returns a guard-free handle.
pub fn quiet_panics() {
    if std::env::var("VERIF_LOUD_PANICS").is_ok() {
        return;
    }
    std::panic::set_hook(Box::new(|_| {}));
}
