#!/bin/sh
# builds the model driver from the freshly extracted model.ml
set -e
cd "$(dirname "$0")"
ocamlfind ocamlopt -O2 -w -a model.mli model.ml driver.ml -o driver 2>/dev/null || ocamlfind ocamlopt -w -a model.mli model.ml driver.ml -o driver
