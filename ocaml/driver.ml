(* Model-side driver: same line protocol as harness/src/bin/kernels.rs.
   Numbers are hex; conversion to/from the extracted N walks the bit structure only. *)
open Model

let hexval c = match c with
  | '0'..'9' -> Char.code c - 48 | 'a'..'f' -> Char.code c - 87 | 'A'..'F' -> Char.code c - 55
  | _ -> failwith "hex"

(* bits, least significant first *)
let rec pos_of_bits (l : bool list) : positive option = match l with
  | [] -> None
  | b :: r -> (match pos_of_bits r with
      | None -> if b then Some XH else None
      | Some p -> Some (if b then XI p else XO p))

let n_of_hex (s : string) : n =
  let bits = ref [] in
  String.iter (fun c -> let v = hexval c in
    bits := [v land 1 = 1; v land 2 = 2; v land 4 = 4; v land 8 = 8] @ !bits) s;
  match pos_of_bits !bits with None -> N0 | Some p -> Npos p

let rec bits_of_pos p = match p with XH -> [true] | XO p -> false :: bits_of_pos p | XI p -> true :: bits_of_pos p

let hex_of_n (x : n) : string = match x with
  | N0 -> "0"
  | Npos p ->
    let rec go bits acc = match bits with
      | [] -> acc
      | _ ->
        let take k l = let rec t k l a = if k = 0 then (List.rev a, l) else match l with [] -> (List.rev a, []) | x :: r -> t (k-1) r (x :: a) in t k l [] in
        let (d, rest) = take 4 bits in
        let v = List.fold_right (fun b a -> 2 * a + (if b then 1 else 0)) d 0 in
        go rest (String.make 1 "0123456789abcdef".[v] ^ acc) in
    go (bits_of_pos p) ""

let int_of_n x = int_of_string ("0x" ^ hex_of_n x)
let n_of_int i = n_of_hex (Printf.sprintf "%x" i)

let bytes_of_hex s = if s = "-" then [] else
  List.init (String.length s / 2) (fun i -> n_of_hex (String.sub s (2*i) 2))
let hex_of_bytes l = if l = [] then "-" else
  String.concat "" (List.map (fun b -> Printf.sprintf "%02x" (int_of_n b)) l)

let nat_of_int i = let rec go i acc = if i = 0 then acc else go (i-1) (S acc) in go i O
let rec int_of_nat = function O -> 0 | S n -> 1 + int_of_nat n

let handle cmd args = match cmd, args with
  | "ent_dec", [h] -> (match deserialize_entity (bytes_of_hex h) with
      | Ok (e, r) -> Printf.sprintf "OK %s %s %s" (hex_of_n e.e_index) (hex_of_n e.e_gen) (hex_of_bytes r)
      | Err -> "ERR" | Panic -> "PANIC")
  | "ent_enc", [i; g] -> "OK " ^ hex_of_bytes (serialize_entity { e_index = n_of_hex i; e_gen = n_of_hex g })
  | _ -> "UNKNOWN"

let () =
  try while true do
    let line = input_line stdin in
    let toks = List.filter (fun s -> s <> "") (String.split_on_char ' ' line) in
    (match toks with
     | [] -> print_newline ()
     | cmd :: args -> print_endline (handle cmd args))
  done with End_of_file -> ()
