(* Model-side driver: same line protocol as harness/src/bin/kernels.rs.
   Numbers are hex; conversion to/from the extracted N walks the bit structure only. *)
open Model

let hexval c = match c with
  | '0'..'9' -> Char.code c - 48 | 'a'..'f' -> Char.code c - 87 | 'A'..'F' -> Char.code c - 55
  | _ -> failwith "hex"

(* bits, least significant first *)
let rec pos_of_bits (l : bool list) : positive option = match l with
  | [] -> None
  | b :: r -> (match pos_of_bits r with
      | None -> if b then Some XH else None
      | Some p -> Some (if b then XI p else XO p))

let n_of_hex (s : string) : n =
  let bits = ref [] in
  String.iter (fun c -> let v = hexval c in
    bits := [v land 1 = 1; v land 2 = 2; v land 4 = 4; v land 8 = 8] @ !bits) s;
  match pos_of_bits !bits with None -> N0 | Some p -> Npos p

let rec bits_of_pos p = match p with XH -> [true] | XO p -> false :: bits_of_pos p | XI p -> true :: bits_of_pos p

let hex_of_n (x : n) : string = match x with
  | N0 -> "0"
  | Npos p ->
    let rec go bits acc = match bits with
      | [] -> acc
      | _ ->
        let take k l = let rec t k l a = if k = 0 then (List.rev a, l) else match l with [] -> (List.rev a, []) | x :: r -> t (k-1) r (x :: a) in t k l [] in
        let (d, rest) = take 4 bits in
        let v = List.fold_right (fun b a -> 2 * a + (if b then 1 else 0)) d 0 in
        go rest (String.make 1 "0123456789abcdef".[v] ^ acc) in
    go (bits_of_pos p) ""

let int_of_n x = int_of_string ("0x" ^ hex_of_n x)
let n_of_int i = n_of_hex (Printf.sprintf "%x" i)

let bytes_of_hex s = if s = "-" then [] else
  List.init (String.length s / 2) (fun i -> n_of_hex (String.sub s (2*i) 2))
let hex_of_bytes l = if l = [] then "-" else
  String.concat "" (List.map (fun b -> Printf.sprintf "%02x" (int_of_n b)) l)

let nat_of_int i = let rec go i acc = if i = 0 then acc else go (i-1) (S acc) in go i O
let rec int_of_nat = function O -> 0 | S n -> 1 + int_of_nat n

let split_ops s = List.filter (fun o -> o <> "") (String.split_on_char ';' s)
let b01 b = if b then "1" else "0"

let hist_cmd t0 ops =
  let h = ref (hist_new (n_of_hex t0)) in
  let out = ref [] in
  (try List.iter (fun op ->
    match String.split_on_char ':' op with
    | ["c"; t] -> (match hist_confirm !h (n_of_hex t) with
        | Ok h' -> h := h' | _ -> out := "P" :: !out; raise Exit)
    | ["q"; t] -> out := b01 (hist_contains !h (n_of_hex t)) :: !out
    | ["r"; a; b] -> out := (match hist_contains_any !h (n_of_hex a) (n_of_hex b) with
        | Ok r -> b01 r | _ -> "P") :: !out
    | _ -> out := "?" :: !out) (split_ops ops) with Exit -> ());
  Printf.sprintf "%s | %s %s" (String.concat "," (List.rev !out)) (hex_of_n !h.h_mask) (hex_of_n !h.h_last)

let mt_cmd ops =
  let m = ref mt_default in
  let out = ref [] in
  let mask_s m = match mt_mask m with Ok x -> hex_of_n x | _ -> "P" in
  try
    List.iter (fun op ->
      match String.split_on_char ':' op with
      | ["c"; t; c] -> (match mt_confirm !m (n_of_hex t) (n_of_hex c) with
          | Ok (m', b) -> m := m'; out := b01 b :: !out
          | _ -> out := "P" :: !out; raise Exit)
      | ["q"; t] -> out := b01 (mt_contains !m (n_of_hex t)) :: !out
      | ["r"; a; b] -> out := (match mt_contains_any !m (n_of_hex a) (n_of_hex b) with
          | Ok r -> b01 r | _ -> "P") :: !out
      | ["m"] -> out := mask_s !m :: !out
      | _ -> out := "?" :: !out) (split_ops ops);
    Printf.sprintf "%s | %s %s" (String.concat "," (List.rev !out)) (mask_s !m) (hex_of_n !m.mt_last)
  with Exit -> String.concat "," (List.rev !out)

(* "eb:cb,eb:cb" -> list of pairs; "_" -> [] *)
let parse_ents s = if s = "_" || s = "-" then [] else
  List.map (fun e -> match String.split_on_char ':' e with
    | [a; b] -> (n_of_hex a, n_of_hex b) | _ -> failwith "ent") (String.split_on_char ',' s)
let parse_groups s = if s = "_" then [] else List.map parse_ents (String.split_on_char '|' s)

let split_cmd track max related standalone =
  match mutations_split (n_of_hex "1") N0 (parse_groups related) (parse_ents standalone) (track = "1") (n_of_hex max) with
  | Ok ms -> if ms = [] then "NONE" else String.concat ";" (List.map (fun (len, ids) ->
      Printf.sprintf "%s:%s" (hex_of_n len) (String.concat "," (List.map hex_of_n ids))) ms)
  | Err -> "ERR" | Panic -> "PANIC"

let parse_msgs s = if s = "-" || s = "" then [] else
  List.map (fun m -> match String.split_on_char ':' m with
    | [c; p] -> (n_of_hex c, bytes_of_hex p) | _ -> failwith "msg") (String.split_on_char ',' s)
let fmt_msgs ms = if ms = [] then "-" else
  String.concat "," (List.map (fun (c, p) -> Printf.sprintf "%s:%s" (hex_of_n c) (hex_of_bytes p)) ms)

let cond_cmd s =
  match conditioner_batches (List.map parse_msgs (String.split_on_char '/' s)) with
  | Ok ms -> fmt_msgs ms | Err -> "ERR" | Panic -> "PANIC"

(* sender: frame every message (failing ones are reported and skipped, what was written stays written);
   receiver: read until it would block; leftovers stay in the socket for the next round *)
let tcp_cmd s =
  let pending = ref [] in
  let outs = List.map (fun round ->
    let msgs = parse_msgs round in
    let errs = ref [] in
    List.iteri (fun i (c, p) -> match frame c p with
      | Ok bs -> pending := !pending @ bs
      | _ -> errs := Printf.sprintf "E%x" i :: !errs) msgs;
    let ((got, stop), rest) = parse_all false !pending in
    pending := rest;
    let r = fmt_msgs got in
    let errs = List.rev !errs in
    ignore stop;
    if errs = [] then r else r ^ "!" ^ String.concat "!" errs) (String.split_on_char '/' s) in
  String.concat "/" outs

let proto_cmd s =
  let items = List.filter (fun i -> i <> "" && i <> "-") (String.split_on_char ',' s) in
  let items = List.map (fun it -> match String.split_on_char ':' it with
    | [p; prio; _; name] -> ((n_of_hex p, n_of_hex prio), bytes_of_hex name) | _ -> failwith "item") items in
  match protocol_hash_of items with Ok h -> hex_of_n h | Err -> "ERR" | Panic -> "PANIC"

let vis_cmd wl ops =
  let v = ref (vis_new (wl = "1")) in
  let out = ref [] in
  List.iter (fun op -> match String.split_on_char ':' op with
    | ["s"; e; b] -> v := set_visibility !v (n_of_hex e) (b = "1")
    | ["d"; e] -> v := remove_despawned !v (n_of_hex e)
    | ["l"] -> let (v', lost) = drain_lost !v in v := v';
        let lost = List.sort compare (List.map int_of_n lost) in
        out := Printf.sprintf "l[%s]" (String.concat " " (List.map (Printf.sprintf "%x") lost)) :: !out
    | ["u"] -> v := update !v
    | ["q"; e] -> out := hex_of_n (vstate_code (state !v (n_of_hex e))) :: !out
    | ["v"; e] -> out := b01 (is_visible !v (n_of_hex e)) :: !out
    | _ -> out := "?" :: !out) (split_ops ops);
  String.concat "," (List.rev !out)

(* decimal numbers in this command (see harness/src/scene_kernel.rs) *)
let scene_cmd rules world scene0 =
  let ncomps s = if s = "" then [] else List.map (fun kv -> match String.split_on_char '=' kv with
    | [k; v] -> (n_of_int (int_of_string k), n_of_int (int_of_string v)) | _ -> failwith "kv") (String.split_on_char '+' s) in
  (* a rule group is `k+k+k` (default priority = number of components) or `k+k@P` (registered with priority P) *)
  let rule_of g =
    let comps c = List.map (fun k -> n_of_int (int_of_string k)) (String.split_on_char '+' c) in
    match String.split_on_char '@' g with
    | [c; p] -> { r_priority = n_of_int (int_of_string p); r_comps = comps c }
    | _ -> rule_new (comps g) in
  let groups = if rules = "-" then [] else List.map rule_of (String.split_on_char ';' rules) in
  let world = if world = "-" then [] else List.map (fun e -> match String.split_on_char ':' e with
    | [i; m] -> { w_id = n_of_int (int_of_string i); w_marked = (m = "1"); w_comps = [] }
    | [i; m; cs] -> { w_id = n_of_int (int_of_string i); w_marked = (m = "1"); w_comps = ncomps cs }
    | _ -> failwith "went") (String.split_on_char ';' world) in
  let scene0 = if scene0 = "-" then [] else List.map (fun e -> match String.split_on_char ':' e with
    | [i] -> (n_of_int (int_of_string i), [])
    | [i; cs] -> (n_of_int (int_of_string i), ncomps cs)
    | _ -> failwith "sent") (String.split_on_char ';' scene0) in
  match rules_insert_all [] groups with
  | Ok rules ->
    let refl = List.map n_of_int [0; 1; 2; 3] in
    (match replicate_into_res rules refl [] scene0 world with
     | Ok sc ->
       let sc = List.sort (fun (a, _) (b, _) -> compare (int_of_n a) (int_of_n b)) sc in
       let body = if sc = [] then "-" else String.concat ";" (List.map (fun (i, cs) ->
         Printf.sprintf "%d:%s" (int_of_n i) (String.concat "+" (List.map (fun (k, v) -> Printf.sprintf "%d=%d" (int_of_n k) (int_of_n v)) cs))) sc) in
       let rt = List.for_all (fun (_, cs) ->
         let ks = List.map (fun (k, _) -> int_of_n k) cs in
         List.length (List.sort_uniq compare ks) = List.length ks && not (List.mem 5 ks)) sc in
       body ^ (if rt then " rt=ok" else " rt=fail")
     | Err -> "ERR" | Panic -> "PANIC")
  | _ -> "ERR"

let ent_s (e : entity) = Printf.sprintf "%sv%s" (string_of_int (int_of_n e.e_index)) (string_of_int (int_of_n e.e_gen))

let graph_cmd ops qs =
  let ops = List.filter (fun o -> o <> "" && o <> "-" && o <> "q") (String.split_on_char ';' ops) in
  let ops = List.map (fun o -> match String.split_on_char ':' o with
    | ["a"; k; s; t] -> OpAdd (n_of_hex k, n_of_hex s, n_of_hex t)
    | ["r"; k; s; t] -> OpRemove (n_of_hex k, n_of_hex s, n_of_hex t)
    | _ -> OpClear) ops in
  let qs = List.map n_of_hex (String.split_on_char ',' qs) in
  let (idx, count) = graph_run ops qs in
  let seen = ref [] in
  let labels = List.map (fun i -> match i with
    | None -> "-"
    | Some r -> let r = int_of_n r in
      (match List.assoc_opt r !seen with
       | Some p -> string_of_int p
       | None -> let p = List.length !seen in seen := !seen @ [(r, p)]; string_of_int p)) idx in
  Printf.sprintf "%s count=%d" (String.concat "," labels) (int_of_n count)

let handle cmd args = match cmd, args with
  | "graph", [ops; qs] -> graph_cmd ops qs
  | "cev_dec", ["CE0"; h] -> (match decode_ce0 (bytes_of_hex h) with Ok s -> "OK " ^ string_of_int (int_of_n s) | Err -> "ERR" | Panic -> "PANIC")
  | "cev_dec", ["CEM"; h] -> (match decode_cem (bytes_of_hex h) with
      | Ok (s, e) -> Printf.sprintf "OK %d %s" (int_of_n s) (ent_s e) | Err -> "ERR" | Panic -> "PANIC")
  | "cev_dec", ["CT"; h] -> (match decode_ct (bytes_of_hex h) with
      | (Ok (ts, s), allocs) -> Printf.sprintf "OK %d [%s] alloc=%s" (int_of_n s) (String.concat "," (List.map ent_s ts))
          (String.concat "," (List.map (fun a -> string_of_int (int_of_n a)) allocs))
      | (Err, allocs) -> "ERR alloc=" ^ String.concat "," (List.map (fun a -> string_of_int (int_of_n a)) allocs)
      | (Panic, _) -> "PANIC")
  | "ack_dec", [h] -> "OK " ^ String.concat "," (List.map (fun i -> string_of_int (int_of_n i)) (ack_indices (bytes_of_hex h)))
  | "scene", [r; w; s] -> scene_cmd r w s
  | "vis", [wl] -> vis_cmd wl ""
  | "vis", [wl; ops] -> vis_cmd wl ops
  | "cond", [s] -> cond_cmd s
  | "tcp", [s] -> tcp_cmd s
  | "proto", [] -> proto_cmd ""
  | "proto", [s] -> proto_cmd s
  | "can_pack", [a; b; c] -> (match can_pack (n_of_hex a) (n_of_hex b) (n_of_hex c) with Ok b -> b01 b | _ -> "PANIC")
  | "split", [track; max; related; standalone] -> split_cmd track max related standalone
  | "tcmp", [a; b] -> (match tick_cmp (n_of_hex a) (n_of_hex b) with Lt -> "L" | Eq -> "E" | Gt -> "G")
  | "hist", [t0] -> hist_cmd t0 ""
  | "hist", [t0; ops] -> hist_cmd t0 ops
  | "mt", [] -> mt_cmd ""
  | "mt", [ops] -> mt_cmd ops
  | "ent_dec", [h] -> (match deserialize_entity (bytes_of_hex h) with
      | Ok (e, r) -> Printf.sprintf "OK %s %s %s" (hex_of_n e.e_index) (hex_of_n e.e_gen) (hex_of_bytes r)
      | Err -> "ERR" | Panic -> "PANIC")
  | "ent_enc", [i; g] -> "OK " ^ hex_of_bytes (serialize_entity { e_index = n_of_hex i; e_gen = n_of_hex g })
  | _ -> "UNKNOWN"

(* ------------------------------------------------------------------ Layer 1: sim mode *)
let dec x = string_of_int (int_of_n x)
let n_of_dec s = n_of_int (int_of_string s)
let joinl l = if l = [] then "-" else String.concat ";" l

let sval = function VNat n -> dec n | VRef e -> "r" ^ dec e
let scomps cs = String.concat "+" (List.map (fun (k, v) -> dec k ^ "=" ^ sval v) (List.sort (fun (a, _) (b, _) -> compare (int_of_n a) (int_of_n b)) cs))

let print_update slot (u : update_msg) =
  Printf.printf "upd %s t=%s map=%s des=%s rem=%s chg=%s\n" (dec slot) (dec u.u_tick)
    (joinl (List.map (fun (s, pc) -> dec s ^ ">p" ^ dec pc) u.u_maps))
    (joinl (List.map string_of_int (List.sort compare (List.map int_of_n u.u_despawns))))
    (joinl (List.map (fun (e, ks) -> dec e ^ ":" ^ String.concat "+" (List.map string_of_int (List.sort compare (List.map int_of_n ks)))) u.u_removals))
    (joinl (List.map (fun (e, cs) -> dec e ^ ":" ^ scomps cs) u.u_changes))

let print_mutate track slot (m : mutate_msg) =
  Printf.printf "mut %s i=%s u=%s t=%s n=%s body=%s\n" (dec slot) (dec m.m_idx) (dec m.m_upd_tick) (dec m.m_tick)
    (if track then dec m.m_count else "-")
    (joinl (List.map (fun (e, cs) -> dec e ^ ":" ^ scomps cs) m.m_body))

let ent_string with_id (ev : ent_view) =
  if not ev.ev_alive then (if with_id then dec ev.ev_server else "") ^ "dead" else
  let comps = String.concat "+" (List.map (fun (k, ((isref, target), n)) ->
    dec k ^ "=" ^ (if isref then (match target with Some s -> "r" ^ dec s | None -> "r?") else dec n)) ev.ev_comps) in
  Printf.sprintf "%s%s:m%s:h%s:%s" (if with_id then dec ev.ev_server else "")
    (match ev.ev_pre with Some p -> "p" ^ dec p | None -> "")
    (if ev.ev_marker then "1" else "0")
    (match ev.ev_hist with Some (l, m) -> dec l ^ "/" ^ hex_of_n m | None -> "-")
    comps

let print_cview slot (v : cview) =
  Printf.printf "cli %s ut=%s ok=%s ents=%s extra=%s mt=%s\n" (dec slot) (dec v.cv_upd_tick)
    (if v.cv_consistent then "1" else "0")
    (joinl (List.map (ent_string true) v.cv_ents))
    (joinl (List.sort compare (List.map (ent_string false) v.cv_extra)))
    (match v.cv_mticks with Some (l, m) -> dec l ^ "/" ^ hex_of_n m | None -> "-")

let parse_val k s = if k = 3 then VRef (n_of_dec (String.sub s 1 (String.length s - 1))) else VNat (n_of_dec s)
let parse_kv s = match String.split_on_char '=' s with
  | [k; v] -> let k = int_of_string k in (n_of_int k, parse_val k v) | _ -> failwith "kv"

let parse_sop = function
  | "spawn" :: e :: m :: comps -> Some (SSpawn (n_of_dec e, m = "1", List.map parse_kv comps))
  | ["despawn"; e] -> Some (SDespawn (n_of_dec e))
  | ["insert"; e; kv] -> let (k, v) = parse_kv kv in Some (SInsert (n_of_dec e, k, v))
  | ["mutate"; e; kv] -> let (k, v) = parse_kv kv in Some (SMutate (n_of_dec e, k, v))
  | ["remove"; e; k] -> Some (SRemove (n_of_dec e, n_of_dec k))
  | ["mark"; e] -> Some (SMark (n_of_dec e))
  | ["unmark"; e] -> Some (SUnmark (n_of_dec e))
  | ["vis"; c; e; b] -> Some (SVis (n_of_dec c, n_of_dec e, b = "1"))
  | ["map"; c; e; pc] -> Some (SMap (n_of_dec c, n_of_dec e, n_of_dec pc))
  | _ -> None

let parse_which = function "first" -> First | "last" -> Last | _ -> All

let sety_of = function "SE0" -> SE0 | "SEI" -> SEI | "SEM" -> SEM | "SEU" -> SEU | _ -> ST
let cety_of = function "CE0" -> CE0 | "CEM" -> CEM | _ -> CT
let sety_name = function SE0 -> "SE0" | SEI -> "SEI" | SEM -> "SEM" | SEU -> "SEU" | ST -> "ST"
let cety_name = function CE0 -> "CE0" | CEM -> "CEM" | CT -> "CT"
let ent_sfx = function Some e -> ":r" ^ dec e | None -> ""
let parse_ent = function [] -> None | s :: _ -> Some (n_of_dec (String.sub s 1 (String.length s - 1)))

let print_base track o =
  match o with
  | ONone -> ()
  | OSFrame (fo, _) ->
    Printf.printf "srv tick=%s ran=%s\n" (dec fo.fo_tick) (if fo.fo_ran then "1" else "0")
  | OCFrame _ -> ()
  | OPanic -> print_endline "PANIC model"

let sim_main () =
  let sys = ref None in
  let track = ref false in
  let proto = ref false in
  let sops = ref [] and semit = ref [] and cops = Hashtbl.create 4 and cemit = Hashtbl.create 4 and parts = ref [] in
  let cleanup = ref false in
  let dead = ref false in
  let do_step st =
    match !sys with
    | None -> ()
    | Some y ->
      if !dead then print_endline "dead model" else
      (match syse_step y st with
       | Ok (y', eo) ->
         sys := Some y';
         (match eo.eo_base with
          | OSFrame (fo, views) ->
            Printf.printf "srv tick=%s ran=%s\n" (dec fo.fo_tick) (if fo.fo_ran then "1" else "0");
            let slots = List.sort_uniq compare
              (List.map (fun (co : client_out) -> int_of_n co.co_slot) fo.fo_clients @ List.map (fun (s, _) -> int_of_n s) eo.eo_sent) in
            List.iter (fun slot ->
              List.iter (fun (co : client_out) ->
                if int_of_n co.co_slot = slot then begin
                  if co.co_bad_partition then Printf.printf "bad-partition %s\n" (dec co.co_slot);
                  (match co.co_update with Some u -> print_update co.co_slot u | None -> ());
                  List.iter (print_mutate !track co.co_slot) co.co_mutates end) fo.fo_clients;
              List.iter (fun (s, (m : smsg)) ->
                if int_of_n s = slot then
                  Printf.printf "evt %d %s t=%s %s%s\n" slot (sety_name m.sm_ty)
                    (match m.sm_tick with Some t -> dec t | None -> "-") (dec m.sm_seq) (ent_sfx m.sm_ent)) eo.eo_sent) slots;
            if eo.eo_from <> [] then
              Printf.printf "from %s\n" (String.concat "," (List.map (fun (slot, (ev : cev)) ->
                Printf.sprintf "%s:%s%s@%s" (cety_name ev.cev_ty) (dec ev.cev_seq) (ent_sfx ev.cev_ent) (dec slot)) eo.eo_from));
            List.iter (fun (slot, ents) ->
              Printf.printf "view %s %s\n" (dec slot) (joinl (List.map (fun (e, cs) -> dec e ^ ":" ^ scomps cs) ents)))
              (List.sort (fun (a, _) (b, _) -> compare (int_of_n a) (int_of_n b)) views)
          | OCFrame (slot, cfo, v) ->
            if cfo.cfo_acks <> [] then Printf.printf "ack %s %s\n" (dec slot) (String.concat "," (List.map dec cfo.cfo_acks));
            List.iter (fun (ev : cev) -> Printf.printf "cevt %s %s %s%s\n" (dec slot) (cety_name ev.cev_ty) (dec ev.cev_seq) (ent_sfx ev.cev_ent)) eo.eo_csent;
            if cfo.cfo_tick_events <> [] then Printf.printf "tickrecv %s %s\n" (dec slot) (String.concat "," (List.map dec cfo.cfo_tick_events));
            if eo.eo_got <> [] then
              Printf.printf "got %s %s\n" (dec slot) (String.concat "," (List.map (fun ((ty, seq), ent) ->
                Printf.sprintf "%s:%s%s" (sety_name ty) (dec seq) (ent_sfx ent)) eo.eo_got));
            print_cview slot v
          | ONone -> ()
          | OPanic -> print_endline "PANIC model")
       | Err -> dead := true; print_endline "ERR model"
       | Panic -> dead := true; print_endline "PANIC model") in
  ignore print_base;
  (try while true do
    let line = String.trim (input_line stdin) in
    if line = "" || line.[0] = '#' then () else begin
      let t = List.filter (fun s -> s <> "") (String.split_on_char ' ' line) in
      let dot = ref true in
      (match t with
       | "cfg" :: kvs ->
         let get k d = List.fold_left (fun acc kv -> match String.split_on_char '=' kv with
           | [k'; v] when k' = k -> v | _ -> acc) d kvs in
         let policy = (match get "policy" "all" with "black" -> PBlack | "white" -> PWhite | _ -> PAll) in
         let auth = (match get "auth" "none" with "custom" -> AuthCustom | "proto" -> AuthProto | _ -> AuthNone) in
         track := (get "track" "0" = "1");
         proto := (get "auth" "none" = "proto");
         let c = { cfg_policy = policy; cfg_auth = auth; cfg_track = !track; cfg_timeout = n_of_dec (get "timeout" "10000") } in
         sys := Some (syse_init c (n_of_dec (get "nclients" "1")));
         dead := false; sops := []; semit := []; Hashtbl.reset cops; Hashtbl.reset cemit; parts := [];
         print_endline "scenario"
       | ["cleanup"] -> cleanup := true; dot := false      (* oracle input: the repeating timer of cleanup_acks fires in the next server frame *)
       | ["authz"; c] ->
         (* oracle annotation: the implementation authorized this client in the coming server frame (protocol check) *)
         do_step (EBase (StAuthorize (n_of_dec c))); dot := false
       | ["part"; c; spec] ->
         let p = if spec = "-" then [[]] else
           List.map (fun m -> if m = "" then [] else List.map n_of_dec (String.split_on_char ',' m)) (String.split_on_char '|' spec) in
         parts := (n_of_dec c, p) :: !parts; dot := false
       | "sop" :: "ev" :: ty :: mode :: seq :: rest ->
         let m = (match mode with
           | "b" -> ((n_of_int 999, false), false)
           | "ds" -> ((n_of_int 998, false), false)
           | _ when mode.[0] = 'x' -> ((n_of_dec (String.sub mode 1 (String.length mode - 1)), true), false)
           | _ -> ((n_of_dec (String.sub mode 1 (String.length mode - 1)), false), true)) in
         let ty = sety_of ty in
         let ent = parse_ent rest in
         (* SEM without a known entity is not emitted by the harness; the server table is not visible here, the
            generator only names spawned entities *)
         semit := (((ty, m), n_of_dec seq), ent) :: !semit
       | "sop" :: rest -> (match parse_sop rest with Some op -> sops := op :: !sops | None -> ())
       | ["cop"; c; "prespawn"; pc] -> Hashtbl.replace cops c (CPrespawn (n_of_dec pc) :: (try Hashtbl.find cops c with Not_found -> []))
       | ["cop"; c; "despawn"; pc] -> Hashtbl.replace cops c (CDespawn (n_of_dec pc) :: (try Hashtbl.find cops c with Not_found -> []))
       | "cop" :: c :: "ev" :: ty :: seq :: rest ->
         Hashtbl.replace cemit c ({ cev_ty = cety_of ty; cev_seq = n_of_dec seq; cev_ent = parse_ent rest } :: (try Hashtbl.find cemit c with Not_found -> []))
       | "sframe" :: tick :: rest ->
         let dt = (match rest with d :: _ -> n_of_dec d | [] -> N0) in
         let ops = List.rev !sops and ps = List.rev !parts and em = List.rev !semit in
         let cl = !cleanup in
         sops := []; parts := []; semit := []; cleanup := false;
         do_step (ESFrame (tick = "1", dt, cl, ops, ps, em))
       | ["cframe"; c] ->
         let ops = List.rev (try Hashtbl.find cops c with Not_found -> []) in
         let em = List.rev (try Hashtbl.find cemit c with Not_found -> []) in
         Hashtbl.remove cops c; Hashtbl.remove cemit c;
         do_step (ECFrame (n_of_dec c, ops, em))
       | ["start"] -> do_step (EBase StStart)
       | ["stop"] -> do_step (EBase StStop)
       | ["connect"; c; m] -> do_step (EBase (StConnect (n_of_dec c, n_of_dec m)))
       | ["authorize"; c] -> do_step (EBase (StAuthorize (n_of_dec c)))
       | ["disconnect"; c] -> do_step (EBase (StDisconnect (n_of_dec c)))
       | ["reconnect"; c; m] ->
         (* the backend re-establishes the connection without reporting Disconnected: for the model a disconnect immediately
            followed by a connect, with no client frame in between *)
         do_step (EBase (StDisconnect (n_of_dec c))); do_step (EBase (StConnect (n_of_dec c, n_of_dec m)))
       | [("deliver" | "drop") as verb; c; dir; ch; w] ->
         let chn = int_of_string ch in
         let s2c = (dir = "s2c") in
         let soff = if !proto then 3 else 2 and coff = if !proto then 2 else 1 in
         if (!proto && s2c && chn = 2) || (!proto && (not s2c) && chn = 1) then ()   (* handshake channels: outside the model *)
         else if (s2c && chn <= 1) || ((not s2c) && chn = 0) then
           do_step (EBase (if verb = "deliver" then StDeliver (n_of_dec c, s2c, n_of_dec ch, parse_which w)
                           else StDrop (n_of_dec c, s2c, n_of_dec ch, parse_which w)))
         else if s2c then
           do_step (EDeliverS2C (n_of_dec c, List.nth [SE0; SEI; SEM; SEU; ST] (chn - soff), parse_which w, verb = "drop"))
         else do_step (EDeliverC2S (n_of_dec c, List.nth [CE0; CEM; CT] (chn - coff), parse_which w))
       | _ -> print_endline ("unknown-step " ^ List.hd t));
      if !dot then print_endline "."
    end
  done with End_of_file -> ())

(* ------------------------------------------------------------------ C13: local mode *)
let local_main () =
  let app = ref (lapp_init true) in
  let emits = ref [] in
  let lmode_of = function "b" -> LBroadcast | "xs" -> LExceptServer | "ds" -> LDirectServer | "xr" -> LExceptRemote | _ -> LDirectRemote in
  (try while true do
    let line = String.trim (input_line stdin) in
    if line = "" || line.[0] = '#' then () else begin
      let t = List.filter (fun s -> s <> "") (String.split_on_char ' ' line) in
      (match t with
       | ["cfg"; p] -> app := lapp_init (p <> "plugins=noclient"); emits := []; print_endline "scenario"
       | ["server"; x] -> app := fst (lstep_run !app (LServer (x = "start")))
       | ["client"; x] -> app := fst (lstep_run !app (LClient (match x with "connected" -> LConnected | "connecting" -> LConnecting | _ -> LDisconnected)))
       | ["remote"; x] -> app := fst (lstep_run !app (LRemote (x = "connect")))
       | ["emit"; "ce"; s] -> emits := EmitCE (n_of_dec s) :: !emits
       | ["emit"; "ct"; s] -> emits := EmitCT (n_of_dec s) :: !emits
       | ["emit"; "se"; m; s] -> if (m = "xr" || m = "dr") && not !app.la_remote then () else emits := EmitSE (lmode_of m, n_of_dec s) :: !emits
       | ["emit"; "st"; m; s] -> if (m = "xr" || m = "dr") && not !app.la_remote then () else emits := EmitST (lmode_of m, n_of_dec s) :: !emits
       | "frame" :: rest ->
         (* the number of fixed updates of the frame is an oracle annotation: frame <dt> fixed=<n> *)
         let fixed = List.exists (fun s -> String.length s > 6 && String.sub s 0 6 = "fixed=" && s <> "fixed=0") rest in
         let (a', obs) = lstep_run !app (LFrame (fixed, List.rev !emits)) in
         app := a'; emits := [];
         let str = function
           | ObsFromCE s -> "from CE0:" ^ dec s ^ "@S" | ObsFromCT s -> "from CT:" ^ dec s ^ "@S"
           | ObsGotSE s -> "got SE0:" ^ dec s | ObsGotST s -> "got ST:" ^ dec s
           | NetC2S_CE s -> "net-c2s CE0:" ^ dec s | NetC2S_CT s -> "net-c2s CT:" ^ dec s
           | NetS2C_SE s -> "net-s2c SE0:" ^ dec s | NetS2C_ST s -> "net-s2c ST:" ^ dec s in
         let is_net o = match o with NetC2S_CE _ | NetC2S_CT _ | NetS2C_SE _ | NetS2C_ST _ -> true | _ -> false in
         let is_c2s o = match o with NetC2S_CE _ | NetC2S_CT _ -> true | _ -> false in
         List.iter print_endline (List.sort compare (List.map str (List.filter (fun o -> not (is_net o)) obs)));
         List.iter print_endline (List.sort compare (List.map str (List.filter is_c2s obs)));
         List.iter print_endline (List.sort compare (List.map str (List.filter (fun o -> is_net o && not (is_c2s o)) obs)))
       | _ -> print_endline "unknown-step");
      print_endline "."
    end
  done with End_of_file -> ())

let () =
  if Array.length Sys.argv > 1 && Sys.argv.(1) = "sim" then sim_main () else
  if Array.length Sys.argv > 1 && Sys.argv.(1) = "local" then local_main () else
  try while true do
    let line = input_line stdin in
    let toks = List.filter (fun s -> s <> "") (String.split_on_char ' ' line) in
    (match toks with
     | [] -> print_newline ()
     | cmd :: args -> print_endline (handle cmd args))
  done with End_of_file -> ()
