#!/usr/bin/env python3
"""Regenerates /verif/MANIFEST.json from the table below (run by hand after adding a check)."""
import json, os
V = os.path.dirname(os.path.dirname(os.path.abspath(__file__)))
props = [json.loads(l) for l in open(os.path.join(V, "properties.jsonl"))]

CLAIMS = {
 "C15": dict(text="Coq theorems C15_roundtrip / C15_total / C15_decoded_valid over all entities and all byte lists on a hand-written model of entity_serde.rs + postcard varints; the model is tied to the code on every run by running the extracted model and the real functions on the same inputs (boundary classes, all strings up to length 2/3, mutated varints).",
             note="Trusted: Coq kernel, extraction (ExtrOcamlBasic), the harness and generator; bevy Entity bit layout and postcard's varint routines are modelled, not verified (validated by correspondence).",
             tech="Coq proof (induction on varint fuel) + model/implementation correspondence", ref="DESIGN.md 6/C15"),
 "C12": dict(text="Coq refinement theorems: ConfirmHistory and ServerMutateTicks refine a plain set / log of confirmed (unwrapped) ticks for every confirmation sequence within half range, including gaps >= 64 and the 2^32 wrap; tick_cmp equals Z.compare within half range; queries never panic for a <= b. Models tied to the code by correspondence on generated sequences, plus an independent python set-of-ticks oracle on the implementation.",
             note="Debug-build semantics; the comparison threshold constant is re-extracted from the source on every run (Generated/Params.v). End-to-end notification part (MutateTickReceived) is exercised in the sim runs only.",
             tech="Coq proof (bit-level refinement to a set of ticks) + correspondence", ref="DESIGN.md 6/C12"),
 "C10": dict(text="Coq theorems about the packing loop of Mutations::send (partition: no chunk is ever divided, order kept; fits: accounted size <= max_size when every chunk fits; single message when everything fits; emitted length = accounted size) for all chunk lists and sizes; model tied to the code through the verif hook mutations_split on generated inputs. Known finding D20 (tracking reserves 10 bytes for the count) is reported, not suppressed elsewhere.",
             note="The size guarantees are proved for the accounted header; with track_mutate_messages the real header is up to 9 bytes smaller (D20, open). Layer 1 part (subset delivery of a tick's messages, relation graphs) is covered by the sim correspondence when that check is registered.",
             tech="Coq proof (loop invariant over the chunk list) + correspondence through a cfg-gated hook", ref="DESIGN.md 6/C10"),
 "C14": dict(text="Coq theorems: the registration byte stream is injective (sequences differing in order, kind, type, priority or independence feed different inputs), every FNV-1a step is a bijection on 64-bit states and injective in the byte, hence equal-length streams differing in one byte never collide; handshake decision authorizes iff hashes are equal. The model recomputes every real hash bit for bit (correspondence through the ProtocolHasher hook); determinism and all single-step edits are checked on the implementation.",
             note="Global collision-freeness of a 64-bit hash is not provable and is carried as an explicit premise (C14_hash_differs_under_no_collision_assumption). Type names are inputs. add_custom is outside the model.",
             tech="Coq proof (stream parsing injectivity, modular inverse of the FNV prime) + correspondence", ref="DESIGN.md 6/C14"),
 "C17": dict(text="Coq theorems: framing round trip for all message lists (channel < 256, length < 65536), also over several rounds of whole frames; conditioner with (timestamp, sequence) keys returns exactly the inserted messages in insertion order for every batch pattern and is empty after every frame. Tied to the code by running tcp::send_message/read_message over a real loopback socket pair and the LinkConditioner through hooks.",
             note="Partial: OS TCP behaviour and std BinaryHeap's contract are trusted (exercised, not proved); short reads on a non-blocking socket are modelled as a distinct outcome excluded by the property's premise.",
             tech="Coq proof (list lemmas, priority-queue spec) + correspondence over real sockets", ref="DESIGN.md 6/C17"),
 "C08": dict(text="Coq refinement theorems for both policies and every history of set_visibility / despawn / tick operations: the visibility query equals the most recent setting, the per-tick classification hidden/gained/visible equals (current, previous) of the specification, despawn records are produced exactly for entities the client holds that became hidden or were despawned (complete; the only extra records are named), operations on one entity never affect another. The ClientVisibility model is tied to the code through hooks on generated histories; an independent python (current, previous, pending) specification judges the implementation.",
             note="Layer 0 (the state machine and its use by collect_despawns); that no message carries data of a hidden entity is the sim correspondence (message contents compared with the model and scanned against the visible set). Open finding D22: settings made between a marker removal and the next tick are forgotten.",
             tech="Coq proof (invariant relating list/added/removed to (cur, prev)) + correspondence through cfg-gated hooks", ref="DESIGN.md 6/C08"),
 "C18": dict(text="Coq theorems for all worlds, rule lists and initial scenes: the result has exactly one entity per marked entity plus the untouched entities already in the scene; a marked entity carries (the non-exported components it already had) ++ one copy of each reflectable component the replication rules select, with current values; no duplicates arise; export is idempotent; rule insertion keeps priority order; the selection equals what the server replicates. The model is tied to the code by exporting from real Bevy apps (reflected / unreflected / unregistered types, overlapping single and bundle rules) and comparing scenes, plus a RON serialize/deserialize round trip on the implementation.",
             note="Bevy reflection, type registry and scene serialization are exercised, not modelled. A rule on the Replicated marker itself would export it (observation). Hash-map entity order is compared sorted.",
             tech="Coq proof (per-entity export specification, sortedness of rule insertion) + correspondence on real apps", ref="DESIGN.md 6/C18"),
 "C06": dict(text="Coq theorems on byte-exact models of the server's receive paths: the acknowledgement loop terminates and never panics for every byte string, unknown indices and unauthorized senders change nothing, acks touch only the sender's own bookkeeping; trigger/event/entity decoders are total, reserve at most the message length, round-trip, and a malformed message in a batch only drops itself. Tied to the code by whole-app fuzzing: every 1-byte string and the empty message on every client channel, structure-aware and random strings, from an authorized and an unauthorized client; decode verdicts compared with the Coq models, no panic, no allocation above 2 MiB, and the rest of the system behaves exactly as the Layer 1 model predicts for a run without the attacker (the other client still converges).",
             note="User payload types are an abstract total round-tripping codec in the theorems (serde/postcard are trusted, their allocation is watched at run time). Allocator aborts are only observable as a missing observation. The attacker can acknowledge its own in-flight messages (harms only itself).",
             tech="Coq proof (structural induction on byte lists, fuel = length proved sufficient) + whole-app fuzz correspondence", ref="DESIGN.md 6/C06"),
 "C01": dict(text="Executable Coq model of the whole replication protocol (server collectors, acknowledgement bookkeeping, visibility, client application, buffering, entity map, sessions, explicit channels) validated step by step against the real server and client apps on random scripts with arbitrary per-message deliver/hold/drop schedules; convergence after a lossless settle phase is checked on the implementation by an independent oracle. Coq theorems: refutation of the property on the witnesses of the open known findings (D02, D17, D19, D25: the exclusions are necessary and the model contains the defects), positive computed instances, and the ingredient lemmas pinned under C02, C03, C07, C08, C09, C10, C11, C16.",
             note="The universally quantified convergence theorem is NOT proved (stated in Properties/C01.v); the property is decided by correspondence + oracle (bounded exploration), which is why the level note says partial. Open findings D02, D16, D17, D19, D25 are outside the generated stream by construction and reported as KNOWN-FINDING with replayed witnesses.",
             tech="Coq model + vm_compute refutations/instances; model/implementation correspondence on random schedules; convergence oracle", ref="DESIGN.md 6/C01"),
}
ORDER = [p["id"] for p in props]
checks = []
for pid in ORDER:
    if pid not in CLAIMS:
        continue
    c = CLAIMS[pid]
    checks.append({
        "property_id": pid,
        "quick_cmd": "./check %s --tier quick" % pid,
        "thorough_cmd": "./check %s --tier thorough" % pid,
        "evidence_file": "/verif/evidence/%s.json" % pid,
        "replay_cmd_template": "./check %s --replay {path}" % pid,
        "engine": "coq-proof+correspondence",
        "level_claimed": {"category": "proof", "text": c["text"], "design_ref": c["ref"]},
        "level_note": c["note"],
        "technique": c["tech"],
    })
hooks = os.popen("git -C /repo log --format=%h --grep='^verif hooks'").read().split()
m = {
 "version": 1,
 "setup_cmd": "./setup.sh",
 "hooks": {"guard": "cargo feature verif_hooks",
           "enable": "cargo build --features verif_hooks (harness crate /verif/harness enables bevy_replicon/verif_hooks and bevy_replicon_example_backend/verif_hooks)",
           "baseline_off_cmd": "cd /repo && cargo test --workspace --no-fail-fast --offline",
           "source_commits": hooks, "add_only": True},
 "engines": [{"name": "coq-proof+correspondence", "path": "/verif/check", "serves_properties": [c["property_id"] for c in checks],
              "kind_free_text": "Coq 8.16 theorems over hand-written Gallina models; models extracted to OCaml and run against the Rust implementation on generated inputs each run"}],
 "checks": checks,
 "notes": "see DESIGN.md; known findings in known_findings.json",
 "not_applicable": [{"property_id": p, "reason": "check not registered yet in this round (work in progress, see DESIGN.md section 10)"} for p in ORDER if p not in CLAIMS],
}
json.dump(m, open(os.path.join(V, "MANIFEST.json"), "w"), indent=1)
print("claimed:", [c["property_id"] for c in checks])
