"""Re-extracts numeric anchors from /repo's current source into coq/Generated/Params.v.

Every anchor has a committed default (the value at the pinned commit); a missing anchor
never alarms by itself (behaviour decides, through the correspondence check) but is
reported in the evidence under anchors_found."""
import os
import re

ANCHORS = [
    # name, file, regex with one group (decimal / hex / expression handled below), default
    ("tick_half_range", "src/shared/replicon_tick.rs", r"difference\s*>\s*u32::MAX\s*/\s*(\d+)", 2),
    ("flag_mappings", "src/shared/replication/update_message_flags.rs", r"const MAPPINGS\s*=\s*(0b[01_]+|\d+)", 1),
    ("flag_despawns", "src/shared/replication/update_message_flags.rs", r"const DESPAWNS\s*=\s*(0b[01_]+|\d+)", 2),
    ("flag_removals", "src/shared/replication/update_message_flags.rs", r"const REMOVALS\s*=\s*(0b[01_]+|\d+)", 4),
    ("flag_changes", "src/shared/replication/update_message_flags.rs", r"const CHANGES\s*=\s*(0b[01_]+|\d+)", 8),
    # integer widths the models hard-wire (pinned by Lib/ParamsPinned lemmas: a change breaks a proof obligation)
    ("tick_width", "src/shared/replicon_tick.rs", r"pub struct RepliconTick\(u(\d+)\)", 32),
    ("hist_mask_width", "src/client/confirm_history.rs", r"mask:\s*u(\d+)", 64),
    ("mt_window_width", "src/client/server_mutate_ticks.rs", r"VecDeque::from\(\[Default::default\(\);\s*u(\d+)::BITS", 64),
    ("mutate_index_width", "src/shared/replication/mutate_index.rs", r"struct MutateIndex\(.*\bu(\d+)\);", 16),
    ("default_priority_single", "src/shared/replication/replication_rules.rs", r"const DEFAULT_PRIORITY: usize = (\d+);", 1),
    ("cond_sequence_width", "bevy_replicon_example_backend/src/link_conditioner.rs", r"next_sequence:\s*u(\d+)", 64),
    ("tcp_size_width", "bevy_replicon_example_backend/src/tcp.rs", r"let message_size: u(\d+) =", 16),
]


def parse_num(s):
    s = s.replace("_", "")
    if s.startswith("0b"):
        return int(s[2:], 2)
    if s.startswith("0x"):
        return int(s[2:], 16)
    return int(s)


def render(repo):
    found = {}
    lines = ["(* GENERATED on every run by gen/params.py from /repo's working tree. Do not edit. *)",
             "From Coq Require Import NArith.", "Open Scope N_scope.", ""]
    for name, rel, rx, default in ANCHORS:
        val = default
        ok = False
        try:
            src = open(os.path.join(repo, rel)).read()
            m = re.search(rx, src)
            if m:
                val = parse_num(m.group(1))
                ok = True
        except OSError:
            pass
        found[name] = ok
        lines.append("Definition %s : N := %d." % (name, val))
    return "\n".join(lines) + "\n", found
