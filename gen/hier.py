"""Scripts with a replicated `ChildOf` hierarchy (component kind 5).  Implementation-only: the Coq Layer 1 model has no
hierarchy, so these scripts are judged by the implementation-side oracles alone (C01 convergence, C03 structure and map).

Client-side despawns are recursive over the client's copy of the hierarchy (Bevy linked spawn).  The open finding D16 is the
class in which that copy makes the client kill an entity the server still replicates; the generator stays outside it:
  * an entity is despawned / un-replicated / hidden only if it is not `tainted`;
  * an entity becomes tainted (with all its ancestors) when a child is detached or re-parented away from it, unless the
    child itself is despawned in the same tick (composite op `detach-despawn`);
  * un-replicating or hiding is done on entities without children only, or together with the despawn of every child in the
    same tick (composite op `hide-with-children-despawned`)."""
from scripts import settle_lines


def gen_hier(rng, nclients=None, policy=None, length=None):
    nclients = nclients or rng.choice([1, 2])
    policy = policy or rng.choice(["all", "all", "black"])
    length = length or rng.choice([20, 35, 50])
    lines = ["cfg policy=%s auth=none track=%d nclients=%d timeout=10000 hier=1" % (policy, rng.randrange(2), nclients), "start", "sframe 0 10"]
    for c in range(nclients):
        lines.append("connect %d %d" % (c, rng.choice([1200, 1200, 60])))
    ents = {}          # id -> dict(parent, marked, tainted, hidden=set())
    nxt = [1]

    def children(p):
        return [e for e, st in ents.items() if st["parent"] == p]

    def descendants(p):
        out, todo = [], [p]
        while todo:
            x = todo.pop()
            for ch in children(x):
                out.append(ch)
                todo.append(ch)
        return out

    def taint(p):
        while p is not None and p in ents:
            ents[p]["tainted"] = True
            p = ents[p]["parent"]

    def kill(e):
        for d in descendants(e) + [e]:
            ents.pop(d, None)

    def tick():
        lines.append("sframe 1 %d" % rng.choice([0, 16, 16, 30]))

    for _ in range(length):
        r = rng.random()
        alive = sorted(ents)
        if r < 0.22 or not alive:
            e = nxt[0]
            nxt[0] += 1
            par = None
            cands = [p for p in alive if ents[p]["marked"]]
            if cands and rng.random() < 0.65:
                par = rng.choice(cands)
            lines.append("sop spawn %d 1 0=%d%s" % (e, rng.randrange(100), " 5=r%d" % par if par else ""))
            ents[e] = dict(parent=par, marked=True, tainted=False, hidden=set())
        elif r < 0.36:
            e = rng.choice(alive)
            lines.append("sop mutate %d 0=%d" % (e, rng.randrange(100)))
        elif r < 0.44:
            # re-parent (a mutation of ChildOf: travels in an unreliable mutate message) or attach
            e = rng.choice(alive)
            bad = set(descendants(e)) | {e}
            cands = [p for p in alive if p not in bad and ents[p]["marked"] and p != ents[e]["parent"]]
            if cands:
                q = rng.choice(cands)
                old = ents[e]["parent"]
                if old is None:
                    lines.append("sop insert %d 5=r%d" % (e, q))
                else:
                    lines.append("sop mutate %d 5=r%d" % (e, q))
                    taint(old)
                ents[e]["parent"] = q
        elif r < 0.50:
            e = rng.choice(alive)
            if ents[e]["parent"] is not None:
                lines.append("sop remove %d 5" % e)          # detach
                taint(ents[e]["parent"])
                ents[e]["parent"] = None
        elif r < 0.60:
            cands = [e for e in alive if not ents[e]["tainted"] and not any(ents[d]["tainted"] for d in descendants(e))]
            if cands:
                e = rng.choice(cands)
                lines.append("sop despawn %d" % e)            # recursive on the server as well
                kill(e)
        elif r < 0.66:
            # composite: detach a child, despawn the former parent and the child in ONE tick
            cands = [e for e in alive if ents[e]["parent"] is not None and not ents[ents[e]["parent"]]["tainted"]
                     and not any(ents[d]["tainted"] for d in descendants(ents[e]["parent"]))]
            if cands:
                ch = rng.choice(cands)
                p = ents[ch]["parent"]
                lines.append("sop remove %d 5" % ch)
                ents[ch]["parent"] = None
                lines.append("sop despawn %d" % p)
                kill(p)
                if ch in ents:
                    lines.append("sop despawn %d" % ch)
                    kill(ch)
                tick()
        elif r < 0.72 and policy == "black":
            # composite: hide a parent from a client and despawn all its children in ONE tick
            cands = [e for e in alive if not ents[e]["tainted"] and ents[e]["marked"]]
            if cands:
                p = rng.choice(cands)
                c = rng.randrange(nclients)
                lines.append("sop vis %d %d 0" % (c, p))
                ents[p]["hidden"].add(c)
                for ch in children(p):
                    if ch in ents and not any(ents[d]["tainted"] for d in descendants(ch) + [ch]):
                        lines.append("sop despawn %d" % ch)
                        kill(ch)
                if children(p):
                    # a tainted child survived: undo the hide to stay outside the D16 class
                    lines.append("sop vis %d %d 1" % (c, p))
                    ents[p]["hidden"].discard(c)
                tick()
        elif r < 0.76:
            cands = [e for e in alive if not children(e) and not ents[e]["tainted"] and ents[e]["marked"] and ents[e]["parent"] is None]
            if cands:
                e = rng.choice(cands)
                lines.append("sop unmark %d" % e)
                ents[e]["marked"] = False
                ents[e]["tainted"] = True          # keep it simple: never touched again
        elif r < 0.90:
            tick()
        else:
            c = rng.randrange(nclients)
            k = rng.random()
            if k < 0.4:
                lines.append("deliver %d s2c 0 all" % c)
                lines.append("cframe %d" % c)
            elif k < 0.6:
                lines.append("%s %d s2c 1 %s" % (rng.choice(["deliver", "drop"]), c, rng.choice(["first", "last", "all"])))
            elif k < 0.8:
                lines.append("cframe %d" % c)
            else:
                lines.append("deliver %d c2s 0 all" % c)
    tick()
    meta = dict(connected=list(range(nclients)), events=False)
    sf = len(lines)
    return lines + settle_lines(meta), sf
