"""Random script generator for the Layer 1 harness (`sim`) and model (`driver sim`).

A script is a list of step lines (see harness/src/bin/sim.rs).  Every random choice comes from the
`random.Random` passed in, so a (seed, index) pair replays exactly.  The main stream stays outside the
classes of the open known findings (see known_findings.json):
  D19  a client authorized while the server replicates at tick 0  -> the server always runs one frame first
  D02  periodic components                                         -> kind 4 unused unless `periodic=True`
  D17  pre-spawn mapping for an entity already referenced          -> mapped entities are never reference targets
  D22  set_visibility between a marker removal and the next tick   -> no vis ops on an entity with a pending despawn
  D25  a reference target is un-replicated / hidden and comes back -> reference targets are never re-marked and get
       no visibility operations; entities that were un-marked or had visibility operations are never referenced
The generator only produces deliveries the channel contracts allow (updates and acks in order and never
dropped; mutations in any order, droppable)."""

EVERY_TICK_KINDS = [0, 1]


class World:
    """Light bookkeeping so that most operations are valid; it is NOT an oracle."""

    def __init__(self):
        self.next_id = 1
        self.alive = {}       # id -> dict(marker=bool, comps=set)
        self.pending_despawn = set()
        self.mapped = set()
        self.ref_targets = set()
        self.no_ref = set()       # entities that were un-marked or had visibility operations
        self.next_pre = {}
        self.pre_alive = {}   # (c, pc) -> bool
        self.pre_published = set()


S2C_EVENT_CH = {"SE0": 2, "SEI": 3, "SEM": 4, "SEU": 5, "ST": 6}
C2S_EVENT_CH = {"CE0": 1, "CEM": 2, "CT": 3}


def gen_script(rng, nclients=None, policy=None, track=None, auth=None, length=None, periodic=False,
               late_join=True, sessions=False, weights=None, max_size=None, events=False, rel=False, burst=0.0, rel_heavy=False, timeout=None, quiet_tail=0.0, quick_reconnect=0.0):
    w = dict(sop=5.0, sframe=3.0, cframe=2.5, deliver=4.0, drop=0.6, session=0.25 if sessions else 0.0,
             sev=2.0 if events else 0.0, cev=1.2 if events else 0.0, edeliver=3.0 if events else 0.0)
    if weights:
        w.update(weights)
    nclients = nclients or rng.choice([1, 1, 2, 2, 3])
    policy = policy or rng.choice(["all", "all", "black", "white"])
    track = rng.random() < 0.3 if track is None else track
    auth = auth or rng.choice(["none", "none", "custom"])
    proto = auth == "proto"
    mismatch = rng.randrange(nclients) if (proto and nclients > 1 and rng.random() < 0.5) else None
    s2c_ch = {k: v + (1 if proto else 0) for k, v in S2C_EVENT_CH.items()}
    c2s_ch = {k: v + (1 if proto else 0) for k, v in C2S_EVENT_CH.items()}
    length = length or rng.choice([25, 40, 60, 90])
    kinds = [0, 1, 2, 3] + ([4] if periodic else [])
    timeout = timeout or 10000
    lines = ["cfg policy=%s auth=%s track=%d nclients=%d timeout=%d%s%s" % (policy, auth, int(track), nclients, timeout, " rel=1" if rel else "",
                                                                                 (" mismatch=%d mkind=%s" % (mismatch, rng.choice(["event", "bundle", "priority", "independent"]))) if mismatch is not None else ""),
             "start", "sframe 0 10"]
    wd = World()
    seq = [0]
    quick = [False]
    connected = {}            # slot -> dict(authorized)
    stalled = {}              # slot -> remaining steps in which the update channel is held
    running = True

    def connect(c):
        ms = max_size or rng.choice([1200, 1200, 1200, 60, 30, 1])
        lines.append("connect %d %d%s" % (c, ms, " slow" if rng.random() < 0.3 else ""))
        connected[c] = dict(authorized=(auth == "none"))
        if auth == "custom" and rng.random() < 0.8:
            lines.append("authorize %d" % c)
            connected[c]["authorized"] = True
        if proto:
            # the client sends its protocol hash in its first connected frame; the server decides when it arrives.  Game logic may
            # write client events in that very frame, also ones that cannot be sent (an entity the server does not know)
            if events and rng.random() < 0.35:
                seq[0] += 1
                ty_ = rng.choice(["CEM", "CE0", "CT"])
                ent_ = " r%d" % rng.randrange(1, 9) if (ty_ == "CEM" or (ty_ == "CT" and rng.random() < 0.6)) else ""
                lines.append("cop %d ev %s %d%s" % (c, ty_, seq[0], ent_))
            lines.append("cframe %d" % c)
            if rng.random() < 0.8:
                lines.append("deliver %d c2s 1 all" % c)
                if rng.random() < 0.15:
                    # the connection dies right after the hash was handed to the server (before the server's next frame)
                    lines.append("disconnect %d" % c)
                    lines.append("cframe %d" % c)
                    del connected[c]
                    lines.append("sframe 0 10")
                    return
                lines.append("sframe 0 10")
                connected[c]["authorized"] = (c != mismatch)

    first = rng.randrange(nclients)
    connect(first)
    if not late_join:
        for c in range(nclients):
            if c != first:
                connect(c)

    def val(k):
        if k == 3:
            cands = [e for e in wd.alive if e not in wd.mapped and e not in wd.no_ref]
            if not cands:
                return None
            t = rng.choice(cands)
            wd.ref_targets.add(t)
            return "r%d" % t
        return str(rng.randrange(0, 100))

    def sop():
        ents = list(wd.alive)
        r = rng.random()
        if not ents or r < 0.22:
            e = wd.next_id
            wd.next_id += 1
            marker = rng.random() < 0.85
            comps = {}
            for k in rng.sample(kinds, rng.choice([0, 1, 1, 2, 2, 3])):
                v = val(k)
                if v is not None:
                    comps[k] = v
            wd.alive[e] = dict(marker=marker, comps=set(comps))
            lines.append("sop spawn %d %d %s" % (e, int(marker), " ".join("%d=%s" % kv for kv in sorted(comps.items()))))
            # pre-spawn mapping in the window of the spawn (C16)
            if marker and rng.random() < 0.12:
                cs = [c for c in connected if connected[c]["authorized"] and any(k[0] == c for k in wd.pre_published if wd.pre_alive.get(k, False) or True)]
                cands = [k for k in wd.pre_published if k[0] in connected and connected[k[0]]["authorized"] and k not in wd.used_pre]
                if cands:
                    c, pc = rng.choice(cands)
                    wd.used_pre.add((c, pc))
                    wd.mapped.add(e)
                    lines.append("sop map %d %d %d" % (c, e, pc))
            return
        e = rng.choice(ents)
        st = wd.alive[e]
        if rel and rng.random() < (0.4 if rel_heavy else 0.15):
            # relationship registered for synchronized replication: set / replace / clear
            k_ = rng.random()
            if k_ < 0.12 and st["marker"]:
                lines.append("sop remark %d" % e)       # the marker inserted again on an entity that already has it: no effect on replication
            elif k_ < 0.78 and len(ents) > 1:
                t = rng.choice([x for x in ents if x != e])
                lines.append("sop rel %d %d" % (e, t))
            else:
                lines.append("sop unrel %d" % e)
            return
        if r < 0.50:
            ks = [k for k in st["comps"] if k != 3 or True]
            if ks:
                k = rng.choice(ks)
                v = val(k)
                if v is not None:
                    lines.append("sop mutate %d %d=%s" % (e, k, v))
                    return
        if r < 0.62:
            k = rng.choice(kinds)
            v = val(k)
            if v is not None:
                st["comps"].add(k)
                lines.append("sop insert %d %d=%s" % (e, k, v))
                return
        if r < 0.72:
            if st["comps"]:
                k = rng.choice(sorted(st["comps"]))
                st["comps"].discard(k)
                lines.append("sop remove %d %d" % (e, k))
                return
        if r < 0.80:
            del wd.alive[e]
            if st["marker"]:
                wd.pending_despawn.add(e)
            lines.append("sop despawn %d" % e)
            return
        if r < 0.86:
            if st["marker"]:
                st["marker"] = False
                wd.pending_despawn.add(e)
                wd.no_ref.add(e)
                lines.append("sop unmark %d" % e)
            elif e not in wd.pending_despawn and e not in wd.ref_targets:
                st["marker"] = True
                lines.append("sop mark %d" % e)
            return
        if policy != "all" and connected:
            c = rng.choice(sorted(connected))
            cands = [x for x in wd.alive if x not in wd.pending_despawn and x not in wd.ref_targets]
            if cands:
                x = rng.choice(cands)
                wd.no_ref.add(x)
                lines.append("sop vis %d %d %d" % (c, x, rng.randrange(2)))
                if rng.random() < 0.3:
                    lines.append("sop vis %d %d %d" % (c, x, rng.randrange(2)))
                return
        # fallback: a mutation burst on one entity
        if st["comps"]:
            k = rng.choice(sorted(st["comps"]))
            v = val(k)
            if v is not None:
                lines.append("sop mutate %d %d=%s" % (e, k, v))

    wd.used_pre = set()
    for _ in range(length):
        choices = [("sop", w["sop"]), ("sframe", w["sframe"]), ("cframe", w["cframe"]), ("deliver", w["deliver"]), ("drop", w["drop"]), ("session", w["session"]),
                   ("sev", w["sev"]), ("cev", w["cev"]), ("edeliver", w["edeliver"])]
        total = sum(x for _, x in choices)
        r = rng.random() * total
        kind = None
        for name, x in choices:
            if r < x:
                kind = name
                break
            r -= x
        if burst and running and connected and rng.random() < burst:
            # several entities mutated inside one tick window, the tick's mutate messages delivered only partly,
            # acknowledgements flowing back, then further ticks: exercises per-message bookkeeping
            cands = [e for e, st in wd.alive.items() if st["marker"] and (st["comps"] & {0, 1})]
            if len(cands) >= 2:
                for e in rng.sample(cands, min(len(cands), rng.choice([2, 3, 4]))):
                    k = rng.choice(sorted(wd.alive[e]["comps"] & {0, 1}))
                    lines.append("sop mutate %d %d=%d" % (e, k, rng.randrange(100, 200)))
                lines.append("sframe 1 16")
                wd.pending_despawn.clear()
                for c in sorted(connected):
                    if rng.random() < 0.8:
                        lines.append("deliver %d s2c 0 all" % c)
                    for _ in range(rng.choice([1, 1, 2])):
                        lines.append("%s %d s2c 1 %s" % (rng.choice(["deliver", "deliver", "drop"]), c, rng.choice(["first", "last"])))
                    if rng.random() < 0.5:
                        lines.append("drop %d s2c 1 all" % c)
                    lines.append("cframe %d" % c)
                    lines.append("deliver %d c2s 0 all" % c)
                lines.append("sframe 1 16")
                continue
        if kind == "sev" and running:
            ty = rng.choice(["SE0", "SE0", "SEI", "SEM", "SEU", "ST"])
            modes = ["b", "b", "ds"] + ["x%d" % c for c in connected] + ["d%d" % c for c in connected]
            mode = rng.choice(modes)
            seq[0] += 1
            ent = ""
            spawned = list(range(1, wd.next_id))
            if ty == "SEM":
                if not spawned:
                    continue
                ent = " r%d" % rng.choice(spawned)
            elif ty == "ST" and spawned and rng.random() < 0.7:
                ent = " r%d" % rng.choice(spawned)
            lines.append("sop ev %s %s %d%s" % (ty, mode, seq[0], ent))
        elif kind == "cev" and connected:
            c = rng.choice(sorted(connected))
            ty = rng.choice(["CE0", "CE0", "CEM", "CT"])
            seq[0] += 1
            ent = ""
            spawned = list(range(1, wd.next_id))
            if ty == "CEM":
                if not spawned:
                    continue
                ent = " r%d" % rng.choice(spawned)
            elif ty == "CT" and spawned and rng.random() < 0.7:
                ent = " r%d" % rng.choice(spawned)
            lines.append("cop %d ev %s %d%s" % (c, ty, seq[0], ent))
            lines.append("cframe %d" % c)
        elif kind == "edeliver" and connected:
            c = rng.choice(sorted(connected))
            if rng.random() < 0.7:
                ty = rng.choice(list(s2c_ch))
                ch = s2c_ch[ty]
                if ty == "SEU":
                    lines.append("%s %d s2c %d %s" % (rng.choice(["deliver", "deliver", "drop"]), c, ch, rng.choice(["first", "last", "all"])))
                else:
                    lines.append("deliver %d s2c %d %s" % (c, ch, rng.choice(["first", "all", "all"])))
            else:
                if proto and rng.random() < 0.3:
                    lines.append("deliver %d c2s 1 all" % c)         # a late protocol hash
                    connected[c]["authorized"] = connected[c]["authorized"] or (c != mismatch)
                    continue
                ty = rng.choice(list(c2s_ch))
                lines.append("deliver %d c2s %d %s" % (c, c2s_ch[ty], rng.choice(["first", "all", "all"])))
        elif kind == "sop" and running:
            sop()
        elif kind == "sframe":
            tick = rng.random() < 0.45
            lines.append("sframe %d %d" % (int(tick), rng.choice([0, 5, 16, 16, 50])))
            if tick and running:
                wd.pending_despawn.clear()
            for c in list(stalled):
                stalled[c] -= 1
                if stalled[c] <= 0:
                    del stalled[c]
        elif kind == "cframe" and connected:
            c = rng.choice(sorted(connected))
            if rng.random() < 0.15:
                pc = wd.next_pre.get(c, 0)
                wd.next_pre[c] = pc + 1
                wd.pre_alive[(c, pc)] = True
                lines.append("cop %d prespawn %d" % (c, pc))
                wd.pre_published.add((c, pc))      # published by the cframe below
            elif rng.random() < 0.04 and any(k[0] == c and k not in wd.used_pre for k in wd.pre_alive):
                # the client's own logic drops a pre-spawned entity the server has not adopted (yet): a later mapping
                # for it must fall back to a fresh entity (C16).  Despawning an entity that already is replicated is
                # client-side misuse and outside every property.
                pc = rng.choice([k[1] for k in wd.pre_alive if k[0] == c and k not in wd.used_pre])
                wd.pre_alive[(c, pc)] = False
                lines.append("cop %d despawn %d" % (c, pc))
            lines.append("cframe %d" % c)
        elif kind == "deliver" and connected:
            c = rng.choice(sorted(connected))
            r2 = rng.random()
            if r2 < 0.35:
                if c in stalled:
                    continue
                if rng.random() < 0.08:
                    stalled[c] = rng.randrange(3, 12)       # hold the update channel while mutations and acks flow
                    continue
                lines.append("deliver %d s2c 0 %s" % (c, rng.choice(["first", "all", "all"])))
            elif r2 < 0.7:
                lines.append("deliver %d s2c 1 %s" % (c, rng.choice(["first", "last", "all", "all"])))
            else:
                lines.append("deliver %d c2s 0 %s" % (c, rng.choice(["first", "all", "all"])))
        elif kind == "drop" and connected:
            c = rng.choice(sorted(connected))
            lines.append("drop %d s2c 1 %s" % (c, rng.choice(["first", "last", "all"])))
        elif kind == "session":
            r2 = rng.random()
            free = [c for c in range(nclients) if c not in connected]
            if r2 < 0.45 and free and running:
                connect(rng.choice(free))
            elif r2 < 0.8 and connected and quick_reconnect and auth == "none" and rng.random() < quick_reconnect:
                # the backend re-establishes the connection without ever reporting Disconnected (Connected -> Connecting ->
                # Connected): outside C09's premise (the client never notices), so such scripts are judged by the
                # model/implementation correspondence only
                c = rng.choice(sorted(connected))
                lines.append("reconnect %d %d" % (c, rng.choice([1200, 1200, 60])))
                quick[0] = True
                stalled.pop(c, None)
            elif r2 < 0.8 and connected:
                c = rng.choice(sorted(connected))
                lines.append("disconnect %d%s" % (c, " slow" if rng.random() < 0.3 else ""))
                lines.append("cframe %d" % c)            # the client notices the disconnect before any reconnect
                del connected[c]
                stalled.pop(c, None)
            elif sessions and running and rng.random() < 0.5:
                lines.append("stop")
                for c in sorted(connected):
                    lines.append("disconnect %d" % c)
                    lines.append("cframe %d" % c)
                connected.clear()
                stalled.clear()
                lines.append("sframe 0 10")
                lines.append("start")
                lines.append("sframe 0 10")
                wd.pending_despawn.clear()
        # late joiners
        if late_join and running and len(connected) < nclients and rng.random() < 0.04:
            free = [c for c in range(nclients) if c not in connected]
            connect(rng.choice(free))
    if quiet_tail and running and connected and rng.random() < quiet_tail:
        # the session ends with rounds of multi-entity mutations whose mutate messages are delivered only in part and in a
        # different order, acknowledgements flowing back, and then NOTHING changes any more: what was lost must still be re-sent
        cands = [e for e, st in wd.alive.items() if st["marker"] and (st["comps"] & {0, 1})]
        if len(cands) >= 2:
            for rnd in range(rng.choice([2, 3, 4])):
                for e in rng.sample(cands, min(len(cands), rng.choice([2, 3, 4]))):
                    k = rng.choice(sorted(wd.alive[e]["comps"] & {0, 1}))
                    lines.append("sop mutate %d %d=%d" % (e, k, rng.randrange(200, 300)))
                lines.append("sframe 1 %d" % rng.choice([16, 16, 30, 50]))
                for c in sorted(connected):
                    lines.append("deliver %d s2c 0 all" % c)
                    last_round = rnd >= 1 and rng.random() < 0.6
                    for _ in range(rng.choice([1, 1, 2])):
                        lines.append("%s %d s2c 1 %s" % (rng.choice(["deliver", "drop"]) if last_round else "deliver", c, rng.choice(["first", "last"])))
                        if rng.random() < 0.5:
                            lines.append("cframe %d" % c)
                    if last_round:
                        lines.append("drop %d s2c 1 all" % c)
                    elif rng.random() < 0.7:
                        lines.append("deliver %d s2c 1 all" % c)
                    lines.append("cframe %d" % c)
                    if rng.random() < 0.85:
                        lines.append("deliver %d c2s 0 all" % c)
            for _ in range(rng.randrange(1, 4)):
                lines.append("sframe 1 %d" % rng.choice([16, 30, 50]))
                for c in sorted(connected):
                    if rng.random() < 0.5:
                        lines.append("deliver %d c2s 0 all" % c)
    return lines, dict(props=(set() if quick[0] else None), nclients=nclients, policy=policy, track=track, auth=auth, events=events, proto=proto, mismatch=mismatch, connected=sorted(connected),
                       authorized=sorted(c for c in connected if connected[c]["authorized"]))


def settle_lines(meta, rounds=3):
    """A lossless phase: nothing changes any more, everything in flight is delivered, acks flow back."""
    out = []
    for _ in range(rounds):
        out.append("sframe 1 16")
        for c in meta["connected"]:
            out.append("deliver %d s2c 0 all" % c)
            out.append("deliver %d s2c 1 all" % c)
            off = 1 if meta.get("proto") else 0
            if meta.get("proto"):
                out.append("deliver %d s2c 2 all" % c)
            if meta.get("events"):
                for ch in sorted(S2C_EVENT_CH.values()):
                    out.append("deliver %d s2c %d all" % (c, ch + off))
            out.append("cframe %d" % c)
            out.append("deliver %d c2s 0 all" % c)
            if meta.get("proto"):
                out.append("deliver %d c2s 1 all" % c)
            if meta.get("events"):
                for ch in sorted(C2S_EVENT_CH.values()):
                    out.append("deliver %d c2s %d all" % (c, ch + off))
    out.append("sframe 1 16")        # quiescent tick: must be silent (C11)
    return out
