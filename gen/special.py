"""Hand-shaped scenario families shared by several checks (all inside the Layer 1 model's domain: compared with the model AND
judged by the oracles)."""
from scripts import settle_lines


def ref_retarget_scripts(rng, n):
    """a reference component of an entity the client already holds is re-pointed, in the tick in which the entity also loses or
    gains another component, to an entity that is spawned (or becomes replicated) in that same tick - its own record may come
    later in the same update message"""
    out = []
    for i in range(n):
        pol = rng.choice(["all", "all", "black"])
        ncl = rng.choice([1, 2])
        lines = ["cfg policy=%s auth=none track=%d nclients=%d timeout=10000" % (pol, rng.randrange(2), ncl), "start", "sframe 0 10"]
        for c in range(ncl):
            lines.append("connect %d 1200" % c)
        lines.append("sop spawn 1 1 0=%d" % rng.randrange(50))
        lines.append("sop spawn 2 1 0=%d 1=%d 3=r1" % (rng.randrange(50), rng.randrange(50)))
        if rng.random() < 0.5:
            lines.append("sop spawn 3 1 1=%d 3=r1" % rng.randrange(50))
        lines.append("sframe 1 16")
        for c in range(ncl):
            lines += ["deliver %d s2c 0 all" % c, "cframe %d" % c, "deliver %d c2s 0 all" % c]
        nxt = 4
        for _ in range(rng.randrange(1, 4)):
            x = rng.choice([2, 3]) if "sop spawn 3 " in " ".join(lines) else 2
            ops = []
            y = nxt
            nxt += 1
            ops.append("sop spawn %d 1 %s" % (y, rng.choice(["0=7", "1=8", "0=7 1=8", "0=1 2=2", ""])))
            k = rng.choice(["remove", "insert", "none", "remove"])
            if k == "remove":
                ops.append("sop remove %d %d" % (x, rng.choice([0, 1])))
            elif k == "insert":
                ops.append("sop insert %d 2=%d" % (x, rng.randrange(50)))
            ops.append("sop mutate %d 3=r%d" % (x, y))
            if rng.random() < 0.5:
                ops.append("sop mutate %d %d=%d" % (x, rng.choice([0, 1]), rng.randrange(50, 99)))
            rng.shuffle(ops)
            lines += ops
            if rng.random() < 0.3:
                lines.append("sframe 0 5")
            lines.append("sframe 1 16")
            for c in range(ncl):
                if rng.random() < 0.8:
                    lines += ["deliver %d s2c 0 all" % c, "cframe %d" % c, "deliver %d c2s 0 all" % c]
            # put the removed kind back so that the next round can remove again
            if k == "remove":
                lines.append("sop insert %d 0=%d" % (x, rng.randrange(50)))
                lines.append("sop insert %d 1=%d" % (x, rng.randrange(50)))
                lines.append("sframe 1 16")
        meta = dict(connected=list(range(ncl)), events=False)
        sf = len(lines)
        out.append(("ref-retarget-%d" % i, lines + settle_lines(meta), sf))
    return out


def multi_frame_removal_scripts(rng, n):
    """several frames per tick: one entity loses different components in different frames of one tick window, in later windows
    several entities have removals; every removal must reach the client, and no other entity may lose anything"""
    out = []
    for i in range(n):
        ncl = rng.choice([1, 2])
        lines = ["cfg policy=%s auth=none track=%d nclients=%d timeout=10000" % (rng.choice(["all", "all", "black"]), rng.randrange(2), ncl), "start", "sframe 0 10"]
        for c in range(ncl):
            lines.append("connect %d 1200" % c)
        nent = rng.randrange(2, 5)
        comps = {}
        for e in range(1, nent + 1):
            comps[e] = {0, 1, 2}
            lines.append("sop spawn %d 1 0=%d 1=%d 2=%d" % (e, rng.randrange(50), rng.randrange(50), rng.randrange(50)))
        lines.append("sframe 1 16")
        for c in range(ncl):
            lines += ["deliver %d s2c 0 all" % c, "cframe %d" % c, "deliver %d c2s 0 all" % c]
        for _ in range(rng.randrange(2, 5)):
            for _ in range(rng.randrange(1, 4)):                 # frames of this tick window
                for e in rng.sample(sorted(comps), rng.randrange(1, len(comps) + 1)):
                    if comps[e] and rng.random() < 0.7:
                        k = rng.choice(sorted(comps[e]))
                        comps[e].discard(k)
                        lines.append("sop remove %d %d" % (e, k))
                    elif rng.random() < 0.3:
                        lines.append("sop mutate %d %d=%d" % (e, rng.choice([0, 1]), rng.randrange(50, 99)))
                lines.append("sframe 0 %d" % rng.choice([0, 5, 16]))
            lines.append("sframe 1 16")
            for c in range(ncl):
                if rng.random() < 0.8:
                    lines += ["deliver %d s2c 0 all" % c, "deliver %d s2c 1 all" % c, "cframe %d" % c, "deliver %d c2s 0 all" % c]
            # put components back so that later windows can remove again
            for e in sorted(comps):
                for k in (0, 1, 2):
                    if k not in comps[e] and rng.random() < 0.6:
                        comps[e].add(k)
                        lines.append("sop insert %d %d=%d" % (e, k, rng.randrange(50)))
            lines.append("sframe 1 16")
        meta = dict(connected=list(range(ncl)), events=False)
        sf = len(lines)
        out.append(("multi-frame-removals-%d" % i, lines + settle_lines(meta), sf))
    return out


def away_scripts(rng, n):
    """two sessions of one client app: while the client is away (disconnected, its reset frame done) the server removes
    components, despawns, mutates and spawns; optionally it stops and starts again (ticks restart).  The second session must show
    exactly the server's state: nothing of the first session may survive on the client (stale map entries, components, histories)"""
    out = []
    for i in range(n):
        ncl = rng.choice([1, 2])
        pol = rng.choice(["all", "all", "black"])
        lines = ["cfg policy=%s auth=none track=%d nclients=%d timeout=10000" % (pol, rng.randrange(2), ncl), "start", "sframe 0 10"]
        for c in range(ncl):
            lines.append("connect %d 1200" % c)
        nent = rng.randrange(2, 5)
        comps = {}
        for e in range(1, nent + 1):
            comps[e] = set(rng.sample([0, 1, 2], rng.randrange(1, 4)))
            lines.append("sop spawn %d 1 %s" % (e, " ".join("%d=%d" % (k, rng.randrange(50)) for k in sorted(comps[e]))))
        for _ in range(rng.randrange(1, 3)):
            lines.append("sframe 1 16")
            for c in range(ncl):
                lines += ["deliver %d s2c 0 all" % c, "deliver %d s2c 1 all" % c, "cframe %d" % c, "deliver %d c2s 0 all" % c]
            e = rng.choice(sorted(comps))
            k = rng.choice(sorted(comps[e]))
            if k != 2:
                lines.append("sop mutate %d %d=%d" % (e, k, rng.randrange(50, 99)))
        lines += ["disconnect 0", "cframe 0"]
        restart = rng.random() < 0.3
        if restart:
            lines.append("stop")
            if ncl == 2:
                lines += ["disconnect 1", "cframe 1"]
            lines += ["sframe 0 10", "start", "sframe 0 10"]
        nxt = nent + 1
        for _ in range(rng.randrange(1, 5)):
            r = rng.random()
            live = sorted(comps)
            if r < 0.35 and live:
                e = rng.choice(live)
                if len(comps[e]) > 0:
                    k = rng.choice(sorted(comps[e]))
                    comps[e].discard(k)
                    lines.append("sop remove %d %d" % (e, k))
            elif r < 0.55 and len(live) > 1:
                e = rng.choice(live)
                del comps[e]
                lines.append("sop despawn %d" % e)
            elif r < 0.75 and live:
                e = rng.choice(live)
                ks = [k for k in sorted(comps[e]) if k != 2]
                if ks:
                    lines.append("sop mutate %d %d=%d" % (e, rng.choice(ks), rng.randrange(100, 150)))
            else:
                comps[nxt] = {rng.choice([0, 1])}
                lines.append("sop spawn %d 1 %d=%d" % (nxt, sorted(comps[nxt])[0], rng.randrange(50)))
                nxt += 1
            if rng.random() < 0.5:
                lines.append("sframe 1 16")
                if ncl == 2 and not restart:
                    lines += ["deliver 1 s2c 0 all", "deliver 1 s2c 1 all", "cframe 1", "deliver 1 c2s 0 all"]
        lines.append("connect 0 1200")
        connected = [0] if restart else list(range(ncl))
        if restart and ncl == 2 and rng.random() < 0.5:
            lines.append("connect 1 1200")
            connected = [0, 1]
        meta = dict(connected=connected, events=False)
        sf = len(lines)
        out.append(("away-%d" % i, lines + settle_lines(meta), sf))
    return out


def marker_scripts(rng, n):
    """implementation only (the Layer 1 model has no command markers): some client entities carry command markers whose write
    functions keep the server's value in a shadow component (one of them a history marker that is also handed values older
    than the entity's confirmed tick).  Whatever the markers do for the marked entities, every OTHER entity must be written by
    the default functions, and the marked ones must show the server's value of their confirmed tick: new entities spawned
    right after a marked entity's record, removals / insertions on marked and unmarked entities, mutate messages delivered
    out of order and several per client frame"""
    out = []
    for i in range(n):
        ncl = rng.choice([1, 2])
        lines = ["cfg policy=%s auth=none track=%d nclients=%d timeout=10000 markers=1" % (rng.choice(["all", "all", "black"]), rng.randrange(2), ncl), "start", "sframe 0 10"]
        for c in range(ncl):
            lines.append("connect %d 1200" % c)
        nent = rng.randrange(2, 5)
        comps = {}
        for e in range(1, nent + 1):
            comps[e] = {0, 1} if rng.random() < 0.8 else {rng.choice([0, 1])}
            lines.append("sop spawn %d 1 %s" % (e, " ".join("%d=%d" % (k, rng.randrange(50)) for k in sorted(comps[e]))))
        lines.append("sframe 1 16")
        for c in range(ncl):
            lines += ["deliver %d s2c 0 all" % c, "cframe %d" % c, "deliver %d c2s 0 all" % c]
        marked = rng.sample(sorted(comps), rng.randrange(1, min(3, nent) + 1))
        for e in marked:
            lines.append("cop 0 mark %d %s" % (e, rng.choice(["a", "b", "ab", "ab"])))
        lines.append("cframe 0")
        nxt = nent + 1
        val = 100
        for _ in range(rng.randrange(4, 10)):
            for _ in range(rng.randrange(1, 4)):
                r = rng.random()
                e = rng.choice(sorted(comps))
                val += 1
                if r < 0.5 and comps[e]:
                    lines.append("sop mutate %d %d=%d" % (e, rng.choice(sorted(comps[e])), val))
                elif r < 0.65:
                    comps[nxt] = {0, 1} if rng.random() < 0.7 else {0}
                    lines.append("sop spawn %d 1 %s" % (nxt, " ".join("%d=%d" % (k, val) for k in sorted(comps[nxt]))))
                    nxt += 1
                elif r < 0.8 and comps[e]:
                    k = rng.choice(sorted(comps[e]))
                    comps[e].discard(k)
                    lines.append("sop remove %d %d" % (e, k))
                elif r < 0.95:
                    k = rng.choice([0, 1])
                    comps[e].add(k)
                    lines.append("sop insert %d %d=%d" % (e, k, val))
            lines.append("sframe 1 16")
            for c in range(ncl):
                d = rng.random()
                if d < 0.35:
                    continue                                                  # nothing delivered: messages pile up
                lines.append("deliver %d s2c 0 all" % c)
                if d < 0.6:
                    lines.append("deliver %d s2c 1 last" % c)                 # the newest mutate message first ...
                    lines.append("cframe %d" % c)
                    lines.append("deliver %d s2c 1 all" % c)                  # ... then the older ones
                else:
                    lines.append("deliver %d s2c 1 all" % c)                  # several mutate messages in one client frame
                lines += ["cframe %d" % c, "deliver %d c2s 0 all" % c]
        meta = dict(connected=list(range(ncl)), events=False)
        sf = len(lines)
        out.append(("markers-%d" % i, lines + settle_lines(meta), sf))
    return out
