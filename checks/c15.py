"""C15 - entity wire codec: round trip, exact consumption, total decoding."""
import random
from common import *

BOUND_IDX = sorted({0, 1, 2, 63, 64, 127, 128, 129, 2**14 - 1, 2**14, 2**21 - 1, 2**21, 2**28 - 1, 2**28,
                    2**31 - 1, 2**31, 2**32 - 2, 2**32 - 1})
BOUND_GEN = sorted({1, 2, 3, 127, 128, 129, 2**7 + 1, 2**14 - 1, 2**14, 2**14 + 1, 2**21, 2**28, 2**28 + 1,
                    2**31 - 2, 2**31 - 1})


def hexb(bs):
    return "".join("%02x" % b for b in bs) or "-"


def gen_cases(rng, tier):
    enc, dec = [], []
    for i in BOUND_IDX:
        for g in BOUND_GEN:
            enc.append((i, g))
    n_rand = 2000 if tier == "quick" else 60000
    for _ in range(n_rand):
        i = rng.getrandbits(rng.choice([1, 6, 7, 8, 13, 14, 15, 20, 21, 22, 27, 28, 29, 31, 32]))
        g = max(1, rng.getrandbits(rng.choice([1, 2, 7, 8, 14, 15, 21, 22, 28, 29, 31])))
        enc.append((i % 2**32, min(g, 2**31 - 1)))
    # all byte strings up to length 2 (quick) / 3 (thorough, strided sample of length 3 made exhaustive over first byte classes)
    dec.append([])
    for a in range(256):
        dec.append([a])
    for a in range(256):
        for b in range(256):
            dec.append([a, b])
    if tier == "thorough":
        for a in range(256):
            for b in (0, 1, 2, 0x7f, 0x80, 0x81, 0xfe, 0xff):
                for c in range(256):
                    dec.append([a, b, c])
    # random and mutated
    n_mut = 3000 if tier == "quick" else 100000
    for _ in range(n_mut):
        k = rng.choice([1, 2, 3, 5, 6, 9, 10, 11, 12, 14, 15, 16, 20])
        style = rng.random()
        if style < 0.4:
            bs = [rng.choice([0x80, 0xff, 0x81, 0xfe, rng.getrandbits(8)]) for _ in range(k - 1)] + [rng.getrandbits(8)]
        elif style < 0.7:
            bs = [rng.getrandbits(8) for _ in range(k)]
        else:
            bs = [0x80 | rng.getrandbits(7) for _ in range(rng.randrange(0, 11))] + [rng.getrandbits(7)] + \
                 [0x80 | rng.getrandbits(7) for _ in range(rng.randrange(0, 6))] + [rng.getrandbits(7)]
        dec.append(bs)
    return enc, dec


def run(tier, seed, replay):
    rep = Report("C15", tier, seed)
    rng = random.Random(seed)
    proofs_ok = coq_stage(rep)
    rc, out = build_harness(["kernels"])
    if rc != 0:
        rep.violation("harness-build", dict(what="harness does not build against /repo", log=out[-3000:]), False)
        return rep.finish()
    rc, out = build_model()
    if rc != 0:
        rep.violation("model-build", dict(what="model extraction/driver build failed", log=out[-3000:]), False)
        return rep.finish()
    enc, dec = gen_cases(rng, tier)
    corpus = [l.strip() for l in open(os.path.join(VERIF, "corpus/C15/d10.txt")) if l.strip()]
    lines = list(corpus)
    lines += ["ent_enc %x %x" % e for e in enc]
    lines += ["ent_dec %s" % hexb(b) for b in dec]
    impl = run_lines(harness_bin("kernels"), lines, shards=8)
    model = run_lines(os.path.join(OCAML, "driver"), lines, shards=8)
    # stage 2: round trip through the implementation with a suffix (oracle) and through the model
    rt_lines, rt_meta = [], []
    for (e, line, ans) in zip(enc, lines[len(corpus):len(corpus) + len(enc)], impl[len(corpus):]):
        if ans.startswith("OK "):
            sfx = hexb([rng.getrandbits(8) for _ in range(rng.choice([0, 0, 1, 3, 7]))])
            body = ans.split()[1]
            rt_lines.append("ent_dec %s%s" % (body if body != "-" else "", sfx if sfx != "-" else "") if (body != "-" or sfx != "-") else "ent_dec -")
            rt_meta.append((e, body, sfx))
    impl_rt = run_lines(harness_bin("kernels"), rt_lines, shards=8)
    model_rt = run_lines(os.path.join(OCAML, "driver"), rt_lines, shards=8)

    diverged, oracle_fail = [], []
    for l, a, b in list(zip(lines, impl, model)) + list(zip(rt_lines, impl_rt, model_rt)):
        if a != b:
            diverged.append(dict(request=l, implementation=a, model=b))
    # implementation-side oracle, independent of the model
    for l, a in zip(lines, impl):
        if a == "PANIC" or a == "<missing>":
            oracle_fail.append(dict(request=l, implementation=a, why="decoder/encoder panicked"))
        elif l.startswith("ent_dec") and a.startswith("OK"):
            _, i, g, rest = a.split()
            i, g = int(i, 16), int(g, 16)
            inp = l.split()[1]
            if not (i < 2**32 and 1 <= g < 2**31) or (rest != "-" and not inp.endswith(rest)) or (rest != "-" and len(rest) >= len(inp)):
                oracle_fail.append(dict(request=l, implementation=a, why="decoded identifier invalid or consumed bytes are not a proper prefix"))
    for (e, body, sfx), l, a in zip(rt_meta, rt_lines, impl_rt):
        want = "OK %x %x %s" % (e[0], e[1], sfx)
        if a != want:
            oracle_fail.append(dict(request=l, entity=e, implementation=a, expected=want, why="round trip lost the identifier or consumed the wrong number of bytes"))
    rep.cov["evaluations"] = len(lines) + len(rt_lines)
    rep.cov["traces_validated_against_impl"] = len(lines) + len(rt_lines)
    nontriv = {l for l, a in list(zip(lines, impl)) + list(zip(rt_lines, impl_rt)) if a.startswith("OK") and (len(l) > 14 or l.startswith("ent_enc"))}
    rep.cov["distinct_nontrivial"] = len(nontriv)
    rep.cov["rule"] = ("boundary index x generation classes exhaustively, random pairs by bit width, every byte string up to length 2 "
                       "(thorough: plus length 3 with 8 middle-byte classes), mutated/random varint-shaped strings; non-trivial = distinct "
                       "request that yields a valid identifier from >= 2 encoded bytes or is an encode request")
    rep.cov["exhaustive"] = False
    rep.cov["input_distribution"] = dict(encode=len(enc), decode=len(dec), roundtrip=len(rt_lines), corpus=len(corpus),
                                         decode_ok=sum(1 for l, a in zip(lines, impl) if l.startswith("ent_dec") and a.startswith("OK")),
                                         decode_err=sum(1 for l, a in zip(lines, impl) if l.startswith("ent_dec") and a == "ERR"))
    rep.cov["samples"] = [dict(request=l, implementation=a, model=b) for l, a, b in list(zip(lines, impl, model))[:3] + list(zip(rt_lines, impl_rt, model_rt))[:3]]
    rep.cov["disagreements_checked"] = len(diverged)
    rep.assumptions = ["Bevy Entity::try_from_bits / Entity::index / generation as in bevy_ecs 0.16", "postcard 1.1.3 varint reader/writer (modelled arithmetically, tied by this correspondence)"]
    if oracle_fail:
        rep.violation("oracle", dict(what="implementation violates C15 on a concrete input", cases=oracle_fail[:20], replay_cmd="echo '<request>' | .cache/target/debug/kernels"), True)
    elif diverged:
        rep.violation("correspondence", dict(what="model Wire/EntityCodec.v and src/shared/entity_serde.rs disagree; theorems C15_* no longer describe the code",
                                             correspondence="kernels ent_enc/ent_dec vs RV.Wire.EntityCodec", first=diverged[:20]), False)
    elif not proofs_ok:
        rep.violation("proof", dict(what="Coq obligation no longer checks", failure=rep.coq_failure), False)
    return rep.finish()
