"""Shared driver for the Layer 1 (sim) checks: generate scripts, run implementation and model,
compare step by step, run the implementation-side oracles, shrink, report."""
import random
import sys
from common import *
import simlib
import simoracle

sys.path.insert(0, os.path.join(VERIF, "gen"))
import scripts as gen_scripts


def load_corpus_scripts(prop):
    """corpus/<prop>/*.sim : one script per file (with its own settle phase or not)."""
    d = os.path.join(VERIF, "corpus", prop)
    out = []
    if os.path.isdir(d):
        for fn in sorted(os.listdir(d)):
            if fn.endswith(".sim"):
                raw = [l.rstrip("\n") for l in open(os.path.join(d, fn))]
                lines = [l for l in raw if l.strip() and not l.startswith("#")]
                sf = None
                for l in raw:
                    if l.startswith("# settle_from="):
                        sf = int(l.split("=")[1])
                out.append((fn, lines, sf))
    return out


def run_batch(batch):
    """batch: list of script line lists. Returns per script (steps, impl_blocks, model_blocks)."""
    all_lines, bounds = [], []
    for lines in batch:
        bounds.append((len(all_lines), len(all_lines) + len(lines)))
        all_lines += lines
    steps, impl, model, raw = simlib.run_both_raw(all_lines)
    out = []
    for a, b in bounds:
        out.append(Batch3(steps[a:b], impl[a:b], model[a:b], raw[a:b]))
    return out


class Batch3(tuple):
    """(steps, impl, model) as before; `.raw` additionally keeps the handshake lines the model does not cover."""
    def __new__(cls, steps, impl, model, raw):
        o = tuple.__new__(cls, (steps, impl, model))
        o.raw = raw
        return o


def ddmin(lines, fails, keep_prefix=3, max_rounds=60):
    """Shrinks a failing script (list of lines) while `fails(lines)` stays true. The first `keep_prefix`
    lines (cfg, start, first frame) are kept."""
    head, body = lines[:keep_prefix], lines[keep_prefix:]
    n = 2
    rounds = 0
    while len(body) >= 2 and rounds < max_rounds:
        rounds += 1
        chunk = max(1, len(body) // n)
        reduced = False
        for i in range(0, len(body), chunk):
            cand = body[:i] + body[i + chunk:]
            if cand and fails(head + cand):
                body = cand
                n = max(n - 1, 2)
                reduced = True
                break
        if not reduced:
            if chunk == 1:
                break
            n = min(len(body), n * 2)
    return head + body


def run_impl_only(batch):
    """scripts the Layer 1 model does not cover (replicated hierarchy): implementation and oracles only"""
    all_lines, bounds = [], []
    for lines in batch:
        bounds.append((len(all_lines), len(all_lines) + len(lines)))
        all_lines += lines
    steps = [l for l in all_lines if l.split() and not l.startswith("#")]
    blocks = simlib.run_impl(steps)
    return [(steps[a:b], blocks[a:b]) for a, b in bounds]


def impl_only_collect(rep, scripts, oracle_props, label):
    """scripts: list of (name, lines, settle_from). Returns oracle failures (shrunk)."""
    res = run_impl_only([l for _, l, _ in scripts])
    fails = []
    for (name, lines, sf), (steps, blocks) in zip(scripts, res):
        pr = [p for p in simoracle.Trace(steps, blocks).run(settle_from=sf) if p["prop"] in oracle_props]
        if pr:
            fails.append(dict(script_name=name, problem=pr[0], script=lines, settle_from=sf))
    for f in fails[:1]:
        if f["settle_from"] is None:
            body, tail = f["script"], []
        else:
            body, tail = f["script"][:f["settle_from"]], f["script"][f["settle_from"]:]

        def still(b, tail=tail):
            steps, blocks = run_impl_only([b + tail])[0]
            return any(p["prop"] in oracle_props for p in simoracle.Trace(steps, blocks).run(settle_from=(len(b) if tail else None)))
        sb = ddmin(body, still)
        f["shrunk"] = sb + tail
        f["shrunk_settle_from"] = len(sb) if tail else None
    rep.cov[label] = dict(scripts=len(scripts), steps_total=sum(len(l) for _, l, _ in scripts),
                          rule="implementation-only scripts (no Coq model comparison), judged by the implementation-side oracles: " + label)
    rep.cov["evaluations"] = rep.cov.get("evaluations", 0) + len(scripts)
    return fails


def sim_check(prop, tier, seed, gen_kwargs_list, n_quick, n_thorough, oracle_props=None, extra_assumptions=(),
              rule_extra="", settle=True, known_ids=(), custom_scripts=None, model_name="RV.Repl.Sys", impl_only_scripts=None, impl_only_label="hierarchy",
              extra_bins=(), extra_oracle=None):
    rep = Report(prop, tier, seed)
    rng = random.Random(seed)
    proofs_ok, ready = prepare(rep, bins=("sim",) + tuple(extra_bins))
    if not ready:
        return rep.finish()
    oracle_fail, diverged = sim_collect(rep, prop, tier, rng, seed, gen_kwargs_list, n_quick, n_thorough, oracle_props, extra_assumptions,
                                        rule_extra, settle, known_ids, custom_scripts, top_level=True)
    if impl_only_scripts:
        oracle_fail = oracle_fail + impl_only_collect(rep, impl_only_scripts(rng, tier), oracle_props or {prop}, impl_only_label)
    if extra_oracle:
        oracle_fail = oracle_fail + extra_oracle(rep, rng, tier)
    return sim_conclude(rep, prop, proofs_ok, oracle_fail, diverged, model_name)


def sim_conclude(rep, prop, proofs_ok, oracle_fail, diverged, model_name):
    rep.cov["disagreements_checked"] = rep.cov.get("disagreements_checked", 0) + len(diverged)
    if oracle_fail:
        f = oracle_fail[0]
        rep.violation("oracle", dict(what="implementation violates %s on a concrete script" % prop, problem=f["problem"], script=f.get("shrunk", f["script"]),
                                     original_script=f["script"] if "shrunk" in f else None, settle_from=f.get("shrunk_settle_from"),
                                     replay_cmd=".cache/target/debug/sim < script-lines"), True)
    elif diverged:
        f = diverged[0]
        rep.violation("correspondence", dict(what="model %s and the implementation disagree; the theorems of Properties/%s*.v no longer describe the code" % (model_name, prop),
                                             correspondence="sim step observations vs %s" % model_name,
                                             first_divergence=f.get("shrunk_divergence", f["divergence"]), script=f.get("shrunk", f["script"])), False)
    elif not proofs_ok:
        rep.violation("proof", dict(what="Coq obligation no longer checks", failure=rep.coq_failure), False)
    return rep.finish()


def sim_collect(rep, prop, tier, rng, seed, gen_kwargs_list, n_quick, n_thorough, oracle_props=None, extra_assumptions=(),
                rule_extra="", settle=True, known_ids=(), custom_scripts=None, top_level=False):
    oracle_props = oracle_props or {prop}
    n = n_quick if tier == "quick" else n_thorough
    batch, metas, names = [], [], []
    for fn, lines, sf0 in load_corpus_scripts(prop):
        batch.append(lines)
        metas.append(dict(settle_from=sf0, corpus=fn))
        names.append(fn)
    if custom_scripts:
        for item in custom_scripts(rng, tier):
            name, lines, settle_from = item[:3]
            batch.append(lines)
            # an optional 4th element narrows the properties this script is judged by (scripts inside an open finding class of
            # another property)
            metas.append(dict(settle_from=settle_from, corpus=None, props=item[3] if len(item) > 3 else None))
            names.append(name)
    for i in range(n):
        kw = dict(gen_kwargs_list[i % len(gen_kwargs_list)])
        lines, meta = gen_scripts.gen_script(rng, **kw)
        settle_from = None
        if settle:
            settle_from = len(lines)
            lines = lines + gen_scripts.settle_lines(meta)
        batch.append(lines)
        metas.append(dict(settle_from=settle_from, corpus=None, meta=meta, props=meta.get("props")))
        names.append("gen-%d-%d" % (seed, i))
    results = run_batch(batch)
    diverged, oracle_fail = [], []
    stats_total = {}
    nontriv = set()
    for name, lines, meta, res in zip(names, batch, metas, results):
        steps, impl, model = res
        d = simlib.first_divergence(steps, impl, model)
        tr = simoracle.Trace(steps, res.raw)
        problems = [p for p in tr.run(settle_from=meta["settle_from"]) if p["prop"] in (oracle_props if meta.get("props") is None else meta["props"])]
        for k, v in getattr(tr, "stats", {}).items():
            stats_total[k] = stats_total.get(k, 0) + v
        if getattr(tr, "stats", {}).get("mut", 0) >= 2 and getattr(tr, "stats", {}).get("upd", 0) >= 2:
            nontriv.add("\n".join(lines))
        if problems:
            oracle_fail.append(dict(script_name=name, problem=problems[0], script=lines))
        if d:
            diverged.append(dict(script_name=name, divergence=d, script=lines))
    # shrink the first failures (bounded effort)
    for f in oracle_fail[:2]:
        # keep the settle phase out of the shrink: shrink only the body, re-append settle
        sf = None
        for name, lines, meta in zip(names, batch, metas):
            if name == f["script_name"]:
                sf = meta["settle_from"]
        if sf is None:
            def fails_plain(b):
                r_ = run_batch([b])[0]
                steps, impl = r_[0], r_.raw
                tr = simoracle.Trace(steps, impl)
                return any(p["prop"] in oracle_props for p in tr.run(settle_from=None))
            f["shrunk"] = ddmin(f["script"], fails_plain)
        else:
            body, tail = f["script"][:sf], f["script"][sf:]

            def fails_with_tail(b, tail=tail):
                r_ = run_batch([b + tail])[0]
                steps, impl = r_[0], r_.raw
                tr = simoracle.Trace(steps, impl)
                return any(p["prop"] in oracle_props for p in tr.run(settle_from=len(b)))
            shrunk_body = ddmin(body, fails_with_tail)
            f["shrunk"] = shrunk_body + tail
            f["shrunk_settle_from"] = len(shrunk_body)

    def diverges(lines):
        steps, impl, model = run_batch([lines])[0]
        return simlib.first_divergence(steps, impl, model) is not None

    for f in diverged[:1]:
        f["shrunk"] = ddmin(f["script"], diverges)
        r_ = run_batch([f["shrunk"]])[0]
        steps, impl, model = r_
        f["shrunk_divergence"] = simlib.first_divergence(steps, impl, model)
        # search the neighbourhood of the divergence for a concrete property failure
        tr = simoracle.Trace(steps, r_.raw)
        pr = [p for p in tr.run(settle_from=None) if p["prop"] in oracle_props]
        if pr and not oracle_fail:
            oracle_fail.append(dict(script_name=f["script_name"] + "-shrunk", problem=pr[0], script=f["shrunk"]))
        props_of_script = None
        for name_, meta_0 in zip(names, metas):
            if name_ == f["script_name"]:
                props_of_script = meta_0.get("props")
        if not oracle_fail and not pr and props_of_script is None:
            # amplify: a divergence is often latent state (bookkeeping) that only shows when nothing changes any more.
            # Continue the diverging prefix (original and shrunk) quietly - everything still in flight lost or delivered -
            # and let the oracles judge the settled state.
            nclients = 1
            for tok in f["script"][0].split():
                if tok.startswith("nclients="):
                    nclients = int(tok.split("=")[1])
            proto = "auth=proto" in f["script"][0]
            div_at = f["divergence"]["step_index"] if isinstance(f.get("divergence"), dict) and "step_index" in f["divergence"] else len(f["script"])
            cands = []
            for base in (f["script"][:div_at + 1], f["shrunk"]):
                connected = []
                for c_ in range(nclients):
                    last = None
                    for l_ in base:
                        t_ = l_.split()
                        if t_[0] in ("connect", "disconnect") and int(t_[1]) == c_:
                            last = t_[0]
                        if t_[0] == "stop":
                            last = None
                    if last == "connect":
                        connected.append(c_)
                meta_ = dict(connected=connected, events="ev " in " ".join(base), proto=proto)
                for lose in (True, False):
                    mid = ["drop %d s2c 1 all" % c_ for c_ in connected] if lose else []
                    mid += ["sframe 1 16"] * 2
                    cands.append((base + mid, len(base + mid), meta_))
            for body_, sf_, meta_ in cands:
                r2 = run_batch([body_ + gen_scripts.settle_lines(meta_)])[0]
                pr2 = [p for p in simoracle.Trace(r2[0], r2.raw).run(settle_from=sf_) if p["prop"] in oracle_props]
                if pr2:
                    oracle_fail.append(dict(script_name=f["script_name"] + "-amplified", problem=pr2[0], script=body_ + gen_scripts.settle_lines(meta_), shrunk_settle_from=sf_))
                    break

    # known findings of this property: replay witnesses
    kf = load_known()
    for fnd in kf["open"]:
        if fnd["property"] == prop and fnd["id"] in known_ids and fnd.get("witness_script"):
            wl = [l.rstrip("\n") for l in open(os.path.join(VERIF, fnd["witness_script"])) if l.strip() and not l.startswith("#")]
            if fnd.get("impl_only"):
                steps, raw_ = run_impl_only([wl])[0]
            else:
                r_ = run_batch([wl])[0]
                steps, raw_ = r_[0], r_.raw
            sf = fnd.get("settle_from")
            tr = simoracle.Trace(steps, raw_)
            pr = [p for p in tr.run(settle_from=sf) if p["prop"] == prop]
            rep.known_finding(fnd["id"], "%s | witness %s: %s" % (fnd["what"], fnd["witness_script"], pr[0]["why"] if pr else "witness no longer fails"))

    cov = dict(evaluations=len(batch), traces_validated_against_impl=len(batch), distinct_nontrivial=len(nontriv), steps_total=sum(len(b) for b in batch),
               rule=("random scripts over the real server + 1..3 client apps (spawn/despawn/insert/remove/mutate/marker/visibility/pre-spawn mapping ops, 1..n frames per tick, "
                     "per-message deliver/hold/drop decisions allowed by the channel contracts, held update channel, late joiners%s), followed by a lossless settle phase; "
                     "every step's observations (decoded messages, client view through the entity map, confirm histories, acks, events) compared with the extracted Coq model; "
                     "implementation-side oracles decide the property text. non-trivial = distinct script with >= 2 update and >= 2 mutate messages" % rule_extra),
               input_distribution=stats_total, samples=[dict(script=batch[-1][:25], first_observations=results[-1][1][:8])])
    sim_assumptions = ["single-component rules; change-stamp distances below 2^31; fewer than 2^16 mutate messages in flight per client",
                       "the distribution of a tick's mutated entities over mutate messages is an oracle input of the model (validated to be a partition); Layer 0 (C10) proves the real split loop",
                       "open known-finding classes are outside the generated stream by construction: D02 periodic, D16 recursive client despawn, D17 placeholder orphan, D19 tick 0, D31 first update at a tick above 2^31 overtaken, D22 visibility after marker removal, D25 reference target re-replicated"] + list(extra_assumptions)
    if top_level:
        rep.cov.update(cov)
        rep.assumptions = sim_assumptions
    else:
        rep.cov["sim"] = cov
        rep.cov["evaluations"] = rep.cov.get("evaluations", 0) + cov["evaluations"]
        rep.cov["traces_validated_against_impl"] = rep.cov.get("traces_validated_against_impl", 0) + cov["traces_validated_against_impl"]
        rep.cov["distinct_nontrivial"] = rep.cov.get("distinct_nontrivial", 0) + cov["distinct_nontrivial"]
        rep.assumptions = list(rep.assumptions) + sim_assumptions
    return oracle_fail, diverged
