"""C09 - disconnects, reconnects and server restarts start from a clean slate.
Crash-point enumeration: a disconnect (+ reconnect after one client frame) or a server stop/start is injected at
every step of base scenarios, the run continues, settles, and the new session must satisfy C01/C02/C03."""
import sys
from common import *
from simcheck import sim_check

sys.path.insert(0, os.path.join(VERIF, "gen"))
import scripts as gen_scripts


def injected(rng, tier):
    out = []
    nbase = 3 if tier == "quick" else 20
    for b in range(nbase):
        lines, meta = gen_scripts.gen_script(rng, nclients=2, late_join=False, length=30, events=(b % 2 == 0), sessions=False,
                                             auth="none", policy=rng.choice(["all", "black"]))
        body = lines[3:]
        for i in range(0, len(body) + 1):
            for kind in ("reconnect", "restart"):
                if kind == "restart" and i % 3:
                    continue
                mid = []
                if kind == "reconnect":
                    c = rng.choice(meta["connected"]) if meta["connected"] else 0
                    mid = ["disconnect %d" % c, "cframe %d" % c, "sframe 0 10", "connect %d 1200" % c]
                else:
                    mid = ["stop"] + [x for c in (0, 1) for x in ("disconnect %d" % c, "cframe %d" % c)] + ["sframe 0 10", "start", "sframe 0 10", "connect 0 1200", "connect 1 1200"]
                # pending `sop`/`cop` lines must not be separated from their frame by the injection: cut only at frame boundaries
                if i < len(body) and (body[i - 1].startswith(("sop", "cop")) if i > 0 else False):
                    continue
                script = lines[:3] + body[:i] + mid + body[i:]
                m2 = dict(meta)
                m2["connected"] = [0, 1]
                sf = len(script)
                script = script + gen_scripts.settle_lines(m2)
                out.append(("inject-%s-%d-%d" % (kind, b, i), script, sf))
    return out


def run(tier, seed, replay):
    kws = [dict(sessions=True), dict(sessions=True, events=True), dict(sessions=True, nclients=3, track=True), dict(sessions=True, auth="proto", nclients=2, events=True)]
    return sim_check("C09", tier, seed, kws, n_quick=120, n_thorough=12000, oracle_props={"C09", "C01", "C02", "C03"},
                     custom_scripts=injected,
                     rule_extra=", plus crash-point enumeration: a disconnect/reconnect or a server stop/start injected at every frame boundary of base scenarios, reconnect after one frame",
                     extra_assumptions=["a reconnect / restart happens after at least one frame of the side concerned (the property's own premise): a session that ends and restarts between two frames "
                                        "is invisible to client_just_disconnected / server_just_stopped (witnesses C09_witness_* in Properties/C09.v)",
                                        "old client entities stay in the client world unmapped after a disconnect; views are compared through the entity map"],
                     model_name="RV.Repl.Sys + RV.Events.Remote")
