"""C09 - disconnects, reconnects and server restarts start from a clean slate.
Crash-point enumeration: a disconnect (+ reconnect after one client frame) or a server stop/start is injected at
every step of base scenarios, the run continues, settles, and the new session must satisfy C01/C02/C03."""
import sys
from common import *
from simcheck import sim_check

sys.path.insert(0, os.path.join(VERIF, "gen"))
import scripts as gen_scripts


def injected(rng, tier):
    out = []
    nbase = 3 if tier == "quick" else 20
    for b in range(nbase):
        lines, meta = gen_scripts.gen_script(rng, nclients=2, late_join=False, length=30, events=(b % 2 == 0), sessions=False,
                                             auth="none", policy=rng.choice(["all", "black"]))
        body = lines[3:]
        for i in range(0, len(body) + 1):
            for kind in ("reconnect", "restart"):
                if kind == "restart" and i % 3:
                    continue
                mid = []
                if kind == "reconnect":
                    c = rng.choice(meta["connected"]) if meta["connected"] else 0
                    mid = ["disconnect %d" % c, "cframe %d" % c, "sframe 0 10", "connect %d 1200" % c]
                else:
                    mid = ["stop"] + [x for c in (0, 1) for x in ("disconnect %d" % c, "cframe %d" % c)] + ["sframe 0 10", "start", "sframe 0 10", "connect 0 1200", "connect 1 1200"]
                # pending `sop`/`cop` lines must not be separated from their frame by the injection: cut only at frame boundaries
                if i < len(body) and (body[i - 1].startswith(("sop", "cop")) if i > 0 else False):
                    continue
                script = lines[:3] + body[:i] + mid + body[i:]
                m2 = dict(meta)
                m2["connected"] = [0, 1]
                sf = len(script)
                script = script + gen_scripts.settle_lines(m2)
                out.append(("inject-%s-%d-%d" % (kind, b, i), script, sf))
    return out


def stopped_world_scripts(rng, tier):
    """the game world keeps changing while the server is stopped (several frames): components removed, entities despawned,
    un-replicated and spawned; then the server starts again and clients connect: nothing of the stopped period or of the old
    session may leak into the new one"""
    out = []
    for i in range(40 if tier == "quick" else 1500):
        ncl = rng.choice([1, 2])
        lines = ["cfg policy=%s auth=none track=%d nclients=%d timeout=10000" % (rng.choice(["all", "all", "black"]), rng.randrange(2), ncl), "start", "sframe 0 10"]
        for c in range(ncl):
            lines.append("connect %d 1200" % c)
        n = rng.randrange(2, 6)
        comps = {}
        for e in range(1, n + 1):
            comps[e] = {0, 1} if rng.random() < 0.7 else {0}
            lines.append("sop spawn %d 1 %s" % (e, " ".join("%d=%d" % (k, rng.randrange(50)) for k in sorted(comps[e]))))
        lines.append("sframe 1 16")
        for c in range(ncl):
            lines += ["deliver %d s2c 0 all" % c, "cframe %d" % c, "deliver %d c2s 0 all" % c]
        if rng.random() < 0.4:
            # the last client leaves BEFORE the server stops; a removal made since the last tick is still buffered at the stop
            for c in range(ncl):
                lines += ["disconnect %d" % c, "cframe %d" % c]
            for _ in range(rng.randrange(0, 3)):
                e = rng.choice(sorted(comps))
                if comps[e]:
                    kk = rng.choice(sorted(comps[e]))
                    comps[e].discard(kk)
                    lines.append("sop remove %d %d" % (e, kk))
                lines.append("sframe 0 %d" % rng.choice([5, 10]))
            lines.append("stop")
        else:
            lines.append("stop")
            for c in range(ncl):
                lines += ["disconnect %d" % c, "cframe %d" % c]
        alive = set(comps)
        nxt = n + 1
        for _ in range(rng.randrange(2, 6)):
            lines.append("sframe %d %d" % (rng.randrange(2), rng.choice([0, 10, 16])))
            for _ in range(rng.randrange(0, 3)):
                k = rng.random()
                cand = sorted(alive)
                if k < 0.35 and cand:
                    e = rng.choice(cand)
                    if comps[e]:
                        kk = rng.choice(sorted(comps[e]))
                        comps[e].discard(kk)
                        lines.append("sop remove %d %d" % (e, kk))
                elif k < 0.6 and cand:
                    e = rng.choice(cand)
                    alive.discard(e)
                    lines.append("sop despawn %d" % e)
                elif k < 0.7 and cand:
                    e = rng.choice(cand)
                    alive.discard(e)               # never touched again
                    lines.append("sop unmark %d" % e)
                elif k < 0.85:
                    comps[nxt] = {0}
                    alive.add(nxt)
                    lines.append("sop spawn %d 1 0=%d" % (nxt, rng.randrange(50)))
                    nxt += 1
                elif cand:
                    e = rng.choice(cand)
                    if 0 in comps[e]:
                        lines.append("sop mutate %d 0=%d" % (e, rng.randrange(50, 99)))
        lines += ["start", "sframe %d 10" % rng.randrange(2)]
        for c in range(ncl):
            lines.append("connect %d 1200" % c)
        lines.append("sframe 1 16")
        meta = dict(connected=list(range(ncl)), events=False)
        sf = len(lines)
        lines += gen_scripts.settle_lines(meta)
        out.append(("stopped-world-%d" % i, lines, sf))
    return out


def buffered_at_disconnect_scripts(rng, tier):
    """the session ends while the client still holds a buffered mutate message (it arrived before the update message it
    depends on); after the reconnect nothing of it may be applied or acknowledged"""
    out = []
    for i in range(30 if tier == "quick" else 1200):
        track = i % 2
        lines = ["cfg policy=all auth=none track=%d nclients=1 timeout=10000" % track, "start", "sframe 0 10", "connect 0 1200"]
        lines += ["sop spawn 1 1 0=%d 1=%d" % (rng.randrange(50), rng.randrange(50)), "sframe 1 16", "deliver 0 s2c 0 all", "cframe 0", "deliver 0 c2s 0 all"]
        nxt = 2
        for _ in range(rng.randrange(1, 3)):
            lines.append("sop mutate 1 %d=%d" % (rng.randrange(2), rng.randrange(100, 200)))
            lines.append("sop spawn %d 1 0=%d" % (nxt, rng.randrange(50)))
            nxt += 1
            lines.append("sframe 1 16")
            lines += ["deliver 0 s2c 1 all", "cframe 0"]            # the mutate message overtakes its update message
        lines += ["disconnect 0", "cframe 0"]
        if rng.random() < 0.4:
            lines += ["stop", "sframe 0 10", "sop mutate 1 0=%d" % rng.randrange(300, 400), "sframe 0 10", "start", "sframe 0 10"]
        lines.append("connect 0 1200")
        for _ in range(rng.randrange(1, 4)):
            if rng.random() < 0.6:
                lines.append("sop mutate 1 %d=%d" % (rng.randrange(2), rng.randrange(200, 300)))
            if rng.random() < 0.4:
                lines.append("sop spawn %d 1 0=1" % nxt)
                nxt += 1
            lines.append("sframe 1 16")
            lines += ["deliver 0 s2c 0 all"]
            if rng.random() < 0.5:
                lines.append("drop 0 s2c 1 all")
            else:
                lines.append("deliver 0 s2c 1 all")
            lines += ["cframe 0", "deliver 0 c2s 0 all"]
        meta = dict(connected=[0], events=False)
        sf = len(lines)
        lines += gen_scripts.settle_lines(meta)
        out.append(("buffered-at-disconnect-%d" % i, lines, sf))
    return out


def lazy_backend_scripts(rng, tier):
    """implementation only: the backend collects the server's outgoing messages a frame late, and a client disconnects while
    messages for the others are still queued in RepliconServer: nothing addressed to the remaining clients may be lost"""
    out = []
    for i in range(30 if tier == "quick" else 1000):
        ncl = rng.choice([2, 3])
        lines = ["cfg policy=%s auth=none track=%d nclients=%d timeout=10000" % (rng.choice(["all", "black"]), rng.randrange(2), ncl), "start", "sframe 0 10"]
        for c in range(ncl):
            lines.append("connect %d 1200" % c)
        n = rng.randrange(2, 5)
        for e in range(1, n + 1):
            lines.append("sop spawn %d 1 0=%d 1=%d" % (e, rng.randrange(50), rng.randrange(50)))
        lines.append("sframe 1 16")
        for c in range(ncl):
            lines += ["deliver %d s2c 0 all" % c, "cframe %d" % c, "deliver %d c2s 0 all" % c]
        live = set(range(ncl))
        nxt = n + 1
        for _ in range(rng.randrange(2, 5)):
            for _ in range(rng.randrange(1, 4)):
                k = rng.random()
                e = rng.randrange(1, n + 1)
                if k < 0.3:
                    lines.append("sop insert %d 2=%d" % (e, rng.randrange(50)))
                elif k < 0.5:
                    lines.append("sop remove %d 2" % e)
                elif k < 0.8:
                    lines.append("sop mutate %d %d=%d" % (e, rng.randrange(2), rng.randrange(50, 99)))
                else:
                    lines.append("sop spawn %d 1 0=%d" % (nxt, rng.randrange(50)))
                    nxt += 1
            lazy = rng.random() < 0.7
            lines.append("sframe 1 16" + (" nodrain" if lazy else ""))
            if lazy and len(live) > 1 and rng.random() < 0.6:
                c = rng.choice(sorted(live))
                live.discard(c)
                lines += ["disconnect %d" % c, "cframe %d" % c]
            if lazy:
                lines.append("sframe %d 16" % rng.randrange(2))
            for c in sorted(live):
                if rng.random() < 0.8:
                    lines += ["deliver %d s2c 0 all" % c, "deliver %d s2c 1 all" % c, "cframe %d" % c, "deliver %d c2s 0 all" % c]
        meta = dict(connected=sorted(live), events=False)
        sf = len(lines)
        lines += gen_scripts.settle_lines(meta)
        out.append(("lazy-backend-%d" % i, lines, sf))
    return out


def run(tier, seed, replay):
    kws = [dict(sessions=True), dict(sessions=True, events=True), dict(sessions=True, nclients=3, track=True), dict(sessions=True, auth="proto", nclients=2, events=True),
           dict(sessions=True, events=True, quick_reconnect=0.5, weights=dict(session=0.8)), dict(sessions=True, quick_reconnect=0.5, nclients=2, weights=dict(session=0.8))]
    return sim_check("C09", tier, seed, kws, n_quick=120, n_thorough=12000, oracle_props={"C09", "C01", "C02", "C03"}, known_ids=("D32",),
                     custom_scripts=lambda rng, tier: injected(rng, tier) + stopped_world_scripts(rng, tier) + buffered_at_disconnect_scripts(rng, tier),
                     impl_only_scripts=lazy_backend_scripts, impl_only_label="a backend that collects outgoing messages a frame late while another client disconnects",
                     rule_extra=", plus crash-point enumeration: a disconnect/reconnect or a server stop/start injected at every frame boundary of base scenarios, reconnect after one frame",
                     extra_assumptions=["a reconnect / restart happens after at least one frame of the side concerned (the property's own premise): a session that ends and restarts between two frames "
                                        "is invisible to client_just_disconnected / server_just_stopped (witnesses C09_witness_* in Properties/C09.v)",
                                        "old client entities stay in the client world unmapped after a disconnect; views are compared through the entity map"],
                     model_name="RV.Repl.Sys + RV.Events.Remote")
