"""C02 - confirmed tick is truthful: entity state equals the server's at that tick; never a mixture; never backwards."""
from simcheck import sim_check
from c09 import lazy_backend_scripts


def special_scripts(rng, tier):
    import os, sys
    from common import VERIF
    sys.path.insert(0, os.path.join(VERIF, "gen"))
    import special
    return special.multi_frame_removal_scripts(rng, 30 if tier == "quick" else 1500) + special.away_scripts(rng, 20 if tier == "quick" else 1000)


def impl_only(rng, tier):
    import os, sys
    from common import VERIF
    sys.path.insert(0, os.path.join(VERIF, "gen"))
    import special
    return lazy_backend_scripts(rng, tier) + lazy_backend_scripts(rng, tier) + lazy_backend_scripts(rng, tier) + special.marker_scripts(rng, 40 if tier == "quick" else 1500)


def run(tier, seed, replay):
    kws = [dict(burst=0.08, max_size=1), dict(weights=dict(deliver=5.0, drop=1.2)), dict(max_size=1, weights=dict(drop=1.5)), dict(nclients=2, track=True), dict(weights=dict(sop=8.0, sframe=4.0)),
           dict(max_size=1, quiet_tail=1.0, length=25), dict(max_size=1, quiet_tail=1.0, length=40, timeout=40), dict(sessions=True, weights=dict(sop=7.0, session=0.6))]
    return sim_check("C02", tier, seed, kws, n_quick=240, n_thorough=24000, oracle_props={"C02"}, known_ids=("D19", "D31"), impl_only_scripts=impl_only, custom_scripts=special_scripts,
                     impl_only_label="a backend that collects outgoing messages a frame late while another client disconnects; client entities carrying command markers (custom write functions, one with history)",
                     rule_extra=", with the update channel held for several steps while mutate messages and acknowledgements flow, mutate messages dropped and delivered newest-first",
                     extra_assumptions=["checked after every client frame against per-tick server snapshots recorded by the harness; history markers (need_history) are not part of the pool"])
