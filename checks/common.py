"""Shared machinery for the per-property checks (python3 stdlib only).

A check = (1) Coq build of the property's closure + assumption audit,
          (2) rebuild of the Rust harness from /repo's working tree,
          (3) correspondence: same cases through implementation and extracted model,
          (4) implementation-side oracle (search for a concrete failing input),
          (5) known findings, (6) evidence + VIOLATION lines.
"""
import fcntl
import hashlib
import json
import os
import re
import subprocess
import sys
import time

VERIF = os.path.dirname(os.path.dirname(os.path.abspath(__file__)))
REPO = os.environ.get("VERIF_REPO", "/repo")
COQ = os.path.join(VERIF, "coq")
OCAML = os.path.join(VERIF, "ocaml")
HARNESS = os.path.join(VERIF, "harness")
CACHE = os.path.join(VERIF, ".cache")
TARGET = os.path.join(CACHE, "target")
REPLAYS = os.path.join(VERIF, "replays")
EVIDENCE = os.path.join(VERIF, "evidence")
HOOK_FEATURE = "verif_hooks"

ALLOWED_AXIOMS = {
    # axioms declared by the Coq standard library itself; each one that actually shows
    # up under a property theorem is reported in the evidence's trusted_base.
    "functional_extensionality_dep", "FunctionalExtensionality.functional_extensionality_dep",
    "proof_irrelevance", "ProofIrrelevance.proof_irrelevance", "Classical_Prop.classic",
    "JMeq_eq", "JMeq.JMeq_eq", "Eqdep.Eq_rect_eq.eq_rect_eq", "eq_rect_eq",
    "propositional_extensionality",
}

FORBIDDEN = re.compile(
    r"\b(Admitted|admit|Axiom|Axioms|Parameter|Parameters|Conjecture|Conjectures|Admit Obligations)\b"
    r"|Unset\s+Guard|bypass_check|Unset\s+Positivity|Unset\s+Universe|type-in-type|impredicative-set")


class Lock:
    def __init__(self, name):
        os.makedirs(CACHE, exist_ok=True)
        self.path = os.path.join(CACHE, name + ".lock")

    def __enter__(self):
        self.f = open(self.path, "w")
        fcntl.flock(self.f, fcntl.LOCK_EX)

    def __exit__(self, *a):
        fcntl.flock(self.f, fcntl.LOCK_UN)
        self.f.close()


def sh(cmd, cwd=None, timeout=3600, env=None, input=None):
    e = dict(os.environ)
    e.update({"CARGO_NET_OFFLINE": "true", "CARGO_TARGET_DIR": TARGET})
    if env:
        e.update(env)
    try:
        p = subprocess.run(cmd, cwd=cwd, shell=isinstance(cmd, str), env=e, input=input,
                           stdout=subprocess.PIPE, stderr=subprocess.STDOUT, timeout=timeout, text=True)
        return p.returncode, p.stdout
    except subprocess.TimeoutExpired as ex:
        return 124, (ex.stdout or "") + "\nTIMEOUT"


# ---------------------------------------------------------------- Coq side

def write_if_changed(path, text):
    try:
        if open(path).read() == text:
            return False
    except FileNotFoundError:
        pass
    os.makedirs(os.path.dirname(path), exist_ok=True)
    with open(path, "w") as f:
        f.write(text)
    return True


def regen_params():
    """Re-extract numeric anchors from /repo into coq/Generated/Params.v (see gen/params.py)."""
    sys.path.insert(0, os.path.join(VERIF, "gen"))
    import params
    text, found = params.render(REPO)
    write_if_changed(os.path.join(COQ, "Generated", "Params.v"), text)
    return found


def coq_make(targets, timeout=2400):
    with Lock("coq"):
        mk = os.path.join(COQ, "Makefile")
        proj = os.path.join(COQ, "_CoqProject")
        if not os.path.exists(mk) or os.path.getmtime(mk) < os.path.getmtime(proj):
            rc, out = sh("coq_makefile -f _CoqProject -o Makefile", cwd=COQ)
            if rc != 0:
                return rc, out
        return sh(["make", "-j16"] + targets, cwd=COQ, timeout=timeout)


def coq_closure(prop_file):
    """All .v files the given .v transitively depends on inside coq/ (from coqdep)."""
    rc, out = sh("coqdep -f _CoqProject 2>/dev/null", cwd=COQ)
    deps = {}
    for line in out.splitlines():
        if ":" not in line:
            continue
        lhs, rhs = line.split(":", 1)
        tg = [t for t in lhs.split() if t.endswith(".vo")]
        if not tg:
            continue
        src = tg[0][:-1]
        deps[src] = [d[:-1] for d in rhs.split() if d.endswith(".vo") and not d.startswith("/")]
    seen, todo = set(), [prop_file]
    while todo:
        f = todo.pop()
        f = os.path.normpath(f)
        if f in seen:
            continue
        seen.add(f)
        todo.extend(deps.get(f, []))
    return sorted(seen)


def strip_comments(src):
    out, depth, i = [], 0, 0
    while i < len(src):
        if src.startswith("(*", i):
            depth += 1
            i += 2
        elif src.startswith("*)", i) and depth > 0:
            depth -= 1
            i += 2
        else:
            if depth == 0:
                out.append(src[i])
            i += 1
    return "".join(out)


def prop_files(prop_id):
    """Properties/Cxx.v plus layer-specific companions such as Properties/CxxL1.v."""
    d = os.path.join(COQ, "Properties")
    listed = set(l.strip() for l in open(os.path.join(COQ, "_CoqProject")))
    out = []
    for fn in sorted(os.listdir(d)):
        if re.match(r"^%s([A-Z][A-Za-z0-9]*)?\.v$" % re.escape(prop_id), fn) and ("Properties/" + fn) in listed:
            out.append("Properties/" + fn)
    return out


def coq_audit(prop_id):
    """Returns dict(ok, problems, theorems, obligations, discharged, axioms, closure)."""
    pfiles = prop_files(prop_id)
    closure = sorted({f for pf in pfiles for f in coq_closure(pf)})
    problems = []
    obligations = discharged = 0
    # forbidden constructs anywhere in the development (not only the closure)
    for root, _, files in os.walk(COQ):
        for fn in files:
            if not fn.endswith(".v"):
                continue
            path = os.path.join(root, fn)
            code = strip_comments(open(path).read())
            for m in FORBIDDEN.finditer(code):
                problems.append("%s: forbidden construct %r" % (os.path.relpath(path, COQ), m.group(0)))
            for m in re.finditer(r"^\s*(Variable|Variables|Hypothesis|Hypotheses|Context)\b", code, re.M):
                # allowed only inside a Section
                pre = code[:m.start()]
                if len(re.findall(r"^\s*Section\b", pre, re.M)) <= len(re.findall(r"^\s*End\b", pre, re.M)) - len(re.findall(r"^\s*Module\b", pre, re.M)):
                    problems.append("%s: %s outside a section" % (os.path.relpath(path, COQ), m.group(1)))
    for rel in closure:
        code = strip_comments(open(os.path.join(COQ, rel)).read())
        obligations += len(re.findall(r"^\s*(?:Local\s+|Global\s+|#\[[^\]]*\]\s*)*(Theorem|Lemma|Corollary|Proposition|Fact|Remark|Example)\b", code, re.M))
        discharged += len(re.findall(r"\b(Qed|Defined)\s*\.", code))
    theorems = []
    for pf in pfiles:
        code = strip_comments(open(os.path.join(COQ, pf)).read())
        theorems += re.findall(r"^\s*(?:Theorem|Corollary)\s+([A-Za-z0-9_']+)", code, re.M)
    os.makedirs(os.path.join(CACHE, "audit"), exist_ok=True)
    audit_v = os.path.join(CACHE, "audit", "Audit_%s.v" % prop_id)
    with open(audit_v, "w") as f:
        for pf in pfiles:
            f.write("From RV Require Import %s.\n" % pf[:-2].replace("/", "."))
        for t in theorems:
            f.write('Goal True. idtac "@@THM %s". exact I. Qed.\nPrint Assumptions %s.\n' % (t, t))
    rc, out = sh(["coqc", "-noglob", "-Q", COQ, "RV", audit_v], cwd=os.path.dirname(audit_v), timeout=600)
    axioms = {}
    if rc != 0:
        problems.append("audit coqc failed: " + out[-2000:])
    else:
        cur = None
        for line in out.splitlines():
            if line.startswith("@@THM "):
                cur = line.split()[1]
                axioms[cur] = []
            elif cur and re.match(r"^[A-Za-z_][A-Za-z0-9_.']*\s*:", line):
                axioms[cur].append(line.split(":")[0].strip())
        for t, axs in axioms.items():
            for a in axs:
                if a not in ALLOWED_AXIOMS and a.split(".")[-1] not in ALLOWED_AXIOMS:
                    problems.append("theorem %s depends on non-allow-listed axiom %s" % (t, a))
        if sorted(axioms) != sorted(theorems):
            problems.append("audit did not report every theorem")
    return dict(ok=not problems, problems=problems, theorems=theorems, obligations=obligations,
                discharged=discharged, axioms=axioms, closure=closure)


# ---------------------------------------------------------------- implementation + model binaries

def build_harness(bins, release=False, timeout=3000):
    with Lock("cargo"):
        lock_src = os.path.join(REPO, "Cargo.lock")
        lock_dst = os.path.join(HARNESS, "Cargo.lock")
        if not os.path.exists(lock_dst):
            import shutil
            shutil.copy(lock_src, lock_dst)
        cmd = ["cargo", "build", "--offline", "--features", HOOK_FEATURE]
        if release:
            cmd.append("--release")
        for b in bins:
            cmd += ["--bin", b]
        rc, out = sh(cmd, cwd=HARNESS, timeout=timeout)
        return rc, out


def harness_bin(name, release=False):
    return os.path.join(TARGET, "release" if release else "debug", name)


def build_model(timeout=1200):
    rc, out = coq_make(["Extract/Extract.vo"], timeout=timeout)
    if rc != 0:
        return rc, out
    with Lock("ocaml"):
        drv = os.path.join(OCAML, "driver")
        srcs = [os.path.join(OCAML, f) for f in ("model.ml", "driver.ml")]
        if not os.path.exists(drv) or any(os.path.getmtime(s) > os.path.getmtime(drv) for s in srcs):
            return sh("./build.sh", cwd=OCAML, timeout=timeout)
    return 0, ""


def run_lines(binary, lines, timeout=1800, shards=1):
    """Feeds request lines to a line-protocol binary; returns the answer lines (same count)."""
    if shards <= 1 or len(lines) < 64:
        rc, out = sh([binary], input="\n".join(lines) + "\n", timeout=timeout)
        res = out.splitlines()
        return res
    import concurrent.futures
    n = (len(lines) + shards - 1) // shards
    chunks = [lines[i:i + n] for i in range(0, len(lines), n)]
    with concurrent.futures.ThreadPoolExecutor(max_workers=shards) as ex:
        outs = list(ex.map(lambda c: run_lines(binary, c, timeout, 1), chunks))
    res = []
    for c, o in zip(chunks, outs):
        if len(o) != len(c):
            o = o + ["<missing>"] * (len(c) - len(o))
        res.extend(o[:len(c)])
    return res


# ---------------------------------------------------------------- reporting

class Report:
    def __init__(self, prop_id, tier, seed, technique=""):
        self.prop = prop_id
        self.tier = tier
        self.seed = seed
        self.t0 = time.time()
        self.violations = []
        self.known = []
        self.cov = dict(evaluations=0, distinct_nontrivial=0, rule="", samples=[],
                        traces_validated_against_impl=0, obligations=0, discharged=0,
                        checker_cmd="", trusted_base=[], disagreements_checked=0)
        self.assumptions = []
        self.notes = []
        os.makedirs(REPLAYS, exist_ok=True)
        os.makedirs(EVIDENCE, exist_ok=True)

    def violation(self, kind, detail, concrete):
        """kind: short tag; detail: json-able replay content; concrete: True when a failing input was found."""
        h = hashlib.sha1(json.dumps(detail, sort_keys=True, default=str).encode()).hexdigest()[:10]
        path = os.path.join(REPLAYS, "%s_%s_%s.json" % (self.prop, kind, h))
        with open(path, "w") as f:
            json.dump(dict(property=self.prop, kind=kind, seed=self.seed, tier=self.tier,
                           concrete_failing_input=concrete, detail=detail), f, indent=1, default=str)
        self.violations.append((path, concrete))

    def known_finding(self, fid, text):
        self.known.append("%s %s" % (fid, text))

    def finish(self):
        for k in self.known:
            print("KNOWN-FINDING: property=%s %s" % (self.prop, k))
        seen = set()
        for path, concrete in self.violations:
            if path in seen:
                continue
            seen.add(path)
            print("VIOLATION property=%s replay=%s%s" % (self.prop, path, "" if concrete else " no-failing-input-found"))
        ev = dict(property_id=self.prop, tier=self.tier, seed=self.seed, level="proof",
                  coverage=self.cov, assumptions=self.assumptions, wall_s=round(time.time() - self.t0, 2),
                  violations=len(seen), known_findings=self.known, notes=self.notes)
        with open(os.path.join(EVIDENCE, "%s.json" % self.prop), "w") as f:
            json.dump(ev, f, indent=1, default=str)
        print("%s %s: %d evaluations, %d/%d obligations, %d violations, %.1fs" % (
            self.prop, self.tier, self.cov["evaluations"], self.cov["discharged"], self.cov["obligations"],
            len(seen), time.time() - self.t0))
        return 1 if seen else 0


def coq_stage(rep, extra_targets=()):
    """Build + audit the property's Coq closure; records obligations; returns True when proofs stand."""
    found = regen_params()
    rep.cov["anchors_found"] = found
    targets = [pf + "o" for pf in prop_files(rep.prop)] + list(extra_targets)
    rc, out = coq_make(targets)
    rep.cov["checker_cmd"] = ("cd /verif/coq && coq_makefile -f _CoqProject -o Makefile && make -j16 %s ; "
                              "coqc Audit_%s.v (Print Assumptions of every pinned theorem)" % (" ".join(targets), rep.prop))
    if rc != 0:
        tail = out[-3000:]
        m = re.search(r'File "\./([^"]+)", line (\d+)', out)
        rep.coq_failure = dict(stage="coq-build", file=m.group(1) if m else None, line=int(m.group(2)) if m else None, log_tail=tail)
        return False
    a = coq_audit(rep.prop)
    rep.cov["obligations"] = a["obligations"]
    rep.cov["discharged"] = a["discharged"]
    rep.cov["theorems"] = a["theorems"]
    rep.cov["closure_files"] = a["closure"]
    axs = sorted({x for l in a["axioms"].values() for x in l})
    rep.cov["trusted_base"] = [
        "Coq 8.16.1 kernel (coqc, full .vo build; vm_compute only inside closed Example/finite lemmas)",
        "axioms under the pinned theorems (Print Assumptions): " + (", ".join(axs) if axs else "none - closed under the global context"),
        "extraction: ExtrOcamlBasic only, no Extract Constant/Inductive of ours; OCaml 4.13.1; ocaml/driver.ml",
        "correspondence harness: /verif/harness (Rust, path dependency on /repo), checks/*.py generators and comparison",
    ]
    if not a["ok"]:
        rep.coq_failure = dict(stage="coq-audit", problems=a["problems"])
        return False
    rep.coq_failure = None
    return True


def load_known():
    with open(os.path.join(VERIF, "known_findings.json")) as f:
        return json.load(f)


# ---------------------------------------------------------------- Layer 0 kernel checks

def kernel_pair(lines, shards=8):
    impl = run_lines(harness_bin("kernels"), lines, shards=shards)
    model = run_lines(os.path.join(OCAML, "driver"), lines, shards=shards)
    if len(impl) < len(lines):
        impl += ["<missing>"] * (len(lines) - len(impl))
    if len(model) < len(lines):
        model += ["<missing>"] * (len(lines) - len(model))
    return impl, model


def prepare(rep, bins=("kernels",)):
    """Coq stage + harness + model builds. Returns (proofs_ok, ready)."""
    proofs_ok = coq_stage(rep)
    rc, out = build_harness(list(bins))
    if rc != 0:
        rep.violation("harness-build", dict(what="harness does not build against /repo (hooks feature %s)" % HOOK_FEATURE, log=out[-3000:]), False)
        return proofs_ok, False
    rc, out = build_model()
    if rc != 0:
        rep.violation("model-build", dict(what="model extraction/driver build failed", log=out[-3000:]), False)
        return proofs_ok, False
    return proofs_ok, True


def read_corpus(prop):
    d = os.path.join(VERIF, "corpus", prop)
    lines = []
    if os.path.isdir(d):
        for fn in sorted(os.listdir(d)):
            if fn.endswith(".txt"):
                lines += [l.strip() for l in open(os.path.join(d, fn)) if l.strip() and not l.startswith("#")]
    return lines


def conclude(rep, proofs_ok, oracle_fail, diverged, model_name, replay_hint="echo '<request>' | .cache/target/debug/kernels"):
    rep.cov["disagreements_checked"] = len(diverged)
    if oracle_fail:
        rep.violation("oracle", dict(what="implementation violates %s on a concrete input" % rep.prop, cases=oracle_fail[:20], replay_cmd=replay_hint), True)
    elif diverged:
        rep.violation("correspondence", dict(what="model %s and the implementation disagree; the theorems of Properties/%s.v no longer describe the code" % (model_name, rep.prop),
                                             correspondence=model_name, first=diverged[:20], replay_cmd=replay_hint), False)
    elif not proofs_ok:
        rep.violation("proof", dict(what="Coq obligation no longer checks", failure=rep.coq_failure), False)
    return rep.finish()
