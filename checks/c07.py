"""C07 - unauthorized clients get no replication and only independent events; complete state on authorization."""
from simcheck import sim_check


def run(tier, seed, replay):
    kws = [dict(auth="custom", events=True), dict(auth="proto", events=True, nclients=2), dict(auth="proto", events=True, nclients=3, weights=dict(session=0.6)),
           dict(auth="custom", policy="white", events=True), dict(auth="none", events=True), dict(auth="proto", nclients=2, sessions=True)]
    return sim_check("C07", tier, seed, kws, n_quick=200, n_thorough=20000, oracle_props={"C07"},
                     rule_extra=", clients that are authorized late or never (custom authorization), server events of every kind emitted in arbitrary frames",
                     extra_assumptions=["all three authorization methods are exercised; under the default protocol check the moment of authorization is an oracle input of the model (taken from the observed run), "
                                        "the oracle checks that exactly the clients whose hash matches are authorized and that a mismatching client gets the notification together with a disconnect request; "
                                        "the decision function itself is proved under C14"],
                     model_name="RV.Repl.Sys + RV.Events.Remote")
