"""C07 - unauthorized clients get no replication and only independent events; complete state on authorization."""
import os
import sys
from common import VERIF, run_lines, harness_bin
from simcheck import sim_check

sys.path.insert(0, os.path.join(VERIF, "gen"))
import scripts as gen_scripts


def premap_scripts(rng, tier):
    """the documented way to map entities before enabling replication: a filled ClientEntityMap is inserted on a client that
    is connected but not yet authorized.  Until it is authorized the client must get nothing but independent events; then the
    complete state, landing on the pre-spawned entity."""
    out = []
    for i in range(20 if tier == "quick" else 600):
        lines = ["cfg policy=%s auth=custom track=0 nclients=2 timeout=10000" % rng.choice(["all", "black"]), "start", "sframe 0 10", "connect 0 1200"]
        if rng.random() < 0.7:
            lines.append("authorize 0")
        lines += ["connect 1 1200", "cop 1 prespawn 0", "cframe 1"]
        lines.append("sop spawn 1 1 0=%d 1=%d" % (rng.randrange(50), rng.randrange(50)))
        lines.append("sop premap 1 1 0")
        seq = 0
        for _ in range(rng.randrange(1, 5)):
            if rng.random() < 0.5:
                lines.append("sop mutate 1 0=%d" % rng.randrange(50))
            if rng.random() < 0.4:
                lines.append("sop spawn %d 1 0=%d" % (2 + seq, rng.randrange(50)))
            for ty in ("SE0", "SEI", "SEU"):
                if rng.random() < 0.5:
                    seq += 1
                    lines.append("sop ev %s %s %d" % (ty, rng.choice(["b", "d1", "x0"]), 100 + seq))
            lines.append("sframe 1 16")
            if rng.random() < 0.6:
                for ch in (0, 1, 2, 3, 4, 5, 6):
                    lines.append("deliver 1 s2c %d all" % ch)
                lines.append("cframe 1")
        lines.append("authorize 1")
        lines.append("sframe 1 16")
        meta = dict(connected=[0, 1] if "authorize 0" in lines else [1], events=True)
        sf = len(lines)
        lines += gen_scripts.settle_lines(meta)
        out.append(("premap-%d" % i, lines, sf))
    return out


def late_auth_with_relations(rng, tier):
    """a relationship registered with sync_related_entities groups entities; a client is authorized AFTER the groups were last
    rebuilt (no relation changes afterwards) and then members of a group mutate: the late client must be served like the others"""
    out = []
    for i in range(20 if tier == "quick" else 800):
        ncl = rng.choice([2, 3])
        lines = ["cfg policy=%s auth=custom track=%d nclients=%d timeout=10000 rel=1" % (rng.choice(["all", "all", "black"]), rng.randrange(2), ncl), "start", "sframe 0 10"]
        for c in range(ncl):
            lines.append("connect %d 1200" % c)
        lines.append("authorize 0")
        nent = rng.randrange(3, 6)
        for e in range(1, nent + 1):
            lines.append("sop spawn %d 1 0=%d 1=%d" % (e, rng.randrange(50), rng.randrange(50)))
        for e in range(2, nent + 1):
            if rng.random() < 0.7:
                lines.append("sop rel %d %d" % (e, rng.randrange(1, e)))
        for _ in range(rng.randrange(1, 3)):
            lines += ["sframe 1 16", "deliver 0 s2c 0 all", "deliver 0 s2c 1 all", "cframe 0", "deliver 0 c2s 0 all"]
        late = list(range(1, ncl))
        val = 100
        for c in late:
            lines.append("authorize %d" % c)
            for _ in range(rng.randrange(1, 3)):
                lines.append("sframe 1 16")
                for cc in range(ncl):
                    lines += ["deliver %d s2c 0 all" % cc, "deliver %d s2c 1 all" % cc, "cframe %d" % cc, "deliver %d c2s 0 all" % cc]
            for e in rng.sample(range(1, nent + 1), rng.randrange(1, nent + 1)):
                val += 1
                lines.append("sop mutate %d %d=%d" % (e, rng.randrange(2), val))
            lines.append("sframe 1 16")
        meta = dict(connected=list(range(ncl)), events=False, authorized=list(range(ncl)))
        sf = len(lines)
        out.append(("late-auth-rel-%d" % i, lines + gen_scripts.settle_lines(meta), sf, {"C07", "C01"}))
    return out


def backend_mismatch(rep, rng, tier):
    """implementation only, through the REAL example backend (the request to disconnect is carried out by the backend's own
    system in ServerSet::SendPackets): a client with a differing protocol between ticks"""
    import backendx
    n = 16 if tier == "quick" else 300
    cases = [backendx.gen_mismatch(rng) for _ in range(n)]
    lines = ["backendx " + "/".join(st) for st, _ in cases]
    fails = []
    for l, o, (_, sent) in zip(lines, run_lines(harness_bin("kernels"), lines, shards=min(8, len(lines))), cases):
        why = backendx.judge_mismatch(o, sent)
        if why:
            fails.append(dict(problem=dict(prop="C07", why=why, implementation=o[:600]), script=[l]))
    rep.cov["backend_mismatch_runs"] = dict(cases=n, rule="real server + a matching and a mismatching client over the example backend, default protocol check, manual ticks slower than the 20 ms frames, broadcasts in arbitrary frames")
    rep.cov["evaluations"] = rep.cov.get("evaluations", 0) + n
    return fails


def run(tier, seed, replay):
    kws = [dict(auth="custom", events=True), dict(auth="proto", events=True, nclients=2), dict(auth="proto", events=True, nclients=3, weights=dict(session=0.6)),
           dict(auth="custom", policy="white", events=True), dict(auth="none", events=True), dict(auth="proto", nclients=2, sessions=True), dict(auth="custom", rel=True, nclients=2, weights=dict(sop=7.0))]
    return sim_check("C07", tier, seed, kws, n_quick=200, n_thorough=20000, oracle_props={"C07"}, impl_only_scripts=premap_scripts, custom_scripts=late_auth_with_relations,
                     impl_only_label="a filled ClientEntityMap inserted on a connected client before it is authorized (the documented pre-mapping), then events and replication traffic, then authorization",
                     rule_extra=", clients that are authorized late or never (custom authorization), server events of every kind emitted in arbitrary frames",
                     extra_assumptions=["all three authorization methods are exercised; under the default protocol check the moment of authorization is an oracle input of the model (taken from the observed run), "
                                        "the oracle checks that exactly the clients whose hash matches are authorized and that a mismatching client gets the notification together with a disconnect request; "
                                        "the decision function itself is proved under C14"],
                     model_name="RV.Repl.Sys + RV.Events.Remote", extra_bins=("kernels",), extra_oracle=backend_mismatch)
