"""C07 - unauthorized clients get no replication and only independent events; complete state on authorization."""
from simcheck import sim_check


def run(tier, seed, replay):
    kws = [dict(auth="custom", events=True), dict(auth="custom", events=True, nclients=3), dict(auth="custom", policy="white", events=True), dict(auth="none", events=True)]
    return sim_check("C07", tier, seed, kws, n_quick=200, n_thorough=20000, oracle_props={"C07"},
                     rule_extra=", clients that are authorized late or never (custom authorization), server events of every kind emitted in arbitrary frames",
                     extra_assumptions=["the protocol-hash handshake decision (authorized iff hashes equal, mismatch notification + disconnect request) is proved on the check_protocol model under C14 "
                                        "and the hash itself is tied to the code there; sim scripts use AuthMethod::None and AuthMethod::Custom"],
                     model_name="RV.Repl.Sys + RV.Events.Remote")
